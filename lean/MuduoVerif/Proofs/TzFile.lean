import MuduoVerif.Model.TzFile
import MuduoVerif.Proofs.Buffer
/-!
Lemmas about the zone-file reader (`Model/TzFile.lean`, C20).

The parameters of the reader (`Gen.TzFileSkel.*`) are unfolded here: the proofs are re-checked against whatever the
source says now (a changed width, a dropped sign extension, another reader for the transition times, a changed skip
breaks them).
-/
namespace MuduoVerif.TzFile
open MuduoVerif.TzFileSkel
open MuduoVerif.Gen.TzFileSkel (readInt32 readInt64 readUInt8 readBytesMsg readBytesArgTy skipArgTy magicLen badHead
  badHeadMsg versionLen reservedLen headerCountReader headerCountTy headerCounts isV2 v1BlockSkip magic2Len badHead2
  badHead2Msg header2Skip v2BranchV1 rewind v1BranchV1 timeSize blockCountReader blockCountTy blockCounts rejectLeap
  rejectIsut rejectIsstd timeReader timeElemTy timeConvs idxReader idxVarTy idxElemTy ttinfoReaders ttinfo transIdxTys
  transTimeTy charsLen blockSkips readsFooter)
open MuduoVerif.Buffer (Bytes decodeBE encodeBE intBytes toUnsigned toSigned decode_encodeBE encodeBE_length
  intBytes_length toUnsigned_lt pow256)
open MuduoVerif.Zone (LocalTime Transition Data)

/-! ### conversions -/

theorem conv_id_signed (bits : Nat) (hb : 0 < bits) (v : Int)
    (hlo : -(2 ^ (bits - 1) : Int) ≤ v) (hhi : v < (2 ^ (bits - 1) : Int)) : conv ⟨bits, true⟩ v = v := by
  have hp : (2 ^ bits : Int) = 2 * 2 ^ (bits - 1) := by
    have : bits = (bits - 1) + 1 := by omega
    conv => lhs; rw [this, Int.pow_succ]
    omega
  have hpos : (0 : Int) < 2 ^ (bits - 1) := Int.pow_pos (by decide)
  unfold conv
  simp only [true_and]
  by_cases hv : 0 ≤ v
  · have hm : v % (2 ^ bits : Int) = v := Int.emod_eq_of_lt hv (by omega)
    rw [hm]; split <;> omega
  · have hm : v % (2 ^ bits : Int) = v + 2 ^ bits := by
      rw [← Int.add_emod_right]
      exact Int.emod_eq_of_lt (by omega) (by omega)
    rw [hm]; split <;> omega

theorem conv_id_unsigned (bits : Nat) (v : Int) (hlo : 0 ≤ v) (hhi : v < (2 ^ bits : Int)) :
    conv ⟨bits, false⟩ v = v := by
  unfold conv
  simp [Int.emod_eq_of_lt hlo hhi]

/-- the unsigned reading of the two's complement form, converted to the signed type of that width, is the value -/
theorem conv_decode_intBytes (n : Nat) (hn : 0 < n) (v : Int)
    (hlo : -(2 ^ (8 * n - 1) : Int) ≤ v) (hhi : v < (2 ^ (8 * n - 1) : Int)) :
    conv ⟨8 * n, true⟩ (decodeBE (intBytes n v)) = v := by
  unfold intBytes
  rw [decode_encodeBE _ _ (by rw [pow256]; exact toUnsigned_lt _ _)]
  have hpos : (0 : Int) < 2 ^ (8 * n) := Int.pow_pos (by decide)
  have h0 := Int.emod_nonneg v (Int.ne_of_gt hpos)
  have h1 := Int.emod_lt_of_pos v hpos
  have hu : ((toUnsigned (8 * n) v : Nat) : Int) = v % (2 ^ (8 * n) : Int) := by
    unfold toUnsigned; exact Int.toNat_of_nonneg h0
  have hp : (2 ^ (8 * n) : Int) = 2 * 2 ^ (8 * n - 1) := by
    have : 8 * n = (8 * n - 1) + 1 := by omega
    conv => lhs; rw [this, Int.pow_succ]
    omega
  have hpos' : (0 : Int) < 2 ^ (8 * n - 1) := Int.pow_pos (by decide)
  unfold conv
  simp only [true_and]
  rw [hu, Int.emod_emod_of_dvd _ (Int.dvd_refl _)]
  by_cases hv : 0 ≤ v
  · have hm : v % (2 ^ (8 * n) : Int) = v := Int.emod_eq_of_lt hv (by omega)
    rw [hm]; split <;> omega
  · have hm : v % (2 ^ (8 * n) : Int) = v + 2 ^ (8 * n) := by
      rw [← Int.add_emod_right]
      exact Int.emod_eq_of_lt (by omega) (by omega)
    rw [hm]; split <;> omega

/-! ### the stream positioned behind `pre`, in front of `rest` -/

namespace File

/-- the file `pre ++ rest` with `pre` already read -/
def «at» (pre rest : Bytes) : File := ⟨pre ++ rest, pre.length⟩

theorem peek_at (pre bs rest : Bytes) : (File.at pre (bs ++ rest)).peek bs.length = bs := by
  simp [File.at, peek]

theorem at_step (pre bs rest : Bytes) :
    ({ File.at pre (bs ++ rest) with pos := (File.at pre (bs ++ rest)).pos + bs.length } : File) = File.at (pre ++ bs) rest := by
  simp [File.at]

theorem readInt_at (r : Reader) (hs : r.swapBits ≠ 0) (pre bs rest : Bytes) (h : bs.length = r.bytes) :
    (File.at pre (bs ++ rest)).readInt r = .ok (conv r.ret (decodeBE bs), File.at (pre ++ bs) rest) := by
  unfold readInt
  rw [← h, peek_at]
  simp [hs, at_step]

theorem readInt32_at (pre rest : Bytes) (v : Int) (hlo : -(2 ^ 31 : Int) ≤ v) (hhi : v < (2 ^ 31 : Int)) :
    (File.at pre (intBytes 4 v ++ rest)).readInt readInt32 = .ok (v, File.at (pre ++ intBytes 4 v) rest) := by
  rw [readInt_at readInt32 (by decide) _ _ _ (intBytes_length 4 v)]
  have := conv_decode_intBytes 4 (by decide) v (by simpa using hlo) (by simpa using hhi)
  simp only [readInt32] at this ⊢
  rw [this]

theorem readInt64_at (pre rest : Bytes) (v : Int) (hlo : -(2 ^ 63 : Int) ≤ v) (hhi : v < (2 ^ 63 : Int)) :
    (File.at pre (intBytes 8 v ++ rest)).readInt readInt64 = .ok (v, File.at (pre ++ intBytes 8 v) rest) := by
  rw [readInt_at readInt64 (by decide) _ _ _ (intBytes_length 8 v)]
  have := conv_decode_intBytes 8 (by decide) v (by simpa using hlo) (by simpa using hhi)
  simp only [readInt64] at this ⊢
  rw [this]

theorem readUInt8_at (pre rest : Bytes) (n : Nat) (h : n < 256) :
    (File.at pre (UInt8.ofNat n :: rest)).readInt readUInt8 = .ok ((n : Int), File.at (pre ++ [UInt8.ofNat n]) rest) := by
  have hp := peek_at pre [UInt8.ofNat n] rest
  have hs := at_step pre [UInt8.ofNat n] rest
  simp only [List.length_singleton, List.singleton_append] at hp hs
  unfold readInt
  simp only [readUInt8, hp, List.length_singleton, if_true, hs]
  have : (UInt8.ofNat n).toNat = n := by simp [UInt8.toNat_ofNat']; omega
  simp [decodeBE, this, conv_id_unsigned 8 n (by omega) (by omega)]

theorem readBytes_at (pre bs rest : Bytes) (n : Int) (hn : n = bs.length) (hlt : bs.length < 2 ^ 31)
    (hpos : 0 < bs.length) :
    (File.at pre (bs ++ rest)).readBytes n = .ok (bs, File.at (pre ++ bs) rest) := by
  unfold readBytes
  have hc : conv readBytesArgTy n = bs.length := by
    subst hn
    exact conv_id_signed 32 (by decide) _ (by omega) (by omega)
  simp only [hc, Int.toNat_natCast, peek_at, at_step]
  rw [if_neg (by omega)]
  simp

theorem skip_nonneg (f : File) (k : Int) (h0 : 0 ≤ k) (h1 : k < 2 ^ 63) :
    f.skip k = { f with pos := f.pos + k.toNat } := by
  unfold skip
  have hc : conv skipArgTy k = k := conv_id_signed 64 (by decide) _ (by omega) (by omega)
  simp only [hc]
  rw [if_neg (by omega)]
  congr 1
  omega

theorem skip_at (pre bs rest : Bytes) (k : Int) (hk : k = bs.length) (h : bs.length < 2 ^ 63) :
    (File.at pre (bs ++ rest)).skip k = File.at (pre ++ bs) rest := by
  subst hk
  rw [skip_nonneg _ _ (by omega) (by omega)]
  simp [File.at]

theorem skip_back (pre bs rest : Bytes) (k : Int) (hk : k = -(bs.length : Int)) (h : bs.length < 2 ^ 63) :
    (File.at (pre ++ bs) rest).skip k = File.at pre (bs ++ rest) := by
  subst hk
  unfold skip
  have hc : conv skipArgTy (-(bs.length : Int)) = -(bs.length : Int) := conv_id_signed 64 (by decide) _ (by omega) (by omega)
  simp only [hc, File.at, List.length_append, List.append_assoc]
  rw [if_neg (by omega)]
  congr 1
  omega

end File

/-! ### the pieces of a block -/

theorem be32_length (n : Nat) : (be32 n).length = 4 := intBytes_length 4 _

theorem readInt32_be32 (pre rest : Bytes) (n : Nat) (h : n < 2 ^ 31) :
    (File.at pre (be32 n ++ rest)).readInt readInt32 = .ok ((n : Int), File.at (pre ++ be32 n) rest) :=
  File.readInt32_at pre rest n (by omega) (by omega)

theorem conv32_nat (n : Nat) (h : n < 2 ^ 31) : conv ⟨32, true⟩ (n : Int) = n :=
  conv_id_signed 32 (by decide) _ (by omega) (by omega)

/-- the six counters -/
theorem readCounts_at (pre rest : Bytes) (a b c d e g : Nat) (ha : a < 2 ^ 31) (hb : b < 2 ^ 31) (hc : c < 2 ^ 31)
    (hd : d < 2 ^ 31) (he : e < 2 ^ 31) (hg : g < 2 ^ 31) (mk : Int → Int → Int → Int → Int → Int → Counts) :
    readCounts (File.at pre (be32 a ++ (be32 b ++ (be32 c ++ (be32 d ++ (be32 e ++ (be32 g ++ rest)))))))
        readInt32 ⟨32, true⟩ mk
      = .ok (mk a b c d e g, File.at (pre ++ (be32 a ++ (be32 b ++ (be32 c ++ (be32 d ++ (be32 e ++ be32 g)))))) rest) := by
  unfold readCounts
  simp only [readInt32_be32 _ _ _ ha, readInt32_be32 _ _ _ hb, readInt32_be32 _ _ _ hc, readInt32_be32 _ _ _ hd,
    readInt32_be32 _ _ _ he, readInt32_be32 _ _ _ hg, bind, Except.bind, conv32_nat _ ha, conv32_nat _ hb,
    conv32_nat _ hc, conv32_nat _ hd, conv32_nat _ he, conv32_nat _ hg, pure, Except.pure, List.append_assoc]

/-- a value in the `int64_t` range arrives unchanged in `trans` -/
theorem timeConvs_id (v1 : Bool) (t : Int) (h1 : -(2 ^ 63 : Int) ≤ t) (h2 : t < (2 ^ 63 : Int)) :
    conv timeElemTy ((timeConvs v1).foldl (fun v ty => conv ty v) t) = t := by
  have c : conv ⟨64, true⟩ t = t := conv_id_signed 64 (by decide) _ (by omega) (by omega)
  cases v1 <;> simp [timeConvs, timeElemTy, c]

/-- size of a transition time in the block `readDataBlock` reads with this flag -/
def tsz (v1 : Bool) : Nat := if v1 then 4 else 8

theorem readTimes_at (v1 : Bool) (ts : List Int)
    (hr : ∀ t ∈ ts, -(2 ^ (8 * tsz v1 - 1) : Int) ≤ t ∧ t < (2 ^ (8 * tsz v1 - 1) : Int)) (pre rest : Bytes) :
    readTimes v1 ts.length (File.at pre (ts.flatMap (intBytes (tsz v1)) ++ rest))
      = .ok (ts, File.at (pre ++ ts.flatMap (intBytes (tsz v1))) rest) := by
  induction ts generalizing pre with
  | nil => simp [readTimes]
  | cons t ts ih =>
    have ht := hr t (by simp)
    have ih' := ih (fun x hx => hr x (by simp [hx])) (pre ++ intBytes (tsz v1) t)
    simp only [List.length_cons, readTimes, List.flatMap_cons, List.append_assoc]
    cases v1
    · simp only [tsz, Bool.false_eq_true, if_false] at ht ih' ⊢
      have e : timeReader false = readInt64 := by simp [timeReader]
      rw [e, File.readInt64_at _ _ _ (by simpa using ht.1) (by simpa using ht.2)]
      simp only [bind, Except.bind, ih', pure, Except.pure, List.append_assoc]
      rw [timeConvs_id false t (by simpa using ht.1) (by simpa using ht.2)]
    · simp only [tsz, if_true] at ht ih' ⊢
      have e : timeReader true = readInt32 := by simp [timeReader]
      rw [e, File.readInt32_at _ _ _ (by simpa using ht.1) (by simpa using ht.2)]
      simp only [bind, Except.bind, ih', pure, Except.pure, List.append_assoc]
      have h1 : -(2 ^ 31 : Int) ≤ t := by simpa using ht.1
      have h2 : t < (2 ^ 31 : Int) := by simpa using ht.2
      rw [timeConvs_id true t (by omega) (by omega)]

theorem readIdxs_at (n : Nat) (is : List Nat) (hn : n = is.length) (hr : ∀ i ∈ is, i < 256) (pre rest : Bytes) :
    readIdxs n (File.at pre (is.map UInt8.ofNat ++ rest))
      = .ok (is.map Int.ofNat, File.at (pre ++ is.map UInt8.ofNat) rest) := by
  subst hn
  induction is generalizing pre with
  | nil => simp [readIdxs]
  | cons i is ih =>
    have hi := hr i (by simp)
    have ih' := ih (fun x hx => hr x (by simp [hx])) (pre ++ [UInt8.ofNat i])
    simp only [List.length_cons, readIdxs, List.map_cons, List.cons_append]
    rw [show idxReader = readUInt8 from rfl, File.readUInt8_at _ _ _ hi]
    simp only [bind, Except.bind, ih', pure, Except.pure, List.append_assoc, List.singleton_append]
    have : conv idxElemTy (conv idxVarTy (i : Int)) = i := by
      rw [show conv idxVarTy (i : Int) = i from conv_id_unsigned 8 _ (by omega) (by omega)]
      exact conv_id_signed 32 (by decide) _ (by omega) (by omega)
    rw [this]; rfl

/-- the `LocalTime` a ttinfo entry becomes -/
def TType.toLocal (t : TType) : LocalTime := { utcOffset := t.utoff, isDst := t.isdst, desigIdx := t.abbrind }

theorem readTypes_at (tys : List TType)
    (hr : ∀ t ∈ tys, -(2 ^ 31 : Int) ≤ t.utoff ∧ t.utoff < (2 ^ 31 : Int) ∧ t.abbrind < 256) (pre rest : Bytes) :
    readTypes tys.length (File.at pre (tys.flatMap encType ++ rest))
      = .ok (tys.map TType.toLocal, File.at (pre ++ tys.flatMap encType) rest) := by
  induction tys generalizing pre with
  | nil => simp [readTypes]
  | cons t tys ih =>
    obtain ⟨h1, h2, h3⟩ := hr t (by simp)
    have ih' := ih (fun x hx => hr x (by simp [hx])) (pre ++ encType t)
    simp only [List.length_cons, readTypes, List.flatMap_cons, List.append_assoc]
    have hd : (if t.isdst = true then (1 : UInt8) else 0) = UInt8.ofNat (if t.isdst then 1 else 0) := by
      cases t.isdst <;> rfl
    have hm : readMany (File.at pre (encType t ++ (tys.flatMap encType ++ rest))) ttinfoReaders
        = .ok ([t.utoff, ((if t.isdst then 1 else 0 : Nat) : Int), (t.abbrind : Int)],
               File.at (pre ++ encType t) (tys.flatMap encType ++ rest)) := by
      simp only [ttinfoReaders, readMany, encType, List.append_assoc, List.cons_append, List.nil_append, hd]
      rw [File.readInt32_at _ _ _ h1 h2]
      simp only [bind, Except.bind]
      rw [File.readUInt8_at _ _ _ (by split <;> omega)]
      simp only []
      rw [File.readUInt8_at _ _ _ h3]
      simp only [pure, Except.pure, List.append_assoc, List.singleton_append, List.cons_append, List.nil_append]
    rw [hm]
    simp only [bind, Except.bind, ih', pure, Except.pure, List.append_assoc, List.map_cons]
    congr 2
    simp only [mkLocalTime, ttinfo, List.getD_cons_zero, List.getD_cons_succ, TType.toLocal, Int.toNat_natCast]
    cases t.isdst <;> simp

theorem getD_map_toLocal (tys : List TType) (i : Nat) (h : i < tys.length) :
    ((tys.map TType.toLocal).getD i default).utcOffset = (tys.getD i ⟨0, false, 0⟩).utoff := by
  simp [List.getD_eq_getElem?_getD, List.getElem?_map, List.getElem?_eq_getElem h, TType.toLocal]

/-- the transitions a block describes -/
def mkTransitions (tys : List TType) (ts : List Int) (is : List Nat) : List Transition :=
  List.zipWith (fun t i => ({ utctime := t, localtime := t + (tys.getD i ⟨0, false, 0⟩).utoff, localtimeIdx := i } : Transition)) ts is

theorem addTransitions_ok (tys : List TType) (ts : List Int) (is : List Nat)
    (hi : ∀ i ∈ is, i < tys.length ∧ i < 256) (ht : ∀ t ∈ ts, -(2 ^ 63 : Int) ≤ t ∧ t < (2 ^ 63 : Int)) :
    addTransitions (tys.map TType.toLocal) ts (is.map Int.ofNat) = .ok (mkTransitions tys ts is) := by
  induction ts generalizing is with
  | nil => cases is <;> simp [addTransitions, mkTransitions]
  | cons t ts ih =>
    cases is with
    | nil => simp [addTransitions, mkTransitions]
    | cons i is =>
      obtain ⟨hi1, hi2⟩ := hi i (by simp)
      obtain ⟨ht1, ht2⟩ := ht t (by simp)
      have ih' := ih is (fun x hx => hi x (by simp [hx])) (fun x hx => ht x (by simp [hx]))
      have e1 : transIdx (Int.ofNat i) = i := by
        simp only [transIdx, transIdxTys, List.foldl_cons, List.foldl_nil, Int.ofNat_eq_natCast]
        have c1 : conv ⟨32, true⟩ (i : Int) = i := conv_id_signed 32 (by decide) _ (by omega) (by omega)
        rw [c1, c1]
      have e2 : conv transTimeTy t = t := conv_id_signed 64 (by decide) _ (by simpa using ht1) (by simpa using ht2)
      simp only [List.map_cons, addTransitions, e1, e2, Int.toNat_natCast, List.length_map]
      rw [if_pos ⟨by omega, hi1⟩, ih']
      simp only [bind, Except.bind, pure, Except.pure, mkTransitions, List.zipWith_cons_cons, Gen.Zone.shiftedLocal,
        getD_map_toLocal tys i hi1]

/-- the counters of a block, as the header carries them -/
def countsBytes (b : Block) : Bytes :=
  be32 b.isut.length ++ (be32 b.isstd.length ++ (be32 0 ++ (be32 b.times.length ++ (be32 b.types.length ++ be32 b.chars.length))))

theorem countsBytes_length (b : Block) : (countsBytes b).length = 24 := by
  simp [countsBytes, be32_length]

theorem skips_readToEnd (P tl : Bytes) (a b : Nat) (ha : a < 2 ^ 31) (hb : b < 2 ^ 31) (x z : Int) (hz : z = 0) :
    (([z * x, (a : Int), (b : Int)] : List Int).foldl File.skip (File.at P tl)).readToEnd = tl.drop (a + b) := by
  subst hz
  simp only [List.foldl_cons, List.foldl_nil, Int.zero_mul]
  rw [File.skip_nonneg _ 0 (by omega) (by omega), File.skip_nonneg _ a (by omega) (by omega),
    File.skip_nonneg _ b (by omega) (by omega)]
  simp only [File.at, File.readToEnd, Int.toNat_zero, Nat.add_zero, Int.toNat_natCast, Nat.add_assoc]
  rw [List.drop_append]
  have e : P.length + (a + b) - P.length = a + b := by omega
  rw [e, List.drop_eq_nil_of_le (by omega), List.nil_append]

theorem table_eq (b : Block) :
    ({ transitions := (mkTransitions b.types b.times b.idxs).toArray, localtimes := (b.types.map TType.toLocal).toArray } : Data)
      = b.table := by
  unfold Block.table mkTransitions
  rfl

theorem essential_length (size : Nat) (b : Block) (h : b.idxs.length = b.times.length) :
    (essential size b).length = size * b.times.length + b.times.length + 6 * b.types.length + b.chars.length := by
  have h1 : ∀ ts : List Int, (ts.flatMap (intBytes size)).length = size * ts.length := by
    intro ts
    induction ts with
    | nil => simp
    | cons t ts ih => simp [List.flatMap_cons, intBytes_length, ih, Nat.mul_succ]; omega
  have h2 : ∀ ts : List TType, (ts.flatMap encType).length = 6 * ts.length := by
    intro ts
    induction ts with
    | nil => simp
    | cons t ts ih => simp [List.flatMap_cons, encType, intBytes_length, ih]; omega
  simp [essential, h1, h2, h]
  omega

/-- **`readDataBlock` on a well-formed block**, positioned at the counters, whatever follows the designations: the
table the block describes; the standard/wall and UT/local indicators are skipped by their counts; the footer is what
lies behind them (64-bit block only). -/
theorem dataBlock_at (v1 : Bool) (b : Block) (hb : b.WF (tsz v1)) (pre tl : Bytes) :
    dataBlock (File.at pre (countsBytes b ++ (essential (tsz v1) b ++ tl))) v1
      = .ok { data := b.table, abbreviation := b.chars,
              tzstring := if v1 then [] else tl.drop (b.isstd.length + b.isut.length),
              consumed := pre.length + 24 + (essential (tsz v1) b).length } := by
  have htc := hb.timecnt
  have hyc := hb.typecnt
  have hcc := hb.charcnt
  have hs : b.isstd.length < 2 ^ 31 := by rcases hb.isstd with h | h <;> omega
  have hu : b.isut.length < 2 ^ 31 := by rcases hb.isut with h | h <;> omega
  have hc := readCounts_at pre (essential (tsz v1) b ++ tl) b.isut.length b.isstd.length 0 b.times.length
    b.types.length b.chars.length hu hs (by decide) (by omega) (by omega) (by omega) blockCounts
  unfold dataBlock
  simp only [countsBytes, List.append_assoc] at hc ⊢
  rw [show blockCountReader = readInt32 from rfl, show blockCountTy = (⟨32, true⟩ : IntTy) from rfl, hc]
  simp only [bind, Except.bind, blockCounts]
  have r1 : ¬ rejectLeap ⟨b.isut.length, b.isstd.length, ((0 : Nat) : Int), b.times.length, b.types.length, b.chars.length⟩ := by
    simp [rejectLeap]
  have r2 : ¬ rejectIsut ⟨b.isut.length, b.isstd.length, ((0 : Nat) : Int), b.times.length, b.types.length, b.chars.length⟩ := by
    simp only [rejectIsut]; rcases hb.isut with h | h <;> omega
  have r3 : ¬ rejectIsstd ⟨b.isut.length, b.isstd.length, ((0 : Nat) : Int), b.times.length, b.types.length, b.chars.length⟩ := by
    simp only [rejectIsstd]; rcases hb.isstd with h | h <;> omega
  have r4 : ¬ ((b.times.length : Int) < 0) := by omega
  have r5 : ¬ ((b.types.length : Int) < 0) := by omega
  simp only [r1, r2, r3, r4, r5, if_false]
  simp only [Int.toNat_natCast, essential, List.append_assoc]
  rw [readTimes_at v1 b.times hb.times]
  simp only []
  rw [readIdxs_at _ b.idxs hb.idxLen.symm (fun i h => (hb.idxs i h).2)]
  simp only []
  rw [readTypes_at b.types hb.types]
  simp only []
  have h64 : ∀ t ∈ b.times, -(2 ^ 63 : Int) ≤ t ∧ t < (2 ^ 63 : Int) := by
    intro t ht
    have := hb.times t ht
    cases v1
    · simpa [tsz] using this
    · simp only [tsz, if_true] at this
      have a1 : -(2 ^ 31 : Int) ≤ t := by simpa using this.1
      have a2 : t < (2 ^ 31 : Int) := by simpa using this.2
      constructor <;> omega
  rw [addTransitions_ok b.types b.times b.idxs hb.idxs h64]
  simp only []
  rw [File.readBytes_at _ _ _ _ (by simp [charsLen]) (by omega) hb.charpos]
  simp only [pure, Except.pure, blockSkips, table_eq]
  rw [skips_readToEnd _ _ _ _ hs hu _ ((0 : Nat) : Int) rfl]
  congr 2
  · cases v1 <;> simp [readsFooter]
  · simp [File.at, be32_length]; omega

/-! ### the whole file -/

/-- magic, version, reserved bytes -/
def hdr20 (ver : UInt8) : Bytes := [84, 90, 105, 102] ++ ([ver] ++ List.replicate 15 0)

theorem header_eq (ver : UInt8) (b : Block) : header ver b = hdr20 ver ++ countsBytes b := by
  simp [header, hdr20, countsBytes, List.append_assoc]

theorem hdr20_length (ver : UInt8) : (hdr20 ver).length = 20 := by simp [hdr20]

/-- the counters a header of block `b` carries, as the reader sees them -/
def Block.counts (b : Block) : Counts :=
  ⟨b.isut.length, b.isstd.length, ((0 : Nat) : Int), b.times.length, b.types.length, b.chars.length⟩

theorem body_length (size : Nat) (b : Block) (h : b.idxs.length = b.times.length) :
    (body size b).length = size * b.times.length + b.times.length + 6 * b.types.length + b.chars.length
      + b.isstd.length + b.isut.length := by
  simp [body, essential_length size b h]
  omega

theorem v1BlockSkip_eq (b : Block) (hb : b.WF 4) : v1BlockSkip b.counts = (body 4 b).length := by
  have htc := hb.timecnt
  have hyc := hb.typecnt
  have hcc := hb.charcnt
  have hs : b.isstd.length < 2 ^ 31 := by rcases hb.isstd with h | h <;> omega
  have hu : b.isut.length < 2 ^ 31 := by rcases hb.isut with h | h <;> omega
  rw [body_length 4 b hb.idxLen]
  simp only [v1BlockSkip, Block.counts, conv, Bool.false_eq_true, false_and, if_false, true_and]
  split <;> omega

/-- **the try block of `readTimeZoneFile`, from the start of a file that begins with the header of `b1`**: what is
done after the six counters -/
theorem zoneFile_header (ver : UInt8) (b1 : Block) (hb : b1.WF 4) (rest : Bytes) :
    zoneFile (File.at [] (header ver b1 ++ rest)) =
      (if ver = 50 then
        (File.at (hdr20 ver ++ countsBytes b1) rest |>.skip (v1BlockSkip b1.counts)).readBytes magic2Len >>= fun x =>
          if badHead2 (nats x.1) then .error (.logic badHead2Msg) else dataBlock (x.2.skip header2Skip) v2BranchV1
      else dataBlock ((File.at (hdr20 ver ++ countsBytes b1) rest).skip rewind) v1BranchV1) := by
  have htc := hb.timecnt
  have hyc := hb.typecnt
  have hcc := hb.charcnt
  have hs : b1.isstd.length < 2 ^ 31 := by rcases hb.isstd with h | h <;> omega
  have hu : b1.isut.length < 2 ^ 31 := by rcases hb.isut with h | h <;> omega
  unfold zoneFile
  rw [header_eq]
  simp only [hdr20, List.append_assoc]
  rw [File.readBytes_at [] [84, 90, 105, 102] _ magicLen (by rfl) (by decide) (by decide)]
  simp only [bind, Except.bind]
  rw [if_neg (by decide)]
  rw [File.readBytes_at _ [ver] _ versionLen (by rfl) (by simp) (by simp)]
  simp only []
  rw [File.readBytes_at _ (List.replicate 15 0) _ reservedLen (by rfl) (by decide) (by decide)]
  simp only [countsBytes, List.append_assoc]
  rw [show headerCountReader = readInt32 from rfl, show headerCountTy = (⟨32, true⟩ : IntTy) from rfl,
    readCounts_at _ rest b1.isut.length b1.isstd.length 0 b1.times.length b1.types.length b1.chars.length hu hs
      (by decide) (by omega) (by omega) (by omega) headerCounts]
  simp only [headerCounts, Block.counts, List.nil_append, List.append_assoc]
  have hv : isV2 (nats [ver]) ↔ ver = 50 := by
    simp only [isV2, nats, List.map_cons, List.map_nil, List.cons.injEq, and_true]
    constructor
    · intro h; exact UInt8.toNat_inj.mp (by simpa using h)
    · intro h; subst h; rfl
  by_cases hver : ver = 50
  · simp only [hv.mpr hver, hver, if_true]
    rfl
  · simp only [hver, if_false]
    rw [if_neg (fun h => hver (hv.mp h))]

theorem serialize_split (z : ZoneDesc) : serialize z = z.needed ++ z.optional := by
  unfold serialize ZoneDesc.needed ZoneDesc.optional
  cases z.v2 with
  | none => simp [body, List.append_assoc]
  | some p =>
    obtain ⟨b, ft⟩ := p
    by_cases h : z.version = 50 <;> simp [h, body, List.append_assoc]

theorem needed_length (z : ZoneDesc) (h : z.WF) : z.needed.length < (serialize z).length ∨ z.optional = [] := by
  by_cases ho : z.optional = []
  · exact Or.inr ho
  · left
    rw [serialize_split, List.length_append]
    have : 0 < z.optional.length := List.length_pos_iff.mpr ho
    omega

/-- **`readTimeZoneFile` on the needed part of a well-formed description, whatever follows it**: the table of the
selected block; with the 64-bit block the bytes behind the indicator counts are the footer. -/
theorem parse_needed (z : ZoneDesc) (h : z.WF) (tl : Bytes) :
    parse (z.needed ++ tl) = .ok
      { data := z.selected.table, abbreviation := z.selected.chars,
        tzstring := if z.version = 50 then tl.drop (z.selected.isstd.length + z.selected.isut.length) else [],
        consumed := z.needed.length } := by
  have hat : ∀ bs : Bytes, ({ data := bs, pos := 0 } : File) = File.at [] bs := by intro bs; simp [File.at]
  have hb1 := h.v1
  -- the version-1 path
  have p1 : z.version ≠ 50 → ∀ rest : Bytes,
      parse (header z.version z.v1 ++ (essential 4 z.v1 ++ rest)) = .ok
        { data := z.v1.table, abbreviation := z.v1.chars, tzstring := [],
          consumed := (header z.version z.v1 ++ essential 4 z.v1).length } := by
    intro hv rest
    unfold parse
    rw [hat, zoneFile_header _ _ hb1, if_neg hv]
    rw [File.skip_back _ (countsBytes z.v1) _ rewind (by rw [countsBytes_length]; rfl) (by rw [countsBytes_length]; decide)]
    rw [show v1BranchV1 = true from rfl]
    have := dataBlock_at true z.v1 (by simpa [tsz] using hb1) (hdr20 z.version) rest
    simp only [tsz, if_true] at this
    rw [this]
    simp [header_eq, hdr20_length, countsBytes_length]
    omega
  unfold ZoneDesc.needed ZoneDesc.selected
  cases hv2 : z.v2 with
  | none =>
    have hv : z.version ≠ 50 := by
      intro hv; have := h.has2 hv; simp [hv2] at this
    simp only [List.append_assoc, if_neg hv]
    exact p1 hv tl
  | some p =>
    obtain ⟨b, ft⟩ := p
    have hb2 := h.v2 b ft hv2
    by_cases hv : z.version = 50
    · simp only [hv, if_true, List.append_assoc]
      unfold parse
      rw [hat, zoneFile_header _ _ hb1, if_pos rfl]
      rw [File.skip_at _ (body 4 z.v1) _ _ (v1BlockSkip_eq z.v1 hb1) (by
        rw [body_length 4 _ hb1.idxLen]
        have := hb1.timecnt; have := hb1.typecnt; have := hb1.charcnt
        have : z.v1.isstd.length < 2 ^ 31 := by rcases hb1.isstd with h | h <;> omega
        have : z.v1.isut.length < 2 ^ 31 := by rcases hb1.isut with h | h <;> omega
        omega)]
      rw [header_eq 50 b]
      simp only [hdr20, List.append_assoc]
      rw [File.readBytes_at _ [84, 90, 105, 102] _ magic2Len (by rfl) (by decide) (by decide)]
      simp only [bind, Except.bind]
      rw [if_neg (by decide)]
      rw [← List.append_assoc [50] (List.replicate 15 0) (countsBytes b ++ (essential 8 b ++ tl))]
      rw [File.skip_at _ ([50] ++ List.replicate 15 0) _ header2Skip (by rfl) (by decide)]
      rw [show v2BranchV1 = false from rfl]
      have := dataBlock_at false b (by simpa [tsz] using hb2)
        (hdr20 50 ++ countsBytes z.v1 ++ body 4 z.v1 ++ [84, 90, 105, 102] ++ ([50] ++ List.replicate 15 0)) tl
      simp only [tsz, Bool.false_eq_true, if_false, List.append_assoc] at this
      simp only [hdr20, List.append_assoc] at this ⊢
      rw [this]
      simp [header_eq, hdr20, countsBytes_length]
      omega
    · simp only [hv, if_false, List.append_assoc]
      exact p1 hv tl

theorem drop_two (a b c : Bytes) : (a ++ (b ++ c)).drop (a.length + b.length) = c := by
  rw [← List.append_assoc, ← List.length_append, List.drop_left]

/-- **the reader inverts the encoder** -/
theorem parse_serialize (z : ZoneDesc) (h : z.WF) :
    parse (serialize z) = .ok
      { data := z.selected.table, abbreviation := z.selected.chars, tzstring := z.footerRead,
        consumed := z.needed.length } := by
  rw [serialize_split, parse_needed z h]
  congr 2
  unfold ZoneDesc.optional ZoneDesc.selected ZoneDesc.footerRead
  cases hv2 : z.v2 with
  | none =>
    have hv : z.version ≠ 50 := by
      intro hv; have := h.has2 hv; simp [hv2] at this
    simp [hv]
  | some p =>
    obtain ⟨b, ft⟩ := p
    by_cases hv : z.version = 50
    · simp only [hv, if_true]; exact drop_two _ _ _
    · simp [hv]

/-- a truncation that keeps the needed part: the same table, the footer cut short -/
theorem parse_truncated_ok (z : ZoneDesc) (h : z.WF) (n : Nat) (hn : z.needed.length ≤ n) :
    parse ((serialize z).take n) = .ok
      { data := z.selected.table, abbreviation := z.selected.chars,
        tzstring := if z.version = 50 then
            (z.optional.take (n - z.needed.length)).drop (z.selected.isstd.length + z.selected.isut.length) else [],
        consumed := z.needed.length } := by
  rw [serialize_split, List.take_append, List.take_of_length_le hn, parse_needed z h]

/-! ### a longer file reads the same; a successful read stays inside the file -/

theorem bind_ok {α β : Type} {a : R α} {b : α → R β} {y : β} (h : (a >>= b) = .ok y) :
    ∃ x, a = .ok x ∧ b x = .ok y := by
  cases a with
  | error e => simp [bind, Except.bind] at h
  | ok x => exact ⟨x, rfl, h⟩

namespace File

/-- the same stream over a file with more bytes at the end -/
def ext (f : File) (e : Bytes) : File := ⟨f.data ++ e, f.pos⟩

/-- the position is inside the file (or at its end) -/
def inb (f : File) : Prop := f.pos ≤ f.data.length

theorem peek_length (f : File) (n : Nat) : (f.peek n).length = n ↔ f.pos + n ≤ f.data.length ∨ n = 0 := by
  simp only [peek, List.length_take, List.length_drop]
  omega

theorem peek_ext (f : File) (n : Nat) (e : Bytes) (h : (f.peek n).length = n) : (f.ext e).peek n = f.peek n := by
  rcases (peek_length f n).mp h with h | h
  · simp only [peek, ext]
    rw [List.drop_append_of_le_length (by omega), List.take_append_of_le_length (by simp; omega)]
  · subst h; simp [peek]

theorem readInt_good (f : File) (r : Reader) (v : Int) (g : File) (h : f.readInt r = .ok (v, g)) :
    g.data = f.data ∧ g.pos = f.pos + r.bytes ∧ (f.inb ∨ 0 < r.bytes → g.inb) ∧
      ∀ e, (f.ext e).readInt r = .ok (v, g.ext e) := by
  unfold readInt at h
  split at h
  · rename_i hl
    simp only [Except.ok.injEq, Prod.mk.injEq] at h
    obtain ⟨hv, hg⟩ := h
    subst hg
    refine ⟨rfl, rfl, ?_, ?_⟩
    · intro hi
      simp only [inb] at hi ⊢
      rcases (peek_length f r.bytes).mp hl with h | h <;> omega
    · intro e
      subst hv
      unfold readInt
      rw [peek_ext f r.bytes e hl, if_pos hl]
      rfl
  · exact absurd h (by simp)

theorem readBytes_good (f : File) (n : Int) (bs : Bytes) (g : File) (h : f.readBytes n = .ok (bs, g)) :
    g.data = f.data ∧ f.pos ≤ g.pos ∧ (f.inb → g.inb) ∧ ∀ e, (f.ext e).readBytes n = .ok (bs, g.ext e) := by
  unfold readBytes at h
  simp only at h
  split at h
  · exact absurd h (by simp)
  · split at h
    · rename_i hn hl
      simp only [Except.ok.injEq, Prod.mk.injEq] at h
      obtain ⟨hv, hg⟩ := h
      subst hg
      refine ⟨rfl, by simp, ?_, ?_⟩
      · intro hi
        simp only [inb] at hi ⊢
        rcases (peek_length f _).mp hl with h | h <;> omega
      · intro e
        subst hv
        unfold readBytes
        simp only [if_neg hn, peek_ext f _ e hl]
        rw [if_pos hl]
        rfl
    · exact absurd h (by simp)

theorem skip_ext (f : File) (k : Int) (e : Bytes) : (f.ext e).skip k = (f.skip k).ext e := by
  unfold skip ext
  simp only
  split <;> rfl

theorem skip_data (f : File) (k : Int) : (f.skip k).data = f.data := by
  unfold skip; simp only; split <;> rfl

end File

/-- a reading function keeps the file, stays inside it, and reads the same from a longer file -/
def Good {α : Type} (fn : File → R (α × File)) : Prop :=
  ∀ f x g, fn f = .ok (x, g) → g.data = f.data ∧ (f.inb → g.inb) ∧ ∀ e, fn (f.ext e) = .ok (x, g.ext e)

theorem good_readInt (r : Reader) : Good (fun f => f.readInt r) := by
  intro f x g h
  obtain ⟨a, _, c, d⟩ := File.readInt_good f r x g h
  exact ⟨a, fun hi => c (Or.inl hi), d⟩

theorem good_readTimes (v1 : Bool) (k : Nat) : Good (readTimes v1 k) := by
  induction k with
  | zero =>
    intro f x g h
    simp only [readTimes, Except.ok.injEq, Prod.mk.injEq] at h
    obtain ⟨rfl, rfl⟩ := h
    exact ⟨rfl, id, fun e => rfl⟩
  | succ k ih =>
    intro f x g h
    simp only [readTimes] at h
    obtain ⟨⟨t, f1⟩, h1, h⟩ := bind_ok h
    obtain ⟨⟨ts, f2⟩, h2, h⟩ := bind_ok h
    simp only [pure, Except.pure, Except.ok.injEq, Prod.mk.injEq] at h
    obtain ⟨rfl, rfl⟩ := h
    obtain ⟨a1, b1, c1⟩ := good_readInt _ f t f1 h1
    obtain ⟨a2, b2, c2⟩ := ih f1 ts f2 h2
    refine ⟨a2.trans a1, fun hi => b2 (b1 hi), fun e => ?_⟩
    simp only [readTimes, c1 e, bind, Except.bind, c2 e, pure, Except.pure]

theorem good_readIdxs (k : Nat) : Good (readIdxs k) := by
  induction k with
  | zero =>
    intro f x g h
    simp only [readIdxs, Except.ok.injEq, Prod.mk.injEq] at h
    obtain ⟨rfl, rfl⟩ := h
    exact ⟨rfl, id, fun e => rfl⟩
  | succ k ih =>
    intro f x g h
    simp only [readIdxs] at h
    obtain ⟨⟨t, f1⟩, h1, h⟩ := bind_ok h
    obtain ⟨⟨ts, f2⟩, h2, h⟩ := bind_ok h
    simp only [pure, Except.pure, Except.ok.injEq, Prod.mk.injEq] at h
    obtain ⟨rfl, rfl⟩ := h
    obtain ⟨a1, b1, c1⟩ := good_readInt _ f t f1 h1
    obtain ⟨a2, b2, c2⟩ := ih f1 ts f2 h2
    refine ⟨a2.trans a1, fun hi => b2 (b1 hi), fun e => ?_⟩
    simp only [readIdxs, c1 e, bind, Except.bind, c2 e, pure, Except.pure]

theorem good_readMany (rs : List Reader) : Good (fun f => readMany f rs) := by
  induction rs with
  | nil =>
    intro f x g h
    simp only [readMany, Except.ok.injEq, Prod.mk.injEq] at h
    obtain ⟨rfl, rfl⟩ := h
    exact ⟨rfl, id, fun e => rfl⟩
  | cons r rs ih =>
    intro f x g h
    simp only [readMany] at h
    obtain ⟨⟨t, f1⟩, h1, h⟩ := bind_ok h
    obtain ⟨⟨ts, f2⟩, h2, h⟩ := bind_ok h
    simp only [pure, Except.pure, Except.ok.injEq, Prod.mk.injEq] at h
    obtain ⟨rfl, rfl⟩ := h
    obtain ⟨a1, b1, c1⟩ := good_readInt _ f t f1 h1
    obtain ⟨a2, b2, c2⟩ := ih f1 ts f2 h2
    refine ⟨a2.trans a1, fun hi => b2 (b1 hi), fun e => ?_⟩
    simp only [readMany, c1 e, bind, Except.bind, c2 e, pure, Except.pure]

theorem good_readTypes (k : Nat) : Good (readTypes k) := by
  induction k with
  | zero =>
    intro f x g h
    simp only [readTypes, Except.ok.injEq, Prod.mk.injEq] at h
    obtain ⟨rfl, rfl⟩ := h
    exact ⟨rfl, id, fun e => rfl⟩
  | succ k ih =>
    intro f x g h
    simp only [readTypes] at h
    obtain ⟨⟨t, f1⟩, h1, h⟩ := bind_ok h
    obtain ⟨⟨ts, f2⟩, h2, h⟩ := bind_ok h
    simp only [pure, Except.pure, Except.ok.injEq, Prod.mk.injEq] at h
    obtain ⟨rfl, rfl⟩ := h
    obtain ⟨a1, b1, c1⟩ := good_readMany _ f t f1 h1
    obtain ⟨a2, b2, c2⟩ := ih f1 ts f2 h2
    refine ⟨a2.trans a1, fun hi => b2 (b1 hi), fun e => ?_⟩
    simp only [readTypes, c1 e, bind, Except.bind, c2 e, pure, Except.pure]

theorem readCounts_good (r : Reader) (ty : IntTy) (mk : Int → Int → Int → Int → Int → Int → Counts) (hr : 0 < r.bytes)
    (f : File) (c : Counts) (g : File) (h : readCounts f r ty mk = .ok (c, g)) :
    g.data = f.data ∧ g.inb ∧ ∀ e, readCounts (f.ext e) r ty mk = .ok (c, g.ext e) := by
  unfold readCounts at h
  obtain ⟨⟨r0, f0⟩, h0, h⟩ := bind_ok h
  obtain ⟨⟨r1, f1⟩, h1, h⟩ := bind_ok h
  obtain ⟨⟨r2, f2⟩, h2, h⟩ := bind_ok h
  obtain ⟨⟨r3, f3⟩, h3, h⟩ := bind_ok h
  obtain ⟨⟨r4, f4⟩, h4, h⟩ := bind_ok h
  obtain ⟨⟨r5, f5⟩, h5, h⟩ := bind_ok h
  simp only [pure, Except.pure, Except.ok.injEq, Prod.mk.injEq] at h
  obtain ⟨rfl, rfl⟩ := h
  obtain ⟨a0, _, _, d0⟩ := File.readInt_good _ _ _ _ h0
  obtain ⟨a1, _, _, d1⟩ := File.readInt_good _ _ _ _ h1
  obtain ⟨a2, _, _, d2⟩ := File.readInt_good _ _ _ _ h2
  obtain ⟨a3, _, _, d3⟩ := File.readInt_good _ _ _ _ h3
  obtain ⟨a4, _, _, d4⟩ := File.readInt_good _ _ _ _ h4
  obtain ⟨a5, _, c5, d5⟩ := File.readInt_good _ _ _ _ h5
  refine ⟨by rw [a5, a4, a3, a2, a1, a0], c5 (Or.inr hr), fun e => ?_⟩
  unfold readCounts
  simp only [d0 e, d1 e, d2 e, d3 e, d4 e, d5 e, bind, Except.bind, pure, Except.pure]

theorem foldl_skip_ext (ks : List Int) (f : File) (e : Bytes) :
    ks.foldl File.skip (f.ext e) = (ks.foldl File.skip f).ext e := by
  induction ks generalizing f with
  | nil => rfl
  | cons k ks ih => simp only [List.foldl_cons, File.skip_ext, ih]

/-- **`readDataBlock` never needs more than the file has, and reads the same table from a longer file** -/
theorem dataBlock_good (f : File) (v1 : Bool) (l : Loaded) (h : dataBlock f v1 = .ok l) :
    l.consumed ≤ f.data.length ∧ ∀ e, ∃ tz, dataBlock (f.ext e) v1 = .ok { l with tzstring := tz } := by
  unfold dataBlock at h
  obtain ⟨⟨c, f0⟩, h0, h⟩ := bind_ok h
  obtain ⟨a0, b0, c0⟩ := readCounts_good _ _ _ (by decide) _ _ _ h0
  simp only at h
  split at h
  · exact absurd h (by simp)
  rename_i r1
  split at h
  · exact absurd h (by simp)
  rename_i r2
  split at h
  · exact absurd h (by simp)
  rename_i r3
  split at h
  · exact absurd h (by simp)
  rename_i r4
  obtain ⟨⟨trans, f1⟩, h1, h⟩ := bind_ok h
  obtain ⟨⟨idxs, f2⟩, h2, h⟩ := bind_ok h
  simp only at h
  split at h
  · exact absurd h (by simp)
  rename_i r5
  obtain ⟨⟨lts, f3⟩, h3, h⟩ := bind_ok h
  obtain ⟨trs, h4, h⟩ := bind_ok h
  obtain ⟨⟨abbr, f4⟩, h5, h⟩ := bind_ok h
  simp only [pure, Except.pure, Except.ok.injEq] at h
  simp only [] at h2 h4 h5
  obtain ⟨a1, b1, c1⟩ := good_readTimes _ _ _ _ _ h1
  obtain ⟨a2, b2, c2⟩ := good_readIdxs _ _ _ _ h2
  obtain ⟨a3, b3, c3⟩ := good_readTypes _ _ _ _ h3
  obtain ⟨a5, _, b5, c5⟩ := File.readBytes_good _ _ _ _ h5
  subst h
  constructor
  · have := b5 (b3 (b2 (b1 b0)))
    simp only [File.inb] at this
    rw [a5, a3, a2, a1, a0] at this
    exact this
  · intro e
    refine ⟨if readsFooter v1 then (((blockSkips c (timeSize v1)).foldl File.skip f4).ext e).readToEnd else [], ?_⟩
    unfold dataBlock
    simp only [c0 e, bind, Except.bind, if_neg r1, if_neg r2, if_neg r3, if_neg r4, c1 e, c2 e, if_neg r5, c3 e, h4, c5 e,
      pure, Except.pure, foldl_skip_ext]
    rfl

/-- **`readTimeZoneFile` never needs more than the file has, and reads the same table from a longer file** -/
theorem zoneFile_good (f : File) (l : Loaded) (h : zoneFile f = .ok l) :
    l.consumed ≤ f.data.length ∧ ∀ e, ∃ tz, zoneFile (f.ext e) = .ok { l with tzstring := tz } := by
  unfold zoneFile at h
  obtain ⟨⟨head, f0⟩, h0, h⟩ := bind_ok h
  simp only at h
  split at h
  · exact absurd h (by simp)
  rename_i r0
  obtain ⟨⟨version, f1⟩, h1, h⟩ := bind_ok h
  obtain ⟨⟨reserved, f2⟩, h2, h⟩ := bind_ok h
  obtain ⟨⟨c, f3⟩, h3, h⟩ := bind_ok h
  simp only [] at h1 h2 h3 h
  obtain ⟨a0, _, _, c0⟩ := File.readBytes_good _ _ _ _ h0
  obtain ⟨a1, _, _, c1⟩ := File.readBytes_good _ _ _ _ h1
  obtain ⟨a2, _, _, c2⟩ := File.readBytes_good _ _ _ _ h2
  obtain ⟨a3, _, c3⟩ := readCounts_good _ _ _ (by decide) _ _ _ h3
  have hd : f3.data = f.data := by rw [a3, a2, a1, a0]
  split at h
  · rename_i rv
    obtain ⟨⟨head2, f4⟩, h4, h⟩ := bind_ok h
    simp only [] at h4 h
    split at h
    · exact absurd h (by simp)
    rename_i r4
    obtain ⟨a4, _, _, c4⟩ := File.readBytes_good _ _ _ _ h4
    obtain ⟨b5, c5⟩ := dataBlock_good _ _ _ h
    constructor
    · rw [File.skip_data, a4, File.skip_data, hd] at b5; exact b5
    · intro e
      obtain ⟨tz, htz⟩ := c5 e
      refine ⟨tz, ?_⟩
      unfold zoneFile
      simp only [c0 e, bind, Except.bind, if_neg r0, c1 e, c2 e, c3 e, if_pos rv, File.skip_ext, c4 e, if_neg r4, htz]
  · rename_i rv
    obtain ⟨b5, c5⟩ := dataBlock_good _ _ _ h
    constructor
    · rw [File.skip_data, hd] at b5; exact b5
    · intro e
      obtain ⟨tz, htz⟩ := c5 e
      refine ⟨tz, ?_⟩
      unfold zoneFile
      simp only [c0 e, bind, Except.bind, if_neg r0, c1 e, c2 e, c3 e, if_neg rv, File.skip_ext, htz]

theorem parse_good (d : Bytes) (l : Loaded) (h : parse d = .ok l) :
    l.consumed ≤ d.length ∧ ∀ e, ∃ tz, parse (d ++ e) = .ok { l with tzstring := tz } :=
  zoneFile_good ⟨d, 0⟩ l h

/-- a truncation that cuts into the needed part is refused -/
theorem parse_truncated_error (z : ZoneDesc) (h : z.WF) (n : Nat) (hn : n < z.needed.length) :
    ∃ e, parse ((serialize z).take n) = .error e := by
  cases hp : parse ((serialize z).take n) with
  | error e => exact ⟨e, rfl⟩
  | ok l =>
    exfalso
    obtain ⟨hb, hext⟩ := parse_good _ _ hp
    obtain ⟨tz, htz⟩ := hext ((serialize z).drop n)
    rw [List.take_append_drop, parse_serialize z h] at htz
    simp only [Except.ok.injEq] at htz
    have hc : z.needed.length = l.consumed := congrArg Loaded.consumed htz
    have : ((serialize z).take n).length ≤ n := by simp [List.length_take]; omega
    omega

/-! ### sign extension -/

theorem decodeBE_cons' (b : UInt8) (bs : Bytes) : decodeBE (b :: bs) = b.toNat * 256 ^ bs.length + decodeBE bs := by
  have := Buffer.decodeBE_fold bs (0 * 256 + b.toNat)
  simp only [decodeBE, List.foldl_cons] at this ⊢
  rw [this]; simp

theorem decodeBE_lt (l : Bytes) : decodeBE l < 256 ^ l.length := by
  induction l with
  | nil => simp [decodeBE]
  | cons b l ih =>
    rw [decodeBE_cons']
    have hb := b.toNat_lt
    have : b.toNat * 256 ^ l.length + 256 ^ l.length ≤ 256 * 256 ^ l.length := by
      have : (b.toNat + 1) * 256 ^ l.length ≤ 256 * 256 ^ l.length := Nat.mul_le_mul_right _ (by omega)
      rw [Nat.add_mul, Nat.one_mul] at this; exact this
    simp only [List.length_cons, Nat.pow_succ]
    omega

/-- a transition time whose first byte has the top bit set is read as the NEGATIVE instant `u - 2^(8·size)` (`u` = the
bytes read as an unsigned big-endian number): `readInt32` returns `int32_t`, so the conversion to the `int64_t` element
of `trans` sign-extends; the 64-bit reader returns `int64_t` -/
theorem readTime_sign_extends (v1 : Bool) (pre bs rest : Bytes) (hl : bs.length = tsz v1)
    (htop : 128 ≤ (bs.headD 0).toNat) :
    readTimes v1 1 (File.at pre (bs ++ rest))
      = .ok ([(decodeBE bs : Int) - 2 ^ (8 * tsz v1)], File.at (pre ++ bs) rest) ∧
    (decodeBE bs : Int) - 2 ^ (8 * tsz v1) < 0 := by
  have hlt : decodeBE bs < 256 ^ bs.length := decodeBE_lt bs
  have hge : 128 * 256 ^ (bs.length - 1) ≤ decodeBE bs := by
    cases bs with
    | nil => simp at htop
    | cons b bs =>
      simp only [List.headD_cons] at htop
      rw [decodeBE_cons']
      simp only [List.length_cons, Nat.add_sub_cancel]
      have : 128 * 256 ^ bs.length ≤ b.toNat * 256 ^ bs.length := Nat.mul_le_mul_right _ htop
      omega
  cases v1
  · simp only [tsz, Bool.false_eq_true, if_false] at hl ⊢
    rw [hl] at hlt hge
    have e : timeReader false = readInt64 := by simp [timeReader]
    simp only [readTimes, e]
    rw [File.readInt_at readInt64 (by decide) _ _ _ hl]
    simp only [bind, Except.bind, pure, Except.pure, readInt64]
    have c1 : conv ⟨64, true⟩ (decodeBE bs : Int) = (decodeBE bs : Int) - 2 ^ 64 := by
      unfold conv; simp only [true_and]
      have : ((decodeBE bs : Nat) : Int) % (2 ^ 64 : Int) = decodeBE bs := Int.emod_eq_of_lt (by omega) (by omega)
      rw [this]; split <;> omega
    rw [c1, timeConvs_id false ((decodeBE bs : Int) - 2 ^ 64) (by omega) (by omega)]
    exact ⟨rfl, by omega⟩
  · simp only [tsz, if_true] at hl ⊢
    rw [hl] at hlt hge
    have e : timeReader true = readInt32 := by simp [timeReader]
    simp only [readTimes, e]
    rw [File.readInt_at readInt32 (by decide) _ _ _ hl]
    simp only [bind, Except.bind, pure, Except.pure, readInt32]
    have c1 : conv ⟨32, true⟩ (decodeBE bs : Int) = (decodeBE bs : Int) - 2 ^ 32 := by
      unfold conv; simp only [true_and]
      have : ((decodeBE bs : Nat) : Int) % (2 ^ 32 : Int) = decodeBE bs := Int.emod_eq_of_lt (by omega) (by omega)
      rw [this]; split <;> omega
    rw [c1, timeConvs_id true ((decodeBE bs : Int) - 2 ^ 32) (by omega) (by omega)]
    exact ⟨rfl, by omega⟩

/-- the two's complement form of a negative value starts with a byte that has the top bit set -/
theorem intBytes_top (n : Nat) (hn : 0 < n) (t : Int) (hlo : -(2 ^ (8 * n - 1) : Int) ≤ t) (hneg : t < 0) :
    128 ≤ ((intBytes n t).headD 0).toNat := by
  have hr := conv_decode_intBytes n hn t hlo (by have : (0 : Int) < 2 ^ (8 * n - 1) := Int.pow_pos (by decide); omega)
  have hlen := intBytes_length n t
  cases hb : intBytes n t with
  | nil => rw [hb] at hlen; simp at hlen; omega
  | cons b bs =>
    rw [hb] at hr hlen
    simp only [List.headD_cons]
    rcases Nat.lt_or_ge b.toNat 128 with hc | hc
    · exfalso
      have hbs : bs.length = n - 1 := by simp at hlen; omega
      have h1 := decodeBE_lt bs
      have h2 : decodeBE (b :: bs) < 128 * 256 ^ (n - 1) := by
        rw [decodeBE_cons', hbs] at *
        have : b.toNat * 256 ^ (n - 1) ≤ 127 * 256 ^ (n - 1) := Nat.mul_le_mul_right _ (by omega)
        omega
      have hp : (128 * 256 ^ (n - 1) : Nat) = 2 ^ (8 * n - 1) := by
        have : 8 * n - 1 = 7 + 8 * (n - 1) := by omega
        rw [this, Nat.pow_add, Nat.pow_mul]
      have hp' : ((2 ^ (8 * n - 1) : Nat) : Int) = (2 ^ (8 * n - 1) : Int) := by simp
      have hlt : ((decodeBE (b :: bs) : Nat) : Int) < (2 ^ (8 * n - 1) : Int) := by
        rw [← hp', ← hp]; exact_mod_cast h2
      have hid := conv_id_signed (8 * n) (by omega) (decodeBE (b :: bs) : Int)
        (by have : (0 : Int) < 2 ^ (8 * n - 1) := Int.pow_pos (by decide); omega) hlt
      rw [hid] at hr
      omega
    · exact hc

/-! ### what every loaded table satisfies -/

theorem addTransitions_shifted (lts : List LocalTime) (ts is : List Int) (trs : List Transition)
    (h : addTransitions lts ts is = .ok trs) :
    ∀ tr ∈ trs, tr.localtimeIdx < lts.length ∧
      tr.localtime = tr.utctime + (lts.getD tr.localtimeIdx default).utcOffset := by
  induction ts generalizing is trs with
  | nil =>
    simp only [addTransitions, Except.ok.injEq] at h
    subst h; simp
  | cons t ts ih =>
    cases is with
    | nil =>
      simp only [addTransitions, Except.ok.injEq] at h
      subst h; simp
    | cons i is =>
      simp only [addTransitions] at h
      split at h
      · rename_i hc
        obtain ⟨rest, h1, h⟩ := bind_ok h
        simp only [pure, Except.pure, Except.ok.injEq] at h
        subst h
        intro tr htr
        rcases List.mem_cons.mp htr with rfl | htr
        · exact ⟨hc.2, rfl⟩
        · exact ih is rest h1 tr htr
      · exact absurd h (by simp)

theorem dataBlock_shifted (f : File) (v1 : Bool) (l : Loaded) (h : dataBlock f v1 = .ok l) :
    ∀ i, i < l.data.n → (l.data.tr i).localtime = l.data.u i + l.data.o i := by
  unfold dataBlock at h
  obtain ⟨⟨c, f0⟩, h0, h⟩ := bind_ok h
  simp only at h
  split at h
  · exact absurd h (by simp)
  split at h
  · exact absurd h (by simp)
  split at h
  · exact absurd h (by simp)
  split at h
  · exact absurd h (by simp)
  obtain ⟨⟨trans, f1⟩, h1, h⟩ := bind_ok h
  obtain ⟨⟨idxs, f2⟩, h2, h⟩ := bind_ok h
  simp only at h
  split at h
  · exact absurd h (by simp)
  obtain ⟨⟨lts, f3⟩, h3, h⟩ := bind_ok h
  obtain ⟨trs, h4, h⟩ := bind_ok h
  obtain ⟨⟨abbr, f4⟩, h5, h⟩ := bind_ok h
  simp only [pure, Except.pure, Except.ok.injEq] at h
  simp only [] at h4
  subst h
  intro i hi
  have hs := addTransitions_shifted _ _ _ _ h4
  simp only [Data.n, List.size_toArray] at hi
  have hm : trs[i] ∈ trs := List.getElem_mem hi
  obtain ⟨_, e⟩ := hs _ hm
  simp only [Data.tr, Data.u, Data.o, Data.lrec, Data.lt, Array.getD_eq_getD_getElem?, List.getElem?_toArray,
    List.getElem?_eq_getElem hi, Option.getD_some] at e ⊢
  rw [e]
  simp [List.getD_eq_getElem?_getD]

theorem zoneFile_shifted (f : File) (l : Loaded) (h : zoneFile f = .ok l) :
    ∀ i, i < l.data.n → (l.data.tr i).localtime = l.data.u i + l.data.o i := by
  unfold zoneFile at h
  obtain ⟨⟨head, f0⟩, h0, h⟩ := bind_ok h
  simp only at h
  split at h
  · exact absurd h (by simp)
  obtain ⟨⟨version, f1⟩, h1, h⟩ := bind_ok h
  obtain ⟨⟨reserved, f2⟩, h2, h⟩ := bind_ok h
  obtain ⟨⟨c, f3⟩, h3, h⟩ := bind_ok h
  simp only [] at h
  split at h
  · obtain ⟨⟨head2, f4⟩, h4, h⟩ := bind_ok h
    simp only [] at h
    split at h
    · exact absurd h (by simp)
    exact dataBlock_shifted _ _ _ h
  · exact dataBlock_shifted _ _ _ h

end MuduoVerif.TzFile
