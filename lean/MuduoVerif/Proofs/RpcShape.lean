import MuduoVerif.Proofs.RpcResp
/-! What the REQUEST branch and `fireDone` do, as closed forms (every branch of the generated decision tree),
and the reply the property demands (`expected`), written without reference to the code. -/
namespace MuduoVerif.Rpc
open MuduoVerif.Gen.Rpc

/-- the reply the property demands for a request, written without reference to the code: payload, error -/
def expected (hasServices : Bool) (m : Msg) : Option Nat × Option ErrorCode :=
  if hasServices = false ∨ m.serviceFound = false then (none, some .NO_SERVICE)
  else match m.meth with
    | none => (none, some .NO_METHOD)
    | some _ => match m.request.parse with
      | none => (none, some .INVALID_REQUEST)
      | some p => (some p, none)

theorem recvRequest_err (s : Chan) (m : Msg) (code : ErrorCode) (h : expected s.hasServices m = (none, some code)) :
    recvRequest s m = { s with nextReq := s.nextReq + 1, reqs := setAt s.reqs s.nextReq (some m),
                               log := .reply s.nextReq m.id none (some code) :: .arrived m :: s.log } := by
  obtain ⟨ty, id, pl, er, sf, me, rq⟩ := m
  cases hs : s.hasServices <;> cases sf <;> cases me <;> cases rq <;>
    simp [expected, hs, Body.parse] at h <;>
    (try subst h) <;>
    simp [hs, recvRequest, requestDecision, dispatchN, errorReplies, replyId, Body.parse]

theorem recvRequest_sync (s : Chan) (m : Msg) (p : Nat) (h : expected s.hasServices m = (some p, none)) (hm : m.meth = some .sync) :
    recvRequest s m = { s with nextReq := s.nextReq + 1, reqs := setAt s.reqs s.nextReq (some m),
                                 log := .free (.srvResp s.nextReq) :: .reply s.nextReq m.id (some p) none ::
                                        .dispatch s.nextReq p :: .arrived m :: s.log } := by
  obtain ⟨ty, id, pl, er, sf, me, rq⟩ := m
  simp only at hm
  subst hm
  cases hs : s.hasServices <;> cases sf <;> cases rq <;>
    simp [expected, hs, Body.parse] at h <;>
    (try subst h) <;>
    simp [hs, recvRequest, requestDecision, dispatchN, dispatchOnce, doneEvents, errorReplies, replyId, Body.parse,
      doneFreeCount, doneSendCount, doneIdSrc]

theorem recvRequest_defer (s : Chan) (m : Msg) (p : Nat) (h : expected s.hasServices m = (some p, none)) (hm : m.meth = some .defer) :
    recvRequest s m = { s with nextReq := s.nextReq + 1, reqs := setAt s.reqs s.nextReq (some m),
                                 closures := (s.nextReq, m.id, p) :: s.closures,
                                 log := .dispatch s.nextReq p :: .arrived m :: s.log } := by
  obtain ⟨ty, id, pl, er, sf, me, rq⟩ := m
  simp only at hm
  subst hm
  cases hs : s.hasServices <;> cases sf <;> cases rq <;>
    simp [expected, hs, Body.parse] at h <;>
    (try subst h) <;>
    simp [hs, recvRequest, requestDecision, dispatchN, dispatchOnce, errorReplies, replyId, Body.parse]

theorem expected_cases (hs : Bool) (m : Msg) :
    (∃ code, expected hs m = (none, some code)) ∨ (∃ p, expected hs m = (some p, none) ∧ (m.meth = some .sync ∨ m.meth = some .defer)) := by
  obtain ⟨ty, id, pl, er, sf, me, rq⟩ := m
  cases hs <;> cases sf <;> cases me with
  | none => cases rq <;> simp [expected]
  | some mm => cases mm <;> cases rq <;> simp [expected, Body.parse]


theorem doneEvents_eq (r id p : Nat) : doneEvents r id p = [.free (.srvResp r), .reply r id (some p) none] := by
  simp [doneEvents, doneFreeCount, doneSendCount, doneIdSrc, replyId]

theorem fireDone_found (s : Chan) (r : Nat) (c : Nat × Nat × Nat) (h : s.closures.find? (fun c => c.1 = r) = some c) :
    fireDone s r = { s with closures := s.closures.filter (fun c => c.1 ≠ r),
                            log := .free (.srvResp r) :: .reply r c.2.1 (some c.2.2) none :: s.log } := by
  simp [fireDone, h, doneEvents_eq]

theorem fireDone_absent (s : Chan) (r : Nat) (h : s.closures.find? (fun c => c.1 = r) = none) :
    fireDone s r = if r < s.nextReq then { s with log := .uaf (.closure r) :: s.log } else s := by
  simp [fireDone, h]

theorem typeSwitch_response (t : MessageType) : typeSwitch t = .response ↔ t = .RESPONSE := by
  cases t <;> simp [typeSwitch]

theorem typeSwitch_request (t : MessageType) : typeSwitch t = .request ↔ t = .REQUEST := by
  cases t <;> simp [typeSwitch]

end MuduoVerif.Rpc
