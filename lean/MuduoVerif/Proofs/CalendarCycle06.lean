import MuduoVerif.Proofs.CalendarE
/-! One sixteenth of the 400-year cycle, checked by kernel evaluation (see CalendarCycle.lean). -/
namespace MuduoVerif.CalendarE

theorem cycleDays_5 : checkDays 45660 9132 = true := by decide +kernel

theorem cycleYears_5 : checkYears 125 25 = true := by decide +kernel

end MuduoVerif.CalendarE
