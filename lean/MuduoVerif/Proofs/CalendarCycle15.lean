import MuduoVerif.Proofs.CalendarE
/-! One sixteenth of the 400-year cycle, checked by kernel evaluation (see CalendarCycle.lean). -/
namespace MuduoVerif.CalendarE

theorem cycleDays_14 : checkDays 127848 9132 = true := by decide +kernel

theorem cycleYears_14 : checkYears 350 25 = true := by decide +kernel

end MuduoVerif.CalendarE
