import MuduoVerif.Proofs.PollerTrace
/-!
# The two back-ends in lock step

`Sim sp se`: a poll loop and an epoll loop that agree on everything the specification can see — the
interest word, `revents_` and registration of every channel, the pending scripted operations, the
loop's dispatch state — and have produced the same observable trace.  Every operation keeps them in
step; so does an iteration in which both pollers hand the loop the same active list.
-/
namespace MuduoVerif.Poller
open MuduoVerif.Gen.Poller

/-- the back-end independent part of an event: operations (without the back-end's slot index),
rejections and callbacks -/
def Ev.strip : Ev → Option Ev
  | .op c k ev _ => some (.op c k ev 0)
  | .reject c k => some (.reject c k)
  | .cb c k rev ev => some (.cb c k rev ev)
  | _ => none

/-- the observable trace -/
def absOut (out : List Ev) : List Ev := out.filterMap Ev.strip

theorem absOut_append (a b : List Ev) : absOut (a ++ b) = absOut a ++ absOut b := by
  unfold absOut; rw [List.filterMap_append]

theorem absOut_back (l : List Ev) (h : ∀ e ∈ l, e.isBack = true) : absOut l = [] := by
  unfold absOut
  rw [List.filterMap_eq_nil_iff]
  intro e he
  have := h e he
  cases e <;> simp_all [Ev.isBack, Ev.strip]

theorem absOut_plumb (l : List Ev) (h : ∀ e ∈ l, e.isPlumb) : absOut l = [] := by
  unfold absOut
  rw [List.filterMap_eq_nil_iff]
  intro e he
  have := h e he
  cases e <;> simp_all [Ev.isPlumb, Ev.strip]

/-- the two states agree on everything the specification can see -/
structure AbsEq (s t : State) : Prop where
  ev : ∀ c, (s.chans c).events = (t.chans c).events
  rev : ∀ c, (s.chans c).revents = (t.chans c).revents
  added : ∀ c, (s.chans c).added = (t.chans c).added
  hooks : s.hooks = t.hooks
  handling : s.handling = t.handling
  cur : s.cur = t.cur
  active : s.active = t.active
  iteration : s.iteration = t.iteration

structure Sim (s t : State) : Prop where
  bes : s.be = .poll
  bet : t.be = .epoll
  ps : PollStruct s
  es : EpStruct t
  ds : s.dead = false
  dt : t.dead = false
  abs : AbsEq s t
  out : absOut s.out = absOut t.out

theorem absEq_accepts {s t : State} (h : AbsEq s t) (c : Nat) (k : OpKind) : accepts s c k ↔ accepts t c k := by
  cases k <;> simp only [accepts, removeOk, recreateOk, h.ev c, h.added c, h.handling, h.cur, h.active]

theorem sim_applyOp {s t : State} (h : Sim s t) (c : Nat) (k : OpKind) :
    Sim (applyOp s c k) (applyOp t c k) := by
  obtain ⟨ps', ds', _⟩ := pollStruct_applyOp h.bes h.ps c k
  obtain ⟨es', dt', _⟩ := epStruct_applyOp h.bet h.es c k
  have ds'' := ds'.trans h.ds
  have dt'' := dt'.trans h.dt
  refine ⟨(applyOp_be s c k).trans h.bes, (applyOp_be t c k).trans h.bet, ps', es', ds'', dt'', ?_, ?_⟩
  · rcases applyOp_cases s c k with ⟨hd, _⟩ | ⟨_, hacc, h1⟩ | ⟨_, hacc, h1⟩
    · rw [h.ds] at hd; exact absurd hd (by simp)
    · rw [h1, applyOp_reject h.dt (fun a => hacc ((absEq_accepts h.abs c k).2 a))]
      exact ⟨h.abs.ev, h.abs.rev, h.abs.added, h.abs.hooks, h.abs.handling, h.abs.cur, h.abs.active,
        h.abs.iteration⟩
    · have h2 := applyOp_opStep h.dt ((absEq_accepts h.abs c k).1 hacc)
      refine ⟨fun x => ?_, fun x => ?_, fun x => ?_, ?_, ?_, ?_, ?_, ?_⟩
      · rw [h1.ev x, h2.ev x, h.abs.ev c, h.abs.ev x]
      · rw [h1.rev x, h2.rev x, h.abs.rev c, h.abs.rev x]
      · rw [h1.added x, h2.added x, h.abs.added x]
      · rw [h1.hooks, h2.hooks, h.abs.hooks]
      · rw [h1.handling, h2.handling, h.abs.handling]
      · rw [h1.cur, h2.cur, h.abs.cur]
      · rw [h1.active, h2.active, h.abs.active]
      · rw [h1.iteration, h2.iteration, h.abs.iteration]
  · rcases applyOp_cases s c k with ⟨hd, _⟩ | ⟨_, hacc, h1⟩ | ⟨_, hacc, h1⟩
    · rw [h.ds] at hd; exact absurd hd (by simp)
    · rw [h1, applyOp_reject h.dt (fun a => hacc ((absEq_accepts h.abs c k).2 a))]
      simp only [emit, absOut_append, h.out]
    · have h2 := applyOp_opStep h.dt ((absEq_accepts h.abs c k).1 hacc)
      obtain ⟨l1, hl1, ha1, _⟩ := h1.out
      obtain ⟨l2, hl2, ha2, _⟩ := h2.out
      rw [(ha1 ds'').2, (ha2 dt'').2]
      simp only [absOut_append, absOut_back l1 hl1, absOut_back l2 hl2, h.out, List.append_nil]
      congr 1
      simp only [absOut, List.filterMap_cons, Ev.strip, List.filterMap_nil]
      rw [h1.ev c, h2.ev c, h.abs.ev c]

theorem sim_foldl_ops (hs : List Hook) : ∀ (s t : State), Sim s t →
    Sim (hs.foldl (fun s h => applyOp s h.c h.op) s) (hs.foldl (fun s h => applyOp s h.c h.op) t) := by
  induction hs with
  | nil => intro s t h; exact h
  | cons x rest ih =>
    intro s t h
    simp only [List.foldl_cons]
    exact ih _ _ (sim_applyOp h x.c x.op)

theorem Sim.setHooks {s t : State} (h : Sim s t) (hooks : List Hook) :
    Sim { s with hooks := hooks } { t with hooks := hooks } :=
  ⟨h.bes, h.bet, h.ps.congr rfl rfl (fun _ => rfl) (fun _ => rfl) (fun _ => rfl),
    h.es.congr rfl rfl (fun _ => rfl) (fun _ => rfl) (fun _ => rfl), h.ds, h.dt,
    ⟨h.abs.ev, h.abs.rev, h.abs.added, rfl, h.abs.handling, h.abs.cur, h.abs.active, h.abs.iteration⟩, h.out⟩

theorem Sim.setCur {s t : State} (h : Sim s t) (cur : Option Nat) :
    Sim { s with cur := cur } { t with cur := cur } :=
  ⟨h.bes, h.bet, h.ps.congr rfl rfl (fun _ => rfl) (fun _ => rfl) (fun _ => rfl),
    h.es.congr rfl rfl (fun _ => rfl) (fun _ => rfl) (fun _ => rfl), h.ds, h.dt,
    ⟨h.abs.ev, h.abs.rev, h.abs.added, h.abs.hooks, h.abs.handling, rfl, h.abs.active, h.abs.iteration⟩, h.out⟩

theorem sim_runHooks {s t : State} (h : Sim s t) (j : Nat) (k : Kind) :
    Sim (runHooks s j k) (runHooks t j k) := by
  unfold runHooks
  rw [← h.abs.hooks]
  exact sim_foldl_ops _ _ _ (h.setHooks _)

theorem sim_emit_cb {s t : State} (h : Sim s t) (c : Nat) (k : Kind) :
    Sim (emit s (.cb c k (s.chans c).revents (s.chans c).events))
      (emit t (.cb c k (t.chans c).revents (t.chans c).events)) := by
  refine ⟨h.bes, h.bet, h.ps.congr rfl rfl (fun _ => rfl) (fun _ => rfl) (fun _ => rfl),
    h.es.congr rfl rfl (fun _ => rfl) (fun _ => rfl) (fun _ => rfl), h.ds, h.dt,
    ⟨h.abs.ev, h.abs.rev, h.abs.added, h.abs.hooks, h.abs.handling, h.abs.cur, h.abs.active, h.abs.iteration⟩,
    ?_⟩
  simp only [emit, absOut_append, h.out, h.abs.rev c, h.abs.ev c]

theorem sim_stage (k : Kind) {s t : State} (h : Sim s t) (c : Nat) :
    Sim (stage k s c) (stage k t c) := by
  unfold stage
  simp only [h.ds, h.dt, Bool.false_eq_true, if_false]
  rw [← h.abs.rev c, ← h.abs.ev c]
  split
  · exact sim_runHooks (sim_emit_cb h c k) c k
  · exact h

theorem sim_handleEvent {s t : State} (h : Sim s t) (c : Nat) :
    Sim (handleEvent s c) (handleEvent t c) := by
  unfold handleEvent
  exact sim_stage .write (sim_stage .read (sim_stage .error (sim_stage .close h c) c) c) c

theorem sim_dispatch (act : List Nat) : ∀ (s t : State), Sim s t →
    Sim (dispatch s act) (dispatch t act) := by
  induction act with
  | nil => intro s t h; exact h
  | cons c rest ih =>
    intro s t h
    unfold dispatch
    simp only [List.foldl_cons]
    exact ih _ _ (sim_handleEvent (h.setCur (some c)) c)

/-! ### what the two `fillActiveChannels` store -/

theorem lookupRev_cons (c0 r0 : Nat) (rest : List (Nat × Nat)) (c : Nat) :
    lookupRev ((c0, r0) :: rest) c = if c0 = c then r0 else lookupRev rest c := by
  unfold lookupRev
  rw [List.find?_cons]
  by_cases h : c0 = c <;> simp [h]

theorem epollFill_spec (ready : List (Nat × Nat)) :
    ∀ (s : State) (acc : List Nat), (∀ p ∈ ready, s.cmap (fdOf p.1) = some p.1) →
      (ready.map (·.1)).Nodup →
      (epollFill s ready acc).2 = acc.reverse ++ ready.map (·.1) ∧
      ∀ c, ((epollFill s ready acc).1.chans c).revents =
        if c ∈ ready.map (·.1) then lookupRev ready c else (s.chans c).revents := by
  induction ready with
  | nil => intro s acc _ _; simp [epollFill]
  | cons p rest ih =>
    intro s acc h hnd
    obtain ⟨c0, r0⟩ := p
    have hc : s.cmap (fdOf c0) = some c0 := h (c0, r0) (by simp)
    simp only [List.map_cons, List.nodup_cons] at hnd
    simp only [epollFill, hc, ne_eq, not_true_eq_false, if_false]
    obtain ⟨h1, h2⟩ := ih (setChan s c0 { s.chans c0 with revents := r0 }) (c0 :: acc)
      (fun q hq => by simpa [setChan] using h q (by simp [hq])) hnd.2
    refine ⟨by rw [h1]; simp, fun c => ?_⟩
    rw [h2 c, lookupRev_cons]
    by_cases hcc : c0 = c
    · subst hcc
      simp [hnd.1, setChan]
    · have hcc' : ¬ c = c0 := fun e => hcc e.symm
      have hm : (c ∈ List.map (·.1) ((c0, r0) :: rest)) ↔ c ∈ List.map (·.1) rest := by
        rw [List.map_cons, List.mem_cons]; exact ⟨fun h => h.resolve_left hcc', .inr⟩
      simp only [hcc, hcc', setChan, if_false]
      by_cases hmem : c ∈ List.map (·.1) rest
      · rw [if_pos hmem, if_pos (hm.2 hmem)]
      · rw [if_neg hmem, if_neg (fun x => hmem (hm.1 x))]

theorem pollRev_entry {ready : List (Nat × Nat)} {e d : Nat} (h : 0 ≤ (entryOf e d).1) :
    pollRev ready (entryOf e d) = lookupRev ready d := by
  have hfst := (entryOf_nonneg h).2
  unfold pollRev
  rw [if_neg (by omega), hfst]
  unfold fdOf; simp

theorem pollFill_spec (ready : List (Nat × Nat)) :
    ∀ (pfds : List (Int × Nat)) (s : State) (n : Nat) (acc : List Nat), PollStruct s →
      (∀ pfd ∈ pfds, pfd ∈ s.pollfds) →
      ∃ new, (pollFill s ready pfds n acc).2 = acc.reverse ++ new ∧
        ∀ c, ((pollFill s ready pfds n acc).1.chans c).revents =
          if c ∈ new then lookupRev ready c else (s.chans c).revents := by
  intro pfds
  induction pfds with
  | nil => intro s n acc _ _; exact ⟨[], by simp [pollFill], by simp [pollFill]⟩
  | cons pfd rest ih =>
    intro s n acc hs hsub
    cases n with
    | zero => exact ⟨[], by simp [pollFill], by simp [pollFill]⟩
    | succ n =>
      rw [pollFill_cons]
      by_cases hact : pollActive (pollRev ready pfd : Int)
      · rw [if_pos hact]
        obtain ⟨d, hd1, hd2, hd3⟩ := hs.slot (hsub pfd (by simp))
        have hnn := pollActive_pos hact
        rw [hd2] at hnn
        have hfst := (entryOf_nonneg hnn).2
        have hcm : s.cmap pfd.1 = some d := by rw [hd2, hfst]; exact hd3
        have hrev : pollRev ready pfd = lookupRev ready d := by rw [hd2]; exact pollRev_entry hnn
        rw [hcm]
        simp only
        obtain ⟨new, h1, h2⟩ := ih (setChan s d { s.chans d with revents := pollRev ready pfd }) n (d :: acc)
          (hs.frame (frame_revents s d _)) (fun p hp => hsub p (by simp [hp]))
        refine ⟨d :: new, by rw [h1]; simp, fun c => ?_⟩
        rw [h2 c]
        by_cases hcd : c = d
        · subst hcd
          by_cases hm : c ∈ new <;> simp [hm, setChan, hrev]
        · simp [hcd, setChan]
      · rw [if_neg hact]
        exact ih s (n + 1) acc hs (fun p hp => hsub p (by simp [hp]))

/-- `Poller::poll` leaves the loop's own bookkeeping alone -/
structure SameBook (s t : State) : Prop where
  hooks : t.hooks = s.hooks
  handling : t.handling = s.handling
  cur : t.cur = s.cur
  active : t.active = s.active
  iteration : t.iteration = s.iteration

theorem SameBook.rfl' (s : State) : SameBook s s := ⟨rfl, rfl, rfl, rfl, rfl⟩

theorem SameBook.trans {a b c : State} (f : SameBook a b) (g : SameBook b c) : SameBook a c :=
  ⟨g.hooks.trans f.hooks, g.handling.trans f.handling, g.cur.trans f.cur, g.active.trans f.active,
    g.iteration.trans f.iteration⟩

theorem sameBook_pollFill (ready : List (Nat × Nat)) (pfds : List (Int × Nat)) :
    ∀ (s : State) (n : Nat) (acc : List Nat), SameBook s (pollFill s ready pfds n acc).1 := by
  induction pfds with
  | nil => intro s n acc; simp only [pollFill]; exact SameBook.rfl' s
  | cons pfd rest ih =>
    intro s n acc
    cases n with
    | zero => simp only [pollFill]; exact SameBook.rfl' s
    | succ n =>
      rw [pollFill_cons]
      by_cases h : pollActive (pollRev ready pfd : Int)
      · rw [if_pos h]
        cases hc : s.cmap pfd.1 with
        | none => exact ⟨rfl, rfl, rfl, rfl, rfl⟩
        | some c =>
          exact SameBook.trans (b := setChan s c { s.chans c with revents := pollRev ready pfd })
            ⟨rfl, rfl, rfl, rfl, rfl⟩ (ih _ _ _)
      · rw [if_neg h]; exact ih _ _ _

theorem sameBook_epollFill (ready : List (Nat × Nat)) :
    ∀ (s : State) (acc : List Nat), SameBook s (epollFill s ready acc).1 := by
  induction ready with
  | nil => intro s acc; simp only [epollFill]; exact SameBook.rfl' s
  | cons p rest ih =>
    intro s acc
    obtain ⟨c, rev⟩ := p
    simp only [epollFill]
    split
    · exact ⟨rfl, rfl, rfl, rfl, rfl⟩
    · exact SameBook.trans (b := setChan s c { s.chans c with revents := rev })
        ⟨rfl, rfl, rfl, rfl, rfl⟩ (ih _ _)

theorem sameBook_pollerPoll (s : State) (ready) (nret) : SameBook s (pollerPoll s ready nret).1 := by
  unfold pollerPoll
  cases s.be with
  | poll =>
    simp only
    split
    · exact SameBook.trans (b := emit s (.wait s.pollfds.length kPollTimeMs)) ⟨rfl, rfl, rfl, rfl, rfl⟩
        (sameBook_pollFill _ _ _ _ _)
    · exact ⟨rfl, rfl, rfl, rfl, rfl⟩
  | epoll =>
    simp only
    split
    · split
      · exact ⟨rfl, rfl, rfl, rfl, rfl⟩
      · have h := sameBook_epollFill ready (emit s (.wait s.evsize kPollTimeMs)) []
        generalize epollFill (emit s (.wait s.evsize kPollTimeMs)) ready [] = p at h
        obtain ⟨s1, act⟩ := p
        simp only at h ⊢
        split
        · exact SameBook.trans (b := emit s (.wait s.evsize kPollTimeMs)) ⟨rfl, rfl, rfl, rfl, rfl⟩
            (SameBook.trans h ⟨rfl, rfl, rfl, rfl, rfl⟩)
        · exact SameBook.trans (b := emit s (.wait s.evsize kPollTimeMs)) ⟨rfl, rfl, rfl, rfl, rfl⟩ h
    · exact ⟨rfl, rfl, rfl, rfl, rfl⟩


theorem pollerPoll_poll_spec {s : State} (hbe : s.be = .poll) (hs : PollStruct s) (ready) (nret) :
    ∀ c, ((pollerPoll s ready nret).1.chans c).revents =
      if c ∈ (pollerPoll s ready nret).2 then lookupRev ready c else (s.chans c).revents := by
  unfold pollerPoll
  rw [hbe]
  simp only
  split
  · obtain ⟨new, h1, h2⟩ := pollFill_spec ready (emit s (.wait s.pollfds.length kPollTimeMs)).pollfds
      (emit s (.wait s.pollfds.length kPollTimeMs)) nret [] (hs.frame (frame_wait s _)) (fun p hp => hp)
    intro c
    rw [h1]; exact h2 c
  · intro c; rfl

theorem pollerPoll_epoll_spec {t : State} (hbe : t.be = .epoll) (hs : EpStruct t) (ready) (nret)
    (henv : epEnvOk t (.iter ready nret)) (hnd : (ready.map (·.1)).Nodup) :
    (pollerPoll t ready nret).2 = ready.map (·.1) ∧
    ∀ c, ((pollerPoll t ready nret).1.chans c).revents =
      if c ∈ ready.map (·.1) then lookupRev ready c else (t.chans c).revents := by
  obtain ⟨h1, h2, h3⟩ := henv hbe
  unfold pollerPoll
  rw [hbe]
  simp only
  have hn : ¬ (ready.length > (emit t (.wait t.evsize kPollTimeMs)).evsize ∨ nret ≠ ready.length) := by
    simp only [emit]; omega
  by_cases hz : epHasEvents (nret : Int)
  · rw [if_pos hz, if_neg hn]
    obtain ⟨e1, e2⟩ := epollFill_spec ready (emit t (.wait t.evsize kPollTimeMs)) []
      (fun p hp => (hs.kernel_cmap (h3 p hp)).1) hnd
    generalize epollFill (emit t (.wait t.evsize kPollTimeMs)) ready [] = r at e1 e2
    obtain ⟨s1, act⟩ := r
    simp only at e1 e2 ⊢
    split
    · exact ⟨by simpa using e1, fun c => by simpa [emit] using e2 c⟩
    · exact ⟨by simpa using e1, fun c => by simpa [emit] using e2 c⟩
  · rw [if_neg hz]
    have : ready = [] := by
      unfold epHasEvents at hz
      cases ready with
      | nil => rfl
      | cons a b => simp at h1; omega
    subst this
    exact ⟨rfl, fun c => by simp [emit]⟩

/-- what `same_callbacks` asks of one input: for an iteration, a well-behaved kernel that reports every
descriptor at most once, and both pollers handing the loop the same active list -/
def simEnvOk (sp se : State) : In → Prop
  | .iter ready nret =>
    epEnvOk se (.iter ready nret) ∧ (ready.map (·.1)).Nodup ∧
      (pollerPoll sp ready nret).2 = (pollerPoll se ready nret).2
  | _ => True
instance : Decidable (simEnvOk sp se i) := by cases i <;> unfold simEnvOk <;> infer_instance

/-- every input of the history, applied to both loops, satisfies `Q` in the states it is applied to -/
def Along2 (Q : State → State → In → Prop) : State → State → List In → Prop
  | _, _, [] => True
  | s, t, i :: rest => Q s t i ∧ Along2 Q (step s i) (step t i) rest

instance decAlong2 {Q : State → State → In → Prop} [∀ s t i, Decidable (Q s t i)] :
    ∀ (s t : State) (ins : List In), Decidable (Along2 Q s t ins)
  | _, _, [] => isTrue trivial
  | s, t, i :: rest => @instDecidableAnd _ _ _ (decAlong2 (step s i) (step t i) rest)

theorem sim_poll {s t : State} (h : Sim s t) (ready) (nret)
    (henv : simEnvOk s t (.iter ready nret)) :
    Sim (pollerPoll s ready nret).1 (pollerPoll t ready nret).1 := by
  obtain ⟨he, hnd, hact⟩ := henv
  have fs := frame_pollerPoll s ready nret
  have ft := frame_pollerPoll t ready nret
  have bs := sameBook_pollerPoll s ready nret
  have bt := sameBook_pollerPoll t ready nret
  have hds := (pollGood_poll s ready nret ⟨h.bes, h.ds, h.ps⟩).2.1
  have hdt := (epAlive_poll t ready nret ⟨⟨h.bet, h.es⟩, h.dt⟩ he).2
  obtain ⟨ls, hls, hps, _⟩ := fs.out
  obtain ⟨lt, hlt, hpt, _⟩ := ft.out
  have hp := pollerPoll_poll_spec h.bes h.ps ready nret
  obtain ⟨e1, e2⟩ := pollerPoll_epoll_spec h.bet h.es ready nret he hnd
  refine ⟨fs.be.trans h.bes, ft.be.trans h.bet, h.ps.frame fs, h.es.frame ft, hds, hdt, ?_, ?_⟩
  · refine ⟨fun c => ?_, fun c => ?_, fun c => ?_, ?_, ?_, ?_, ?_, ?_⟩
    · rw [fs.ev, ft.ev, h.abs.ev]
    · rw [hp c, e2 c, hact, e1, h.abs.rev]
    · rw [fs.added, ft.added, h.abs.added]
    · rw [bs.hooks, bt.hooks, h.abs.hooks]
    · rw [bs.handling, bt.handling, h.abs.handling]
    · rw [bs.cur, bt.cur, h.abs.cur]
    · rw [bs.active, bt.active, h.abs.active]
    · rw [bs.iteration, bt.iteration, h.abs.iteration]
  · rw [hls, hlt, absOut_append, absOut_append, absOut_plumb ls hps, absOut_plumb lt hpt, h.out]

theorem Sim.beginIter {s t : State} (h : Sim s t) (act : List Nat) :
    Sim { s with iteration := s.iteration + 1, active := act, handling := true }
      { t with iteration := t.iteration + 1, active := act, handling := true } :=
  ⟨h.bes, h.bet, h.ps.congr rfl rfl (fun _ => rfl) (fun _ => rfl) (fun _ => rfl),
    h.es.congr rfl rfl (fun _ => rfl) (fun _ => rfl) (fun _ => rfl), h.ds, h.dt,
    ⟨h.abs.ev, h.abs.rev, h.abs.added, h.abs.hooks, rfl, h.abs.cur, rfl,
      congrArg (· + 1) h.abs.iteration⟩, h.out⟩

theorem Sim.endIter {s t : State} (h : Sim s t) :
    Sim { s with cur := none, handling := false } { t with cur := none, handling := false } :=
  ⟨h.bes, h.bet, h.ps.congr rfl rfl (fun _ => rfl) (fun _ => rfl) (fun _ => rfl),
    h.es.congr rfl rfl (fun _ => rfl) (fun _ => rfl) (fun _ => rfl), h.ds, h.dt,
    ⟨h.abs.ev, h.abs.rev, h.abs.added, h.abs.hooks, rfl, rfl, h.abs.active, h.abs.iteration⟩,
    h.out⟩

theorem sim_iter {s t : State} (h : Sim s t) (ready) (nret) (henv : simEnvOk s t (.iter ready nret)) :
    Sim (iter s ready nret) (iter t ready nret) := by
  have h1 := sim_poll h ready nret henv
  have hact := henv.2.2
  rw [iter_eq, if_neg (by simp [h.ds]), if_neg (by simp [h1.ds])]
  rw [iter_eq, if_neg (by simp [h.dt]), if_neg (by simp [h1.dt]), ← hact]
  exact (sim_dispatch _ _ _ (h1.beginIter _)).endIter

/-- both loops run the same history -/
theorem sim_run (ins : List In) : ∀ (s t : State), Sim s t → Along2 simEnvOk s t ins →
    Sim (run s ins) (run t ins) := by
  induction ins with
  | nil => intro s t h _; exact h
  | cons i rest ih =>
    intro s t h ha
    obtain ⟨hq, ha'⟩ := ha
    refine ih (step s i) (step t i) ?_ ha'
    cases i with
    | op c k => exact sim_applyOp h c k
    | hook x =>
      simp only [step]
      rw [if_neg (by simp [h.ds]), if_neg (by simp [h.dt]), ← h.abs.hooks]
      exact h.setHooks (s.hooks ++ [x])
    | iter ready nret => exact sim_iter h ready nret hq

theorem sim_init : Sim (init .poll) (init .epoll) := by
  refine ⟨rfl, rfl, pollGood_init.2.2, epGood_init.2, (init_chans .poll 0).2.2.1, (init_chans .epoll 0).2.2.1,
    ⟨fun c => ?_, fun c => ?_, fun c => ?_, rfl, rfl, rfl, rfl, rfl⟩, rfl⟩
  · rw [(init_chans .poll c).1, (init_chans .epoll c).1]
  · rw [(init_chans .poll c).2.2.2, (init_chans .epoll c).2.2.2]
  · rw [(init_chans .poll c).2.1, (init_chans .epoll c).2.1]

end MuduoVerif.Poller
