import MuduoVerif.Proofs.ConnFresh
import MuduoVerif.Proofs.ConnLife
import MuduoVerif.Proofs.ConnCb
/-!
C01, receive direction: what the peer wrote reaches the input buffer complete and in order, and
the message callback is shown exactly the unconsumed tail of it.
-/
namespace MuduoVerif.Conn
open MuduoVerif.Gen.Conn

structure ReadInv (c : Conn) : Prop where
  /-- nothing the peer wrote is lost, duplicated or reordered on its way into the input buffer -/
  all : c.delivered ++ c.peerPending = c.peerAll
  /-- what the message callback sees is exactly the not yet retrieved tail of what was delivered -/
  tail : c.inBuf <:+ c.delivered

/-- `c'` has the same receive-side fields as `c` -/
structure SameRd (c c' : Conn) : Prop where
  delivered : c'.delivered = c.delivered
  peerPending : c'.peerPending = c.peerPending
  peerAll : c'.peerAll = c.peerAll
  inBuf : c'.inBuf = c.inBuf

theorem SameRd.rfl' (c : Conn) : SameRd c c := ⟨rfl, rfl, rfl, rfl⟩
theorem SameRd.trans {a b c : Conn} (h1 : SameRd a b) (h2 : SameRd b c) : SameRd a c :=
  ⟨h2.delivered.trans h1.delivered, h2.peerPending.trans h1.peerPending, h2.peerAll.trans h1.peerAll,
   h2.inBuf.trans h1.inBuf⟩

theorem ReadInv.frame {c c' : Conn} (hi : ReadInv c) (h : SameRd c c') : ReadInv c' := by
  constructor
  · rw [h.delivered, h.peerPending, h.peerAll]; exact hi.all
  · rw [h.delivered, h.inBuf]; exact hi.tail

theorem popWrite_rd (c : Conn) : SameRd c (popWrite c) := by unfold popWrite; split <;> exact ⟨rfl, rfl, rfl, rfl⟩
theorem popRead_rd (c : Conn) : SameRd c (popRead c) := by unfold popRead; split <;> exact ⟨rfl, rfl, rfl, rfl⟩

theorem queueRemainder_rd (c : Conn) (data : Bytes) (n : Nat) (fault : Bool) : SameRd c (queueRemainder c data n fault) := by
  unfold queueRemainder; simp only []; (repeat' split) <;> exact ⟨rfl, rfl, rfl, rfl⟩

theorem sendDirect_rd (c : Conn) (data : Bytes) (r : WriteRes) : SameRd c (sendDirect c data r) := by
  cases r with
  | took n =>
    simp only [sendDirect]; split
    · exact SameRd.trans (b := enqueue { c with wrote := c.wrote ++ data.take n } (.writeComplete (bindCb wcBindSend c.wcId))) ⟨rfl, rfl, rfl, rfl⟩ (queueRemainder_rd _ _ _ _)
    · exact SameRd.trans (b := { c with wrote := c.wrote ++ data.take n }) ⟨rfl, rfl, rfl, rfl⟩ (queueRemainder_rd _ _ _ _)
  | err e => exact queueRemainder_rd _ _ _ _

theorem sendInLoop_rd (c : Conn) (data : Bytes) (q : Bool) : SameRd c (sendInLoop c data q) := by
  unfold sendInLoop; split
  · exact ⟨rfl, rfl, rfl, rfl⟩
  · split
    · refine SameRd.trans ?_ (sendDirect_rd _ _ _)
      refine SameRd.trans (b := popWrite (accept c data q)) ?_ ⟨rfl, rfl, rfl, rfl⟩
      exact SameRd.trans (b := accept c data q) ⟨rfl, rfl, rfl, rfl⟩ (popWrite_rd _)
    · exact SameRd.trans (b := accept c data q) ⟨rfl, rfl, rfl, rfl⟩ (queueRemainder_rd _ _ _ _)

theorem shutdownInLoop_rd (c : Conn) : SameRd c (shutdownInLoop c) := by
  unfold shutdownInLoop; split <;> exact ⟨rfl, rfl, rfl, rfl⟩
theorem startReadInLoop_rd (c : Conn) : SameRd c (startReadInLoop c) := by
  unfold startReadInLoop; split <;> exact ⟨rfl, rfl, rfl, rfl⟩
theorem stopReadInLoop_rd (c : Conn) : SameRd c (stopReadInLoop c) := by
  unfold stopReadInLoop; split <;> exact ⟨rfl, rfl, rfl, rfl⟩

theorem handOff_rd (c : Conn) (f : Bool) (d : Dispatch) (t : Task) (g : Conn → Conn) (hg : SameRd c (g c)) :
    SameRd c (handOff c f d t g) := by
  unfold handOff; split
  · exact ⟨rfl, rfl, rfl, rfl⟩
  · exact hg

theorem act_rd (c : Conn) (f : Bool) (a : Act) : SameRd c (act c f a) := by
  cases a with
  | send d =>
    simp only [act]; split
    · split
      · exact ⟨rfl, rfl, rfl, rfl⟩
      · exact SameRd.trans (b := { c with offeredL := c.offeredL ++ [d] }) ⟨rfl, rfl, rfl, rfl⟩ (sendInLoop_rd _ _ _)
    · exact SameRd.rfl' c
  | shutdown =>
    simp only [act]; split
    · exact SameRd.trans (b := { c with st := .kDisconnecting }) ⟨rfl, rfl, rfl, rfl⟩ (handOff_rd _ _ _ _ _ (shutdownInLoop_rd _))
    · exact SameRd.rfl' c
  | forceClose =>
    simp only [act]; split
    · exact SameRd.trans (b := { c with st := .kDisconnecting }) ⟨rfl, rfl, rfl, rfl⟩ (handOff_rd _ _ _ _ _ (SameRd.rfl' _))
    · exact SameRd.rfl' c
  | forceCloseDelay us =>
    simp only [act]; split
    · split <;> exact ⟨rfl, rfl, rfl, rfl⟩
    · exact SameRd.rfl' c
  | stopRead => simp only [act]; exact handOff_rd _ _ _ _ _ (stopReadInLoop_rd _)
  | startRead => simp only [act]; exact handOff_rd _ _ _ _ _ (startReadInLoop_rd _)
  | setWc k => exact ⟨rfl, rfl, rfl, rfl⟩
  | setHwm k m => exact ⟨rfl, rfl, rfl, rfl⟩

theorem callback_rd (c : Conn) (k : Cb) (e : Ev) : SameRd c (callback c k e) := by
  unfold callback; split
  · exact SameRd.trans (b := { emit c e with hooks := dropHook k c.hooks }) ⟨rfl, rfl, rfl, rfl⟩ (act_rd _ _ _)
  · exact ⟨rfl, rfl, rfl, rfl⟩

theorem handleClose_rd (c : Conn) : SameRd c (handleClose c) := by
  unfold handleClose; split
  · exact ⟨rfl, rfl, rfl, rfl⟩
  · refine SameRd.trans (b := callback (disableAll { c with st := .kDisconnected }) .down .down) ?_ ⟨rfl, rfl, rfl, rfl⟩
    exact SameRd.trans (b := disableAll { c with st := .kDisconnected }) ⟨rfl, rfl, rfl, rfl⟩ (callback_rd _ _ _)

/-- `readv` results move bytes from the peer's side to the input buffer, in order -/
theorem deliver_read (c : Conn) (n : Nat) (hi : ReadInv c) : ReadInv (deliver c n) := by
  constructor
  · show (c.delivered ++ c.peerPending.take n) ++ c.peerPending.drop n = c.peerAll
    rw [List.append_assoc, List.take_append_drop]; exact hi.all
  · show c.inBuf ++ c.peerPending.take n <:+ c.delivered ++ c.peerPending.take n
    obtain ⟨t, ht⟩ := hi.tail
    exact ⟨t, by rw [← List.append_assoc, ht]⟩

/-- `retrieve` drops a prefix of the input buffer -/
theorem consume_read (c : Conn) (hi : ReadInv c) : ReadInv (consume c) := by
  constructor
  · exact hi.all
  · exact List.IsSuffix.trans (List.drop_suffix _ _) hi.tail

theorem handleReadRes_read (c : Conn) (r : ReadRes) (hi : ReadInv c) : ReadInv (handleReadRes c r) := by
  unfold handleReadRes; split
  · exact hi.frame (handleClose_rd c)
  · simp only []
    apply consume_read
    exact (deliver_read c _ hi).frame (callback_rd _ _ _)
  · exact hi

theorem handleRead_read (c : Conn) (hi : ReadInv c) : ReadInv (handleRead c) := by
  unfold handleRead
  apply handleReadRes_read
  exact hi.frame (SameRd.trans (popRead_rd c) ⟨rfl, rfl, rfl, rfl⟩)

theorem afterDrain_rd (c : Conn) : SameRd c (afterDrain c) := by
  unfold afterDrain; simp only []
  split
  · split
    · exact SameRd.trans (b := enqueue (disableWriting c) (.writeComplete (bindCb wcBindDrain c.wcId))) ⟨rfl, rfl, rfl, rfl⟩ (handOff_rd _ _ _ _ _ (shutdownInLoop_rd _))
    · exact ⟨rfl, rfl, rfl, rfl⟩
  · split
    · exact SameRd.trans (b := disableWriting c) ⟨rfl, rfl, rfl, rfl⟩ (handOff_rd _ _ _ _ _ (shutdownInLoop_rd _))
    · exact ⟨rfl, rfl, rfl, rfl⟩

theorem handleWriteRes_rd (c : Conn) (r : WriteRes) : SameRd c (handleWriteRes c r) := by
  unfold handleWriteRes; split
  · simp only []; split
    · exact SameRd.trans (b := { c with wrote := c.wrote ++ c.outBuf.take _, outBuf := c.outBuf.drop _ }) ⟨rfl, rfl, rfl, rfl⟩ (afterDrain_rd _)
    · exact ⟨rfl, rfl, rfl, rfl⟩
  · exact SameRd.rfl' c

theorem handleWrite_rd (c : Conn) : SameRd c (handleWrite c) := by
  unfold handleWrite; split
  · refine SameRd.trans ?_ (handleWriteRes_rd _ _)
    exact SameRd.trans (popWrite_rd c) ⟨rfl, rfl, rfl, rfl⟩
  · exact SameRd.rfl' c

theorem guarded_read (f : Conn → Conn) (hf : ∀ c, ReadInv c → ReadInv (f c)) (rev : Prop) [Decidable rev]
    (sub : Bool → Bool → Bool → Prop) [∀ a b c, Decidable (sub a b c)] (c : Conn) (hi : ReadInv c) :
    ReadInv (guarded f rev sub c) := by
  unfold guarded; split
  · exact hf c hi
  · exact hi

theorem handleEvent_read (c : Conn) (r : Nat) (hi : ReadInv c) : ReadInv (handleEvent c r) := by
  unfold handleEvent; split
  · exact hi
  · exact guarded_read _ (fun c h => h.frame (handleWrite_rd c)) _ _ _
      (guarded_read _ handleRead_read _ _ _ (guarded_read _ (fun c h => h.frame (handleClose_rd c)) _ _ _ hi))

theorem removeChannel_rd (c : Conn) : SameRd c (removeChannel c) := by
  unfold removeChannel; split <;> exact ⟨rfl, rfl, rfl, rfl⟩

theorem connectDestroyed_rd (c : Conn) : SameRd c (connectDestroyed c) := by
  unfold connectDestroyed; split
  · refine SameRd.trans ?_ (removeChannel_rd _)
    exact SameRd.trans (b := disableAll { c with st := .kDisconnected }) ⟨rfl, rfl, rfl, rfl⟩ (callback_rd _ _ _)
  · exact removeChannel_rd c

theorem connectEstablished_rd (c : Conn) : SameRd c (connectEstablished c) := by
  unfold connectEstablished; split
  · exact ⟨rfl, rfl, rfl, rfl⟩
  · exact SameRd.trans (b := enableReading { c with st := .kConnected }) ⟨rfl, rfl, rfl, rfl⟩ (callback_rd _ _ _)

theorem fireDelay_rd (c : Conn) : SameRd c (fireDelay c) := by
  unfold fireDelay; split
  · exact act_rd _ _ _
  · exact SameRd.rfl' c

theorem fireN_rd (n : Nat) (c : Conn) : SameRd c (fireN c n) := by
  induction n generalizing c with
  | zero => exact SameRd.rfl' c
  | succ n ih => exact SameRd.trans (fireDelay_rd c) (ih _)

theorem fireTimers_rd (c : Conn) : SameRd c (fireTimers c) := by
  unfold fireTimers
  exact SameRd.trans (b := { c with timers := c.timers.filter (fun d => ¬ d ≤ c.now) }) ⟨rfl, rfl, rfl, rfl⟩ (fireN_rd _ _)

theorem runTask_rd (c : Conn) (t : Task) : SameRd c (runTask c t) := by
  unfold runTask; split
  · (repeat' split) <;> exact ⟨rfl, rfl, rfl, rfl⟩
  · cases t with
    | sendInLoop d => exact sendInLoop_rd _ _ _
    | shutdownInLoop => exact shutdownInLoop_rd _
    | drainShutdownInLoop => exact shutdownInLoop_rd _
    | forceCloseInLoop => simp only []; split; exact handleClose_rd _; exact SameRd.rfl' c
    | connectDestroyed => exact connectDestroyed_rd _
    | writeComplete => exact callback_rd _ _ _
    | highWater n => exact callback_rd _ _ _
    | startReadInLoop => exact startReadInLoop_rd _
    | stopReadInLoop => exact stopReadInLoop_rd _
    | addDelayTimer d => exact ⟨rfl, rfl, rfl, rfl⟩

theorem runBatch_rd (n : Nat) (c : Conn) : SameRd c (runBatch n c) := by
  induction n generalizing c with
  | zero => exact SameRd.rfl' c
  | succ n ih =>
    unfold runBatch; split
    · exact SameRd.rfl' c
    · split
      · exact SameRd.rfl' c
      · rename_i t rest _
        exact SameRd.trans (SameRd.trans (b := { c with batch := rest }) ⟨rfl, rfl, rfl, rfl⟩ (runTask_rd _ t)) (ih _)

theorem maybeDestroy_rd (c : Conn) : SameRd c (maybeDestroy c) := by
  unfold maybeDestroy; (repeat' split) <;> exact ⟨rfl, rfl, rfl, rfl⟩

theorem dispatch_read (c : Conn) (s : Src) (hi : ReadInv c) : ReadInv (dispatch c s) := by
  cases s with
  | conn r => simp only [dispatch]; split; exact hi; exact handleEvent_read _ _ hi
  | timer => simp only [dispatch]; split; exact hi; exact hi.frame (fireTimers_rd c)

theorem foldl_dispatch_read (l : List Src) (c : Conn) (hi : ReadInv c) : ReadInv (l.foldl dispatch c) := by
  induction l generalizing c with
  | nil => exact hi
  | cons s rest ih => exact ih _ (dispatch_read _ _ hi)

theorem iter_read (c : Conn) (a : List Src) (hi : ReadInv c) : ReadInv (iter c a) := by
  unfold iter; split
  · exact hi
  · simp only []
    have h1 : ReadInv (drainPending (a.foldl dispatch c)) := by
      unfold drainPending
      exact (foldl_dispatch_read a c hi).frame
        (SameRd.trans (b := { a.foldl dispatch c with pending := [], batch := (a.foldl dispatch c).batch ++ (a.foldl dispatch c).pending })
          ⟨rfl, rfl, rfl, rfl⟩ (runBatch_rd _ _))
    split
    · exact h1
    · exact h1.frame (maybeDestroy_rd _)

theorem step_read (c : Conn) (i : Input) (hi : ReadInv c) : ReadInv (step c i) := by
  cases i with
  | establish => simp only [step]; split; exact hi; exact hi.frame (connectEstablished_rd c)
  | act f a =>
    simp only [step]; split
    · exact hi
    · split <;> exact hi.frame (act_rd _ _ _)
  | iter a => exact iter_read _ _ hi
  | ownerDestroy =>
    simp only [step]; split
    · exact hi
    · exact hi.frame (SameRd.trans (SameRd.trans (b := { connectDestroyed c with owner := false }) (by
        have := connectDestroyed_rd c; exact ⟨this.1, this.2, this.3, this.4⟩) (maybeDestroy_rd _)) (SameRd.rfl' _))
  | hook k a => exact hi.frame ⟨rfl, rfl, rfl, rfl⟩
  | setMark n => exact hi.frame ⟨rfl, rfl, rfl, rfl⟩
  | setRetrieve n => exact hi.frame ⟨rfl, rfl, rfl, rfl⟩
  | peerWrite d =>
    constructor
    · show c.delivered ++ (c.peerPending ++ d) = c.peerAll ++ d
      rw [← List.append_assoc, hi.all]
    · exact hi.tail
  | envWrite r => exact hi.frame ⟨rfl, rfl, rfl, rfl⟩
  | envRead r => exact hi.frame ⟨rfl, rfl, rfl, rfl⟩
  | advance us => exact hi.frame ⟨rfl, rfl, rfl, rfl⟩

theorem run_read (ins : List Input) (c : Conn) (hi : ReadInv c) : ReadInv (run c ins) := by
  induction ins generalizing c with
  | nil => exact hi
  | cons i rest ih => exact ih _ (step_read _ _ hi)

theorem fresh_read (c : Conn) (h : Fresh c) : ReadInv c := by
  constructor
  · rw [h.delivered, h.peerPending, h.peerAll]; rfl
  · rw [h.inBuf]; exact List.nil_suffix

/-- C01 (receive): in every reachable state the bytes appended to the input buffer so far,
followed by what the kernel still holds, are exactly what the peer wrote; and the input buffer
is a suffix of what was appended -/
theorem read_inv (c0 : Conn) (h0 : Fresh c0) (ins : List Input) (_hne : ∀ i ∈ ins, i.notEstablish) :
    let c := run (step c0 .establish) ins
    c.delivered ++ c.peerPending = c.peerAll ∧ c.inBuf <:+ c.delivered := by
  intro c
  have := run_read ins _ (step_read c0 .establish (fresh_read c0 h0))
  exact ⟨this.all, this.tail⟩

/-- `c'` differs from `c` at most in `reading` and in the channel (interest set, poller slot) -/
structure SameButInterest (c c' : Conn) : Prop where
  inBuf : c'.inBuf = c.inBuf
  outBuf : c'.outBuf = c.outBuf
  delivered : c'.delivered = c.delivered
  peerPending : c'.peerPending = c.peerPending
  peerAll : c'.peerAll = c.peerAll
  accepted : c'.accepted = c.accepted
  blocks : c'.blocks = c.blocks
  wrote : c'.wrote = c.wrote
  pending : c'.pending = c.pending
  batch : c'.batch = c.batch
  timers : c'.timers = c.timers
  st : c'.st = c.st
  trace : c'.trace = c.trace
  discarded : c'.discarded = c.discarded
  shutWr : c'.shutWr = c.shutWr
  alive : c'.alive = c.alive
  owner : c'.owner = c.owner
  dead : c'.dead = c.dead
  evWrite : c'.ch.evWrite = c.ch.evWrite

theorem chanUpdate_keeps_evWrite (be : Backend) (ch : Chan) : (chanUpdate be ch).evWrite = ch.evWrite := by
  unfold chanUpdate; (repeat' split) <;> rfl
theorem chanUpdate_keeps_evRead (be : Backend) (ch : Chan) : (chanUpdate be ch).evRead = ch.evRead := by
  unfold chanUpdate; (repeat' split) <;> rfl

/-- `stopRead` / `startRead` touch the read interest only: no byte of either direction, no
queued functor, no state, no write interest -/
theorem stopStart_only_read_interest (c : Conn) :
    SameButInterest c (stopReadInLoop c) ∧ SameButInterest c (startReadInLoop c) := by
  constructor
  · unfold stopReadInLoop; split
    · exact ⟨rfl, rfl, rfl, rfl, rfl, rfl, rfl, rfl, rfl, rfl, rfl, rfl, rfl, rfl, rfl, rfl, rfl, rfl,
        chanUpdate_keeps_evWrite _ _⟩
    · exact ⟨rfl, rfl, rfl, rfl, rfl, rfl, rfl, rfl, rfl, rfl, rfl, rfl, rfl, rfl, rfl, rfl, rfl, rfl, rfl⟩
  · unfold startReadInLoop; split
    · exact ⟨rfl, rfl, rfl, rfl, rfl, rfl, rfl, rfl, rfl, rfl, rfl, rfl, rfl, rfl, rfl, rfl, rfl, rfl,
        chanUpdate_keeps_evWrite _ _⟩
    · exact ⟨rfl, rfl, rfl, rfl, rfl, rfl, rfl, rfl, rfl, rfl, rfl, rfl, rfl, rfl, rfl, rfl, rfl, rfl, rfl⟩

/-- … and what they do to the read interest -/
theorem stopStart_read_interest (c : Conn) (hu : c.st = .kConnected ∨ c.st = .kDisconnecting) :
    (stopReadInLoop c).ch.evRead = false ∧ (stopReadInLoop c).reading = false ∧
    (startReadInLoop c).ch.evRead = true ∧ (startReadInLoop c).reading = true := by
  refine ⟨?_, ?_, ?_, ?_⟩
  · unfold stopReadInLoop; split
    · exact chanUpdate_keeps_evRead _ _
    · rename_i hg
      cases h : c.ch.evRead with
      | false => rfl
      | true => exact absurd ⟨hu, Or.inr h⟩ hg
  · unfold stopReadInLoop; split
    · rfl
    · rename_i hg
      cases h : c.reading with
      | false => rfl
      | true => exact absurd ⟨hu, Or.inl h⟩ hg
  · unfold startReadInLoop; split
    · exact chanUpdate_keeps_evRead _ _
    · rename_i hg
      cases h : c.ch.evRead with
      | true => rfl
      | false => exact absurd ⟨hu, Or.inr (by simp [h])⟩ hg
  · unfold startReadInLoop; split
    · rfl
    · rename_i hg
      cases h : c.reading with
      | true => rfl
      | false => exact absurd ⟨hu, Or.inl (by simp [h])⟩ hg

/-- the message callback is shown the whole unconsumed input, the new bytes included: its
`readable` and content hash are those of `inBuf ++` the bytes just read -/
theorem msg_sees_tail (c : Conn) (n : Nat) :
    let seen := c.inBuf ++ c.peerPending.take (n+1)
    c.trace ++ [Ev.msg seen.length (fnv64 seen)] <+: (handleReadRes c (.got (n+1))).trace := by
  intro seen
  simp only [handleReadRes]
  obtain ⟨s, hs, -⟩ := callback_trace (deliver c (n+1)) .msg (.msg (deliver c (n+1)).inBuf.length (fnv64 (deliver c (n+1)).inBuf))
  show _ <+: (callback (deliver c (n+1)) .msg (.msg (deliver c (n+1)).inBuf.length (fnv64 (deliver c (n+1)).inBuf))).trace
  rw [hs]
  exact ⟨s, by simp [deliver, seen]⟩

/-! ### the statements are not vacuous -/

example : Fresh ({} : Conn) := fresh_default .epoll true true true (64 * 1024 * 1024) (1 <<< 40) [] [] []

/-- the peer writes 5 bytes in two pieces, one `readv` gets 4, the callback retrieves 2 -/
example :
    let c := run (step {} .establish) [.setRetrieve 2, .peerWrite [1,2,3], .peerWrite [4,5], .envRead (.got 4), .iter [.conn 1]]
    c.delivered = [1,2,3,4] ∧ c.peerPending = [5] ∧ c.peerAll = [1,2,3,4,5] ∧ c.inBuf = [3,4]
      ∧ c.trace = [.up, .sysReadv (.got 4), .msg 4 (fnv64 [1,2,3,4])] := by decide

end MuduoVerif.Conn
