import MuduoVerif.Generated.LoopSkel
import MuduoVerif.Generated.Loop
import MuduoVerif.Model.LoopSkelDecl
/-!
# T1 tie for the event-loop family: statement order of `EventLoop.cc`, `EventLoopThread.cc`, `EventLoopThreadPool.cc`,
`Acceptor.cc` and the constructor / destructor of `Channel.cc`

`Gen.LoopSkel.<fn>` is the statement skeleton `vlib/gen/loopskel.py` extracts from /repo's current sources on every run;
`Decl.<fn>` (`Model/LoopSkelDecl.lean`) is what the steps of `Model/Loop.lean`, `Pool.lean`, `Acceptor.lean`, `Poller.lean`
and `Timer.lean` assume of that function.  Each `skeleton_<fn>` is closed by `decide`: it holds exactly as long as the
source performs the same calls (with the same printed arguments), stores, lock / unlock positions, log statements of
level ERROR and above, assertions and returns, in the same order, under the same nesting of the same printed conditions
and loops.

The READING LEMMAS below state, as kernel-checked facts about the EXTRACTED skeletons (not the declared ones), the
orders the properties rest on - so that what a property depends on is written down next to it and not only implied by a
37-fold equality.  The property modules re-export them: `C04.loop_statement_order_tied`,
`C05.loopthread_statement_order_tied`, `C06.timer_api_statement_order_tied`, `C09.channel_lifecycle_statement_order_tied`,
`C11.acceptor_statement_order_tied`.
-/
namespace MuduoVerif.LoopSkel
open MuduoVerif.SysSkel

set_option maxRecDepth 8192

/-! ## Every extracted skeleton is the declared one -/

theorem skeleton_ignoreSigPipeCtor : Gen.LoopSkel.ignoreSigPipeCtor = Decl.ignoreSigPipeCtor := by decide
theorem skeleton_getEventLoopOfCurrentThread :
    Gen.LoopSkel.getEventLoopOfCurrentThread = Decl.getEventLoopOfCurrentThread := by decide
theorem skeleton_loopCtor : Gen.LoopSkel.loopCtor = Decl.loopCtor := by decide
theorem skeleton_loopDtor : Gen.LoopSkel.loopDtor = Decl.loopDtor := by decide
theorem skeleton_loopFn : Gen.LoopSkel.loopFn = Decl.loopFn := by decide
theorem skeleton_quit : Gen.LoopSkel.quit = Decl.quit := by decide
theorem skeleton_runInLoop : Gen.LoopSkel.runInLoop = Decl.runInLoop := by decide
theorem skeleton_queueInLoop : Gen.LoopSkel.queueInLoop = Decl.queueInLoop := by decide
theorem skeleton_queueSize : Gen.LoopSkel.queueSize = Decl.queueSize := by decide
theorem skeleton_runAt : Gen.LoopSkel.runAt = Decl.runAt := by decide
theorem skeleton_runAfter : Gen.LoopSkel.runAfter = Decl.runAfter := by decide
theorem skeleton_runEvery : Gen.LoopSkel.runEvery = Decl.runEvery := by decide
theorem skeleton_cancel : Gen.LoopSkel.cancel = Decl.cancel := by decide
theorem skeleton_updateChannel : Gen.LoopSkel.updateChannel = Decl.updateChannel := by decide
theorem skeleton_removeChannel : Gen.LoopSkel.removeChannel = Decl.removeChannel := by decide
theorem skeleton_hasChannel : Gen.LoopSkel.hasChannel = Decl.hasChannel := by decide
theorem skeleton_abortNotInLoopThread : Gen.LoopSkel.abortNotInLoopThread = Decl.abortNotInLoopThread := by decide
theorem skeleton_wakeup : Gen.LoopSkel.wakeup = Decl.wakeup := by decide
theorem skeleton_handleRead : Gen.LoopSkel.handleRead = Decl.handleRead := by decide
theorem skeleton_doPendingFunctors : Gen.LoopSkel.doPendingFunctors = Decl.doPendingFunctors := by decide
theorem skeleton_printActiveChannels : Gen.LoopSkel.printActiveChannels = Decl.printActiveChannels := by decide
theorem skeleton_threadCtor : Gen.LoopSkel.threadCtor = Decl.threadCtor := by decide
theorem skeleton_threadDtor : Gen.LoopSkel.threadDtor = Decl.threadDtor := by decide
theorem skeleton_startLoop : Gen.LoopSkel.startLoop = Decl.startLoop := by decide
theorem skeleton_threadFunc : Gen.LoopSkel.threadFunc = Decl.threadFunc := by decide
theorem skeleton_poolCtor : Gen.LoopSkel.poolCtor = Decl.poolCtor := by decide
theorem skeleton_poolDtor : Gen.LoopSkel.poolDtor = Decl.poolDtor := by decide
theorem skeleton_poolStart : Gen.LoopSkel.poolStart = Decl.poolStart := by decide
theorem skeleton_getNextLoop : Gen.LoopSkel.getNextLoop = Decl.getNextLoop := by decide
theorem skeleton_getLoopForHash : Gen.LoopSkel.getLoopForHash = Decl.getLoopForHash := by decide
theorem skeleton_getAllLoops : Gen.LoopSkel.getAllLoops = Decl.getAllLoops := by decide
theorem skeleton_acceptorCtor : Gen.LoopSkel.acceptorCtor = Decl.acceptorCtor := by decide
theorem skeleton_acceptorDtor : Gen.LoopSkel.acceptorDtor = Decl.acceptorDtor := by decide
theorem skeleton_acceptorListen : Gen.LoopSkel.acceptorListen = Decl.acceptorListen := by decide
theorem skeleton_acceptorHandleRead : Gen.LoopSkel.acceptorHandleRead = Decl.acceptorHandleRead := by decide
theorem skeleton_channelCtor : Gen.LoopSkel.channelCtor = Decl.channelCtor := by decide
theorem skeleton_channelDtor : Gen.LoopSkel.channelDtor = Decl.channelDtor := by decide

/-- `EventLoop.cc` (everything but `createEventfd`: `SysSkel.skeleton_createEventfd`) -/
theorem skeletons_agree_loop :
    Gen.LoopSkel.ignoreSigPipeCtor = Decl.ignoreSigPipeCtor ∧
    Gen.LoopSkel.getEventLoopOfCurrentThread = Decl.getEventLoopOfCurrentThread ∧
    Gen.LoopSkel.loopCtor = Decl.loopCtor ∧
    Gen.LoopSkel.loopDtor = Decl.loopDtor ∧
    Gen.LoopSkel.loopFn = Decl.loopFn ∧
    Gen.LoopSkel.quit = Decl.quit ∧
    Gen.LoopSkel.runInLoop = Decl.runInLoop ∧
    Gen.LoopSkel.queueInLoop = Decl.queueInLoop ∧
    Gen.LoopSkel.queueSize = Decl.queueSize ∧
    Gen.LoopSkel.runAt = Decl.runAt ∧
    Gen.LoopSkel.runAfter = Decl.runAfter ∧
    Gen.LoopSkel.runEvery = Decl.runEvery ∧
    Gen.LoopSkel.cancel = Decl.cancel ∧
    Gen.LoopSkel.updateChannel = Decl.updateChannel ∧
    Gen.LoopSkel.removeChannel = Decl.removeChannel ∧
    Gen.LoopSkel.hasChannel = Decl.hasChannel ∧
    Gen.LoopSkel.abortNotInLoopThread = Decl.abortNotInLoopThread ∧
    Gen.LoopSkel.wakeup = Decl.wakeup ∧
    Gen.LoopSkel.handleRead = Decl.handleRead ∧
    Gen.LoopSkel.doPendingFunctors = Decl.doPendingFunctors ∧
    Gen.LoopSkel.printActiveChannels = Decl.printActiveChannels :=
  ⟨skeleton_ignoreSigPipeCtor, skeleton_getEventLoopOfCurrentThread, skeleton_loopCtor, skeleton_loopDtor,
   skeleton_loopFn, skeleton_quit, skeleton_runInLoop, skeleton_queueInLoop, skeleton_queueSize, skeleton_runAt,
   skeleton_runAfter, skeleton_runEvery, skeleton_cancel, skeleton_updateChannel, skeleton_removeChannel,
   skeleton_hasChannel, skeleton_abortNotInLoopThread, skeleton_wakeup, skeleton_handleRead,
   skeleton_doPendingFunctors, skeleton_printActiveChannels⟩

/-- `EventLoopThread.cc` and `EventLoopThreadPool.cc` -/
theorem skeletons_agree_thread_pool :
    Gen.LoopSkel.threadCtor = Decl.threadCtor ∧
    Gen.LoopSkel.threadDtor = Decl.threadDtor ∧
    Gen.LoopSkel.startLoop = Decl.startLoop ∧
    Gen.LoopSkel.threadFunc = Decl.threadFunc ∧
    Gen.LoopSkel.poolCtor = Decl.poolCtor ∧
    Gen.LoopSkel.poolDtor = Decl.poolDtor ∧
    Gen.LoopSkel.poolStart = Decl.poolStart ∧
    Gen.LoopSkel.getNextLoop = Decl.getNextLoop ∧
    Gen.LoopSkel.getLoopForHash = Decl.getLoopForHash ∧
    Gen.LoopSkel.getAllLoops = Decl.getAllLoops :=
  ⟨skeleton_threadCtor, skeleton_threadDtor, skeleton_startLoop, skeleton_threadFunc, skeleton_poolCtor,
   skeleton_poolDtor, skeleton_poolStart, skeleton_getNextLoop, skeleton_getLoopForHash, skeleton_getAllLoops⟩

/-- `Acceptor.cc` -/
theorem skeletons_agree_acceptor :
    Gen.LoopSkel.acceptorCtor = Decl.acceptorCtor ∧
    Gen.LoopSkel.acceptorDtor = Decl.acceptorDtor ∧
    Gen.LoopSkel.acceptorListen = Decl.acceptorListen ∧
    Gen.LoopSkel.acceptorHandleRead = Decl.acceptorHandleRead :=
  ⟨skeleton_acceptorCtor, skeleton_acceptorDtor, skeleton_acceptorListen, skeleton_acceptorHandleRead⟩

/-- `Channel::Channel`, `Channel::~Channel` -/
theorem skeletons_agree_channel :
    Gen.LoopSkel.channelCtor = Decl.channelCtor ∧ Gen.LoopSkel.channelDtor = Decl.channelDtor :=
  ⟨skeleton_channelCtor, skeleton_channelDtor⟩

/-! ## Reading lemmas: the orders the properties rest on, read off the EXTRACTED skeletons -/

/-! ### (a) - (d): the task queue (C04) -/

/-- **(a) `queueInLoop`: the append is inside the critical section, and the wake-up comes after it** (and after the
mutex is released).  `Model/Loop.lean` has `doAppend` (under `mutex_`) and the wake-up as a LATER step; were the wake-up
first, the loop could wake, swap an empty queue and sleep again with the functor queued (lost wake-up). -/
theorem queueInLoop_append_locked_then_wakeup :
    insideLock "mutex_" (.call "pendingFunctors_.push_back" "cb") (flat Gen.LoopSkel.queueInLoop) = true ∧
    before (.call "pendingFunctors_.push_back" "cb") (.call "wakeup" "") (flat Gen.LoopSkel.queueInLoop) = true ∧
    before (.call "unlock" "mutex_") (.call "wakeup" "") (flat Gen.LoopSkel.queueInLoop) = true ∧
    outsideLock "mutex_" (.call "wakeup" "") (flat Gen.LoopSkel.queueInLoop) = true ∧
    balanced "mutex_" false (flat Gen.LoopSkel.queueInLoop) = true ∧
    onlyUnder "!isInLoopThread() || callingPendingFunctors_ || !looping_" (.call "wakeup" "")
      Gen.LoopSkel.queueInLoop = true := by decide

/-- **(b) `quit`: the flag is stored before the wake-up** (`doQuitStore`, then `stepQuitStored`), and the wake-up is made
exactly when the caller is not the loop thread -/
theorem quit_store_precedes_wakeup :
    before (.store "quit_" "true") (.call "wakeup" "") (flat Gen.LoopSkel.quit) = true ∧
    onlyUnder "!isInLoopThread()" (.call "wakeup" "") Gen.LoopSkel.quit = true := by decide

/-- **(c) `doPendingFunctors`**: `callingPendingFunctors_ = true` precedes the swap; the swap is inside the critical
section; the functors are called after it and OUTSIDE the critical section (they may call `queueInLoop`); the batch is
destroyed (`functors.clear()`) after the calls, also outside the critical section, and the flag is reset only after that
(a destructor that queues a functor still finds the flag set and wakes the loop); the reset is the last statement -/
theorem doPendingFunctors_order :
    inOrder [.store "callingPendingFunctors_" "true", .call "functors.swap" "pendingFunctors_", .call "functor" "",
             .call "functors.clear" "", .store "callingPendingFunctors_" "false"]
      (flat Gen.LoopSkel.doPendingFunctors) = true ∧
    insideLock "mutex_" (.call "functors.swap" "pendingFunctors_") (flat Gen.LoopSkel.doPendingFunctors) = true ∧
    outsideLock "mutex_" (.call "functor" "") (flat Gen.LoopSkel.doPendingFunctors) = true ∧
    outsideLock "mutex_" (.store "callingPendingFunctors_" "true") (flat Gen.LoopSkel.doPendingFunctors) = true ∧
    balanced "mutex_" false (flat Gen.LoopSkel.doPendingFunctors) = true ∧
    flat (loopBody .forDo "functor : functors" Gen.LoopSkel.doPendingFunctors) = [.call "functor" ""] ∧
    outsideLock "mutex_" (.call "functors.clear" "") (flat Gen.LoopSkel.doPendingFunctors) = true ∧
    outsideLock "mutex_" (.store "callingPendingFunctors_" "false") (flat Gen.LoopSkel.doPendingFunctors) = true ∧
    (flat Gen.LoopSkel.doPendingFunctors).getLast? = some (.store "callingPendingFunctors_" "false") := by decide

/-- **(d) `loop`**: per iteration of `while (!quit_)`: clear the batch -> `poll` -> handle the events (inside the
`eventHandling_` bracket, each active channel in report order) -> `doPendingFunctors()` last; `looping_ = true` before the
first iteration; after the `while` the drain `do doPendingFunctors(); while (queueSize() > 0)`, then `looping_ = false`
and the re-arming `quit_ = false` -/
theorem loop_iteration_order :
    hasLoop .whileDo "!quit_" Gen.LoopSkel.loopFn = true ∧
    inOrder [.call "activeChannels_.clear" "", .call "poller_.poll" "kPollTimeMs, &activeChannels_",
             .store "eventHandling_" "true", .call "currentActiveChannel_.handleEvent" "pollReturnTime_",
             .store "eventHandling_" "false", .call "doPendingFunctors" ""]
      (flat (loopBody .whileDo "!quit_" Gen.LoopSkel.loopFn)) = true ∧
    (flat (loopBody .whileDo "!quit_" Gen.LoopSkel.loopFn)).getLast? = some (.call "doPendingFunctors" "") ∧
    flat (loopBody .forDo "channel : activeChannels_" (loopBody .whileDo "!quit_" Gen.LoopSkel.loopFn)) =
      [.store "currentActiveChannel_" "channel", .call "currentActiveChannel_.handleEvent" "pollReturnTime_"] ∧
    before (.store "looping_" "true") (.call "poller_.poll" "kPollTimeMs, &activeChannels_")
      (flat Gen.LoopSkel.loopFn) = true ∧
    loopBody .doWhile "{call queueSize()} > 0" Gen.LoopSkel.loopFn = [.act (.call "doPendingFunctors" "")] ∧
    before (.call "doPendingFunctors" "") (.store "looping_" "false") (flat Gen.LoopSkel.loopFn) = true ∧
    before (.store "looping_" "false") (.store "quit_" "false") (flat Gen.LoopSkel.loopFn) = true ∧
    (flat Gen.LoopSkel.loopFn).getLast? = some (.store "quit_" "false") := by decide

/-- `runInLoop`: the functor is called inline exactly on the loop thread, queued otherwise -/
theorem runInLoop_inline_or_queue :
    onlyUnder "isInLoopThread()" (.call "cb" "") Gen.LoopSkel.runInLoop = true ∧
    onlyUnless "isInLoopThread()" (.call "queueInLoop" "cb") Gen.LoopSkel.runInLoop = true := by decide

/-- `queueSize`: the size is read under `mutex_`; `wakeup` / `handleRead`: one 8-byte `sockets::write` / `sockets::read` on
the eventfd each -/
theorem queueSize_locked_and_eventfd_io :
    insideLock "mutex_" (.ret "pendingFunctors_.size()") (flat Gen.LoopSkel.queueSize) = true ∧
    (flat Gen.LoopSkel.wakeup).filter (fun a => a matches .call .. | .sys ..) =
      [.call "sockets::write" "wakeupFd_, &one, sizeof(one)"] ∧
    (flat Gen.LoopSkel.handleRead).filter (fun a => a matches .call .. | .sys ..) =
      [.call "sockets::read" "wakeupFd_, &one, sizeof(one)"] := by decide

/-- the shape flags `vlib/gen/loop.py` extracts by its own means (`Generated/Loop.lean`, used by `Model/Loop.lean`) say the
same as the skeletons -/
theorem shape_flags_agree :
    Gen.Loop.quitStoresFirst = before (.store "quit_" "true") (.call "wakeup" "") (flat Gen.LoopSkel.quit) ∧
    Gen.Loop.appendUnderLock =
      insideLock "mutex_" (.call "pendingFunctors_.push_back" "cb") (flat Gen.LoopSkel.queueInLoop) ∧
    Gen.Loop.callingSetBeforeSwap =
      before (.store "callingPendingFunctors_" "true") (.call "functors.swap" "pendingFunctors_")
        (flat Gen.LoopSkel.doPendingFunctors) ∧
    Gen.Loop.callingResetAfterRun =
      before (.call "functor" "") (.store "callingPendingFunctors_" "false") (flat Gen.LoopSkel.doPendingFunctors) ∧
    Gen.Loop.drainSwaps =
      insideLock "mutex_" (.call "functors.swap" "pendingFunctors_") (flat Gen.LoopSkel.doPendingFunctors) ∧
    Gen.Loop.drainEachIteration =
      ((flat (loopBody .whileDo "!quit_" Gen.LoopSkel.loopFn)).getLast? == some (.call "doPendingFunctors" "")) ∧
    Gen.Loop.quitResetAtExit = ((flat Gen.LoopSkel.loopFn).getLast? == some (.store "quit_" "false")) ∧
    Gen.Loop.dtorLocks = insideLock "mutex_" (.call "loop_.quit" "") (flat Gen.LoopSkel.threadDtor) ∧
    Gen.Loop.publishLocks = insideLock "mutex_" (.store "loop_" "&loop") (flat Gen.LoopSkel.threadFunc) ∧
    Gen.Loop.clearLocks = insideLock "mutex_" (.store "loop_" "NULL") (flat Gen.LoopSkel.threadFunc) := by decide

/-! ### (e), (j): the wake-up channel and the life of a `Channel` (C09) -/

/-- **(e) `EventLoop::EventLoop`**: a second loop in the same thread ends the process (`LOG_FATAL` exactly under
`if (t_loopInThisThread)`, the pointer is set exactly otherwise); the eventfd exists before the channel made on it; the
read callback is installed BEFORE the channel is subscribed -/
theorem loopCtor_order :
    onlyUnder "t_loopInThisThread" (.log .fatal) Gen.LoopSkel.loopCtor = true ∧
    onlyUnless "t_loopInThisThread" (.store "t_loopInThisThread" "this") Gen.LoopSkel.loopCtor = true ∧
    inOrder [.call "createEventfd" "", .store "wakeupFd_" "<result>",
             .store "wakeupChannel_" "new Channel(this, wakeupFd_)",
             .call "wakeupChannel_.setReadCallback" "bind(&EventLoop::handleRead, this)",
             .call "wakeupChannel_.enableReading" ""] (flat Gen.LoopSkel.loopCtor) = true ∧
    before (.log .fatal) (.call "wakeupChannel_.enableReading" "") (flat Gen.LoopSkel.loopCtor) = true ∧
    (flat Gen.LoopSkel.loopCtor).getLast? = some (.call "wakeupChannel_.enableReading" "") := by decide

/-- **(e) `EventLoop::~EventLoop`**: `disableAll` -> `remove` -> `::close(wakeupFd_)` -> `t_loopInThisThread = NULL`, nothing
else -/
theorem loopDtor_order :
    flat Gen.LoopSkel.loopDtor =
      [.call "wakeupChannel_.disableAll" "", .call "wakeupChannel_.remove" "", .sys "close" "wakeupFd_",
       .store "t_loopInThisThread" "NULL"] ∧
    inOrder [.call "wakeupChannel_.disableAll" "", .call "wakeupChannel_.remove" "", .sys "close" "wakeupFd_",
             .store "t_loopInThisThread" "NULL"] (flat Gen.LoopSkel.loopDtor) = true := by decide

/-- **(j) `Channel::Channel`**: `events_ = 0`, `revents_ = 0`, `index_ = -1` (`kNew`), not tied, not handling an event, not
added to the loop; **`Channel::~Channel`**: asserts that no event is being handled and that the channel is not added to
the loop (in the current source the destructor does not ask the loop itself - it may be gone), nothing else -/
theorem channel_ctor_dtor :
    [.store "events_" "0", .store "revents_" "0", .store "index_" "-1", .store "tied_" "false",
     .store "eventHandling_" "false", .store "addedToLoop_" "false"].all
        (fun a => (flat Gen.LoopSkel.channelCtor).contains a) = true ∧
    (flat Gen.LoopSkel.channelCtor).all (fun a => a matches .store ..) = true ∧
    ((flat Gen.LoopSkel.channelCtor).filter (fun a => a matches .store "index_" _)) = [.store "index_" "-1"] ∧
    flat Gen.LoopSkel.channelDtor = [.assertion "!eventHandling_", .assertion "!addedToLoop_"] := by decide

/-- `updateChannel` / `removeChannel` / `hasChannel`: own-loop assertion, loop-thread assertion, then the poller -/
theorem channel_forwarders :
    inOrder [.assertion "channel.ownerLoop() == this", .call "assertInLoopThread" "",
             .call "poller_.updateChannel" "channel"] (flat Gen.LoopSkel.updateChannel) = true ∧
    inOrder [.assertion "channel.ownerLoop() == this", .call "assertInLoopThread" "",
             .call "poller_.removeChannel" "channel"] (flat Gen.LoopSkel.removeChannel) = true ∧
    inOrder [.assertion "channel.ownerLoop() == this", .call "assertInLoopThread" "",
             .call "poller_.hasChannel" "channel", .ret "<result>"] (flat Gen.LoopSkel.hasChannel) = true := by decide

/-! ### (f): the timer API (C06) -/

/-- **(f)** `runAt` hands its deadline and the interval `0.0` to `addTimer`; `runAfter` computes
`addTime(Timestamp::now(), delay)` and goes through `runAt` (interval `0.0`); `runEvery` computes
`addTime(Timestamp::now(), interval)` - the first run is one interval from now - and hands the INTERVAL to `addTimer`;
`cancel` forwards the id to `timerQueue_->cancel`; each returns what the callee returned -/
theorem timer_forwarders :
    flat Gen.LoopSkel.runAt = [.call "timerQueue_.addTimer" "cb, time, 0", .ret "<result>"] ∧
    flat Gen.LoopSkel.runAfter =
      [.assign "time" "addTime(Timestamp::now(), delay)", .call "runAt" "time, cb", .ret "<result>"] ∧
    flat Gen.LoopSkel.runEvery =
      [.assign "time" "addTime(Timestamp::now(), interval)", .call "timerQueue_.addTimer" "cb, time, interval",
       .ret "<result>"] ∧
    before (.assign "time" "addTime(Timestamp::now(), interval)") (.call "timerQueue_.addTimer" "cb, time, interval")
      (flat Gen.LoopSkel.runEvery) = true ∧
    flat Gen.LoopSkel.cancel = [.call "timerQueue_.cancel" "timerId", .ret "<result>"] := by decide

/-! ### (g), (h): `EventLoopThread`, `EventLoopThreadPool` (C05) -/

/-- **(g) `threadFunc`**: the loop is constructed first and the init callback gets it; `loop_ = &loop` and the
notification are inside the critical section, in that order, and precede `loop.loop()`, which runs OUTSIDE it; after
`loop()` returned, `loop_ = NULL`, `finished_ = true` and `notifyAll` are inside a critical section, in that order -/
theorem threadFunc_order :
    inOrder [.assign "loop" "EventLoop()", .call "callback_" "&loop", .store "loop_" "&loop", .call "cond_.notify" "",
             .call "loop.loop" "", .store "loop_" "NULL", .store "finished_" "true", .call "cond_.notifyAll" ""]
      (flat Gen.LoopSkel.threadFunc) = true ∧
    insideLock "mutex_" (.store "loop_" "&loop") (flat Gen.LoopSkel.threadFunc) = true ∧
    insideLock "mutex_" (.call "cond_.notify" "") (flat Gen.LoopSkel.threadFunc) = true ∧
    outsideLock "mutex_" (.call "loop.loop" "") (flat Gen.LoopSkel.threadFunc) = true ∧
    outsideLock "mutex_" (.call "callback_" "&loop") (flat Gen.LoopSkel.threadFunc) = true ∧
    insideLock "mutex_" (.store "loop_" "NULL") (flat Gen.LoopSkel.threadFunc) = true ∧
    insideLock "mutex_" (.store "finished_" "true") (flat Gen.LoopSkel.threadFunc) = true ∧
    insideLock "mutex_" (.call "cond_.notifyAll" "") (flat Gen.LoopSkel.threadFunc) = true ∧
    balanced "mutex_" false (flat Gen.LoopSkel.threadFunc) = true ∧
    onlyUnder "callback_" (.call "callback_" "&loop") Gen.LoopSkel.threadFunc = true := by decide

/-- **(g) `~EventLoopThread`**: `loop_->quit()` only when `loop_ != NULL`, inside the critical section (so `threadFunc`
cannot clear `loop_` and destroy the loop between the test and the end of `quit()`); the `join` follows, outside the
critical section, exactly when the thread was started -/
theorem threadDtor_order :
    insideLock "mutex_" (.call "loop_.quit" "") (flat Gen.LoopSkel.threadDtor) = true ∧
    onlyUnder "loop_ != NULL" (.call "loop_.quit" "") Gen.LoopSkel.threadDtor = true ∧
    inOrder [.store "exiting_" "true", .call "loop_.quit" "", .call "unlock" "mutex_", .call "thread_.join" ""]
      (flat Gen.LoopSkel.threadDtor) = true ∧
    outsideLock "mutex_" (.call "thread_.join" "") (flat Gen.LoopSkel.threadDtor) = true ∧
    onlyUnder "thread_.started()" (.call "thread_.join" "") Gen.LoopSkel.threadDtor = true ∧
    balanced "mutex_" false (flat Gen.LoopSkel.threadDtor) = true := by decide

/-- **(g) `startLoop`**: the thread is started BEFORE the wait; the wait is the body of
`while (loop_ == NULL && !finished_)` inside the critical section; `loop_` is read inside it and returned -/
theorem startLoop_order :
    inOrder [.call "thread_.start" "", .call "cond_.wait" "", .assign "loop" "loop_", .ret "loop"]
      (flat Gen.LoopSkel.startLoop) = true ∧
    outsideLock "mutex_" (.call "thread_.start" "") (flat Gen.LoopSkel.startLoop) = true ∧
    insideLock "mutex_" (.call "cond_.wait" "") (flat Gen.LoopSkel.startLoop) = true ∧
    insideLock "mutex_" (.assign "loop" "loop_") (flat Gen.LoopSkel.startLoop) = true ∧
    loopBody .whileDo "loop_ == NULL && !finished_" Gen.LoopSkel.startLoop = [.act (.call "cond_.wait" "")] ∧
    balanced "mutex_" false (flat Gen.LoopSkel.startLoop) = true := by decide

/-- **(h) `EventLoopThreadPool::start`**: `started_ = true` first; the loop runs `i = 0 .. numThreads_ - 1` upwards and per
index creates the thread, appends it to `threads_`, calls its `startLoop()` and appends the RESULT to `loops_`, in that
order (so `loops_[i]` is the loop of the `i`-th thread: `Pool.start`); `cb(baseLoop_)` is called only under
`numThreads_ == 0 && cb` -/
theorem poolStart_order :
    hasLoop .forDo "i = 0; i < numThreads_; ++i" Gen.LoopSkel.poolStart = true ∧
    flat (loopBody .forDo "i = 0; i < numThreads_; ++i" Gen.LoopSkel.poolStart) =
      [.sys "snprintf" "buf, sizeof(buf), \"%s%d\", name_.c_str(), i", .assign "t" "new EventLoopThread(cb, buf)",
       .call "threads_.push_back" "t", .call "t.startLoop" "", .call "loops_.push_back" "<result>"] ∧
    inOrder [.call "baseLoop_.assertInLoopThread" "", .store "started_" "true", .assign "t" "new EventLoopThread(cb, buf)",
             .call "threads_.push_back" "t", .call "t.startLoop" "", .call "loops_.push_back" "<result>"]
      (flat Gen.LoopSkel.poolStart) = true ∧
    onlyUnder "numThreads_ == 0 && cb" (.call "cb" "baseLoop_") Gen.LoopSkel.poolStart = true := by decide

/-- the selectors: on the base loop's thread; `getNextLoop` reads `loops_[next_]` BEFORE it advances the cursor and wraps
at `loops_.size()`; `getLoopForHash` does not touch the cursor -/
theorem pool_selectors :
    inOrder [.assign "loop" "baseLoop_", .assign "loop" "loops_[next_]", .store "next_" "next_ + 1", .store "next_" "0",
             .ret "loop"] (flat Gen.LoopSkel.getNextLoop) = true ∧
    thenOf "next_ >= loops_.size()" (thenOf "!loops_.empty()" Gen.LoopSkel.getNextLoop) = [.act (.store "next_" "0")] ∧
    (flat Gen.LoopSkel.getLoopForHash).all (fun a => !(a matches .store ..)) = true ∧
    thenOf "!loops_.empty()" Gen.LoopSkel.getLoopForHash = [.act (.assign "loop" "loops_[hashCode % loops_.size()]")] ∧
    thenOf "loops_.empty()" Gen.LoopSkel.getAllLoops = [.act (.ret "vector(1, baseLoop_)")] ∧
    elseOf "loops_.empty()" Gen.LoopSkel.getAllLoops = [.act (.ret "loops_")] := by decide

/-! ### (i): the listener (C11) -/

/-- **(i) `Acceptor::listen`**: loop-thread assertion, `listening_ = true`, `acceptSocket_.listen()`, `enableReading()` - the
socket listens BEFORE the channel is subscribed; nothing else -/
theorem acceptorListen_order :
    flat Gen.LoopSkel.acceptorListen =
      [.call "loop_.assertInLoopThread" "", .store "listening_" "true", .call "acceptSocket_.listen" "",
       .call "acceptChannel_.enableReading" ""] ∧
    before (.call "acceptSocket_.listen" "") (.call "acceptChannel_.enableReading" "")
      (flat Gen.LoopSkel.acceptorListen) = true := by decide

/-- **(i) `Acceptor::Acceptor`**: socket created, spare descriptor opened (and asserted), then the reuse flags and `bind`,
all BEFORE the read callback is set; the constructor does not subscribe the channel and does not listen -/
theorem acceptorCtor_order :
    inOrder [.call "sockets::createNonblockingOrDie" "listenAddr.family()", .store "acceptSocket_" "<result>",
             .store "acceptChannel_" "Channel(loop, acceptSocket_.fd())", .store "listening_" "false",
             .sys "open" "\"/dev/null\", 0 | 524288", .store "idleFd_" "<result>", .assertion "idleFd_ >= 0",
             .call "acceptSocket_.setReuseAddr" "true", .call "acceptSocket_.setReusePort" "reuseport",
             .call "acceptSocket_.bindAddress" "listenAddr",
             .call "acceptChannel_.setReadCallback" "bind(&Acceptor::handleRead, this)"]
      (flat Gen.LoopSkel.acceptorCtor) = true ∧
    (flat Gen.LoopSkel.acceptorCtor).contains (.call "acceptChannel_.enableReading" "") = false ∧
    (flat Gen.LoopSkel.acceptorCtor).contains (.call "acceptSocket_.listen" "") = false := by decide

/-- **(i) `Acceptor::~Acceptor`**: `disableAll` -> `remove` -> `::close(idleFd_)`, nothing else -/
theorem acceptorDtor_order :
    flat Gen.LoopSkel.acceptorDtor =
      [.call "acceptChannel_.disableAll" "", .call "acceptChannel_.remove" "", .sys "close" "idleFd_"] := by decide

/-- **(i) `Acceptor::handleRead`**: one `accept` first; on success the callback gets `(connfd, peerAddr)` when there is one,
else `sockets::close(connfd)`; on failure `LOG_SYSERR`, and exactly under `errno == EMFILE` (24) the sequence close the
spare descriptor -> `::accept` into it -> close it -> reopen `/dev/null` -/
theorem acceptorHandleRead_structure :
    (flat Gen.LoopSkel.acceptorHandleRead).take 3 =
      [.call "loop_.assertInLoopThread" "", .call "acceptSocket_.accept" "&peerAddr", .assign "connfd" "<result>"] ∧
    thenOf "connfd >= 0" Gen.LoopSkel.acceptorHandleRead =
      [.ite "newConnectionCallback_" [.act (.call "newConnectionCallback_" "connfd, peerAddr")]
         [.act (.call "sockets::close" "connfd")]] ∧
    (elseOf "connfd >= 0" Gen.LoopSkel.acceptorHandleRead).head? = some (.act (.log .syserr)) ∧
    thenOf "errno == 24" (elseOf "connfd >= 0" Gen.LoopSkel.acceptorHandleRead) =
      [.act (.sys "close" "idleFd_"), .act (.sys "accept" "acceptSocket_.fd(), NULL, NULL"),
       .act (.store "idleFd_" "<result>"), .act (.sys "close" "idleFd_"),
       .act (.sys "open" "\"/dev/null\", 0 | 524288"), .act (.store "idleFd_" "<result>")] ∧
    elseOf "errno == 24" (elseOf "connfd >= 0" Gen.LoopSkel.acceptorHandleRead) = [] ∧
    (flat (dropIte "errno == 24" (elseOf "connfd >= 0" Gen.LoopSkel.acceptorHandleRead))) = [.log .syserr] := by decide

/-! ## Non-vacuity: the reading predicates reject the orders they are there to exclude -/

/-- the wake-up before the append, the append outside the critical section, the flag stored after the wake-up, the
functors called inside the critical section, a subscription before `listen()`, `callingPendingFunctors_` reset before the
batch is destroyed: each is rejected -/
theorem reading_rejects :
    before (.call "pendingFunctors_.push_back" "cb") (.call "wakeup" "")
      [.call "wakeup" "", .call "lock" "mutex_", .call "pendingFunctors_.push_back" "cb", .call "unlock" "mutex_"] = false ∧
    insideLock "mutex_" (.call "pendingFunctors_.push_back" "cb")
      [.call "lock" "mutex_", .call "unlock" "mutex_", .call "pendingFunctors_.push_back" "cb", .call "wakeup" ""] = false ∧
    before (.store "quit_" "true") (.call "wakeup" "") [.call "wakeup" "", .store "quit_" "true"] = false ∧
    outsideLock "mutex_" (.call "functor" "")
      [.call "lock" "mutex_", .call "functors.swap" "pendingFunctors_", .call "functor" "", .call "unlock" "mutex_"] = false ∧
    before (.call "acceptSocket_.listen" "") (.call "acceptChannel_.enableReading" "")
      [.call "acceptChannel_.enableReading" "", .call "acceptSocket_.listen" ""] = false ∧
    inOrder [.call "functor" "", .call "functors.clear" "", .store "callingPendingFunctors_" "false"]
      [.call "functor" "", .store "callingPendingFunctors_" "false", .call "functors.clear" ""] = false ∧
    balanced "mutex_" false [.call "lock" "mutex_", .call "wakeup" ""] = false ∧
    onlyUnder "g" (.call "f" "") [.ite "g" [.act (.call "f" "")] [], .act (.call "f" "")] = false := by decide

end MuduoVerif.LoopSkel
