import MuduoVerif.Model.Poller
/-!
Every transition of the dispatch-engine model decomposes into three kinds of atomic moves:
a user operation (`applyOp`), a *frame* move (only `revents_`, the loop's own bookkeeping
and plumbing output change) and a guarded callback emission.  An invariant that is
stable under the three is stable under `step`/`run` — for every history, including
operations executed inside callbacks.

The relation is parametric in the frame relation: `Reach` (frames = `Frame`: the poll phase and the
loop's bookkeeping) describes whole histories, `ReachD` (frames = `Quiet`: only the pending-hook list
and `currentActiveChannel_` change) describes the dispatch phase of one iteration.
-/
namespace MuduoVerif.Poller
open MuduoVerif.Gen.Poller

def Ev.isCb : Ev → Bool
  | .cb .. => true
  | _ => false

def Ev.isAbort : Ev → Bool
  | .abort _ => true
  | _ => false

/-- the output a frame move may append: the `poll` call (always with the loop's constant
time-out), the growth of the result array, an environment violation, a failed assertion -/
def Ev.isPlumb : Ev → Prop
  | .wait _ t => t = kPollTimeMs
  | .grow _ => True
  | .badEnv => True
  | .abort _ => True
  | _ => False

theorem Ev.isPlumb.notCb {e : Ev} (h : e.isPlumb) : e.isCb = false := by
  cases e <;> simp_all [Ev.isPlumb, Ev.isCb]

/-- `t` differs from `s` only in `revents_`, loop bookkeeping, and appended plumbing output -/
structure Frame (s t : State) : Prop where
  be : t.be = s.be
  cmap : t.cmap = s.cmap
  pollfds : t.pollfds = s.pollfds
  kernel : t.kernel = s.kernel
  ev : ∀ c, (t.chans c).events = (s.chans c).events
  idx : ∀ c, (t.chans c).index = (s.chans c).index
  added : ∀ c, (t.chans c).added = (s.chans c).added
  dead : t.dead = false → s.dead = false
  out : ∃ l, t.out = s.out ++ l ∧ (∀ e ∈ l, e.isPlumb) ∧ (t.dead = false → ∀ e ∈ l, e.isAbort = false)

/-- `t` differs from `s` only in the pending-hook list and `currentActiveChannel_` -/
def Quiet (s t : State) : Prop := ∃ h c, t = { s with hooks := h, cur := c }

/-- the emission of a callback event, as `stage` does it -/
def CbStep (s t : State) : Prop :=
  ∃ c k, s.dead = false ∧ disp k (s.chans c).revents ∧ subscribed k (s.chans c).events ∧
    t = emit s (.cb c k (s.chans c).revents (s.chans c).events)

inductive ReachF (F : State → State → Prop) : State → State → Prop
  | refl (s) : ReachF F s s
  | op (s c k) {t} : ReachF F (applyOp s c k) t → ReachF F s t
  | frame {s s' t} : F s s' → ReachF F s' t → ReachF F s t
  | cb {s s' t} : CbStep s s' → ReachF F s' t → ReachF F s t

abbrev Reach := ReachF Frame
abbrev ReachD := ReachF Quiet

theorem ReachF.trans {F} {a b c : State} (h1 : ReachF F a b) (h2 : ReachF F b c) : ReachF F a c := by
  induction h1 with
  | refl => exact h2
  | op s c k _ ih => exact .op s c k (ih h2)
  | frame f _ ih => exact .frame f (ih h2)
  | cb f _ ih => exact .cb f (ih h2)

theorem ReachF.mono {F G : State → State → Prop} (hFG : ∀ s t, F s t → G s t) {a b : State}
    (h : ReachF F a b) : ReachF G a b := by
  induction h with
  | refl => exact .refl _
  | op s c k _ ih => exact .op s c k ih
  | frame f _ ih => exact .frame (hFG _ _ f) ih
  | cb f _ ih => exact .cb f ih

/-- an invariant that is stable under the three atomic moves holds along every history -/
theorem ReachF.preserves {F} {P : State → Prop}
    (hop : ∀ s c k, P s → P (applyOp s c k))
    (hframe : ∀ s t, F s t → P s → P t)
    (hcb : ∀ s t, CbStep s t → P s → P t)
    {s t : State} (h : ReachF F s t) (hs : P s) : P t := by
  induction h with
  | refl => exact hs
  | op s c k _ ih => exact ih (hop s c k hs)
  | frame f _ ih => exact ih (hframe _ _ f hs)
  | cb f _ ih => exact ih (hcb _ _ f hs)

theorem Frame.rfl' (s : State) : Frame s s :=
  ⟨rfl, rfl, rfl, rfl, fun _ => rfl, fun _ => rfl, fun _ => rfl, id, [], by simp, by simp, by simp⟩

theorem Reach.ofFrame {s t : State} (f : Frame s t) : Reach s t := .frame f (.refl t)

theorem frame_emit (s : State) (e : Ev) (h : e.isPlumb) (ha : e.isAbort = false) : Frame s (emit s e) :=
  ⟨rfl, rfl, rfl, rfl, fun _ => rfl, fun _ => rfl, fun _ => rfl, id, [e], rfl, by simpa using h,
    by simpa using fun _ => ha⟩

theorem frame_abort (s : State) (w : String) : Frame s (abort s w) :=
  ⟨rfl, rfl, rfl, rfl, fun _ => rfl, fun _ => rfl, fun _ => rfl, by simp [abort], [.abort w], rfl,
    by simp [Ev.isPlumb], by simp [abort]⟩

theorem frame_revents (s : State) (c r) : Frame s (setChan s c { s.chans c with revents := r }) := by
  refine ⟨rfl, rfl, rfl, rfl, ?_, ?_, ?_, id, [], by simp [setChan], by simp, by simp⟩ <;>
  · intro x; simp only [setChan]; split <;> simp_all

theorem Frame.trans {a b c : State} (f : Frame a b) (g : Frame b c) : Frame a c := by
  obtain ⟨l1, h1, n1, d1⟩ := f.out
  obtain ⟨l2, h2, n2, d2⟩ := g.out
  refine ⟨g.be.trans f.be, g.cmap.trans f.cmap, g.pollfds.trans f.pollfds, g.kernel.trans f.kernel,
    fun c => (g.ev c).trans (f.ev c), fun c => (g.idx c).trans (f.idx c),
    fun c => (g.added c).trans (f.added c), fun h => f.dead (g.dead h),
    l1 ++ l2, by rw [h2, h1, List.append_assoc], ?_, ?_⟩
  · intro e he
    rcases List.mem_append.1 he with h | h
    · exact n1 e h
    · exact n2 e h
  · intro hd e he
    rcases List.mem_append.1 he with h | h
    · exact d1 (g.dead hd) e h
    · exact d2 hd e h

theorem Quiet.frame {s t : State} (q : Quiet s t) : Frame s t := by
  obtain ⟨h, c, rfl⟩ := q
  exact ⟨rfl, rfl, rfl, rfl, fun _ => rfl, fun _ => rfl, fun _ => rfl, id, [], by simp, by simp, by simp⟩

theorem ReachD.reach {s t : State} (h : ReachD s t) : Reach s t := ReachF.mono (fun _ _ q => q.frame) h

/-! ### the model's functions are compositions of the three moves -/

theorem reach_foldl_ops {F} (hs : List Hook) (s : State) :
    ReachF F s (hs.foldl (fun s h => applyOp s h.c h.op) s) := by
  induction hs generalizing s with
  | nil => exact .refl s
  | cons h t ih => exact .op s h.c h.op (ih _)

theorem reachD_runHooks (s : State) (j k) : ReachD s (runHooks s j k) := by
  unfold runHooks
  refine .frame (s' := { s with hooks := s.hooks.filter (fun h => !h.isFor j k) }) ?_ (reach_foldl_ops _ _)
  exact ⟨_, s.cur, rfl⟩

theorem reachD_stage (k : Kind) (s : State) (c : Nat) : ReachD s (stage k s c) := by
  unfold stage
  by_cases hd : s.dead = true
  · simp [hd]; exact .refl s
  · by_cases hg : disp k (s.chans c).revents ∧ subscribed k (s.chans c).events
    · simp only [hd, hg]
      simp only [Bool.false_eq_true, if_false, and_self, if_true]
      exact .cb ⟨c, k, by simpa using hd, hg.1, hg.2, rfl⟩ (reachD_runHooks _ c k)
    · simp only [hd, hg]
      simp only [Bool.false_eq_true, if_false]
      exact .refl s

theorem reachD_handleEvent (s : State) (c : Nat) : ReachD s (handleEvent s c) := by
  unfold handleEvent
  exact ((reachD_stage .close s c).trans (reachD_stage .error _ c)).trans
    ((reachD_stage .read _ c).trans (reachD_stage .write _ c))

theorem reachD_dispatch (act : List Nat) (s : State) : ReachD s (dispatch s act) := by
  unfold dispatch
  induction act generalizing s with
  | nil => exact .refl s
  | cons c t ih =>
    simp only [List.foldl_cons]
    exact (ReachF.frame (s' := { s with cur := some c }) ⟨s.hooks, some c, rfl⟩ (reachD_handleEvent _ c)).trans (ih _)

/-- the `revents` field `PollPoller::fillActiveChannels` sees in entry `pfd` -/
def pollRev (ready : List (Nat × Nat)) (pfd : Int × Nat) : Nat :=
  if pfd.1 < 0 then 0 else lookupRev ready pfd.1.toNat

theorem pollFill_cons (s : State) (ready) (pfd : Int × Nat) (rest) (n : Nat) (acc) :
    pollFill s ready (pfd :: rest) (n + 1) acc =
      if pollActive (pollRev ready pfd : Int) then
        match s.cmap pfd.1 with
        | none => (abort s "ch != channels_.end()", acc.reverse)
        | some c => pollFill (setChan s c { s.chans c with revents := pollRev ready pfd }) ready rest n (c :: acc)
      else pollFill s ready rest (n + 1) acc := by
  rfl

theorem frame_pollFill (ready : List (Nat × Nat)) (pfds : List (Int × Nat)) :
    ∀ (s : State) (n : Nat) (acc : List Nat), Frame s (pollFill s ready pfds n acc).1 := by
  induction pfds with
  | nil => intro s n acc; simp only [pollFill]; exact Frame.rfl' s
  | cons pfd rest ih =>
    intro s n acc
    cases n with
    | zero => simp only [pollFill]; exact Frame.rfl' s
    | succ n =>
      rw [pollFill_cons]
      by_cases h : pollActive (pollRev ready pfd : Int)
      · rw [if_pos h]
        cases hc : s.cmap pfd.1 with
        | none => exact frame_abort s _
        | some c => exact (frame_revents s _ _).trans (ih _ _ _)
      · rw [if_neg h]; exact ih _ _ _

theorem frame_epollFill (ready : List (Nat × Nat)) :
    ∀ (s : State) (acc : List Nat), Frame s (epollFill s ready acc).1 := by
  induction ready with
  | nil => intro s acc; simp only [epollFill]; exact Frame.rfl' s
  | cons p rest ih =>
    intro s acc
    obtain ⟨c, rev⟩ := p
    simp only [epollFill]
    split
    · exact frame_abort s _
    · exact (frame_revents s _ _).trans (ih _ _)

theorem frame_wait (s : State) (n : Nat) : Frame s (emit s (.wait n kPollTimeMs)) :=
  frame_emit s _ (by simp [Ev.isPlumb]) rfl

theorem frame_pollerPoll (s : State) (ready) (nret) : Frame s (pollerPoll s ready nret).1 := by
  unfold pollerPoll
  cases s.be with
  | poll =>
    simp only
    split
    · exact (frame_wait s _).trans (frame_pollFill _ _ _ _ _)
    · exact frame_wait s _
  | epoll =>
    simp only
    by_cases h2 : epHasEvents (nret : Int)
    · rw [if_pos h2]
      by_cases h1 : ready.length > (emit s (.wait s.evsize kPollTimeMs)).evsize ∨ nret ≠ ready.length
      · rw [if_pos h1]
        exact ((frame_wait s _).trans (frame_emit _ .badEnv (by simp [Ev.isPlumb]) rfl)).trans (frame_abort _ _)
      · rw [if_neg h1]
        have h := frame_epollFill ready (emit s (.wait s.evsize kPollTimeMs)) []
        generalize epollFill (emit s (.wait s.evsize kPollTimeMs)) ready [] = p at h
        obtain ⟨s1, act⟩ := p
        simp only at h ⊢
        split
        · refine ((frame_wait s _).trans h).trans ?_
          exact ⟨rfl, rfl, rfl, rfl, fun _ => rfl, fun _ => rfl, fun _ => rfl, id,
            [.grow (epGrowTo s1.evsize)], rfl, by simp [Ev.isPlumb], by simp [Ev.isAbort]⟩
        · exact (frame_wait s _).trans h
    · rw [if_neg h2]; exact frame_wait s _

theorem frame_bookkeeping (s : State) (it : Nat) (act : List Nat) (h : Bool) (c : Option Nat) :
    Frame s { s with iteration := it, active := act, handling := h, cur := c } :=
  ⟨rfl, rfl, rfl, rfl, fun _ => rfl, fun _ => rfl, fun _ => rfl, id, [], by simp, by simp, by simp⟩

theorem reach_iter (s : State) (ready) (nret) : Reach s (iter s ready nret) := by
  unfold iter
  split
  · exact .refl s
  · have h := frame_pollerPoll s ready nret
    generalize pollerPoll s ready nret = p at h
    obtain ⟨s1, act⟩ := p
    simp only at h ⊢
    split
    · exact .ofFrame h
    · refine (Reach.ofFrame h).trans ?_
      refine ReachF.frame (s' := { s1 with iteration := s1.iteration + 1, active := act, handling := true }) ?_ ?_
      · exact frame_bookkeeping s1 _ _ _ s1.cur
      · refine (reachD_dispatch act _).reach.trans (Reach.ofFrame ?_)
        exact frame_bookkeeping _ _ _ _ _

theorem reach_step (s : State) (i : In) : Reach s (step s i) := by
  cases i with
  | op c k => exact .op s c k (.refl _)
  | hook h =>
    simp only [step]
    split
    · exact .refl s
    · exact .ofFrame (Quiet.frame ⟨_, s.cur, rfl⟩)
  | iter ready nret => exact reach_iter s ready nret

theorem reach_run (ins : List In) (s : State) : Reach s (run s ins) := by
  unfold run
  induction ins generalizing s with
  | nil => exact .refl s
  | cons i t ih => exact (reach_step s i).trans (ih _)

theorem frame_of_cbStep {s t : State} (h : CbStep s t) :
    t.be = s.be ∧ t.cmap = s.cmap ∧ t.pollfds = s.pollfds ∧ t.kernel = s.kernel ∧
      t.chans = s.chans ∧ t.dead = s.dead := by
  obtain ⟨c, k, _, _, _, rfl⟩ := h
  exact ⟨rfl, rfl, rfl, rfl, rfl, rfl⟩

/-! ### histories whose inputs satisfy a state-dependent admissibility condition -/

/-- every input of the history satisfies `Q` in the state it is applied to -/
def Along (Q : State → In → Prop) : State → List In → Prop
  | _, [] => True
  | s, i :: rest => Q s i ∧ Along Q (step s i) rest

instance decAlong {Q : State → In → Prop} [∀ s i, Decidable (Q s i)] :
    ∀ (s : State) (ins : List In), Decidable (Along Q s ins)
  | _, [] => isTrue trivial
  | s, i :: rest => @instDecidableAnd _ _ _ (decAlong (step s i) rest)

theorem iter_eq (s : State) (ready) (nret) :
    iter s ready nret =
      if s.dead then s
      else if (pollerPoll s ready nret).1.dead then (pollerPoll s ready nret).1
      else
        { dispatch { (pollerPoll s ready nret).1 with
              iteration := (pollerPoll s ready nret).1.iteration + 1,
              active := (pollerPoll s ready nret).2, handling := true } (pollerPoll s ready nret).2
          with cur := none, handling := false } := by
  unfold iter
  split
  · rfl
  · rfl

/-- induction over histories with the poll phase made explicit: an invariant that is stable under
operations, the dispatch phase's moves, the loop's bookkeeping, and `Poller::poll` for admissible
environment input, holds after every admissible history -/
theorem run_induction {P : State → Prop} {Q : State → In → Prop}
    (hop : ∀ s c k, P s → P (applyOp s c k))
    (hquiet : ∀ s t, Quiet s t → P s → P t)
    (hcb : ∀ s t, CbStep s t → P s → P t)
    (hpoll : ∀ s ready nret, P s → s.dead = false → Q s (.iter ready nret) → P (pollerPoll s ready nret).1)
    (hbook : ∀ s it act h c, P s → P { s with iteration := it, active := act, handling := h, cur := c })
    (ins : List In) : ∀ s, P s → Along Q s ins → P (run s ins) := by
  induction ins with
  | nil => intro s hs _; exact hs
  | cons i rest ih =>
    intro s hs ha
    obtain ⟨hq, ha'⟩ := ha
    refine ih (step s i) ?_ ha'
    cases i with
    | op c k => exact hop s c k hs
    | hook h =>
      simp only [step]
      split
      · exact hs
      · exact hquiet _ _ ⟨_, s.cur, rfl⟩ hs
    | iter ready nret =>
      simp only [step]
      rw [iter_eq]
      cases hd : s.dead with
      | true => simpa using hs
      | false =>
        simp only [Bool.false_eq_true, if_false]
        have h1 := hpoll s ready nret hs hd hq
        split
        · exact h1
        · have h2 := hbook _ ((pollerPoll s ready nret).1.iteration + 1) (pollerPoll s ready nret).2 true
            (pollerPoll s ready nret).1.cur h1
          have h3 := ReachF.preserves hop hquiet hcb (reachD_dispatch (pollerPoll s ready nret).2 _) h2
          exact hbook _ _ _ false none h3

end MuduoVerif.Poller
