import MuduoVerif.Model.Poller
/-!
Every transition of the dispatch-engine model decomposes into three kinds of atomic moves:
a user operation (`applyOp`), a *frame* move (only `revents_`, the loop's own bookkeeping
and non-callback output change) and a guarded callback emission.  An invariant that is
stable under the three is stable under `step`/`run` — for every history, including
operations executed inside callbacks.
-/
namespace MuduoVerif.Poller
open MuduoVerif.Gen.Poller

def Ev.isCb : Ev → Bool
  | .cb .. => true
  | _ => false

/-- `t` differs from `s` only in `revents_`, loop bookkeeping, and appended non-callback output -/
structure Frame (s t : State) : Prop where
  be : t.be = s.be
  cmap : t.cmap = s.cmap
  pollfds : t.pollfds = s.pollfds
  kernel : t.kernel = s.kernel
  blind : t.blind = s.blind
  ev : ∀ c, (t.chans c).events = (s.chans c).events
  idx : ∀ c, (t.chans c).index = (s.chans c).index
  added : ∀ c, (t.chans c).added = (s.chans c).added
  out : ∃ l, t.out = s.out ++ l ∧ ∀ e ∈ l, e.isCb = false

/-- the emission of a callback event, as `stage` does it -/
def CbStep (s t : State) : Prop :=
  ∃ c k, s.dead = false ∧ disp k (s.chans c).revents ∧ subscribed k (s.chans c).events ∧
    t = emit s (.cb c k (s.chans c).revents (s.chans c).events)

inductive Reach : State → State → Prop
  | refl (s) : Reach s s
  | op (s c k) {t} : Reach (applyOp s c k) t → Reach s t
  | frame {s s' t} : Frame s s' → Reach s' t → Reach s t
  | cb {s s' t} : CbStep s s' → Reach s' t → Reach s t

theorem Reach.trans {a b c : State} (h1 : Reach a b) (h2 : Reach b c) : Reach a c := by
  induction h1 with
  | refl => exact h2
  | op s c k _ ih => exact .op s c k (ih h2)
  | frame f _ ih => exact .frame f (ih h2)
  | cb f _ ih => exact .cb f (ih h2)

theorem Frame.rfl' (s : State) : Frame s s :=
  ⟨rfl, rfl, rfl, rfl, rfl, fun _ => rfl, fun _ => rfl, fun _ => rfl, [], by simp, by simp⟩

theorem Reach.ofFrame {s t : State} (f : Frame s t) : Reach s t := .frame f (.refl t)

theorem frame_emit (s : State) (e : Ev) (h : e.isCb = false) : Frame s (emit s e) :=
  ⟨rfl, rfl, rfl, rfl, rfl, fun _ => rfl, fun _ => rfl, fun _ => rfl, [e], rfl, by simpa using h⟩

theorem frame_abort (s : State) (w : String) : Frame s (abort s w) :=
  ⟨rfl, rfl, rfl, rfl, rfl, fun _ => rfl, fun _ => rfl, fun _ => rfl, [.abort w], rfl, by simp [Ev.isCb]⟩

theorem frame_revents (s : State) (c r) : Frame s (setChan s c { s.chans c with revents := r }) := by
  refine ⟨rfl, rfl, rfl, rfl, rfl, ?_, ?_, ?_, [], by simp [setChan], by simp⟩ <;>
  · intro x; simp only [setChan]; split <;> simp_all

theorem Frame.trans {a b c : State} (f : Frame a b) (g : Frame b c) : Frame a c := by
  obtain ⟨l1, h1, n1⟩ := f.out
  obtain ⟨l2, h2, n2⟩ := g.out
  refine ⟨g.be.trans f.be, g.cmap.trans f.cmap, g.pollfds.trans f.pollfds, g.kernel.trans f.kernel,
    g.blind.trans f.blind, fun c => (g.ev c).trans (f.ev c), fun c => (g.idx c).trans (f.idx c),
    fun c => (g.added c).trans (f.added c), l1 ++ l2, by rw [h2, h1, List.append_assoc], ?_⟩
  intro e he
  rcases List.mem_append.1 he with h | h
  · exact n1 e h
  · exact n2 e h

/-! ### the model's functions are compositions of the three moves -/

theorem reach_foldl_ops (hs : List Hook) (s : State) :
    Reach s (hs.foldl (fun s h => applyOp s h.c h.op) s) := by
  induction hs generalizing s with
  | nil => exact .refl s
  | cons h t ih => exact .op s h.c h.op (ih _)

theorem reach_runHooks (s : State) (j k) : Reach s (runHooks s j k) := by
  unfold runHooks
  refine .frame (s' := { s with hooks := s.hooks.filter (fun h => !h.isFor j k) }) ?_ (reach_foldl_ops _ _)
  exact ⟨rfl, rfl, rfl, rfl, rfl, fun _ => rfl, fun _ => rfl, fun _ => rfl, [], by simp, by simp⟩

theorem reach_stage (k : Kind) (s : State) (c : Nat) : Reach s (stage k s c) := by
  unfold stage
  by_cases hd : s.dead = true
  · simp [hd]; exact .refl s
  · by_cases hg : disp k (s.chans c).revents ∧ subscribed k (s.chans c).events
    · simp only [hd, hg]
      simp only [Bool.false_eq_true, if_false, and_self, if_true]
      exact .cb ⟨c, k, by simpa using hd, hg.1, hg.2, rfl⟩ (reach_runHooks _ c k)
    · simp only [hd, hg]
      simp only [Bool.false_eq_true, if_false]
      exact .refl s

theorem reach_handleEvent (s : State) (c : Nat) : Reach s (handleEvent s c) := by
  unfold handleEvent
  exact ((reach_stage .close s c).trans (reach_stage .error _ c)).trans
    ((reach_stage .read _ c).trans (reach_stage .write _ c))

theorem frame_cur (s : State) (c : Option Nat) : Frame s { s with cur := c } :=
  ⟨rfl, rfl, rfl, rfl, rfl, fun _ => rfl, fun _ => rfl, fun _ => rfl, [], by simp, by simp⟩

theorem reach_dispatch (act : List Nat) (s : State) : Reach s (dispatch s act) := by
  unfold dispatch
  induction act generalizing s with
  | nil => exact .refl s
  | cons c t ih =>
    simp only [List.foldl_cons]
    exact (Reach.frame (frame_cur s (some c)) (reach_handleEvent _ c)).trans (ih _)

theorem frame_pollFill (ready : List (Nat × Nat)) (pfds : List (Int × Nat)) :
    ∀ (s : State) (n : Nat) (acc : List Nat), Frame s (pollFill s ready pfds n acc).1 := by
  induction pfds with
  | nil => intro s n acc; simp only [pollFill]; exact Frame.rfl' s
  | cons pfd rest ih =>
    intro s n acc
    cases n with
    | zero => simp only [pollFill]; exact Frame.rfl' s
    | succ n =>
      simp only [pollFill]
      split
      · split
        · exact frame_abort s _
        · exact (frame_revents s _ _).trans (ih _ _ _)
      · exact ih _ _ _

theorem frame_epollFill (ready : List (Nat × Nat)) :
    ∀ (s : State) (acc : List Nat), Frame s (epollFill s ready acc).1 := by
  induction ready with
  | nil => intro s acc; simp only [epollFill]; exact Frame.rfl' s
  | cons p rest ih =>
    intro s acc
    obtain ⟨c, rev⟩ := p
    simp only [epollFill]
    split
    · exact frame_abort s _
    · exact (frame_revents s _ _).trans (ih _ _)

theorem frame_pollerPoll (s : State) (ready) (nret) : Frame s (pollerPoll s ready nret).1 := by
  unfold pollerPoll
  split
  · simp only
    split
    · exact (frame_emit s _ rfl).trans (frame_pollFill _ _ _ _ _)
    · exact frame_emit s _ rfl
  · simp only
    split
    · exact ((frame_emit s _ rfl).trans (frame_emit _ _ rfl)).trans (frame_abort _ _)
    · split
      · have h := frame_epollFill ready (emit s (.wait s.evsize kPollTimeMs)) []
        split
        · rename_i s1 act heq hfull
          rw [heq] at h
          refine ((frame_emit s _ rfl).trans h).trans ?_
          exact ⟨rfl, rfl, rfl, rfl, rfl, fun _ => rfl, fun _ => rfl, fun _ => rfl, [.grow (epGrowTo s1.evsize)], rfl, by simp [Ev.isCb]⟩
        · rename_i s1 act heq hfull
          rw [heq] at h
          exact (frame_emit s _ rfl).trans h
      · exact frame_emit s _ rfl

theorem reach_iter (s : State) (ready) (nret) : Reach s (iter s ready nret) := by
  unfold iter
  split
  · exact .refl s
  · have h := frame_pollerPoll s ready nret
    generalize pollerPoll s ready nret = p at h
    obtain ⟨s1, act⟩ := p
    simp only at h ⊢
    split
    · exact .ofFrame h
    · refine (Reach.ofFrame h).trans ?_
      refine Reach.frame (s' := { s1 with iteration := s1.iteration + 1, active := act, handling := true }) ?_ ?_
      · exact ⟨rfl, rfl, rfl, rfl, rfl, fun _ => rfl, fun _ => rfl, fun _ => rfl, [], by simp, by simp⟩
      · refine (reach_dispatch act _).trans (.ofFrame ?_)
        exact ⟨rfl, rfl, rfl, rfl, rfl, fun _ => rfl, fun _ => rfl, fun _ => rfl, [], by simp, by simp⟩

theorem reach_step (s : State) (i : In) : Reach s (step s i) := by
  cases i with
  | op c k => exact .op s c k (.refl _)
  | hook h =>
    simp only [step]
    split
    · exact .refl s
    · exact .ofFrame ⟨rfl, rfl, rfl, rfl, rfl, fun _ => rfl, fun _ => rfl, fun _ => rfl, [], by simp, by simp⟩
  | iter ready nret => exact reach_iter s ready nret

theorem reach_run (ins : List In) (s : State) : Reach s (run s ins) := by
  unfold run
  induction ins generalizing s with
  | nil => exact .refl s
  | cons i t ih => exact (reach_step s i).trans (ih _)

/-- an invariant that is stable under the three atomic moves holds along every history -/
theorem Reach.preserves {P : State → Prop}
    (hop : ∀ s c k, P s → P (applyOp s c k))
    (hframe : ∀ s t, Frame s t → P s → P t)
    (hcb : ∀ s t, CbStep s t → P s → P t)
    {s t : State} (h : Reach s t) (hs : P s) : P t := by
  induction h with
  | refl => exact hs
  | op s c k _ ih => exact ih (hop s c k hs)
  | frame f _ ih => exact ih (hframe _ _ f hs)
  | cb f _ ih => exact ih (hcb _ _ f hs)

theorem frame_of_cbStep {s t : State} (h : CbStep s t) :
    t.be = s.be ∧ t.cmap = s.cmap ∧ t.pollfds = s.pollfds ∧ t.kernel = s.kernel ∧ t.blind = s.blind ∧
      t.chans = s.chans := by
  obtain ⟨c, k, _, _, _, rfl⟩ := h
  exact ⟨rfl, rfl, rfl, rfl, rfl, rfl⟩

end MuduoVerif.Poller
