import MuduoVerif.Model.Conn

namespace MuduoVerif.Conn.TraceIndep
open MuduoVerif.Conn MuduoVerif.Gen.Conn

/-- replace the trace -/
def setTrace (c : Conn) (t : List Ev) : Conn := { c with trace := t }

/-- `f` ignores the trace except for appending a suffix that does not depend on it -/
def Indep (f : Conn → Conn) : Prop := ∀ c : Conn, ∃ s : List Ev, ∀ t : List Ev, f (setTrace c t) = setTrace (f c) (t ++ s)

/-! ### combinators -/

theorem indep_id : Indep id := fun _ => ⟨[], fun t => by simp⟩

theorem indep_self : Indep (fun c => c) := indep_id

theorem indep_of_fields (f : Conn → Conn) (h : ∀ c t, f (setTrace c t) = setTrace (f c) t) : Indep f :=
  fun c => ⟨[], fun t => by rw [h, List.append_nil]⟩

theorem indep_emit (e : Ev) : Indep (fun c => emit c e) := fun _ => ⟨[e], fun _ => rfl⟩

theorem indep_comp {f g : Conn → Conn} (hf : Indep f) (hg : Indep g) : Indep (fun c => g (f c)) := by
  intro c
  obtain ⟨s, hs⟩ := hf c
  obtain ⟨s', hs'⟩ := hg (f c)
  refine ⟨s ++ s', fun t => ?_⟩
  show g (f (setTrace c t)) = _
  rw [hs, hs', List.append_assoc]

/-- the continuation may depend on a value read from non-trace fields -/
theorem indep_bind {α : Type} (key : Conn → α) (g : α → Conn → Conn)
    (hkey : ∀ c t, key (setTrace c t) = key c) (hg : ∀ a, Indep (g a)) :
    Indep (fun c => g (key c) c) := by
  intro c
  obtain ⟨s, hs⟩ := hg (key c) c
  refine ⟨s, fun t => ?_⟩
  show g (key (setTrace c t)) (setTrace c t) = _
  rw [hkey]; exact hs t

theorem indep_ite {p : Conn → Prop} {inst : ∀ c, Decidable (p c)} {f g : Conn → Conn}
    (hp : ∀ c t, p (setTrace c t) ↔ p c) (hf : Indep f) (hg : Indep g) :
    Indep (fun c => @ite _ (p c) (inst c) (f c) (g c)) := by
  intro c
  by_cases h : p c
  · obtain ⟨s, hs⟩ := hf c
    refine ⟨s, fun t => ?_⟩
    have h' : p (setTrace c t) := (hp c t).2 h
    simp only [if_pos h, if_pos h']; exact hs t
  · obtain ⟨s, hs⟩ := hg c
    refine ⟨s, fun t => ?_⟩
    have h' : ¬ p (setTrace c t) := fun x => h ((hp c t).1 x)
    simp only [if_neg h, if_neg h']; exact hs t

/-! ### functions that do not touch the trace -/

theorem popWrite_indep : Indep popWrite :=
  indep_bind (fun c => c.writes)
    (fun ws c => match ws with | [] => { c with starved := true } | _ :: rest => { c with writes := rest })
    (fun _ _ => rfl) (fun ws => by cases ws <;> exact indep_of_fields _ (fun _ _ => rfl))

theorem popRead_indep : Indep popRead :=
  indep_bind (fun c => c.reads)
    (fun ws c => match ws with | [] => { c with starved := true } | _ :: rest => { c with reads := rest })
    (fun _ _ => rfl) (fun ws => by cases ws <;> exact indep_of_fields _ (fun _ _ => rfl))

theorem enqueue_indep (t : Task) : Indep (fun c => enqueue c t) := indep_of_fields _ (fun _ _ => rfl)
theorem setEvents_indep (r w : Bool) : Indep (fun c => setEvents c r w) := indep_of_fields _ (fun _ _ => rfl)
theorem enableReading_indep : Indep enableReading := indep_of_fields _ (fun _ _ => rfl)
theorem disableReading_indep : Indep disableReading := indep_of_fields _ (fun _ _ => rfl)
theorem enableWriting_indep : Indep enableWriting := indep_of_fields _ (fun _ _ => rfl)
theorem disableWriting_indep : Indep disableWriting := indep_of_fields _ (fun _ _ => rfl)
theorem disableAll_indep : Indep disableAll := indep_of_fields _ (fun _ _ => rfl)
theorem accept_indep (d : Bytes) (q : Bool) : Indep (fun c => accept c d q) := indep_of_fields _ (fun _ _ => rfl)
theorem deliver_indep (n : Nat) : Indep (fun c => deliver c n) := indep_of_fields _ (fun _ _ => rfl)
theorem consume_indep : Indep consume := indep_of_fields _ (fun _ _ => rfl)


/-! ### send path -/

theorem queueRemainder_indep (data : Bytes) (nwrote : Nat) (fault : Bool) :
    Indep (fun c => queueRemainder c data nwrote fault) := by
  unfold queueRemainder
  apply indep_ite (fun _ _ => Iff.rfl)
  · have h1 : Indep (fun c : Conn => if hwmCross c.outBuf.length (data.length - nwrote) c.mark c.hasHWM
        then enqueue c (.highWater (bindCb hwmBind c.hwmId) (c.outBuf.length + (data.length - nwrote))) else c) :=
      indep_ite (fun _ _ => Iff.rfl)
        (indep_of_fields _ (fun _ _ => rfl)) indep_self
    have h2 : Indep (fun c1 : Conn => { c1 with outBuf := c1.outBuf ++ data.drop nwrote }) :=
      indep_of_fields _ (fun _ _ => rfl)
    have h3 : Indep (fun c2 : Conn => if sendEnablesWriting c2.ch.evWrite then enableWriting c2 else c2) :=
      indep_ite (fun _ _ => Iff.rfl) enableWriting_indep indep_self
    exact indep_comp (indep_comp h1 h2) h3
  · exact indep_ite (fun _ _ => Iff.rfl) (indep_of_fields _ (fun _ _ => rfl)) indep_self

theorem sendDirect_indep (data : Bytes) (r : WriteRes) : Indep (fun c => sendDirect c data r) := by
  cases r with
  | took n =>
    have h1 : Indep (fun c : Conn => { c with wrote := c.wrote ++ data.take n }) :=
      indep_of_fields _ (fun _ _ => rfl)
    have h2 : Indep (fun c1 : Conn => if sendWholeWC (data.length - n) c1.hasWC
        then enqueue c1 (.writeComplete (bindCb wcBindSend c1.wcId)) else c1) :=
      indep_ite (fun _ _ => Iff.rfl) (indep_of_fields _ (fun _ _ => rfl)) indep_self
    exact indep_comp (indep_comp h1 h2) (queueRemainder_indep data n false)
  | err e => exact queueRemainder_indep data 0 _

theorem sendInLoop_indep (data : Bytes) (q : Bool) : Indep (fun c => sendInLoop c data q) := by
  unfold sendInLoop
  apply indep_ite (fun _ _ => Iff.rfl) (indep_emit _)
  apply indep_ite (fun _ _ => Iff.rfl)
  · exact indep_bind peekWrite
      (fun r c => sendDirect (emit (popWrite (accept c data q)) (.sysWrite data.length r)) data r)
      (fun _ _ => rfl)
      (fun r => indep_comp (indep_comp (indep_comp (accept_indep data q) popWrite_indep) (indep_emit _))
        (sendDirect_indep data r))
  · exact indep_comp (accept_indep data q) (queueRemainder_indep data 0 false)

theorem shutdownInLoop_indep : Indep shutdownInLoop := by
  show Indep (fun c => shutdownInLoop c)
  unfold shutdownInLoop
  exact indep_ite (fun _ _ => Iff.rfl)
    (indep_comp (f := fun c : Conn => { c with shutWr := true }) (indep_of_fields _ (fun _ _ => rfl)) (indep_emit _))
    indep_self

/-! ### user operations -/

theorem startReadInLoop_indep : Indep startReadInLoop := by
  show Indep (fun c => startReadInLoop c)
  unfold startReadInLoop
  exact indep_ite (fun _ _ => Iff.rfl) (indep_of_fields _ (fun _ _ => rfl)) indep_self

theorem stopReadInLoop_indep : Indep stopReadInLoop := by
  show Indep (fun c => stopReadInLoop c)
  unfold stopReadInLoop
  exact indep_ite (fun _ _ => Iff.rfl) (indep_of_fields _ (fun _ _ => rfl)) indep_self

theorem handOff_indep (foreign : Bool) (d : Dispatch) (t : Task) {inline : Conn → Conn}
    (h : Indep inline) : Indep (fun c => handOff c foreign d t inline) := by
  unfold handOff
  exact indep_ite (fun _ _ => Iff.rfl) (enqueue_indep t) h

theorem act_indep (foreign : Bool) (a : Act) : Indep (fun c => act c foreign a) := by
  have hdisc : Indep (fun c : Conn => { c with st := StateE.kDisconnecting }) :=
    indep_of_fields _ (fun _ _ => rfl)
  cases a with
  | send d =>
    show Indep (fun c : Conn => if sendAcceptsPiece c.st then
      (if foreign then enqueue { c with offeredF := c.offeredF ++ [d] } (.sendInLoop d)
       else sendInLoop { c with offeredL := c.offeredL ++ [d] } d false) else c)
    refine indep_ite (fun _ _ => Iff.rfl) ?_ indep_self
    refine indep_ite (fun _ _ => Iff.rfl) (indep_of_fields _ (fun _ _ => rfl)) ?_
    exact indep_comp (f := fun c : Conn => { c with offeredL := c.offeredL ++ [d] })
      (indep_of_fields _ (fun _ _ => rfl)) (sendInLoop_indep d false)
  | shutdown =>
    show Indep (fun c : Conn => if shutdownAccepts c.st then
      handOff { c with st := .kDisconnecting } foreign shutdownDispatch Task.shutdownInLoop shutdownInLoop else c)
    refine indep_ite (fun _ _ => Iff.rfl) ?_ indep_self
    exact indep_comp hdisc (handOff_indep foreign _ _ shutdownInLoop_indep)
  | forceClose =>
    show Indep (fun c : Conn => if forceCloseAccepts c.st then
      handOff { c with st := .kDisconnecting } foreign forceCloseDispatch .forceCloseInLoop id else c)
    refine indep_ite (fun _ _ => Iff.rfl) ?_ indep_self
    exact indep_comp hdisc (handOff_indep foreign _ _ indep_id)
  | forceCloseDelay us =>
    show Indep (fun c : Conn => if forceCloseDelayAccepts c.st then
      (if foreign then enqueue { c with st := .kDisconnecting } (.addDelayTimer (c.now + us))
       else { c with st := .kDisconnecting, timers := c.timers ++ [c.now + us] }) else c)
    refine indep_ite (fun _ _ => Iff.rfl) ?_ indep_self
    exact indep_ite (fun _ _ => Iff.rfl) (indep_of_fields _ (fun _ _ => rfl)) (indep_of_fields _ (fun _ _ => rfl))
  | stopRead => exact handOff_indep foreign _ _ stopReadInLoop_indep
  | startRead => exact handOff_indep foreign _ _ startReadInLoop_indep
  | setWc k => exact indep_of_fields _ (fun _ _ => rfl)
  | setHwm k m => exact indep_of_fields _ (fun _ _ => rfl)

theorem actLoop_indep (a : Act) : Indep (fun c => actLoop c a) := act_indep false a
theorem actForeign_indep (a : Act) : Indep (fun c => actForeign c a) := act_indep true a

/-! ### callbacks -/

theorem callback_indep (k : Cb) (e : Ev) : Indep (fun c => callback c k e) := by
  refine indep_bind (fun c => c.hooks)
    (fun h c => match takeHook k h with
      | some a => actLoop { emit c e with hooks := dropHook k h } a
      | none => emit c e)
    (fun _ _ => rfl) (fun h => ?_)
  cases hh : takeHook k h with
  | none => exact indep_emit e
  | some a =>
    exact indep_comp (indep_comp (indep_emit e)
      (indep_of_fields (fun c : Conn => { c with hooks := dropHook k h }) (fun _ _ => rfl))) (actLoop_indep a)

/-! ### handlers -/

theorem handleClose_indep : Indep handleClose := by
  show Indep (fun c => handleClose c)
  unfold handleClose
  refine indep_ite (fun _ _ => Iff.rfl) ?_ ?_
  · exact indep_comp (f := fun c : Conn => { c with dead := true }) (indep_of_fields _ (fun _ _ => rfl)) (indep_emit _)
  · have h1 : Indep (fun c : Conn => disableAll { c with st := StateE.kDisconnected }) :=
      indep_of_fields _ (fun _ _ => rfl)
    have h2 : Indep (fun c : Conn => enqueue { c with owner := false } .connectDestroyed) :=
      indep_of_fields _ (fun _ _ => rfl)
    exact indep_comp (indep_comp (indep_comp h1 (callback_indep .down .down)) (indep_emit .closeCb)) h2

theorem handleReadRes_indep (r : ReadRes) : Indep (fun c => handleReadRes c r) := by
  cases r with
  | err e => exact indep_self
  | got n =>
    cases n with
    | zero => exact handleClose_indep
    | succ n =>
      show Indep (fun c : Conn => consume (callback (deliver c (n+1)) .msg
        (.msg (deliver c (n+1)).inBuf.length (fnv64 (deliver c (n+1)).inBuf))))
      refine indep_comp ?_ consume_indep
      refine indep_comp (deliver_indep (n+1)) (g := fun c1 => callback c1 .msg (.msg c1.inBuf.length (fnv64 c1.inBuf))) ?_
      exact indep_bind (fun c => c.inBuf) (fun b c => callback c .msg (.msg b.length (fnv64 b)))
        (fun _ _ => rfl) (fun b => callback_indep _ _)

theorem handleRead_indep : Indep handleRead :=
  indep_bind peekRead (fun r c => handleReadRes (emit (popRead c) (.sysReadv r)) r) (fun _ _ => rfl)
    (fun r => indep_comp (indep_comp popRead_indep (indep_emit _)) (handleReadRes_indep r))

theorem afterDrain_indep : Indep afterDrain := by
  have h2 : Indep (fun c1 : Conn => if drainWC c1.hasWC then enqueue c1 (.writeComplete (bindCb wcBindDrain c1.wcId)) else c1) :=
    indep_ite (fun _ _ => Iff.rfl) (indep_of_fields _ (fun _ _ => rfl)) indep_self
  have h3 : Indep (fun c2 : Conn => if drainShutdown c2.st then
      handOff c2 false drainShutdownDispatch .drainShutdownInLoop shutdownInLoop else c2) :=
    indep_ite (fun _ _ => Iff.rfl) (handOff_indep _ _ _ shutdownInLoop_indep) indep_self
  exact indep_comp (f := fun c => (fun c1 : Conn => if drainWC c1.hasWC then enqueue c1 (.writeComplete (bindCb wcBindDrain c1.wcId)) else c1)
    (disableWriting c)) (indep_comp disableWriting_indep h2) h3

theorem handleWriteRes_indep (r : WriteRes) : Indep (fun c => handleWriteRes c r) := by
  cases r with
  | err e => exact indep_self
  | took n =>
    cases n with
    | zero => exact indep_self
    | succ n =>
      have h1 : Indep (fun c : Conn => { c with wrote := c.wrote ++ c.outBuf.take (n+1), outBuf := c.outBuf.drop (n+1) }) :=
        indep_of_fields _ (fun _ _ => rfl)
      have h2 : Indep (fun c1 : Conn => if drained c1.outBuf.length then afterDrain c1 else c1) :=
        indep_ite (fun _ _ => Iff.rfl) afterDrain_indep indep_self
      exact indep_comp h1 h2

theorem handleWrite_indep : Indep handleWrite := by
  show Indep (fun c => handleWrite c)
  unfold handleWrite
  refine indep_ite (fun _ _ => Iff.rfl) ?_ indep_self
  exact indep_bind (fun c => (c.outBuf.length, peekWrite c))
    (fun kr c => handleWriteRes (emit (popWrite c) (.sysWrite kr.1 kr.2)) kr.2)
    (fun _ _ => rfl)
    (fun kr => indep_comp (indep_comp popWrite_indep (indep_emit _)) (handleWriteRes_indep kr.2))

theorem guarded_indep {f : Conn → Conn} (hf : Indep f) (rev : Prop) [Decidable rev]
    (sub : Bool → Bool → Bool → Prop) [∀ a b c, Decidable (sub a b c)] : Indep (guarded f rev sub) := by
  show Indep (fun c => if rev ∧ sub c.ch.none c.ch.evRead c.ch.evWrite ∧ c.dead = false then f c else c)
  exact indep_ite (fun _ _ => Iff.rfl) hf indep_self

theorem handleEvent_indep (revents : Nat) : Indep (fun c => handleEvent c revents) := by
  unfold handleEvent
  refine indep_ite (fun _ _ => Iff.rfl) indep_self ?_
  exact indep_comp (indep_comp (guarded_indep handleClose_indep _ _) (guarded_indep handleRead_indep _ _))
    (guarded_indep handleWrite_indep _ _)

theorem connectEstablished_indep : Indep connectEstablished := by
  show Indep (fun c => connectEstablished c)
  unfold connectEstablished
  refine indep_ite (fun _ _ => Iff.rfl) ?_ ?_
  · exact indep_comp (f := fun c : Conn => { c with dead := true }) (indep_of_fields _ (fun _ _ => rfl)) (indep_emit _)
  · exact indep_comp (f := fun c : Conn => enableReading { c with st := StateE.kConnected })
      (indep_of_fields _ (fun _ _ => rfl)) (callback_indep .up .up)

theorem removeChannel_indep : Indep removeChannel := by
  show Indep (fun c => removeChannel c)
  unfold removeChannel
  refine indep_ite (fun _ _ => Iff.rfl) ?_ (indep_of_fields _ (fun _ _ => rfl))
  exact indep_comp (f := fun c : Conn => { c with dead := true }) (indep_of_fields _ (fun _ _ => rfl)) (indep_emit _)

theorem connectDestroyed_indep : Indep connectDestroyed := by
  show Indep (fun c => connectDestroyed c)
  unfold connectDestroyed
  refine indep_ite (fun _ _ => Iff.rfl) ?_ removeChannel_indep
  exact indep_comp (indep_comp (f := fun c : Conn => disableAll { c with st := StateE.kDisconnected })
    (indep_of_fields _ (fun _ _ => rfl)) (callback_indep .down .down)) removeChannel_indep

theorem fireDelay_indep : Indep fireDelay := by
  show Indep (fun c => fireDelay c)
  unfold fireDelay
  refine indep_ite (fun _ _ => Iff.rfl) (actLoop_indep _) ?_
  refine indep_ite (fun _ _ => Iff.rfl) indep_self ?_
  exact indep_comp (f := fun c : Conn => { c with dead := true }) (indep_of_fields _ (fun _ _ => rfl)) (indep_emit _)

theorem addTimer_indep (d : Nat) : Indep (fun c : Conn => { c with timers := c.timers ++ [d] }) :=
  indep_of_fields _ (fun _ _ => rfl)

theorem runTask_indep (t : Task) : Indep (fun c => runTask c t) := by
  have hraw : Indep (fun c : Conn => if t.hold = .weak then c
      else emit { c with dead := true } (.uaf "functor with a raw pointer ran after destruction")) :=
    indep_ite (fun _ _ => Iff.rfl) indep_self
      (indep_comp (f := fun c : Conn => { c with dead := true }) (indep_of_fields _ (fun _ _ => rfl)) (indep_emit _))
  unfold runTask
  cases t with
  | sendInLoop d => exact indep_ite (fun _ _ => Iff.rfl) hraw (sendInLoop_indep d true)
  | shutdownInLoop => exact indep_ite (fun _ _ => Iff.rfl) hraw shutdownInLoop_indep
  | drainShutdownInLoop => exact indep_ite (fun _ _ => Iff.rfl) hraw shutdownInLoop_indep
  | forceCloseInLoop =>
    exact indep_ite (fun _ _ => Iff.rfl) hraw (indep_ite (fun _ _ => Iff.rfl) handleClose_indep indep_self)
  | connectDestroyed => exact indep_ite (fun _ _ => Iff.rfl) hraw connectDestroyed_indep
  | writeComplete b =>
    exact indep_ite (fun _ _ => Iff.rfl) hraw
      (indep_bind (fun c => c.wcId) (fun k c => callback c .wc (.wc (b.resolve k))) (fun _ _ => rfl) (fun _ => callback_indep _ _))
  | highWater b n =>
    exact indep_ite (fun _ _ => Iff.rfl) hraw
      (indep_bind (fun c => c.hwmId) (fun k c => callback c .hwm (.hwm (b.resolve k) n)) (fun _ _ => rfl) (fun _ => callback_indep _ _))
  | startReadInLoop => exact indep_ite (fun _ _ => Iff.rfl) hraw startReadInLoop_indep
  | stopReadInLoop => exact indep_ite (fun _ _ => Iff.rfl) hraw stopReadInLoop_indep
  | addDelayTimer d => exact indep_ite (fun _ _ => Iff.rfl) (addTimer_indep d) (addTimer_indep d)

theorem maybeDestroy_indep : Indep maybeDestroy := by
  have hdead : Indep (fun c : Conn => { c with dead := true }) := indep_of_fields _ (fun _ _ => rfl)
  show Indep (fun c => maybeDestroy c)
  unfold maybeDestroy
  refine indep_ite (fun _ _ => Iff.rfl) ?_ indep_self
  refine indep_ite (fun _ _ => Iff.rfl) (indep_comp hdead (indep_emit _)) ?_
  refine indep_ite (fun _ _ => Iff.rfl) (indep_comp hdead (indep_emit _)) ?_
  exact indep_comp (indep_comp (f := fun c : Conn => { c with alive := false })
    (indep_of_fields _ (fun _ _ => rfl)) (indep_emit _)) (indep_emit _)

theorem runBatch_indep (n : Nat) : Indep (runBatch n) := by
  induction n with
  | zero => exact indep_self
  | succ n ih =>
    show Indep (fun c => if c.dead then c else
      match c.batch with
      | [] => c
      | t :: rest => runBatch n (runTask { c with batch := rest } t))
    refine indep_ite (fun _ _ => Iff.rfl) indep_self ?_
    refine indep_bind (fun c => c.batch)
      (fun b c => match b with
        | [] => c
        | t :: rest => runBatch n (runTask { c with batch := rest } t))
      (fun _ _ => rfl) (fun b => ?_)
    cases b with
    | nil => exact indep_self
    | cons t rest =>
      exact indep_comp (indep_comp (f := fun c : Conn => { c with batch := rest })
        (indep_of_fields _ (fun _ _ => rfl)) (runTask_indep t)) ih

theorem fireN_indep (n : Nat) : Indep (fun c => fireN c n) := by
  induction n with
  | zero => exact indep_self
  | succ n ih => exact indep_comp fireDelay_indep ih

theorem fireTimers_indep : Indep fireTimers :=
  indep_bind (fun c => (c.timers.filter (· ≤ c.now)).length)
    (fun n c => fireN { c with timers := c.timers.filter (fun d => ¬ d ≤ c.now) } n)
    (fun _ _ => rfl)
    (fun n => indep_comp (f := fun c : Conn => { c with timers := c.timers.filter (fun d => ¬ d ≤ c.now) })
      (indep_of_fields _ (fun _ _ => rfl)) (fireN_indep n))

theorem dispatch_indep (s : Src) : Indep (fun c => dispatch c s) := by
  cases s with
  | conn r => exact indep_ite (fun _ _ => Iff.rfl) indep_self (handleEvent_indep r)
  | timer => exact indep_ite (fun _ _ => Iff.rfl) indep_self fireTimers_indep

theorem foldl_dispatch_indep (active : List Src) : Indep (fun c => active.foldl dispatch c) := by
  induction active with
  | nil => exact indep_self
  | cons s rest ih => exact indep_comp (dispatch_indep s) ih

theorem drainPending_indep : Indep drainPending :=
  indep_bind (fun c => (c.batch ++ c.pending).length)
    (fun n c => runBatch n { c with pending := [], batch := c.batch ++ c.pending })
    (fun _ _ => rfl)
    (fun n => indep_comp (f := fun c : Conn => { c with pending := [], batch := c.batch ++ c.pending })
      (indep_of_fields _ (fun _ _ => rfl)) (runBatch_indep n))

theorem iter_indep (active : List Src) : Indep (fun c => iter c active) := by
  show Indep (fun c : Conn => if c.dead then c else
    (fun c1 : Conn => if c1.dead then c1 else maybeDestroy c1) (drainPending (active.foldl dispatch c)))
  refine indep_ite (fun _ _ => Iff.rfl) indep_self ?_
  have h3 : Indep (fun c1 : Conn => if c1.dead then c1 else maybeDestroy c1) :=
    indep_ite (fun _ _ => Iff.rfl) indep_self maybeDestroy_indep
  exact indep_comp (indep_comp (foldl_dispatch_indep active) drainPending_indep) h3

/-! ### main theorems -/

theorem step_indep (i : Input) : Indep (fun c => step c i) := by
  cases i with
  | establish =>
    show Indep (fun c : Conn => if c.dead then c else connectEstablished c)
    exact indep_ite (fun _ _ => Iff.rfl) indep_self connectEstablished_indep
  | act f a =>
    show Indep (fun c : Conn => if c.dead || !c.alive then c else if f then actForeign c a else actLoop c a)
    exact indep_ite (fun _ _ => Iff.rfl) indep_self
      (indep_ite (fun _ _ => Iff.rfl) (actForeign_indep a) (actLoop_indep a))
  | hook k a => exact indep_of_fields _ (fun _ _ => rfl)
  | setMark n => exact indep_of_fields _ (fun _ _ => rfl)
  | setRetrieve n => exact indep_of_fields _ (fun _ _ => rfl)
  | peerWrite d => exact indep_of_fields _ (fun _ _ => rfl)
  | envWrite r => exact indep_of_fields _ (fun _ _ => rfl)
  | envRead r => exact indep_of_fields _ (fun _ _ => rfl)
  | advance us => exact indep_of_fields _ (fun _ _ => rfl)
  | ownerDestroy =>
    show Indep (fun c : Conn => if c.dead || !c.alive || !c.owner then c
      else maybeDestroy { connectDestroyed c with owner := false })
    refine indep_ite (fun _ _ => Iff.rfl) indep_self ?_
    exact indep_comp (indep_comp connectDestroyed_indep
      (indep_of_fields (fun c : Conn => { c with owner := false }) (fun _ _ => rfl))) maybeDestroy_indep
  | iter a => exact iter_indep a

theorem run_indep (ins : List Input) : Indep (fun c => run c ins) := by
  induction ins with
  | nil => exact indep_self
  | cons i rest ih => exact indep_comp (step_indep i) ih

theorem setTrace_self (c : Conn) : setTrace c c.trace = c := by cases c; rfl

theorem trace_setTrace (c : Conn) (t : List Ev) : (setTrace c t).trace = t := rfl

/-- consequence: the trace only grows, and a different trace prefix changes nothing else -/
theorem run_setTrace (c : Conn) (ins : List Input) :
    ∃ s, (run c ins).trace = c.trace ++ s ∧ ∀ t, run (setTrace c t) ins = setTrace (run c ins) (t ++ s) := by
  obtain ⟨s, hs⟩ := run_indep ins c
  refine ⟨s, ?_, hs⟩
  have h : run c ins = setTrace (run c ins) (c.trace ++ s) := by
    have h' := hs c.trace
    rwa [setTrace_self] at h'
  exact congrArg Conn.trace h

end MuduoVerif.Conn.TraceIndep
