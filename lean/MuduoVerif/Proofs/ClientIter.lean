import MuduoVerif.Proofs.ClientTasks
/-! Preservation of `Mid` by the timer queue, by one loop iteration and by `reap`. -/
namespace MuduoVerif.Client
open MuduoVerif.Gen.Client

theorem nRetry_split (l : List (Nat × TKind)) (now : Nat) :
    nRetry l = nRetry (l.filter (fun t => decide (t.1 ≤ now))) + nRetry (l.filter (fun t => decide (¬ t.1 ≤ now))) := by
  induction l with
  | nil => rfl
  | cons t l ih =>
    unfold nRetry at ih ⊢
    by_cases h : t.1 ≤ now <;> by_cases hr : isRetryT t = true <;>
      simp only [List.filter_cons, h, decide_true, decide_false, not_true_eq_false, not_false_eq_true, if_true,
        if_false, List.countP_cons, hr, Bool.false_eq_true] <;> omega

theorem nRetry_pos_iff {l : List (Nat × TKind)} : 0 < nRetry l ↔ ∃ t ∈ l, t.2 = .retry := by
  unfold nRetry
  rw [List.countP_pos_iff]
  constructor
  · rintro ⟨t, ht, h⟩; exact ⟨t, ht, by simpa [isRetryT] using h⟩
  · rintro ⟨t, ht, h⟩; exact ⟨t, ht, by simpa [isRetryT] using h⟩

def fireOne (c : C) (t : Nat × TKind) : C :=
  if c.dead then c else
    match t.2 with
    | .retry => startInLoop c
    | .park => c

theorem fireTimers_eq (c : C) :
    fireTimers c =
      (let c2 := (c.timers.filter (fun t => decide (t.1 ≤ c.now))).foldl fireOne
          { c with timers := c.timers.filter (fun t => decide (¬ t.1 ≤ c.now)) }
       if c2.dead then c2 else reapConnector c2) := rfl

theorem fire_fold_mid (due : List (Nat × TKind)) (c : C) (r : List Task) (ph : Bool) (hi : Mid c r ph)
    (h : nRetry due = 0 ∨ (nRetry due = 1 ∧ StartPre c r)) : Mid (due.foldl fireOne c) r ph := by
  induction due generalizing c with
  | nil => exact hi
  | cons t due ih =>
    rw [List.foldl_cons]
    have hnd := hi.notDead
    cases hk : t.2 with
    | park =>
      have e : fireOne c t = c := by simp [fireOne, hnd, hk]
      rw [e]
      apply ih c hi
      have : nRetry (t :: due) = nRetry due := by simp [nRetry, List.countP_cons, isRetryT, hk]
      rw [this] at h; exact h
    | retry =>
      have e : fireOne c t = startInLoop c := by simp [fireOne, hnd, hk]
      have hc : nRetry (t :: due) = nRetry due + 1 := by simp [nRetry, List.countP_cons, isRetryT, hk]
      rw [e]
      rcases h with h | ⟨h, hp⟩
      · omega
      · exact ih _ (startInLoop_mid c r ph hi hp) (.inl (by omega))

theorem fireTimers_mid (c : C) (r : List Task) (ph : Bool) (hi : Mid c r ph) : Mid (fireTimers c) r ph := by
  rw [fireTimers_eq]
  have hsplit := nRetry_split c.timers c.now
  have hsub : ∀ t ∈ c.timers.filter (fun t => decide (¬ t.1 ≤ c.now)), t ∈ c.timers := fun t ht => (List.mem_filter.mp ht).1
  have h1 : Mid { c with timers := c.timers.filter (fun t => decide (¬ t.1 ≤ c.now)) } r ph := by
    obtain ⟨notDead, a1, a2, a3, a4, a5, a6, a7, a8, a9, a10, a11, a13, a14, a15, a16, s1, c1, c2, c3, c4, c5, c6, c7, c8, c9, c10, g1, g3, h1, t1⟩ := hi
    constructor
    all_goals mid_auto3
  have h2 : Mid ((c.timers.filter (fun t => decide (t.1 ≤ c.now))).foldl fireOne
      { c with timers := c.timers.filter (fun t => decide (¬ t.1 ≤ c.now)) }) r ph := by
    apply fire_fold_mid _ _ r ph h1
    by_cases hz : nRetry (c.timers.filter (fun t => decide (t.1 ≤ c.now))) = 0
    · exact .inl hz
    · right
      have hle := hi.a8.1
      have hpos : 0 < nRetry c.timers := by omega
      have hatt : attempting c.cstate c.timers := .inr hpos
      obtain ⟨t0, ht0, hr0⟩ := nRetry_pos_iff.mp (by omega : 0 < nRetry (c.timers.filter (fun t => decide (t.1 ≤ c.now))))
      obtain ⟨ht0m, ht0d⟩ := List.mem_filter.mp ht0
      have hst := hi.a8.2 hpos
      have hon : c.chanOn = false := by
        cases h : c.chanOn
        · rfl
        · have := hi.a1 h; rw [hst] at this; cases this
      refine ⟨by omega, hst, ?_, (hi.a9 hatt).1, by show nRetry (c.timers.filter _) = 0; omega, (hi.a9 hatt).2.1, (hi.a9 hatt).2.2, ?_⟩
      · cases hc : c.chan with
        | none => rfl
        | some k =>
          have := (hi.a5 (by simp [hc]) hon).2 t0 ht0m hr0
          simp at ht0d; omega
      · intro hcc
        show c.clientAlive = true
        cases h : c.clientAlive
        · rcases (hi.a11 h).2 with h2 | h2
          · rw [show c.cConnect = true from hcc] at h2; cases h2
          · exact absurd hatt h2.1
        · rfl
  simp only
  rw [if_neg (by rw [h2.notDead]; exact Bool.false_ne_true), reapConnector_id h2]
  exact h2

theorem dispatch_mid (c : C) (r : List Task) (s : Src) (hi : Mid c r false) : Mid (dispatch c s) r false := by
  cases s with
  | timer => exact fireTimers_mid c r false hi
  | connector rev => exact dispatchConnector_mid c r rev hi
  | conn k rev => exact dispatchConn_mid c r false hi k rev

theorem dispatch_fold_mid (active : List Src) (c : C) (hi : Mid c [] false) :
    Mid (active.foldl (fun (c : C) s => if c.dead then c else dispatch c s) c) [] false := by
  induction active generalizing c with
  | nil => exact hi
  | cons s active ih =>
    rw [List.foldl_cons, if_neg (by simp [hi.notDead])]
    exact ih _ (dispatch_mid c [] s hi)

theorem task_fold_mid (rest : List Task) (c : C) (hi : Mid c rest true) :
    Mid (rest.foldl (fun (c : C) t => if c.dead then c else runTask c t) c) [] true := by
  induction rest generalizing c with
  | nil => exact hi
  | cons t rest ih =>
    rw [List.foldl_cons, if_neg (by simp [hi.notDead])]
    exact ih _ (runTask_mid c rest t hi)

/-! ### `reap`: connections nobody refers to are destroyed -/

def kill : ConnRec → ConnRec := fun r => { r with destroyed := true }

theorem findIn_mapg {cs : List ConnRec} (j : Nat) (g : ConnRec → ConnRec) (hg : ∀ r, (g r).sock = r.sock) :
    findIn (cs.map g) j = (findIn cs j).map g := by
  induction cs with
  | nil => rfl
  | cons y ys ih =>
    unfold findIn at ih ⊢
    simp only [List.map_cons, List.find?_cons, hg]
    by_cases h : y.sock = j
    · simp [h]
    · have hb : (y.sock == j) = false := by simpa using h
      simp only [hb]; exact ih

theorem Tr.connClosedMany {n ss u nr sp al} (d : List Nat) : ∀ (cs : List ConnRec) (tr : List Ev),
    Tr tr n ss cs u nr sp al → d.Nodup →
    (∀ k ∈ d, ∃ x, findIn cs k = some x ∧ x.destroyed = false ∧ x.st = .disconnected ∧ ss[k]? = some SockSt.handedOver) →
    Tr (tr ++ d.map Ev.connClosed) n ss (cs.map (fun r => if r.sock ∈ d then kill r else r)) u nr sp al := by
  induction d with
  | nil =>
    intro cs tr h _ _
    simpa using h
  | cons k d ih =>
    intro cs tr h hnd hall
    obtain ⟨x, hx, hxd, hxs, hk⟩ := hall k (by simp)
    have hsock := (findIn_some hx).2
    have h1 : Tr (tr ++ [Ev.connClosed k]) n ss (cs.map (updRec k kill)) u nr sp al := by
      refine h.connClosed (x' := kill x) hk hx hxd hxs ?_ rfl ?_
      · rw [findIn_upd k k kill (fun _ => rfl), hx]; simp [updRec, hsock]
      · intro j hj
        rw [findIn_upd k j kill (fun _ => rfl)]
        cases hf : findIn cs j with
        | none => rfl
        | some y => have := (findIn_some hf).2; simp [updRec, this, hj]
    have hnd' := (List.nodup_cons.mp hnd)
    have h2 := ih (cs.map (updRec k kill)) (tr ++ [Ev.connClosed k]) h1 hnd'.2 (by
      intro k' hk'
      obtain ⟨y, hy, hyd, hys, hk2⟩ := hall k' (by simp [hk'])
      have hne : k' ≠ k := fun e => hnd'.1 (e ▸ hk')
      refine ⟨y, ?_, hyd, hys, hk2⟩
      rw [findIn_upd k k' kill (fun _ => rfl), hy]
      have := (findIn_some hy).2
      simp [updRec, this, hne])
    have e1 : tr ++ [Ev.connClosed k] ++ d.map Ev.connClosed = tr ++ (k :: d).map Ev.connClosed := by simp
    have e2 : (cs.map (updRec k kill)).map (fun r => if r.sock ∈ d then kill r else r) =
        cs.map (fun r => if r.sock ∈ k :: d then kill r else r) := by
      rw [List.map_map]; apply List.map_congr_left; intro r _
      simp only [Function.comp, updRec]
      by_cases hr : r.sock = k
      · have : (kill r).sock = k := hr
        simp [hr, hnd'.1, kill]
      · simp [hr]
    rw [← e1, ← e2]; exact h2

theorem connHeld_iff (c : C) (x : ConnRec) : connHeld c x = true ↔ held c.clientAlive c.connection c.pending x := by
  unfold connHeld held
  simp only [Bool.or_eq_true, Bool.and_eq_true, beq_iff_eq, List.any_eq_true, or_assoc]

def dyingP (c : C) (x : ConnRec) : Bool := !x.destroyed && !connHeld c x

theorem reap_eq (c : C) : reap c =
    (match (c.conns.filter (dyingP c)).find? (fun r => r.st ≠ .disconnected) with
     | some _ =>
       if c.asserts then die c (.abort "state_ == kDisconnected")
       else die c (.uaf "~TcpConnection: channel destroyed while registered")
     | none =>
       { c with conns := c.conns.map (fun r => if dyingP c r then kill r else r),
                trace := c.trace ++ (c.conns.filter (dyingP c)).map (fun r => Ev.connClosed r.sock) }) := rfl

def reapRec (c : C) : ConnRec → ConnRec := fun r => if dyingP c r then kill r else r

theorem reap_mid (c : C) (hi : Mid c [] true) : Mid (reap c) [] true := by
  have hdy : ∀ x ∈ c.conns, dyingP c x = true →
      x.destroyed = false ∧ ¬ held c.clientAlive c.connection c.pending x ∧ x.st = .disconnected ∧ x.chanOn = false := by
    intro x hx hd
    simp only [dyingP, Bool.and_eq_true, Bool.not_eq_true'] at hd
    have hnh : ¬ held c.clientAlive c.connection c.pending x := by
      rw [← connHeld_iff]; simp [hd.2]
    have hst : x.st = .disconnected := by
      cases h : x.st
      · exact absurd (by simpa using hi.c5 x hx (by rw [h]; simp)) hnh
      · exact absurd (by simpa using hi.c5 x hx (by rw [h]; simp)) hnh
      · rfl
    refine ⟨hd.1, hnh, hst, ?_⟩
    cases h : x.chanOn
    · rfl
    · exact absurd hst (hi.c3 x hx h)
  have hnone : (c.conns.filter (dyingP c)).find? (fun r => r.st ≠ .disconnected) = none := by
    rw [List.find?_eq_none]
    intro x hx
    obtain ⟨hxm, hxd⟩ := List.mem_filter.mp hx
    simp [(hdy x hxm hxd).2.2.1]
  rw [reap_eq, hnone]
  simp only
  -- the trace
  have htr : Tr (c.trace ++ (c.conns.filter (dyingP c)).map (fun r => Ev.connClosed r.sock)) c.nsock c.sockSt
      (c.conns.map (reapRec c)) c.ups c.nretry c.stopReq c.clientAlive := by
    have hsub : ((c.conns.filter (dyingP c)).map (·.sock)).Nodup :=
      List.Nodup.sublist (List.Sublist.map _ List.filter_sublist) hi.c2
    have h := hi.tr.connClosedMany ((c.conns.filter (dyingP c)).map (·.sock)) c.conns c.trace hsub (by
      intro k hk
      obtain ⟨x, hx, rfl⟩ := List.mem_map.mp hk
      obtain ⟨hxm, hxd⟩ := List.mem_filter.mp hx
      exact ⟨x, findIn_of_mem hi.c2 hxm, (hdy x hxm hxd).1, (hdy x hxm hxd).2.2.1, hi.c1 x hxm⟩)
    have e1 : ((c.conns.filter (dyingP c)).map (·.sock)).map Ev.connClosed =
        (c.conns.filter (dyingP c)).map (fun r => Ev.connClosed r.sock) := by
      rw [List.map_map]; rfl
    have e2 : c.conns.map (fun r => if r.sock ∈ (c.conns.filter (dyingP c)).map (·.sock) then kill r else r) =
        c.conns.map (reapRec c) := by
      apply List.map_congr_left
      intro x hx
      unfold reapRec
      by_cases hd : dyingP c x = true
      · have : x.sock ∈ (c.conns.filter (dyingP c)).map (·.sock) :=
          List.mem_map.mpr ⟨x, List.mem_filter.mpr ⟨hx, hd⟩, rfl⟩
        simp [hd, this]
      · have : x.sock ∉ (c.conns.filter (dyingP c)).map (·.sock) := by
          intro hm
          obtain ⟨y, hy, hys⟩ := List.mem_map.mp hm
          obtain ⟨hym, hyd⟩ := List.mem_filter.mp hy
          have h1 := findIn_of_mem hi.c2 hym
          have h2 := findIn_of_mem hi.c2 hx
          rw [hys, h2] at h1
          cases h1; exact hd hyd
        simp [hd, this]
    rw [e1, e2] at h; exact h
  have hmem : ∀ y ∈ c.conns.map (reapRec c), ∃ x ∈ c.conns, y = reapRec c x := by
    intro y hy; obtain ⟨x, hx, rfl⟩ := List.mem_map.mp hy; exact ⟨x, hx, rfl⟩
  have hgs : ∀ r, (reapRec c r).sock = r.sock := by intro r; unfold reapRec kill; split <;> rfl
  have hfind := fun j => @findIn_mapg c.conns j (reapRec c) hgs
  have hsocks : (c.conns.map (reapRec c)).map (·.sock) = c.conns.map (·.sock) := by
    rw [List.map_map]; apply List.map_congr_left; intro x _; exact hgs x
  have hg : ∀ x ∈ c.conns, (reapRec c x = x) ∨
      (reapRec c x = kill x ∧ x.destroyed = false ∧ ¬ held c.clientAlive c.connection c.pending x ∧
        x.st = .disconnected ∧ x.chanOn = false) := by
    intro x hx
    unfold reapRec
    by_cases hd : dyingP c x = true
    · right; rw [if_pos hd]; exact ⟨rfl, hdy x hx hd⟩
    · left; simp [hd]
  have hfs := @findIn_some c.conns
  show Mid { c with conns := c.conns.map (reapRec c),
                    trace := c.trace ++ (c.conns.filter (dyingP c)).map (fun r => Ev.connClosed r.sock) } [] true
  generalize reapRec c = g at *
  obtain ⟨notDead, a1, a2, a3, a4, a5, a6, a7, a8, a9, a10, a11, a13, a14, a15, a16, s1, c1, c2, c3, c4, c5, c6, c7, c8, c9, c10, g1, g3, h1, t1⟩ := hi
  constructor
  all_goals (first | assumption | grind [attempting, held, Task.plain, Task.holds, kill] | skip)

theorem reap_batch (c : C) : (reap c).batch = c.batch := by
  rw [reap_eq]; unfold die; repeat' split
  all_goals rfl

/-- the invariant between two inputs -/
def Bnd (c : C) : Prop := Mid c [] true

theorem iter_bnd (c : C) (active : List Src) (hi : Bnd c) : Bnd (iter c active) := by
  unfold Bnd at hi ⊢
  have h0 : Mid { c with horizon := c.nsock } [] false := by
    obtain ⟨notDead, a1, a2, a3, a4, a5, a6, a7, a8, a9, a10, a11, a13, a14, a15, a16, s1, c1, c2, c3, c4, c5, c6, c7, c8, c9, c10, g1, g3, h1, t1⟩ := hi
    constructor
    all_goals mid_auto3
  have h1 := dispatch_fold_mid active _ h0
  unfold iter
  simp only
  generalize List.foldl (fun (c : C) s => if c.dead then c else dispatch c s) _ active = c1 at h1 ⊢
  rw [if_neg (by rw [h1.notDead]; exact Bool.false_ne_true)]
  have h2 : Mid { c1 with pending := [], batch := c1.pending } c1.pending true := by
    obtain ⟨notDead, a1, a2, a3, a4, a5, a6, a7, a8, a9, a10, a11, a13, a14, a15, a16, s1, c1', c2, c3, c4, c5, c6, c7, c8, c9, c10, g1, g3, h1, t1⟩ := h1
    constructor
    all_goals mid_auto3
  have h3 := task_fold_mid c1.pending _ h2
  generalize List.foldl (fun (c : C) t => if c.dead then c else runTask c t) _ c1.pending = c2 at h3 ⊢
  rw [if_neg (by rw [h3.notDead]; exact Bool.false_ne_true)]
  have h4 : Mid { c2 with batch := [] } [] true := by
    obtain ⟨notDead, a1, a2, a3, a4, a5, a6, a7, a8, a9, a10, a11, a13, a14, a15, a16, s1, c1', c2', c3, c4, c5, c6, c7, c8, c9, c10, g1, g3, h1, t1⟩ := h3
    constructor
    all_goals mid_auto3
  rw [reapConnector_id h4, if_neg (by rw [h4.notDead]; exact Bool.false_ne_true)]
  exact reap_mid _ h4

end MuduoVerif.Client
