import MuduoVerif.Proofs.CalendarE
/-! One sixteenth of the 400-year cycle, checked by kernel evaluation (see CalendarCycle.lean). -/
namespace MuduoVerif.CalendarE

theorem cycleDays_6 : checkDays 54792 9132 = true := by decide +kernel

theorem cycleYears_6 : checkYears 150 25 = true := by decide +kernel

end MuduoVerif.CalendarE
