import MuduoVerif.Model.Stream
/-!
Segmentation invariance of an incremental decoder, once and for all.

`StepOk I step`: on parser states satisfying `I`, an iteration that makes progress consumes
at least one and at most the available bytes and keeps `I`; and an iteration's verdict
(`adv` or `fail`) does not change when more bytes are appended behind the ones it looked at.
From this alone: the loop terminates within `buf.length + 1` iterations, and feeding `a`
and then `b` leaves the decoder in the same state, having emitted the same events, as
feeding `a ++ b`; hence any segmentation of a stream gives the same result as one piece.
-/
namespace MuduoVerif.Stream

variable {σ ε : Type}

structure StepOk (I : σ → Prop) (step : σ → Bytes → Out σ ε) : Prop where
  adv_ok : ∀ {s buf s' evs k}, I s → step s buf = .adv s' evs k → 0 < k ∧ k ≤ buf.length ∧ I s'
  adv_mono : ∀ {s buf s' evs k} (x : Bytes), I s → step s buf = .adv s' evs k →
    step s (buf ++ x) = .adv s' evs k
  fail_mono : ∀ {s buf e} (x : Bytes), I s → step s buf = .fail e → step s (buf ++ x) = .fail e

@[simp] theorem Res.pre_nil (r : Res σ ε) : r.pre [] = r := by
  cases r; simp [Res.pre]

@[simp] theorem Res.pre_pre (a b : List ε) (r : Res σ ε) : (r.pre b).pre a = r.pre (a ++ b) := by
  simp [Res.pre, List.append_assoc]

@[simp] theorem Res.pre_s (a : List ε) (r : Res σ ε) : (r.pre a).s = r.s := rfl
@[simp] theorem Res.pre_rest (a : List ε) (r : Res σ ε) : (r.pre a).rest = r.rest := rfl
@[simp] theorem Res.pre_dead (a : List ε) (r : Res σ ε) : (r.pre a).dead = r.dead := rfl
@[simp] theorem Res.pre_stuck (a : List ε) (r : Res σ ε) : (r.pre a).stuck = r.stuck := rfl
@[simp] theorem Res.pre_evs (a : List ε) (r : Res σ ε) : (r.pre a).evs = a ++ r.evs := rfl

/-- with more iterations allowed than there are bytes, the exact allowance is irrelevant -/
theorem loop_fuel {I : σ → Prop} {step : σ → Bytes → Out σ ε} (h : StepOk I step) :
    ∀ (n m : Nat) (s : σ) (buf : Bytes), I s → buf.length < n → buf.length < m →
      loop step n s buf = loop step m s buf := by
  intro n
  induction n with
  | zero => intro m s buf _ h1; omega
  | succ n ih =>
    intro m s buf hI h1 h2
    cases m with
    | zero => omega
    | succ m =>
      cases hs : step s buf with
      | need => simp only [loop, hs]
      | fail e => simp only [loop, hs]
      | adv s' evs k =>
        obtain ⟨hk, hkl, hI'⟩ := h.adv_ok hI hs
        simp only [loop, hs]
        rw [ih m s' (buf.drop k) hI' (by simp only [List.length_drop]; omega)
          (by simp only [List.length_drop]; omega)]

/-- the loop, as the code reads: one iteration, then the loop again on what is left -/
theorem drain_unfold {I : σ → Prop} {step : σ → Bytes → Out σ ε} (h : StepOk I step)
    (s : σ) (buf : Bytes) (hI : I s) :
    drain step s buf =
      match step s buf with
      | .need => { s := s, rest := buf, dead := false, stuck := false, evs := [] }
      | .fail e => { s := s, rest := buf, dead := true, stuck := false, evs := [e] }
      | .adv s' evs k => (drain step s' (buf.drop k)).pre evs := by
  cases hs : step s buf with
  | need => simp only [drain, loop, hs]
  | fail e => simp only [drain, loop, hs]
  | adv s' evs k =>
    obtain ⟨hk, hkl, hI'⟩ := h.adv_ok hI hs
    have h1 : drain step s buf = (loop step buf.length s' (buf.drop k)).pre evs := by
      simp only [drain, loop, hs]
    rw [h1, loop_fuel h buf.length ((buf.drop k).length + 1) s' (buf.drop k) hI'
      (by simp only [List.length_drop]; omega) (by omega)]
    rfl

/-- termination: `buf.length + 1` iterations are enough, the loop is never cut short -/
theorem drain_not_stuck {I : σ → Prop} {step : σ → Bytes → Out σ ε} (h : StepOk I step) :
    ∀ (n : Nat) (s : σ) (buf : Bytes), buf.length = n → I s → (drain step s buf).stuck = false := by
  intro n
  induction n using Nat.strongRecOn with
  | _ n ih =>
    intro s buf hn hI
    rw [drain_unfold h s buf hI]
    cases hs : step s buf with
    | need => rfl
    | fail e => rfl
    | adv s' evs k =>
      obtain ⟨hk, hkl, hI'⟩ := h.adv_ok hI hs
      simp only [Res.pre_stuck]
      exact ih (buf.drop k).length (by simp only [List.length_drop]; omega) s' (buf.drop k) rfl hI'

/-- the parser state after a run satisfies the invariant again -/
theorem drain_inv {I : σ → Prop} {step : σ → Bytes → Out σ ε} (h : StepOk I step) :
    ∀ (n : Nat) (s : σ) (buf : Bytes), buf.length = n → I s → I (drain step s buf).s := by
  intro n
  induction n using Nat.strongRecOn with
  | _ n ih =>
    intro s buf hn hI
    rw [drain_unfold h s buf hI]
    cases hs : step s buf with
    | need => exact hI
    | fail e => exact hI
    | adv s' evs k =>
      obtain ⟨hk, hkl, hI'⟩ := h.adv_ok hI hs
      simp only [Res.pre_s]
      exact ih (buf.drop k).length (by simp only [List.length_drop]; omega) s' (buf.drop k) rfl hI'

/-- what is left is a suffix of the input: bytes are consumed from the front, in order -/
theorem drain_rest_suffix {I : σ → Prop} {step : σ → Bytes → Out σ ε} (h : StepOk I step) :
    ∀ (n : Nat) (s : σ) (buf : Bytes), buf.length = n → I s →
      ∃ k, k ≤ buf.length ∧ (drain step s buf).rest = buf.drop k := by
  intro n
  induction n using Nat.strongRecOn with
  | _ n ih =>
    intro s buf hn hI
    rw [drain_unfold h s buf hI]
    cases hs : step s buf with
    | need => exact ⟨0, by omega, rfl⟩
    | fail e => exact ⟨0, by omega, rfl⟩
    | adv s' evs k =>
      obtain ⟨hk, hkl, hI'⟩ := h.adv_ok hI hs
      obtain ⟨j, hj, hr⟩ := ih (buf.drop k).length (by simp only [List.length_drop]; omega) s'
        (buf.drop k) rfl hI'
      simp only [List.length_drop] at hj
      exact ⟨k + j, by omega, by simp only [Res.pre_rest, hr, List.drop_drop]⟩

/-- the key lemma: running the loop on `buf ++ b` is running it on `buf` and then - unless
an error stopped it - running it again on what was left followed by `b` -/
theorem drain_append {I : σ → Prop} {step : σ → Bytes → Out σ ε} (h : StepOk I step) (b : Bytes) :
    ∀ (n : Nat) (s : σ) (buf : Bytes), buf.length = n → I s →
      drain step s (buf ++ b) =
        if (drain step s buf).dead then
          { s := (drain step s buf).s, rest := (drain step s buf).rest ++ b, dead := true,
            stuck := false, evs := (drain step s buf).evs }
        else (drain step (drain step s buf).s ((drain step s buf).rest ++ b)).pre (drain step s buf).evs := by
  intro n
  induction n using Nat.strongRecOn with
  | _ n ih =>
    intro s buf hn hI
    rw [drain_unfold h s buf hI]
    cases hs : step s buf with
    | need => simp
    | fail e =>
      simp only [if_true]
      rw [drain_unfold h s (buf ++ b) hI, h.fail_mono b hI hs]
    | adv s' evs k =>
      obtain ⟨hk, hkl, hI'⟩ := h.adv_ok hI hs
      rw [drain_unfold h s (buf ++ b) hI, h.adv_mono b hI hs]
      simp only [Res.pre_dead, Res.pre_s, Res.pre_rest, Res.pre_evs]
      rw [List.drop_append_of_le_length hkl]
      rw [ih (buf.drop k).length (by simp only [List.length_drop]; omega) s' (buf.drop k) rfl hI']
      by_cases hd : (drain step s' (buf.drop k)).dead = true
      · simp [hd, Res.pre]
      · simp [hd]

/-! ### deliveries -/

/-- a decoder at rest: either abandoned, or its loop has run until it needed more bytes -/
def Settled (I : σ → Prop) (step : σ → Bytes → Out σ ε) (d : Dec σ) : Prop :=
  I d.s ∧ (d.dead = true ∨ step d.s d.buf = .need)

theorem drain_settled {I : σ → Prop} {step : σ → Bytes → Out σ ε} (h : StepOk I step) :
    ∀ (n : Nat) (s : σ) (buf : Bytes), buf.length = n → I s →
      (drain step s buf).dead = true ∨ step (drain step s buf).s (drain step s buf).rest = .need := by
  intro n
  induction n using Nat.strongRecOn with
  | _ n ih =>
    intro s buf hn hI
    rw [drain_unfold h s buf hI]
    cases hs : step s buf with
    | need => right; exact hs
    | fail e => left; rfl
    | adv s' evs k =>
      obtain ⟨hk, hkl, hI'⟩ := h.adv_ok hI hs
      simp only [Res.pre_dead, Res.pre_s, Res.pre_rest]
      exact ih (buf.drop k).length (by simp only [List.length_drop]; omega) s' (buf.drop k) rfl hI'

theorem feed_settled {I : σ → Prop} {step : σ → Bytes → Out σ ε} (h : StepOk I step)
    (d : Dec σ) (hI : I d.s) (c : Bytes) : Settled I step (feed step d c).1 := by
  unfold feed
  split
  · exact ⟨hI, Or.inl rfl⟩
  · exact ⟨drain_inv h _ d.s (d.buf ++ c) rfl hI, drain_settled h _ d.s (d.buf ++ c) rfl hI⟩

/-- an empty delivery to a decoder at rest changes nothing -/
theorem feed_nil {I : σ → Prop} {step : σ → Bytes → Out σ ε} (h : StepOk I step)
    (d : Dec σ) (hs : Settled I step d) : feed step d [] = (d, []) := by
  unfold feed
  obtain ⟨hI, hd | hn⟩ := hs
  · simp [hd]
    cases d; simp_all
  · by_cases hd : d.dead = true
    · simp [hd]; cases d; simp_all
    · simp only [hd, List.append_nil]
      rw [drain_unfold h d.s d.buf hI, hn]
      cases d; simp_all

/-- **two deliveries = one delivery of the concatenation** -/
theorem feed_feed {I : σ → Prop} {step : σ → Bytes → Out σ ε} (h : StepOk I step)
    (d : Dec σ) (hI : I d.s) (a b : Bytes) :
    ((feed step (feed step d a).1 b).1, (feed step d a).2 ++ (feed step (feed step d a).1 b).2)
      = feed step d (a ++ b) := by
  unfold feed
  by_cases hd : d.dead = true
  · simp [hd, List.append_assoc]
  · simp only [hd, if_false, Bool.false_eq_true]
    rw [← List.append_assoc, drain_append h b _ d.s (d.buf ++ a) rfl hI]
    by_cases hd2 : (drain step d.s (d.buf ++ a)).dead = true
    · simp [hd2]
    · simp [hd2]

/-- **segmentation invariance**: delivering a stream in any chunks, to a decoder at rest,
gives the same final decoder (parser state, unconsumed bytes, error flag) and the same
events as delivering it in one piece -/
theorem feedAll_flatten {I : σ → Prop} {step : σ → Bytes → Out σ ε} (h : StepOk I step) :
    ∀ (chunks : List Bytes) (d : Dec σ), Settled I step d →
      feedAll step d chunks = feed step d chunks.flatten := by
  intro chunks
  induction chunks with
  | nil => intro d hs; simp only [feedAll, List.flatten_nil]; exact (feed_nil h d hs).symm
  | cons c cs ih =>
    intro d hs
    simp only [feedAll, List.flatten_cons]
    rw [ih _ (feed_settled h d hs.1 c), ← feed_feed h d hs.1 c cs.flatten]

/-- the number of bytes consumed so far is determined by what is left -/
theorem feed_conserves {I : σ → Prop} {step : σ → Bytes → Out σ ε} (h : StepOk I step)
    (d : Dec σ) (hI : I d.s) (c : Bytes) :
    ∃ k, k ≤ d.buf.length + c.length ∧ (feed step d c).1.buf = (d.buf ++ c).drop k := by
  unfold feed
  split
  · exact ⟨0, by omega, rfl⟩
  · obtain ⟨k, hk, hr⟩ := drain_rest_suffix h _ d.s (d.buf ++ c) rfl hI
    exact ⟨k, by simpa using hk, hr⟩

end MuduoVerif.Stream
