import MuduoVerif.Proofs.Rpc
/-! Preservation of `CallInv` by the caller-side steps and by the RESPONSE branch. -/
namespace MuduoVerif.Rpc
open MuduoVerif.Gen.Rpc

theorem setAt_same {α : Type} (f : Nat → α) (k : Nat) (v : α) : setAt f k v k = v := by simp [setAt]
theorem setAt_other {α : Type} (f : Nat → α) (k j : Nat) (v : α) (h : j ≠ k) : setAt f k v j = f j := by simp [setAt, h]

theorem CallInv.callBegin {s : Chan} (inv : CallInv s) : CallInv (callBegin s) := by
  have hn := inv.born s.nextCall (Nat.le_refl _)
  have hfr := inv.fresh s.nextCall (by simp [Registered, hn])
  constructor
  · intro k hk
    simp only [MuduoVerif.Rpc.callBegin] at hk ⊢
    rw [setAt_other _ _ _ _ (by omega)]
    exact inv.born k (by omega)
  · intro k hk
    simp only [MuduoVerif.Rpc.callBegin] at hk ⊢
    by_cases h : k = s.nextCall
    · omega
    · rw [setAt_other _ _ _ _ h] at hk
      have := inv.alive k hk
      omega
  · intro k hk
    simp only [MuduoVerif.Rpc.callBegin, idFetch_eq] at hk ⊢
    by_cases h : k = s.nextCall
    · subst h; simp [setAt_same]
    · rw [setAt_other _ _ _ _ h]
      have := inv.idpos k (by omega)
      omega
  · intro j k hj hk
    simp only [MuduoVerif.Rpc.callBegin, idFetch_eq] at hj hk ⊢
    by_cases h1 : j = s.nextCall <;> by_cases h2 : k = s.nextCall
    · omega
    · subst h1
      rw [setAt_same, setAt_other _ _ _ _ h2]
      have := inv.idpos k (by omega)
      omega
    · subst h2
      rw [setAt_same, setAt_other _ _ _ _ h1]
      have := inv.idpos j (by omega)
      omega
    · rw [setAt_other _ _ _ _ h1, setAt_other _ _ _ _ h2]
      exact inv.inj j k (by omega) (by omega)
  · intro k
    simp only [MuduoVerif.Rpc.callBegin]
    by_cases h : k = s.nextCall
    · subst h; simp [setAt_same]
    · rw [setAt_other _ _ _ _ h]; exact inv.noSentOnly k
  · intro i k hl
    simp only [MuduoVerif.Rpc.callBegin] at hl ⊢
    obtain ⟨a, b, c, d, e⟩ := inv.out i k hl
    have hk : k ≠ s.nextCall := by
      intro h; subst h
      rcases b with b | b <;> simp [hn] at b
    simp only [Registered] at b ⊢
    rw [setAt_other _ _ _ _ hk, setAt_other _ _ _ _ hk]
    exact ⟨a, b, c, d, e⟩
  · intro k m hp
    simp only [MuduoVerif.Rpc.callBegin] at hp ⊢
    obtain ⟨a, b, c, d, e⟩ := inv.pend k m hp
    have hk : k ≠ s.nextCall := by
      intro h; subst h
      rcases b with b | b <;> simp [hn] at b
    simp only [Registered] at b ⊢
    rw [setAt_other _ _ _ _ hk, setAt_other _ _ _ _ hk]
    exact ⟨a, b, c, d, e⟩
  · intro k; exact inv.once k
  · intro k hk
    simp only [MuduoVerif.Rpc.callBegin, Registered] at hk ⊢
    by_cases h : k = s.nextCall
    · subst h; exact hfr
    · rw [setAt_other _ _ _ _ h] at hk
      exact inv.fresh k hk
  · intro k i v he
    simp only [MuduoVerif.Rpc.callBegin] at he ⊢
    obtain ⟨a, b⟩ := inv.own k i v he
    have hk : k ≠ s.nextCall := by
      intro h; subst h
      have : ranCount s.nextCall s.log = 0 := hfr.1
      unfold ranCount at this
      rw [List.countP_eq_zero] at this
      have := this _ he
      simp [isRan] at this
    rw [setAt_other _ _ _ _ hk]
    exact ⟨a, b⟩
  · intro k hk hr hp
    simp only [MuduoVerif.Rpc.callBegin, Registered] at hk hr hp ⊢
    have hne : k ≠ s.nextCall := by
      intro h; subst h
      simp [setAt_same] at hk
    rw [setAt_other _ _ _ _ hne] at hk ⊢
    exact inv.reg k hk hr hp
  · intro i k he
    simp only [MuduoVerif.Rpc.callBegin] at he ⊢
    obtain ⟨a, b⟩ := inv.wire i k he
    have hne : k ≠ s.nextCall := by
      intro h; subst h; simp [hn] at b
    rw [setAt_other _ _ _ _ hne, setAt_other _ _ _ _ hne]
    exact ⟨a, b⟩

theorem CallInv.callInsert {s : Chan} (inv : CallInv s) (k : Nat) : CallInv (callInsert s k) := by
  unfold MuduoVerif.Rpc.callInsert
  simp only [insertBeforeSend_eq, if_true]
  split
  next hst =>
    have hk : k < s.nextCall := inv.alive k (by simp [hst])
    have hfr := inv.fresh k (by simp [Registered, hst])
    have hreg : ∀ j, Registered { s with outstanding := insertKey (s.idOf k) k s.outstanding, stage := setAt s.stage k .inserted } j ↔
        (j = k ∨ Registered s j) := by
      intro j
      simp only [Registered]
      by_cases h : j = k
      · subst h; simp [setAt_same]
      · simp [setAt_other _ _ _ _ h, h]
    constructor
    · intro j hj
      show setAt s.stage k .inserted j = .unborn
      rw [setAt_other _ _ _ _ (by simp only [] at hj; omega)]
      exact inv.born j hj
    · intro j hj
      show j < s.nextCall
      by_cases h : j = k
      · omega
      · have hj' : setAt s.stage k .inserted j ≠ .unborn := hj
        rw [setAt_other _ _ _ _ h] at hj'
        exact inv.alive j hj'
    · exact inv.idpos
    · exact inv.inj
    · intro j
      show setAt s.stage k .inserted j ≠ .sentOnly
      by_cases h : j = k
      · subst h; simp [setAt_same]
      · rw [setAt_other _ _ _ _ h]; exact inv.noSentOnly j
    · intro i j hl
      rw [hreg]
      have hl' : lookup i (insertKey (s.idOf k) k s.outstanding) = some j := hl
      rw [lookup_insertKey] at hl'
      show s.idOf j = i ∧ _ ∧ ranCount j s.log = 0 ∧ freeCount j s.log = 0 ∧ ∀ m, s.pending ≠ some (j, m)
      split at hl'
      next h =>
        have : j = k := by simpa using hl'.symm
        subst this
        exact ⟨h, Or.inl rfl, hfr.1, hfr.2.1, hfr.2.2⟩
      next h =>
        obtain ⟨a, b, c, d, e⟩ := inv.out i j hl'
        exact ⟨a, Or.inr b, c, d, e⟩
    · intro j m hp
      rw [hreg]
      obtain ⟨a, b, c, d, e⟩ := inv.pend j m hp
      exact ⟨a, Or.inr b, c, d, e⟩
    · exact inv.once
    · intro j hj
      rw [hreg] at hj
      exact inv.fresh j (fun h => hj (Or.inr h))
    · exact inv.own
    · intro j hj hr hp
      rw [hreg] at hj
      show lookup (s.idOf j) (insertKey (s.idOf k) k s.outstanding) = some j
      rw [lookup_insertKey]
      by_cases h : j = k
      · subst h; simp
      · have hjlt : j < s.nextCall := by
          rcases hj with hj | hj
          · exact absurd hj h
          · exact inv.alive j (by rcases hj with hj | hj <;> simp [hj])
        have hne : s.idOf k ≠ s.idOf j := fun he => h (inv.inj j k hjlt hk he.symm)
        simp only [hne, if_false]
        rcases hj with hj | hj
        · exact absurd hj h
        · exact inv.reg j hj hr hp
    · intro i j he
      obtain ⟨a, b⟩ := inv.wire i j he
      refine ⟨a, ?_⟩
      show setAt s.stage k .inserted j = .returned
      have : j ≠ k := by intro h; subst h; simp [hst] at b
      rw [setAt_other _ _ _ _ this]; exact b
  next => exact inv

theorem ranCount_cons_foreign (k : Nat) (e : Ev) (log : List Ev) (h : isRan k e = false) :
    ranCount k (e :: log) = ranCount k log := by
  simp [ranCount, List.countP_cons, h]

theorem freeCount_cons_foreign (k : Nat) (e : Ev) (log : List Ev) (h : isFreeResp k e = false) :
    freeCount k (e :: log) = freeCount k log := by
  simp [freeCount, List.countP_cons, h]

theorem CallInv.callSend {s : Chan} (inv : CallInv s) (k : Nat) : CallInv (callSend s k) := by
  unfold MuduoVerif.Rpc.callSend
  simp only [insertBeforeSend_eq, if_true]
  split
  next hst =>
    have hreg : ∀ j, Registered { s with stage := setAt s.stage k .returned, log := .sent (s.idOf k) k :: s.log } j ↔ Registered s j := by
      intro j
      simp only [Registered]
      by_cases h : j = k
      · subst h; simp [setAt_same, hst]
      · simp [setAt_other _ _ _ _ h]
    have hr : ∀ j, ranCount j (Ev.sent (s.idOf k) k :: s.log) = ranCount j s.log := fun j => ranCount_cons_foreign j _ _ rfl
    have hf : ∀ j, freeCount j (Ev.sent (s.idOf k) k :: s.log) = freeCount j s.log := fun j => freeCount_cons_foreign j _ _ rfl
    constructor
    · intro j hj
      show setAt s.stage k .returned j = .unborn
      have := inv.alive k (by simp [hst])
      rw [setAt_other _ _ _ _ (by simp only [] at hj; omega)]
      exact inv.born j hj
    · intro j hj
      show j < s.nextCall
      by_cases h : j = k
      · subst h; exact inv.alive j (by simp [hst])
      · have hj' : setAt s.stage k .returned j ≠ .unborn := hj
        rw [setAt_other _ _ _ _ h] at hj'
        exact inv.alive j hj'
    · exact inv.idpos
    · exact inv.inj
    · intro j
      show setAt s.stage k .returned j ≠ .sentOnly
      by_cases h : j = k
      · subst h; simp [setAt_same]
      · rw [setAt_other _ _ _ _ h]; exact inv.noSentOnly j
    · intro i j hl
      rw [hreg]
      show s.idOf j = i ∧ _ ∧ ranCount j (_ :: s.log) = 0 ∧ freeCount j (_ :: s.log) = 0 ∧ ∀ m, s.pending ≠ some (j, m)
      rw [hr, hf]
      exact inv.out i j hl
    · intro j m hp
      rw [hreg]
      show m.id = s.idOf j ∧ _ ∧ Ev.arrived m ∈ (_ :: s.log) ∧ ranCount j (_ :: s.log) = 0 ∧ freeCount j (_ :: s.log) = 0
      rw [hr, hf]
      obtain ⟨a, b, c, d, e⟩ := inv.pend j m hp
      exact ⟨a, b, List.mem_cons_of_mem _ c, d, e⟩
    · intro j
      show ranCount j (_ :: s.log) ≤ 1 ∧ freeCount j (_ :: s.log) ≤ 1
      rw [hr, hf]; exact inv.once j
    · intro j hj
      rw [hreg] at hj
      show ranCount j (_ :: s.log) = 0 ∧ freeCount j (_ :: s.log) = 0 ∧ ∀ m, s.pending ≠ some (j, m)
      rw [hr, hf]; exact inv.fresh j hj
    · intro j i v he
      have he' : Ev.ran j i v ∈ s.log := by
        have : Ev.ran j i v ∈ Ev.sent (s.idOf k) k :: s.log := he
        simpa using this
      obtain ⟨a, m, b, c, d⟩ := inv.own j i v he'
      exact ⟨a, m, List.mem_cons_of_mem _ b, c, d⟩
    · intro j hj hrj hp
      rw [hreg] at hj
      have hrj' : ranCount j (Ev.sent (s.idOf k) k :: s.log) = 0 := hrj
      rw [hr] at hrj'
      exact inv.reg j hj hrj' hp
    · intro i j he
      have he' : Ev.sent i j ∈ Ev.sent (s.idOf k) k :: s.log := he
      show i = s.idOf j ∧ setAt s.stage k .returned j = .returned
      rcases List.mem_cons.mp he' with h | h
      · injection h with h1 h2
        subst h2; subst h1
        simp [setAt_same]
      · obtain ⟨a, b⟩ := inv.wire i j h
        refine ⟨a, ?_⟩
        by_cases hjk : j = k
        · subst hjk; simp [setAt_same]
        · rw [setAt_other _ _ _ _ hjk]; exact b
  next => exact inv

end MuduoVerif.Rpc
