import MuduoVerif.Proofs.TimerStep
/-! What one expiry batch runs (C06 `batch_order`, `fires_due`): `handleRead` runs exactly the timers whose deadline has
been reached, each once, in (deadline, address) order; no other step runs a callback. -/
namespace MuduoVerif.Timer
open MuduoVerif.Gen.Timer

variable {s : TQ} {B : List (Time × Addr)} {L : List Addr}

/-- the record of the run of entry `e` whose cell is `c`, in a batch fired with the reading `now` -/
def recOf (c : Cell) (e : Time × Addr) (now : Time) : RunRec :=
  ⟨c.name, c.seq, c.runs + 1, e.2, c.rep, c.first, c.delta, e.1, now⟩

/-! ### callbacks do not touch the cells of the batch -/

theorem cancelInLoop_keep (hw : WFp s B L) (id : TimerId) {x : Addr} (hx : x ∈ B.map (·.2)) :
    (cancelInLoop s id).heap x = s.heap x := by
  have hl : (id.addr, id.seq) ∈ s.active → (s.heap id.addr).isSome := by
    intro hm
    obtain ⟨c, h1, _⟩ := hw.a_live _ hm
    exact isSome_of_eq h1
  rw [cancelInLoop_eq id hl]
  split
  · rename_i hm
    obtain ⟨e, he, rfl⟩ := List.mem_map.1 hx
    have : e.2 ≠ id.addr := fun hh => (hw.b_live e he).2 id.seq (hh ▸ hm)
    exact hfree_other _ this
  · split <;> rfl

theorem addL_keep (hw : WFp s B L) (name : Nat) (m : Mode) {x : Addr} (hx : x ∈ B.map (·.2)) :
    (addL s name m).heap x = s.heap x := by
  rcases addL_spec s name m with hf | ⟨s1, a, c, h1, h2, _, _, _, _, _, h8⟩
  · rw [hf.heap]
  · rw [h8]
    show (addInLoop (allocCell s1 a c) a).heap x = _
    have : (addInLoop (allocCell s1 a c) a).heap = (allocCell s1 a c).heap := by
      rw [addInLoop_eq (allocCell_heap s1 a c)]; split
      · rw [armFd_heap]; rfl
      · rfl
    rw [this]
    obtain ⟨e, he, rfl⟩ := List.mem_map.1 hx
    obtain ⟨⟨c', hc', _⟩, _⟩ := (hw.frame h1).b_live e he
    have : e.2 ≠ a := by intro hh; rw [hh, h2] at hc'; cases hc'
    show hset s1.heap a c e.2 = _
    rw [hset_other _ _ this, h1.heap]

theorem execAct_keep (hw : WFp s B L) (act : Act) {x : Addr} (hx : x ∈ B.map (·.2)) :
    (execAct s act).heap x = s.heap x := by
  cases act with
  | add name m => exact addL_keep hw name m hx
  | cancel v => exact cancelInLoop_keep hw _ hx

theorem runTimer_keep (hw : WFp s B L) (now : Time) {e : Time × Addr} (he : e ∈ B) {x : Addr} (hx : x ∈ B.map (·.2)) :
    (runTimer now s e).heap x = s.heap x := by
  obtain ⟨⟨c, hc, _⟩, _⟩ := hw.b_live e he
  rw [runTimer_eq hc]
  have := foldl_inv (fun s' => WFp s' B L ∧ s'.heap x = s.heap x) execAct (scriptFor s.scripts c.name (c.runs + 1)) _
    ⟨hw.emit (.run c.name c.seq (c.runs + 1) e.2 c.rep c.first c.delta e.1 now s.clock) (by intro y; simp), rfl⟩
    (fun s' act _ hs => ⟨hs.1.execAct act, (execAct_keep hs.1 act hx).trans hs.2⟩)
  exact this.2

theorem runTimer_runs (hw : WFp s B L) (now : Time) {e : Time × Addr} (he : e ∈ B) :
    runRecs (runTimer now s e).trace = recOf (cellAt s e.2) e now :: runRecs s.trace := by
  obtain ⟨⟨c, hc, _⟩, _⟩ := hw.b_live e he
  rw [runTimer_eq hc, (foldl_ext _ execAct_ext _ _).runs, cellAt_eq hc]
  show runRecs (_ :: s.trace) = _
  rw [runRecs_cons]; rfl

theorem runFold_runs (s0 : TQ) (now : Time) (todo : List (Time × Addr)) :
    ∀ s : TQ, WFp s B L → (∀ e ∈ todo, e ∈ B) → (∀ x ∈ B.map (·.2), s.heap x = s0.heap x) →
      runRecs (todo.foldl (runTimer now) s).trace =
        (todo.map (fun e => recOf (cellAt s0 e.2) e now)).reverse ++ runRecs s.trace := by
  induction todo with
  | nil => intro s _ _ _; rfl
  | cons e t ih =>
    intro s hw ht hh
    have he : e ∈ B := ht e List.mem_cons_self
    rw [List.foldl_cons, ih (runTimer now s e) (hw.runTimer now he) (fun x hx => ht x (List.mem_cons_of_mem _ hx))
      (fun x hx => (runTimer_keep hw now he hx).trans (hh x hx)), runTimer_runs hw now he]
    have : cellAt s e.2 = cellAt s0 e.2 := by
      unfold cellAt; rw [hh e.2 (List.mem_map.2 ⟨e, he, rfl⟩)]
    rw [this, List.map_cons, List.reverse_cons, List.append_assoc]; rfl

/-- **what a batch runs**: `handleRead` with the clock reading `now` runs exactly the entries of `timers_` ordered before
the sentry `(now, UINTPTR_MAX)`, in the order of `timers_`, each with the cell it has when the batch starts -/
theorem handleRead_runs (hw : WFp s [] L) :
    runRecs (handleRead s).trace =
      ((s.timers.takeWhile (isExpired (readNow s).1)).map (fun e => recOf (cellAt s e.2) e (readNow s).1)).reverse
        ++ runRecs s.trace := by
  unfold handleRead
  simp only []
  have hw0 : WFp { (readNow s).2 with readable := false } [] L :=
    (hw.frame (readNow_frame s)).congr rfl rfl rfl rfl (hw.frame (readNow_frame s)).no_uaf
  rw [getExpired_eq hw0]
  simp only []
  have hw1 := hw0.take (isExpired (readNow s).1)
  have hw2 : WFp { takeB { (readNow s).2 with readable := false } (isExpired (readNow s).1) with
      calling := true, cancelling := [] } _ L := hw1.congr rfl rfl rfl rfl hw1.no_uaf
  rw [(reset_ext _ _ _).runs]
  have := runFold_runs (B := List.takeWhile (isExpired (readNow s).1) (readNow s).2.timers) (L := L) s (readNow s).1
    (List.takeWhile (isExpired (readNow s).1) (readNow s).2.timers) _ hw2 (fun e he => he)
    (fun x _ => congrFun (readNow_frame s).heap x)
  refine Eq.trans this ?_
  show (List.map (fun e => recOf (cellAt s e.2) e (readNow s).1)
      (List.takeWhile (isExpired (readNow s).1) (readNow s).2.timers)).reverse ++ runRecs (readNow s).2.trace = _
  rw [(readNow_frame s).timers, (readNow_frame s).trace]

/-! ### the batch is ordered and complete -/

theorem isExpired_down {now : Time} {x y : Time × Addr} (hxy : entryLt x y) (hy : isExpired now y = true) :
    isExpired now x = true := by
  have hy' : entryExpired y.1 y.2 now := by simpa [isExpired] using hy
  have : entryExpired x.1 x.2 now := by
    unfold entryExpired at *; unfold entryLt at hxy; unfold Time Addr at *; omega
  simpa [isExpired] using this

/-- on a sorted list nothing behind the taken prefix is expired -/
theorem not_expired_of_dropWhile {now : Time} {l : List (Time × Addr)} (hs : l.Pairwise entryLt) {x : Time × Addr}
    (hx : x ∈ l.dropWhile (isExpired now)) : isExpired now x = false := by
  induction l with
  | nil => cases hx
  | cons y ys ih =>
    rw [List.pairwise_cons] at hs
    rw [List.dropWhile_cons] at hx
    split at hx
    · exact ih hs.2 hx
    · rename_i hy
      rcases List.mem_cons.1 hx with rfl | hx
      · simpa using hy
      · cases hxe : isExpired now x with
        | false => rfl
        | true => exact absurd (isExpired_down (hs.1 x hx) hxe) hy

theorem mem_batch_of_due (hw : WFp s B L) {now : Time} {e : Time × Addr} (he : e ∈ s.timers) (hle : e.1 ≤ now) :
    e ∈ s.timers.takeWhile (isExpired now) := by
  have hsplit : s.timers.takeWhile (isExpired now) ++ s.timers.dropWhile (isExpired now) = s.timers :=
    List.takeWhile_append_dropWhile
  rw [← hsplit] at he
  rcases List.mem_append.1 he with h | h
  · exact h
  · have h1 := not_expired_of_dropWhile hw.sorted h
    obtain ⟨c, hc, _⟩ := hw.t_live e ((List.dropWhile_sublist _).subset h)
    have h2 : isExpired now e = true := by
      simp only [isExpired, decide_eq_true_eq]
      exact entryExpired_of_le hle (hw.addr_ok _ _ hc).2
    rw [h1] at h2; cases h2

theorem batch_sorted (hw : WFp s B L) (now : Time) : (s.timers.takeWhile (isExpired now)).Pairwise entryLt :=
  hw.sorted.sublist (List.takeWhile_sublist _)

theorem batch_due (now : Time) {e : Time × Addr} (he : e ∈ s.timers.takeWhile (isExpired now)) : e.1 ≤ now := by
  have := List.all_eq_true.1 (List.all_takeWhile (p := isExpired now) (l := s.timers)) e he
  exact entryExpired_le (by simpa [isExpired] using this)

/-! ### no other step runs a callback -/

theorem runNext_runs (s : TQ) : runRecs (runNext s).trace = runRecs s.trace := by
  cases hr : s.running with
  | nil => rw [runNext_nil hr]
  | cons f r =>
    rw [runNext_cons hr]
    cases f with
    | add a => exact (addInLoop_ext { s with running := r } a).runs
    | cancel id => exact (cancelInLoop_ext { s with running := r } id).runs
    | marker k => exact (emit_ext { s with running := r } _ rfl).runs

theorem drain_runs (n : Nat) (s : TQ) : runRecs (drain n s).trace = runRecs s.trace := by
  induction n generalizing s with
  | zero => rfl
  | succ n ih => exact (ih (runNext s)).trans (runNext_runs s)

theorem iter_runs (ht : Top s) :
    runRecs (iter s).trace =
      (if s.readable then
        ((s.timers.takeWhile (isExpired (readNow s).1)).map (fun e => recOf (cellAt s e.2) e (readNow s).1)).reverse
       else []) ++ runRecs s.trace := by
  unfold iter
  simp only []
  rw [drain_runs]
  show runRecs (if s.readable = true then handleRead s else s).trace = _
  split
  · exact handleRead_runs ht.wf
  · rfl

theorem step_runs (s : TQ) (i : In) (hi : i ≠ .iter) : runRecs (step s i).trace = runRecs s.trace := by
  cases i with
  | now t => rfl
  | addr a => rfl
  | script name k a => rfl
  | add who name m =>
    cases who with
    | loop => exact (addL_ext s name m).runs
    | foreign =>
      show runRecs (if s.parked.isSome then s else addFinish (addAlloc s name m)).trace = _
      split
      · rfl
      · exact (addForeign_quiet s name m).runs
  | addAlloc name m => exact (addAlloc_quiet s name m).runs
  | addFinish => exact (addFinish_quiet s).runs
  | cancel who v k =>
    cases who with
    | loop => exact ((cancelInLoop_ext s _).trans (emit_ext _ _ rfl)).runs
    | foreign => rfl
  | expire =>
    show runRecs (match s.alarm with | some _ => { s with alarm := none, readable := true } | none => s).trace = _
    split <;> rfl
  | iter => exact absurd rfl hi

end MuduoVerif.Timer
