import MuduoVerif.Proofs.LogStream
/-! Lemmas about the per-thread tid cache of `CurrentThread` and the tid field of a log line (C17): a call of
`CurrentThread::tid()` in front of the first read makes the field independent of the thread's history. -/
namespace MuduoVerif.LogStream
open MuduoVerif.Gen.LogStream

/-! ### the thread id cache and the tid field of a line -/

theorem tidFormat_dirs : parseFmt tidFormat = [.int false 5, .lit 32] := by decide

/-- `snprintf("%5d ", tid)`: the id right-aligned in five columns, then a space -/
theorem tidText_eq (tid : Int) : tidText tid = fmtInt false 5 tid ++ [32] := by
  simp [tidText, tidFormat_dirs, sprintf]

theorem readN_length (n : Nat) (s : Bytes) : (readN n s).length = n := by
  simp [readN]

theorem readN_self (s : Bytes) : readN s.length s = s := by
  simp [readN]

theorem tidField_of (tid : Int) : tidField (TidState.of tid) = tidText tid := by
  simp [tidField, TidState.of, readN_self]

/-- the thread has either cached nothing yet (whatever the other two variables hold) or cached its own id -/
def TidState.okFor (tid : Int) (t : TidState) : Prop := t.cached = 0 ∨ t = TidState.of tid

theorem tidCall_of (tid : Int) (h : tid ≠ 0) : tidCall tid (TidState.of tid) = TidState.of tid := by
  simp [tidCall, tidCacheEmpty, TidState.of, h]

theorem tidCall_empty (tid : Int) (t : TidState) (h : t.cached = 0) : tidCall tid t = TidState.of tid := by
  simp [tidCall, tidCacheEmpty, cacheTid, cacheTidGuard, cacheTidLength, TidState.of, h]

/-- `CurrentThread::tid()` leaves the thread with its own id cached, whether or not something was cached before -/
theorem tidCall_ok (tid : Int) (t : TidState) (h0 : tid ≠ 0) (h : t.okFor tid) : tidCall tid t = TidState.of tid := by
  rcases h with h | h
  · exact tidCall_empty tid t h
  · rw [h]; exact tidCall_of tid h0

/-- the step reads the tid cache -/
def usesTid : ImplStep → Bool
  | .formatTime => (timePiecesZone ++ timePiecesUtc).contains .tid
  | .callTid => false
  | .ins ps => ps.contains .tid
  | .errnoIf ps => ps.contains .tid

/-- a call of `CurrentThread::tid()` occurs, and no statement in front of it reads the tid cache -/
def cachedBeforeUse : List ImplStep → Bool
  | [] => false
  | .callTid :: _ => true
  | s :: rest => !usesTid s && cachedBeforeUse rest

theorem pieceItem_indep (e : LineEnv) (t : TidState) (p : Piece) (h : p ≠ .tid) :
    pieceItem { e with tid := t } p = pieceItem e p := by
  cases p <;> first | rfl | exact absurd rfl h

theorem map_pieceItem_indep (e : LineEnv) (t : TidState) (ps : List Piece) (h : ps.contains .tid = false) :
    ps.map (pieceItem { e with tid := t }) = ps.map (pieceItem e) := by
  apply List.map_congr_left
  intro p hp
  apply pieceItem_indep
  intro hc
  subst hc
  have : ps.contains Piece.tid = true := List.contains_iff_mem.2 hp
  rw [h] at this; exact absurd this (by decide)

theorem implStep_indep (z : Zone) (e : LineEnv) (t : TidState) (s : ImplStep) (hs : s ≠ .callTid)
    (hu : usesTid s = false) :
    implStep z { e with tid := t } s = ({ e with tid := t }, (implStep z e s).2) ∧ (implStep z e s).1 = e := by
  cases s with
  | callTid => exact absurd rfl hs
  | formatTime =>
    simp only [usesTid, List.contains_append, Bool.or_eq_false_iff] at hu
    cases hz : z.isSome
    · simp only [implStep, hz, Bool.false_eq_true, if_false, map_pieceItem_indep e t _ hu.2, and_self]
    · simp only [implStep, hz, if_true, map_pieceItem_indep e t _ hu.1, and_self]
  | ins ps => simp only [implStep, map_pieceItem_indep e t ps hu, and_self]
  | errnoIf ps => simp only [implStep, map_pieceItem_indep e t ps hu, and_self]

/-- **when `tid()` is called before the cache is read, what `Impl::Impl` inserts does not depend on whether the
thread had cached its id**: it is what a thread with its own id cached inserts -/
theorem implRun_cached (z : Zone) (steps : List ImplStep) (h : cachedBeforeUse steps = true) :
    ∀ e : LineEnv, e.req.tid ≠ 0 → e.tid.okFor e.req.tid →
      implRun z e steps = implRun z { e with tid := TidState.of e.req.tid } steps := by
  induction steps with
  | nil => exact absurd h (by decide)
  | cons s rest ih =>
    intro e h0 hok
    by_cases hs : s = .callTid
    · subst hs
      simp only [implRun, implStep]
      rw [tidCall_ok _ _ h0 hok, tidCall_of _ h0]
    · have hc : usesTid s = false ∧ cachedBeforeUse rest = true := by
        cases s <;> simp_all [cachedBeforeUse]
      obtain ⟨h1, h2⟩ := implStep_indep z e (TidState.of e.req.tid) s hs hc.1
      have := ih hc.2 e h0 hok
      simp only [implRun]
      rw [h1, h2, this]

/-! ### where the tid field sits in the emitted line -/

theorem run_str (b : FixedBuf) (s : Bytes) (rest : List Item) (h : s.length < avail b) :
    run b (.str s :: rest) = run { b with data := b.data ++ s } rest := by
  simp [run, insert, Item.fits, appendFits, Item.text, h]

theorem run_prefix (b : FixedBuf) (items : List Item) : ∃ more, (run b items).data = b.data ++ more := by
  obtain ⟨k, _, e⟩ := fill_sublist (run_fill items b)
  exact ⟨_, e⟩

/-- three short strings at the head of a line are in the line, in that order, followed by the rest -/
theorem run_three (a b c : Bytes) (tail : List Item) (h : a.length + b.length + c.length < kSmallBuffer) :
    ∃ more, (run (mkBuf kSmallBuffer) (.str a :: .str b :: .str c :: tail)).data = a ++ b ++ c ++ more := by
  rw [run_str _ _ _ (by simp [avail, mkBuf]; omega), run_str _ _ _ (by simp [avail, mkBuf]; omega),
    run_str _ _ _ (by simp [avail, mkBuf]; omega)]
  obtain ⟨more, e⟩ := run_prefix { cap := kSmallBuffer, data := a ++ b ++ c } tail
  refine ⟨more, ?_⟩
  simpa [mkBuf] using e

theorem fmtInt_space_length (v : Int) (h1 : -2 ^ 63 ≤ v) (h2 : v < 2 ^ 64) : (fmtInt false 5 v ++ [32]).length ≤ 26 := by
  have := decimal_length_le v h1 h2
  simp [fmtInt]; omega

/-- width of the `.%06d ` / `.%06dZ ` field as `formatTime` inserts it -/
def usWidth (z : Zone) : Nat := if z.isSome then 8 else 9

/-- the items of the extracted `Impl::Impl`: the cached second, the microseconds, then **the tid string as it is
after the call of `CurrentThread::tid()`**, then the rest -/
theorem implRun_shape (z : Zone) (e : LineEnv) :
    ∃ tail, (implRun z e implSteps).2 =
      .str (readN 17 e.timeText) :: .str (readN (usWidth z) e.usText) :: .str (tidField (tidCall e.req.tid e.tid)) :: tail := by
  cases hz : z.isSome <;>
    simp [implSteps, implRun, implStep, hz, timePiecesZone, timePiecesUtc, pieceItem, usWidth]

/-- the same statements without the call of `CurrentThread::tid()`: the tid string is read as the thread found it -/
theorem implRun_shape_nocall (z : Zone) (e : LineEnv) :
    ∃ tail, (implRun z e (implSteps.filter (· ≠ .callTid))).2 =
      .str (readN 17 e.timeText) :: .str (readN (usWidth z) e.usText) :: .str (tidField e.tid) :: tail := by
  have hf : implSteps.filter (· ≠ .callTid) = [.formatTime, .ins [.tid], .ins [.level 6],
      .errnoIf [.errtext, .lit [32, 40, 101, 114, 114, 110, 111, 61], .errno, .lit [41, 32]]] := by decide
  rw [hf]
  cases hz : z.isSome <;>
    simp [implRun, implStep, hz, timePiecesZone, timePiecesUtc, pieceItem, usWidth]

theorem line_three (steps : List ImplStep) (z : Zone) (gen : Int) (c : TimeCache) (t : TidState) (r : LogReq) (f : Bytes)
    (hf : f.length ≤ 26)
    (h : ∃ tail, (implRun z (lineEnv z gen c t r) steps).2 =
      .str (readN 17 (lineEnv z gen c t r).timeText) :: .str (readN (usWidth z) (lineEnv z gen c t r).usText) :: .str f :: tail) :
    ∃ stamp rest, stamp.length = 17 + usWidth z ∧ (logLineOf steps z gen c t r).text = stamp ++ f ++ rest := by
  obtain ⟨tail, e⟩ := h
  have hw : usWidth z ≤ 9 := by unfold usWidth; split <;> omega
  simp only [logLineOf, lineItemsOf, e, List.cons_append]
  obtain ⟨more, em⟩ := run_three (readN 17 (lineEnv z gen c t r).timeText) (readN (usWidth z) (lineEnv z gen c t r).usText) f
    (tail ++ (if r.func.isSome then funcPieces else []).map (pieceItem (implRun z (lineEnv z gen c t r) steps).1) ++ r.msg
      ++ finishPieces.map (pieceItem (implRun z (lineEnv z gen c t r) steps).1))
    (by simp only [readN_length, kSmallBuffer]; omega)
  refine ⟨readN 17 (lineEnv z gen c t r).timeText ++ readN (usWidth z) (lineEnv z gen c t r).usText, more, by simp [readN_length], ?_⟩
  simp only [List.append_assoc] at em ⊢
  exact em

theorem zero_not_mem_decimalAux (fuel : Nat) : ∀ (n : Nat) (acc : Bytes), 0 ∉ acc → 0 ∉ decimalAux fuel n acc := by
  induction fuel with
  | zero => intro n acc h; simp only [decimalAux, List.mem_cons, not_or]; exact ⟨by omega, h⟩
  | succ f ih =>
    intro n acc h
    unfold decimalAux
    split
    · simp only [List.mem_cons, not_or]; exact ⟨by omega, h⟩
    · exact ih _ _ (by simp only [List.mem_cons, not_or]; exact ⟨by omega, h⟩)

theorem zero_not_mem_tidText (tid : Int) : 0 ∉ tidText tid := by
  have hn : 0 ∉ decimalNat tid.natAbs := zero_not_mem_decimalAux _ _ _ (by simp)
  rw [tidText_eq]
  by_cases hneg : tid < 0 <;> simp [fmtInt, decimal, hneg, hn, List.mem_replicate]

theorem cstr_self : ∀ (s : Bytes), 0 ∉ s → cstr s = s := by
  intro s
  induction s with
  | nil => intro _; rfl
  | cons x t ih =>
    intro h
    simp only [List.mem_cons, not_or] at h
    have hx : x ≠ 0 := fun e => h.1 e.symm
    have := ih h.2
    unfold cstr at this ⊢
    rw [List.takeWhile_cons, if_pos (by simpa using hx), this]

/-- the `assert(strlen(str) == len_)` of `T` holds for a thread that has cached its id -/
theorem tidAssert_of (tid : Int) : tidAssert (TidState.of tid) := by
  simp [tidAssert, TidState.of, cstr_self _ (zero_not_mem_tidText tid)]

theorem implAsserts_of (z : Zone) (e : LineEnv) (h0 : e.req.tid ≠ 0) (h : e.tid = TidState.of e.req.tid) :
    implAsserts z e implSteps = true := by
  have ha := tidAssert_of e.req.tid
  simp [implSteps, implAsserts, implStep, h, tidCall_of _ h0, ha]

/-- a thread that has run nothing of muduo: the tid string is six bytes of the zero-filled buffer, and `T`'s assert fails -/
theorem tidField_fresh : tidField TidState.fresh = List.replicate 6 0 ∧ ¬ tidAssert TidState.fresh := by decide

theorem tidCachedBeforeUse_tie : tidCachedBeforeUse = cachedBeforeUse implSteps := by decide


/-! ### the cached second and the zone generation -/

/-- what a thread's cached second promises: it was formatted under a generation that is not in the future, and
when that generation is still the current one (no `setTimeZone` since) the text is the one of the configured zone -/
def TimeInv (s : LogState) : Prop :=
  s.cache.zoneGen ≤ s.gen ∧
  (s.cache.lastSecond ≠ 0 → s.cache.zoneGen = s.gen → s.cache.text = secondText s.zone s.cache.lastSecond)

theorem timeInv_init (t : TidState) : TimeInv (LogState.init t) := by
  refine ⟨?_, fun h => absurd rfl h⟩
  show lastZoneGenInit ≤ zoneGenInit
  decide

theorem cacheMiss_iff (sec last gen lastGen : Int) : cacheMiss sec last gen lastGen ↔ (sec ≠ last ∨ gen ≠ lastGen) := by
  unfold cacheMiss; rfl

theorem cacheMiss_fresh (gen : Int) (us : Int) (h : splitSeconds us ≠ 0) :
    cacheMiss (splitSeconds us) TimeCache.fresh.lastSecond gen TimeCache.fresh.zoneGen :=
  (cacheMiss_iff _ _ _ _).2 (Or.inl h)

theorem timeInv_hit_or_miss (s : LogState) (r : LogReq) (hinv : TimeInv s) (hr : splitSeconds r.us ≠ 0) :
    cacheMiss (splitSeconds r.us) s.cache.lastSecond s.gen s.cache.zoneGen ∨ s.cache.text = secondText s.zone (splitSeconds r.us) := by
  by_cases hm : cacheMiss (splitSeconds r.us) s.cache.lastSecond s.gen s.cache.zoneGen
  · exact Or.inl hm
  · right
    rw [cacheMiss_iff] at hm
    have h1 : splitSeconds r.us = s.cache.lastSecond := Classical.not_not.1 (fun h => hm (Or.inl h))
    have h2 : s.gen = s.cache.zoneGen := Classical.not_not.1 (fun h => hm (Or.inr h))
    rw [h1]
    exact hinv.2 (by rw [← h1]; exact hr) h2.symm

theorem timeInv_step (s : LogState) (op : LogOp) (hinv : TimeInv s)
    (hop : ∀ r, op = .log r → splitSeconds r.us ≠ 0) : TimeInv (logStep s op).1 := by
  cases op with
  | setZone z =>
    have hb : zoneGenBumped = true := by decide
    simp only [logStep, hb, if_true]
    exact ⟨by have := hinv.1; show s.cache.zoneGen ≤ s.gen + 1; omega,
           fun _ h => by have := hinv.1; have : s.cache.zoneGen = s.gen + 1 := h; omega⟩
  | log r =>
    have hr := hop r rfl
    have hs : cacheStoresGen = true := by decide
    simp only [logStep, logLine, logLineOf, cacheStep]
    by_cases hm : cacheMiss (splitSeconds r.us) s.cache.lastSecond s.gen s.cache.zoneGen
    · simp only [hm, if_true, hs]
      exact ⟨Int.le_refl _, fun _ _ => rfl⟩
    · simp only [hm, if_false]
      exact hinv

theorem timeInv_after (ops : List LogOp) : ∀ s : LogState, TimeInv s →
    (∀ r, LogOp.log r ∈ ops → splitSeconds r.us ≠ 0) → TimeInv (logAfter s ops) := by
  induction ops with
  | nil => intro s h _; exact h
  | cons op rest ih =>
    intro s h hops
    simp only [logAfter, List.foldl_cons]
    exact ih _ (timeInv_step s op h (fun r e => hops r (by simp [e]))) (fun r hr => hops r (by simp [hr]))

/-- the request of the F18 witness (corpus/C17/F18-setTimeZone-inside-cached-second.case) at instant `us` -/
def f18Req (us : Int) : LogReq :=
  { level := 3, errno := 0, errText := [], func := none, file := [97, 46, 99, 99], line := 10, tid := 1400, us := us, msg := [] }

end MuduoVerif.LogStream
