import MuduoVerif.Proofs.CalendarE
/-! One sixteenth of the 400-year cycle, checked by kernel evaluation (see CalendarCycle.lean). -/
namespace MuduoVerif.CalendarE

theorem cycleDays_12 : checkDays 109584 9132 = true := by decide +kernel

theorem cycleYears_12 : checkYears 300 25 = true := by decide +kernel

end MuduoVerif.CalendarE
