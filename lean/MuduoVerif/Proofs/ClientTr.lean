import MuduoVerif.Proofs.ClientInv
/-! How each event of the model moves the specification automaton (`scan`) and keeps it
related (`Rel`) to the model's state. -/
namespace MuduoVerif.Client
open MuduoVerif.Gen.Client

/-- the trace is legal and its summary is related to the state -/
def Tr (tr : List Ev) (nsock : Nat) (sockSt : List SockSt) (conns : List ConnRec) (ups nretry : Nat)
    (stopReq alive : Bool) : Prop :=
  ∃ s, scan tr = some s ∧ Rel s nsock sockSt conns ups nretry stopReq alive

theorem Mid.tr {c : C} {r : List Task} {ph : Bool} (h : Mid c r ph) :
    Tr c.trace c.nsock c.sockSt c.conns c.ups c.nretry c.stopReq c.clientAlive := h.t1

theorem phaseAt_congr {ss ss' : List SockSt} {cs cs' : List ConnRec} {j : Nat}
    (h1 : ss'[j]? = ss[j]?) (h2 : findIn cs' j = findIn cs j) : phaseAt ss' cs' j = phaseAt ss cs j := by
  unfold phaseAt; rw [h1, h2]

theorem phaseAt_opened {ss : List SockSt} {cs : List ConnRec} {k : Nat} (h : ss[k]? = some .opened) :
    phaseAt ss cs k = some .opened := by unfold phaseAt; rw [h]

theorem phaseAt_closed {ss : List SockSt} {cs : List ConnRec} {k : Nat} (h : ss[k]? = some .closed) :
    phaseAt ss cs k = some .closed := by unfold phaseAt; rw [h]

theorem Rel.lt {s : Spec} {n ss cs u nr sp al} (h : Rel s n ss cs u nr sp al) {k : Nat} {p : Phase}
    (hk : phaseAt ss cs k = some p) : k < s.phases.length := by
  have := h.ph k
  rw [hk] at this
  exact (List.getElem?_eq_some_iff.mp this).1

theorem Rel.change {s : Spec} {n ss cs u nr sp al} (h : Rel s n ss cs u nr sp al) {ss' cs'} (k : Nat) (p : Phase)
    (hlt : k < s.phases.length)
    (hk : phaseAt ss' cs' k = some p) (ho : ∀ j, j ≠ k → phaseAt ss' cs' j = phaseAt ss cs j) :
    Rel { s with phases := s.phases.set k p } n ss' cs' u nr sp al := by
  refine ⟨by simpa using h.len, ?_, h.ups, h.nretry, h.stopped, h.gone⟩
  intro j
  by_cases hj : j = k
  · subst hj; simp [hlt, hk]
  · rw [ho j hj, ← h.ph j]
    simp [Ne.symm hj]

theorem Rel.same {s : Spec} {n ss cs u nr sp al} (h : Rel s n ss cs u nr sp al) {ss' cs'}
    (ho : ∀ j, phaseAt ss' cs' j = phaseAt ss cs j) : Rel s n ss' cs' u nr sp al :=
  ⟨h.len, fun j => by rw [ho j, h.ph j], h.ups, h.nretry, h.stopped, h.gone⟩

theorem Tr.same {tr n ss cs u nr sp al} (h : Tr tr n ss cs u nr sp al) {ss' cs'}
    (ho : ∀ j, phaseAt ss' cs' j = phaseAt ss cs j) : Tr tr n ss' cs' u nr sp al := by
  obtain ⟨s, hs, hr⟩ := h
  exact ⟨s, hs, hr.same ho⟩

theorem set_other {ss : List SockSt} {k j : Nat} {v : SockSt} (h : j ≠ k) : (ss.set k v)[j]? = ss[j]? := by
  simp [Ne.symm h]

theorem set_self {ss : List SockSt} {k : Nat} {v w : SockSt} (h : ss[k]? = some w) : (ss.set k v)[k]? = some v := by
  have := (List.getElem?_eq_some_iff.mp h).1
  simp [this]

/-- `sockClosed k` on the socket of the attempt -/
theorem Tr.closeSock {tr n ss cs u nr sp al} (h : Tr tr n ss cs u nr sp al) {k : Nat} (hk : ss[k]? = some .opened) :
    Tr (tr ++ [.sockClosed k]) n (ss.set k .closed) cs u nr sp al := by
  obtain ⟨s, hs, hr⟩ := h
  have hp : s.phases[k]? = some .opened := by rw [hr.ph k, phaseAt_opened hk]
  refine ⟨{ s with phases := s.phases.set k .closed }, ?_, ?_⟩
  · rw [scan_snoc, hs]; simp [specStep, Spec.move, hp]
  · exact hr.change k .closed (hr.lt (phaseAt_opened hk)) (phaseAt_closed (set_self hk))
      (fun j hj => phaseAt_congr (set_other hj) rfl)

theorem Tr.create {tr n ss cs u nr sp al} (h : Tr tr n ss cs u nr sp al) (hl : ss.length = n) :
    Tr (tr ++ [.sockCreated n]) (n + 1) (ss ++ [.opened]) cs u nr sp al := by
  obtain ⟨s, hs, hr⟩ := h
  refine ⟨{ s with phases := s.phases ++ [.opened] }, ?_, ?_⟩
  · rw [scan_snoc, hs]; simp [specStep, hr.len]
  · refine ⟨by simp [hr.len], ?_, hr.ups, hr.nretry, hr.stopped, hr.gone⟩
    intro j
    show (s.phases ++ [Phase.opened])[j]? = phaseAt (ss ++ [.opened]) cs j
    have hlen := hr.len
    rcases Nat.lt_trichotomy j n with hj | hj | hj
    · have e1 : (s.phases ++ [Phase.opened])[j]? = s.phases[j]? := List.getElem?_append_left (by omega)
      have e2 : (ss ++ [SockSt.opened])[j]? = ss[j]? := List.getElem?_append_left (by omega)
      rw [e1, hr.ph j]; exact (phaseAt_congr e2 rfl).symm
    · subst hj
      have e2 : (ss ++ [SockSt.opened])[j]? = some .opened := by rw [← hl]; simp
      rw [phaseAt_opened e2, ← hlen]; simp
    · have e1 : (s.phases ++ [Phase.opened])[j]? = none := by
        apply List.getElem?_eq_none; simp; omega
      have e2 : (ss ++ [SockSt.opened])[j]? = none := by
        apply List.getElem?_eq_none; simp; omega
      rw [e1]; unfold phaseAt; rw [e2]

theorem Tr.attempt {tr n ss cs u nr sp al} (h : Tr tr n ss cs u nr sp al) {k t : Nat} (hk : ss[k]? = some .opened)
    (hn : k + 1 = n) (hsp : sp = false) (hal : al = true) : Tr (tr ++ [.attempt k t]) n ss cs u nr sp al := by
  obtain ⟨s, hs, hr⟩ := h
  have hp : s.phases[k]? = some .opened := by rw [hr.ph k, phaseAt_opened hk]
  refine ⟨s, ?_, hr⟩
  rw [scan_snoc, hs]
  simp [specStep, hp, hr.len, hn, hr.stopped, hr.gone, hsp, hal]

theorem Tr.retrySched {tr n ss cs u nr sp al} (h : Tr tr n ss cs u nr sp al) {t : Nat}
    (hsp : sp = false) (hal : al = true) :
    Tr (tr ++ [.retryScheduled nr (specDelay nr) t]) n ss cs u (nr + 1) sp al := by
  obtain ⟨s, hs, hr⟩ := h
  refine ⟨{ s with nretry := s.nretry + 1 }, ?_, ⟨hr.len, hr.ph, hr.ups, by simp [hr.nretry], hr.stopped, hr.gone⟩⟩
  rw [scan_snoc, hs]
  simp [specStep, hr.nretry, hr.stopped, hr.gone, hsp, hal]

theorem Tr.cycle {tr n ss cs u nr sp al} (h : Tr tr n ss cs u nr sp al) :
    Tr (tr ++ [.ghost .cycle]) n ss cs 0 0 sp al := by
  obtain ⟨s, hs, hr⟩ := h
  refine ⟨{ s with ups := 0, nretry := 0 }, ?_, ⟨hr.len, hr.ph, rfl, rfl, hr.stopped, hr.gone⟩⟩
  rw [scan_snoc, hs]; simp [specStep]

theorem Tr.gConnect {tr n ss cs u nr sp al} (h : Tr tr n ss cs u nr sp al) (hal : al = true) :
    Tr (tr ++ [.ghost .connect]) n ss cs u nr false al := by
  obtain ⟨s, hs, hr⟩ := h
  refine ⟨{ s with stopped := false }, ?_, ⟨hr.len, hr.ph, hr.ups, hr.nretry, rfl, hr.gone⟩⟩
  rw [scan_snoc, hs]; simp [specStep, hr.gone, hal]

theorem Tr.gStop {tr n ss cs u nr sp al} (h : Tr tr n ss cs u nr sp al) (hal : al = true) :
    Tr (tr ++ [.ghost .stop]) n ss cs u nr true al := by
  obtain ⟨s, hs, hr⟩ := h
  refine ⟨{ s with stopped := true }, ?_, ⟨hr.len, hr.ph, hr.ups, hr.nretry, rfl, hr.gone⟩⟩
  rw [scan_snoc, hs]; simp [specStep, hr.gone, hal]

theorem Tr.gDestroy {tr n ss cs u nr sp al} (h : Tr tr n ss cs u nr sp al) (hal : al = true) :
    Tr (tr ++ [.ghost .destroy]) n ss cs u nr sp false := by
  obtain ⟨s, hs, hr⟩ := h
  refine ⟨{ s with gone := true }, ?_, ⟨hr.len, hr.ph, hr.ups, hr.nretry, hr.stopped, rfl⟩⟩
  rw [scan_snoc, hs]; simp [specStep, hr.gone, hal]

/-- `newConnection`: the descriptor goes to a fresh `TcpConnection`, UP is reported -/
theorem Tr.handUp {tr n ss cs nr sp al} (h : Tr tr n ss cs 0 nr sp al) {k : Nat} (hk : ss[k]? = some .opened)
    (hnone : findIn cs k = none) (hsp : sp = false) (hal : al = true) :
    Tr (tr ++ [.handedOver k, .up k]) n (ss.set k .handedOver) (cs ++ [{ sock := k }]) 1 nr sp al := by
  obtain ⟨s, hs, hr⟩ := h
  have hp : s.phases[k]? = some .opened := by rw [hr.ph k, phaseAt_opened hk]
  have hlt := hr.lt (phaseAt_opened hk)
  refine ⟨{ s with phases := s.phases.set k .up, ups := 1 }, ?_, ?_⟩
  · rw [scan_append, hs]
    show scanFrom s [.handedOver k, .up k] = _
    have e1 : specStep s (.handedOver k) = some { s with phases := s.phases.set k .handed } := by
      simp only [specStep, Spec.move, hp, if_true]
    have hst : s.stopped = false := by rw [hr.stopped, hsp]
    have hg : s.gone = false := by rw [hr.gone, hal]; rfl
    have e2 : specStep { s with phases := s.phases.set k .handed } (.up k) =
        some { s with phases := s.phases.set k .up, ups := 1 } := by
      have : (s.phases.set k Phase.handed)[k]? = some .handed := by simp [hlt]
      simp only [specStep, Spec.move, this, hst, hg, hr.ups, and_self, if_true, List.set_set]
    rw [scanFrom_cons, e1, Option.bind_some, scanFrom_cons, e2, Option.bind_some]; rfl
  · have hr' := hr.change (ss' := ss.set k .handedOver) (cs' := cs ++ [{ sock := k }]) k .up hlt (by
        unfold phaseAt; rw [set_self hk]; simp only
        rw [findIn_append_new _ rfl, hnone]; simp) (by
        intro j hj
        apply phaseAt_congr (set_other hj)
        rw [findIn_append_new _ rfl]; simp [hj])
    exact ⟨hr'.len, hr'.ph, rfl, hr'.nretry, hr'.stopped, hr'.gone⟩

/-- DOWN on a connection that is up -/
theorem Tr.down {tr n ss cs u nr sp al} (h : Tr tr n ss cs u nr sp al) {k : Nat} {x x' : ConnRec} {cs' : List ConnRec}
    (hk : ss[k]? = some .handedOver) (hx : findIn cs k = some x) (hd : x.destroyed = false) (hst : x.st ≠ .disconnected)
    (hx' : findIn cs' k = some x') (hd' : x'.destroyed = false) (hst' : x'.st = .disconnected)
    (ho : ∀ j, j ≠ k → findIn cs' j = findIn cs j) :
    Tr (tr ++ [.down k]) n ss cs' u nr sp al := by
  obtain ⟨s, hs, hr⟩ := h
  have hpa : phaseAt ss cs k = some .up := by unfold phaseAt; rw [hk]; simp only; rw [hx]; simp [hd, hst]
  have hp : s.phases[k]? = some .up := by rw [hr.ph k, hpa]
  refine ⟨{ s with phases := s.phases.set k .down }, ?_, ?_⟩
  · rw [scan_snoc, hs]; simp [specStep, Spec.move, hp]
  · exact hr.change k .down (hr.lt hpa) (by unfold phaseAt; rw [hk]; simp only; rw [hx']; simp [hd', hst'])
      (fun j hj => phaseAt_congr rfl (ho j hj))

theorem Tr.shutdownWr {tr n ss cs u nr sp al} (h : Tr tr n ss cs u nr sp al) {k : Nat} {x : ConnRec}
    (hk : ss[k]? = some .handedOver) (hx : findIn cs k = some x) (hd : x.destroyed = false) :
    Tr (tr ++ [.shutdownWr k]) n ss cs u nr sp al := by
  obtain ⟨s, hs, hr⟩ := h
  refine ⟨s, ?_, hr⟩
  rw [scan_snoc, hs]
  have : s.phases[k]? = some .up ∨ s.phases[k]? = some .down := by
    rw [hr.ph k]; unfold phaseAt; rw [hk]; simp only; rw [hx]; simp [hd]
    by_cases h : x.st = .disconnected <;> simp [h]
  simp [specStep, this]

/-- the callback reporting connection `k` reads `connection()` and finds `k` -/
theorem Tr.query {tr n ss cs u nr sp al} (h : Tr tr n ss cs u nr sp al) {k : Nat} {x : ConnRec}
    (hk : ss[k]? = some .handedOver) (hx : findIn cs k = some x) (hd : x.destroyed = false) :
    Tr (tr ++ [.query k (some k)]) n ss cs u nr sp al := by
  obtain ⟨s, hs, hr⟩ := h
  refine ⟨s, ?_, hr⟩
  rw [scan_snoc, hs]
  have : s.phases[k]? = some .up ∨ s.phases[k]? = some .down := by
    rw [hr.ph k]; unfold phaseAt; rw [hk]; simp only; rw [hx]; simp [hd]
    by_cases h : x.st = .disconnected <;> simp [h]
  simp [specStep, this]

/-- `~TcpConnection` of a connection that is down -/
theorem Tr.connClosed {tr n ss cs u nr sp al} (h : Tr tr n ss cs u nr sp al) {k : Nat} {x x' : ConnRec} {cs' : List ConnRec}
    (hk : ss[k]? = some .handedOver) (hx : findIn cs k = some x) (hd : x.destroyed = false) (hst : x.st = .disconnected)
    (hx' : findIn cs' k = some x') (hd' : x'.destroyed = true)
    (ho : ∀ j, j ≠ k → findIn cs' j = findIn cs j) :
    Tr (tr ++ [.connClosed k]) n ss cs' u nr sp al := by
  obtain ⟨s, hs, hr⟩ := h
  have hpa : phaseAt ss cs k = some .down := by unfold phaseAt; rw [hk]; simp only; rw [hx]; simp [hd, hst]
  have hp : s.phases[k]? = some .down := by rw [hr.ph k, hpa]
  refine ⟨{ s with phases := s.phases.set k .connClosed }, ?_, ?_⟩
  · rw [scan_snoc, hs]; simp [specStep, Spec.move, hp]
  · exact hr.change k .connClosed (hr.lt hpa) (by unfold phaseAt; rw [hk]; simp only; rw [hx']; simp [hd'])
      (fun j hj => phaseAt_congr rfl (ho j hj))

end MuduoVerif.Client
