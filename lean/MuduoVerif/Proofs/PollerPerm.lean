import MuduoVerif.Proofs.PollerDispatch
/-!
# Operations between polls only: the order in which the kernel reports does not matter

Without operations scripted inside callbacks an iteration only emits callbacks — those of each active
channel, determined by its `revents_` and interest —, so two loops whose pollers return the same channels
in any order run the same callbacks up to order and stay in step.
-/
namespace MuduoVerif.Poller
open MuduoVerif.Gen.Poller

/-- the callbacks `Channel::handleEventWithGuard` runs on channel `c`, in its fixed order -/
def cbsOf (s : State) (c : Nat) : List Ev :=
  [Kind.close, Kind.error, Kind.read, Kind.write].filterMap fun k =>
    if disp k (s.chans c).revents ∧ subscribed k (s.chans c).events then
      some (.cb c k (s.chans c).revents (s.chans c).events) else none

theorem setHooks_nil {s : State} (h : s.hooks = []) : { s with hooks := [] } = s := by
  cases s; simp_all

def addOut (s : State) (l : List Ev) : State := { s with out := s.out ++ l }

/-- the callback stage `k` of `handleEventWithGuard` runs on channel `c`, if any -/
def cbK (k : Kind) (s : State) (c : Nat) : List Ev :=
  if disp k (s.chans c).revents ∧ subscribed k (s.chans c).events then
    [.cb c k (s.chans c).revents (s.chans c).events] else []

theorem stage_nohooks (k : Kind) {s : State} (hh : s.hooks = []) (hd : s.dead = false) (c : Nat) (l : List Ev) :
    stage k (addOut s l) c = addOut s (l ++ cbK k s c) := by
  unfold stage cbK addOut
  rw [if_neg (by simp [hd])]
  split
  · simp [fire, runHooks, emit, hh]
  · simp

theorem addOut_nil (s : State) : addOut s [] = s := by
  cases s; simp [addOut]

theorem cbsOf_eq (s : State) (c : Nat) :
    cbsOf s c = cbK .close s c ++ cbK .error s c ++ cbK .read s c ++ cbK .write s c := by
  unfold cbsOf cbK
  simp only [List.filterMap_cons, List.filterMap_nil]
  by_cases h1 : disp .close (s.chans c).revents ∧ subscribed .close (s.chans c).events <;>
  by_cases h2 : disp .error (s.chans c).revents ∧ subscribed .error (s.chans c).events <;>
  by_cases h3 : disp .read (s.chans c).revents ∧ subscribed .read (s.chans c).events <;>
  by_cases h4 : disp .write (s.chans c).revents ∧ subscribed .write (s.chans c).events <;>
  simp [h1, h2, h3, h4]

theorem handleEvent_nohooks {s : State} (hh : s.hooks = []) (hd : s.dead = false) (c : Nat) (l : List Ev) :
    handleEvent (addOut s l) c = addOut s (l ++ cbsOf s c) := by
  unfold handleEvent
  rw [stage_nohooks .close hh hd, stage_nohooks .error hh hd, stage_nohooks .read hh hd,
    stage_nohooks .write hh hd, cbsOf_eq]
  simp only [List.append_assoc]

/-- `t` is `s` with more output and another `currentActiveChannel_` -/
def OutCur (s t : State) (l : List Ev) : Prop := ∃ cur, t = { s with out := s.out ++ l, cur := cur }

theorem OutCur.trans {a b c : State} {l1 l2 : List Ev} (h1 : OutCur a b l1) (h2 : OutCur b c l2) :
    OutCur a c (l1 ++ l2) := by
  obtain ⟨c1, rfl⟩ := h1
  obtain ⟨c2, rfl⟩ := h2
  exact ⟨c2, by simp [List.append_assoc]⟩

theorem OutCur.cbsOf {s t : State} {l : List Ev} (h : OutCur s t l) (c : Nat) : cbsOf t c = cbsOf s c := by
  obtain ⟨c1, rfl⟩ := h; rfl

theorem OutCur.hooks {s t : State} {l : List Ev} (h : OutCur s t l) : t.hooks = s.hooks := by
  obtain ⟨c1, rfl⟩ := h; rfl

theorem OutCur.dead {s t : State} {l : List Ev} (h : OutCur s t l) : t.dead = s.dead := by
  obtain ⟨c1, rfl⟩ := h; rfl

theorem outCur_handleEvent {s : State} (hh : s.hooks = []) (hd : s.dead = false) (c : Nat) :
    OutCur s (handleEvent s c) (cbsOf s c) := by
  have := handleEvent_nohooks hh hd c []
  rw [addOut_nil] at this
  rw [this]
  exact ⟨s.cur, by simp [addOut]⟩

theorem outCur_dispatch (act : List Nat) : ∀ {s : State}, s.hooks = [] → s.dead = false →
    OutCur s (dispatch s act) (act.flatMap (cbsOf s)) := by
  induction act with
  | nil => intro s _ _; exact ⟨s.cur, by simp [dispatch]⟩
  | cons c rest ih =>
    intro s hh hd
    unfold dispatch
    simp only [List.foldl_cons, List.flatMap_cons]
    have h0 : OutCur s { s with cur := some c } [] := ⟨some c, by simp⟩
    have h1 : OutCur { s with cur := some c } (handleEvent { s with cur := some c } c)
        (cbsOf { s with cur := some c } c) := outCur_handleEvent (s := { s with cur := some c }) hh hd c
    have h01 := h0.trans h1
    have h2 := ih (s := handleEvent { s with cur := some c } c) (h01.hooks.trans hh) (h01.dead.trans hd)
    unfold dispatch at h2
    have h012 := h01.trans h2
    have e : (fun x => cbsOf (handleEvent { s with cur := some c } c) x) = cbsOf s := by
      funext x; exact h01.cbsOf x
    have e' : cbsOf (handleEvent { s with cur := some c } c) = cbsOf s := e
    rw [e'] at h012
    have e0 : cbsOf { s with cur := some c } c = cbsOf s c := rfl
    rw [e0, List.nil_append] at h012
    exact h012

/-- an iteration without scripted operations: poll, then the callbacks of every active channel -/
theorem iter_nohooks {s : State} (_hh : s.hooks = []) (hd : s.dead = false) (ready) (nret)
    (hd1 : (pollerPoll s ready nret).1.dead = false) (hh1 : (pollerPoll s ready nret).1.hooks = []) :
    iter s ready nret = { (pollerPoll s ready nret).1 with
      out := (pollerPoll s ready nret).1.out ++
        (pollerPoll s ready nret).2.flatMap (cbsOf (pollerPoll s ready nret).1)
      iteration := (pollerPoll s ready nret).1.iteration + 1
      active := (pollerPoll s ready nret).2
      handling := false
      cur := none } := by
  rw [iter_eq, if_neg (by simp [hd]), if_neg (by simp [hd1])]
  generalize pollerPoll s ready nret = p at hd1 hh1 ⊢
  obtain ⟨s1, act⟩ := p
  simp only at hd1 hh1 ⊢
  obtain ⟨cur, h⟩ := outCur_dispatch act
    (s := { s1 with iteration := s1.iteration + 1, active := act, handling := true }) hh1 hd1
  rw [h]
  rfl


/-! ### the two back-ends, any report order -/

/-- executed and rejected operations, without the back-end's slot index -/
def Ev.stripOp : Ev → Option Ev
  | .op c k ev _ => some (.op c k ev 0)
  | .reject c k => some (.reject c k)
  | _ => none

def opsOut (out : List Ev) : List Ev := out.filterMap Ev.stripOp
def cbOut (out : List Ev) : List Ev := out.filter Ev.isCb

theorem opsOut_append (a b : List Ev) : opsOut (a ++ b) = opsOut a ++ opsOut b := by
  unfold opsOut; rw [List.filterMap_append]

theorem cbOut_append (a b : List Ev) : cbOut (a ++ b) = cbOut a ++ cbOut b := by
  unfold cbOut; rw [List.filter_append]

theorem opsOut_none (l : List Ev) (h : ∀ e ∈ l, e.stripOp = none) : opsOut l = [] := by
  unfold opsOut; rw [List.filterMap_eq_nil_iff]; exact h

theorem cbOut_none (l : List Ev) (h : ∀ e ∈ l, e.isCb = false) : cbOut l = [] := by
  unfold cbOut; rw [List.filter_eq_nil_iff]; intro e he; simp [h e he]

theorem cbOut_all (l : List Ev) (h : ∀ e ∈ l, e.isCb = true) : cbOut l = l := by
  unfold cbOut; rw [List.filter_eq_self]; exact h

theorem isBack_stripOp {e : Ev} (h : e.isBack = true) : e.stripOp = none := by
  cases e <;> simp_all [Ev.isBack, Ev.stripOp]

theorem isPlumb_stripOp {e : Ev} (h : e.isPlumb) : e.stripOp = none := by
  cases e <;> simp_all [Ev.isPlumb, Ev.stripOp]

theorem cbsOf_isCb (s : State) (c : Nat) : ∀ e ∈ cbsOf s c, e.isCb = true ∧ e.stripOp = none := by
  intro e he
  unfold cbsOf at he
  simp only [List.mem_filterMap] at he
  obtain ⟨k, _, hk⟩ := he
  split at hk
  · injection hk with hk; subst hk; exact ⟨rfl, rfl⟩
  · exact absurd hk (by simp)

/-- a poll loop and an epoll loop, between two iterations of a history without scripted operations:
same interest, `revents_` and registration of every channel, same operations executed, same callbacks
up to order -/
structure WSim (s t : State) : Prop where
  bes : s.be = .poll
  bet : t.be = .epoll
  ps : PollStruct s
  es : EpStruct t
  ds : s.dead = false
  dt : t.dead = false
  ev : ∀ c, (s.chans c).events = (t.chans c).events
  rev : ∀ c, (s.chans c).revents = (t.chans c).revents
  added : ∀ c, (s.chans c).added = (t.chans c).added
  hs : s.hooks = []
  ht : t.hooks = []
  hands : s.handling = false
  handt : t.handling = false
  ops : opsOut s.out = opsOut t.out
  cbs : (cbOut s.out).Perm (cbOut t.out)

theorem wsim_accepts {s t : State} (h : WSim s t) (c : Nat) (k : OpKind) : accepts s c k ↔ accepts t c k := by
  cases k <;> simp [accepts, removeOk, recreateOk, h.ev c, h.added c, h.hands, h.handt]

theorem wsim_applyOp {s t : State} (h : WSim s t) (c : Nat) (k : OpKind) :
    WSim (applyOp s c k) (applyOp t c k) := by
  obtain ⟨ps', ds', _⟩ := pollStruct_applyOp h.bes h.ps c k
  obtain ⟨es', dt', _⟩ := epStruct_applyOp h.bet h.es c k
  have ds'' := ds'.trans h.ds
  have dt'' := dt'.trans h.dt
  rcases applyOp_cases s c k with ⟨hd, _⟩ | ⟨_, hacc, h1⟩ | ⟨_, hacc, h1⟩
  · rw [h.ds] at hd; exact absurd hd (by simp)
  · have h2 := applyOp_reject h.dt (fun a => hacc ((wsim_accepts h c k).2 a))
    refine ⟨(applyOp_be s c k).trans h.bes, (applyOp_be t c k).trans h.bet, ps', es', ds'', dt'', ?_, ?_, ?_,
      ?_, ?_, ?_, ?_, ?_, ?_⟩
    all_goals (try rw [h1]); (try rw [h2])
    · exact h.ev
    · exact h.rev
    · exact h.added
    · exact h.hs
    · exact h.ht
    · exact h.hands
    · exact h.handt
    · simp only [emit, opsOut_append, h.ops]
    · simp only [emit, cbOut_append]
      exact h.cbs.append (by simp [cbOut, Ev.isCb])
  · have h2 := applyOp_opStep h.dt ((wsim_accepts h c k).1 hacc)
    obtain ⟨l1, hl1, ha1, _⟩ := h1.out
    obtain ⟨l2, hl2, ha2, _⟩ := h2.out
    refine ⟨(applyOp_be s c k).trans h.bes, (applyOp_be t c k).trans h.bet, ps', es', ds'', dt'',
      fun x => ?_, fun x => ?_, fun x => ?_, ?_, ?_, ?_, ?_, ?_, ?_⟩
    · rw [h1.ev x, h2.ev x, h.ev c, h.ev x]
    · rw [h1.rev x, h2.rev x, h.rev c, h.rev x]
    · rw [h1.added x, h2.added x, h.added x]
    · rw [h1.hooks, h.hs]
    · rw [h2.hooks, h.ht]
    · rw [h1.handling, h.hands]
    · rw [h2.handling, h.handt]
    · rw [(ha1 ds'').2, (ha2 dt'').2]
      simp only [opsOut_append, opsOut_none l1 (fun e he => isBack_stripOp (hl1 e he)),
        opsOut_none l2 (fun e he => isBack_stripOp (hl2 e he)), h.ops, List.append_nil]
      congr 1
      simp only [opsOut, List.filterMap_cons, Ev.stripOp, List.filterMap_nil]
      rw [h1.ev c, h2.ev c, h.ev c]
    · rw [(ha1 ds'').2, (ha2 dt'').2]
      simp only [cbOut_append, cbOut_none l1 (fun e he => isBack_notCb (hl1 e he)),
        cbOut_none l2 (fun e he => isBack_notCb (hl2 e he)), List.append_nil]
      exact h.cbs.append (by simp [cbOut, Ev.isCb])

/-- what the order-free theorem asks of an iteration: a well-behaved kernel that reports each
descriptor once, and both pollers returning the same channels (in any order) -/
def permEnvOk (sp se : State) : In → Prop
  | .iter ready nret =>
    epEnvOk se (.iter ready nret) ∧ (ready.map (·.1)).Nodup ∧
      (pollerPoll sp ready nret).2.Perm (pollerPoll se ready nret).2
  | .hook _ => False
  | .op _ _ => True
instance : Decidable (permEnvOk sp se i) := by cases i <;> unfold permEnvOk <;> infer_instance

theorem wsim_iter {s t : State} (h : WSim s t) (ready) (nret) (henv : permEnvOk s t (.iter ready nret)) :
    WSim (iter s ready nret) (iter t ready nret) := by
  obtain ⟨he, hnd, hact⟩ := henv
  have fs := frame_pollerPoll s ready nret
  have ft := frame_pollerPoll t ready nret
  have bs := sameBook_pollerPoll s ready nret
  have bt := sameBook_pollerPoll t ready nret
  have hds := (pollGood_poll s ready nret ⟨h.bes, h.ds, h.ps⟩).2.1
  have hdt := (epAlive_poll t ready nret ⟨⟨h.bet, h.es⟩, h.dt⟩ he).2
  obtain ⟨ls, hls, hps, _⟩ := fs.out
  obtain ⟨lt, hlt, hpt, _⟩ := ft.out
  have hp := pollerPoll_poll_spec h.bes h.ps ready nret
  obtain ⟨e1, e2⟩ := pollerPoll_epoll_spec h.bet h.es ready nret he hnd
  have hrev : ∀ c, ((pollerPoll s ready nret).1.chans c).revents = ((pollerPoll t ready nret).1.chans c).revents := by
    intro c
    rw [hp c, e2 c, ← e1, h.rev c]
    by_cases hm : c ∈ (pollerPoll s ready nret).2
    · rw [if_pos hm, if_pos (hact.mem_iff.1 hm)]
    · rw [if_neg hm, if_neg (fun x => hm (hact.mem_iff.2 x))]
  have hcbs : cbsOf (pollerPoll s ready nret).1 = cbsOf (pollerPoll t ready nret).1 := by
    funext c
    unfold cbsOf
    rw [hrev c, fs.ev c, ft.ev c, h.ev c]
  rw [iter_nohooks h.hs h.ds ready nret hds (bs.hooks.trans h.hs),
    iter_nohooks h.ht h.dt ready nret hdt (bt.hooks.trans h.ht)]
  refine ⟨fs.be.trans h.bes, ft.be.trans h.bet,
    (h.ps.frame fs).congr rfl rfl (fun _ => rfl) (fun _ => rfl) (fun _ => rfl),
    (h.es.frame ft).congr rfl rfl (fun _ => rfl) (fun _ => rfl) (fun _ => rfl), hds, hdt,
    fun c => ?_, hrev, fun c => ?_, bs.hooks.trans h.hs, bt.hooks.trans h.ht, rfl, rfl, ?_, ?_⟩
  · show ((pollerPoll s ready nret).1.chans c).events = ((pollerPoll t ready nret).1.chans c).events
    rw [fs.ev, ft.ev, h.ev]
  · show ((pollerPoll s ready nret).1.chans c).added = ((pollerPoll t ready nret).1.chans c).added
    rw [fs.added, ft.added, h.added]
  · show opsOut (_ ++ _) = opsOut (_ ++ _)
    have hz : ∀ (S : State) (act : List Nat), opsOut (List.flatMap (cbsOf S) act) = [] := by
      intro S act
      apply opsOut_none
      intro e he
      obtain ⟨c, _, hc⟩ := List.mem_flatMap.1 he
      exact (cbsOf_isCb _ c e hc).2
    rw [hls, hlt]
    simp only [opsOut_append, opsOut_none ls (fun e he => isPlumb_stripOp (hps e he)),
      opsOut_none lt (fun e he => isPlumb_stripOp (hpt e he)), h.ops, hz, List.append_nil]
  · show (cbOut (_ ++ _)).Perm (cbOut (_ ++ _))
    have hz : ∀ (S : State) (act : List Nat), cbOut (List.flatMap (cbsOf S) act) = List.flatMap (cbsOf S) act := by
      intro S act
      apply cbOut_all
      intro e he
      obtain ⟨c, _, hc⟩ := List.mem_flatMap.1 he
      exact (cbsOf_isCb _ c e hc).1
    rw [hls, hlt]
    simp only [cbOut_append, cbOut_none ls (fun e he => (hps e he).notCb),
      cbOut_none lt (fun e he => (hpt e he).notCb), List.append_nil, hz]
    refine h.cbs.append ?_
    rw [hcbs]
    exact List.Perm.flatMap_right _ hact

theorem wsim_run (ins : List In) : ∀ (s t : State), WSim s t → Along2 permEnvOk s t ins →
    WSim (run s ins) (run t ins) := by
  induction ins with
  | nil => intro s t h _; exact h
  | cons i rest ih =>
    intro s t h ha
    obtain ⟨hq, ha'⟩ := ha
    refine ih (step s i) (step t i) ?_ ha'
    cases i with
    | op c k => exact wsim_applyOp h c k
    | hook x => exact absurd hq (by simp [permEnvOk])
    | iter ready nret => exact wsim_iter h ready nret hq

theorem wsim_init : WSim (init .poll) (init .epoll) :=
  ⟨rfl, rfl, sim_init.ps, sim_init.es, sim_init.ds, sim_init.dt, sim_init.abs.ev, sim_init.abs.rev,
    sim_init.abs.added, rfl, rfl, rfl, rfl, rfl, List.Perm.refl _⟩


/-- operations between polls only; the kernel lists the ready descriptors in another order than
`PollPoller` scans them -/
def sampleUnordered : List In :=
  [.op 2 .enableR, .op 3 .enableW, .op 4 .enableR, .iter [(4, 1), (2, 1), (3, 4)] 3, .op 3 .disableAll,
   .op 3 .remove, .iter [(4, 16), (2, 1)] 2]

end MuduoVerif.Poller
