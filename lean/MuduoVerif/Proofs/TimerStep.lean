import MuduoVerif.Proofs.TimerInv
/-! The structural invariant over all histories: every state `run ins` satisfies `Top`. -/
namespace MuduoVerif.Timer
open MuduoVerif.Gen.Timer

abbrev WF (s : TQ) (B : List (Time × Addr)) : Prop := WFp s B (limbo s)

/-- what holds whenever the loop may go back to `poll` -/
structure Top (s : TQ) : Prop where
  wf : WF s []
  running : s.running = []
  calling : s.calling = false

theorem limbo_of_extW {s s' : TQ} (h : ExtW s s') : limbo s' = limbo s := by
  unfold limbo; rw [h.pending, h.running]
theorem limbo_of_ext {s s' : TQ} (h : Ext s s') : limbo s' = limbo s := limbo_of_extW h.toExtW

theorem addAlloc_spec (s : TQ) (name : Nat) (m : Mode) :
    Frame s (addAlloc s name m) ∨
    (∃ s1 a c, Frame s s1 ∧ s1.heap a = none ∧ (0 < a ∧ a < sentinelAddr) ∧ c.seq = s1.numCreated + 1 ∧ c.runs = 0 ∧
      c.exp = c.first ∧ c.name = name ∧
      addAlloc s name m = { allocCell s1 a c with pending := s1.pending ++ [.add a], parked := some (name, a, c.seq) }) := by
  unfold addAlloc
  split
  · exact Or.inl (Frame.refl s)
  · rcases allocTimer_spec s name m with ⟨s', h1, h2⟩ | ⟨s1, a, c, h1, h2, h3, h4, h5, h6, h7, h8⟩
    · left; rw [h1]; exact h2
    · right
      refine ⟨s1, a, c, h1, h2, h3, h4, h5, h6, h7, ?_⟩
      rw [h8]
      simp [cellAt, allocCell, hset_same]

theorem addFinish_none {s : TQ} (h : s.parked = none) : addFinish s = s := by
  unfold addFinish; rw [h]

theorem addFinish_some {s : TQ} {name : Nat} {a : Addr} {q : Nat} (h : s.parked = some (name, a, q)) :
    addFinish s = bindId { s with parked := none } name a q := by
  unfold addFinish; rw [h]; simp [addTimerDerefsAfterHandOver]

theorem Top.addL {s : TQ} (h : Top s) (name : Nat) (m : Mode) : Top (Timer.addL s name m) := by
  have he := addL_ext s name m
  refine ⟨?_, by rw [he.running]; exact h.running, by rw [he.calling]; exact h.calling⟩
  show WFp _ [] (limbo _)
  rw [limbo_of_ext he]
  exact h.wf.addL name m

theorem Top.cancelInLoop {s : TQ} (h : Top s) (id : TimerId) : Top (Timer.cancelInLoop s id) := by
  have he := cancelInLoop_ext s id
  refine ⟨?_, by rw [he.running]; exact h.running, by rw [he.calling]; exact h.calling⟩
  show WFp _ [] (limbo _)
  rw [limbo_of_ext he]
  exact h.wf.cancelInLoop id

theorem Top.emit {s : TQ} (h : Top s) (e : Ev) (he : ∀ a, e ≠ .uaf a) : Top (Timer.emit s e) :=
  ⟨WFp.emit h.wf e he, h.running, h.calling⟩

theorem Top.addAlloc {s : TQ} (h : Top s) (name : Nat) (m : Mode) : Top (Timer.addAlloc s name m) := by
  rcases addAlloc_spec s name m with hf | ⟨s1, a, c, h1, h2, h3, h4, h5, h6, h7, h8⟩
  · refine ⟨?_, by rw [hf.running]; exact h.running, by rw [hf.calling]; exact h.calling⟩
    show WFp _ [] (limbo _)
    rw [limbo_of_ext hf.ext]
    exact h.wf.frame hf
  · rw [h8]
    refine ⟨?_, by show s1.running = []; rw [h1.running]; exact h.running, by show s1.calling = false; rw [h1.calling]; exact h.calling⟩
    have hw : WFp (allocCell s1 a c) [] (a :: limbo s) := (h.wf.frame h1).alloc h2 h3 h4
    have hl : limbo { allocCell s1 a c with pending := s1.pending ++ [.add a], parked := some (name, a, c.seq) }
        = limbo s ++ [a] := by
      show addsOf (s1.running ++ (s1.pending ++ [.add a])) = addsOf (s.running ++ s.pending) ++ [a]
      rw [h1.running, h1.pending, ← List.append_assoc, addsOf_append]; rfl
    show WFp _ [] (limbo _)
    rw [hl]
    have hw' : WFp (allocCell s1 a c) [] (limbo s ++ [a]) := by
      refine hw.relabel (by intro x; simp [or_comm]) ?_
      have := hw.p_nodup
      rw [List.nodup_cons] at this
      exact List.nodup_append.2 ⟨this.2, List.nodup_singleton a, by
        intro x hx y hy hxy; simp at hy; subst hy; subst hxy; exact this.1 hx⟩
    exact hw'.congr rfl rfl rfl rfl hw'.no_uaf

theorem Top.addFinish {s : TQ} (h : Top s) : Top (Timer.addFinish s) := by
  cases hp : s.parked with
  | none => rw [addFinish_none hp]; exact h
  | some p =>
    obtain ⟨name, a, q⟩ := p
    rw [addFinish_some hp]
    have he := bindId_ext { s with parked := none } name a q
    refine ⟨?_, by rw [he.running]; exact h.running, by rw [he.calling]; exact h.calling⟩
    show WFp _ [] (limbo _)
    rw [limbo_of_ext he]
    have hw : WFp { s with parked := none } [] (limbo { s with parked := none }) :=
      h.wf.congr rfl rfl rfl rfl h.wf.no_uaf
    exact hw.bindId _ _ _

theorem runNext_spec {s : TQ} (h : WF s []) :
    WF (runNext s) [] ∧ (runNext s).running = s.running.tail ∧ (runNext s).pending = s.pending ∧
      (runNext s).calling = s.calling := by
  unfold runNext
  split
  · rename_i hr; exact ⟨h, by rw [hr]; rfl, rfl, rfl⟩
  · rename_i f r hr
    have hl : limbo s = addsOf [f] ++ limbo { s with running := r } := by
      show addsOf (s.running ++ s.pending) = addsOf [f] ++ addsOf (r ++ s.pending)
      rw [hr, ← addsOf_append]; rfl
    have hw : WFp { s with running := r } [] (addsOf [f] ++ limbo { s with running := r }) := by
      rw [← hl]; exact h.congr rfl rfl rfl rfl h.no_uaf
    cases f with
    | add a =>
      have he := addInLoop_ext { s with running := r } a
      obtain ⟨c, hc⟩ := Option.isSome_iff_exists.1 (hw.p_live a List.mem_cons_self).1
      refine ⟨?_, by rw [hr]; exact he.running, he.pending, he.calling⟩
      show WFp (Timer.addInLoop _ a) [] (limbo (Timer.addInLoop _ a))
      rw [limbo_of_ext he]
      exact WFp.addInLoop hw hc
    | cancel id =>
      have he := cancelInLoop_ext { s with running := r } id
      refine ⟨?_, by rw [hr]; exact he.running, he.pending, he.calling⟩
      show WFp (Timer.cancelInLoop _ id) [] (limbo (Timer.cancelInLoop _ id))
      rw [limbo_of_ext he]
      exact WFp.cancelInLoop hw id
    | marker k =>
      exact ⟨WFp.emit hw _ (by intro x; simp), by rw [hr]; rfl, rfl, rfl⟩

theorem drain_spec (n : Nat) (s : TQ) (h : WF s []) (hn : s.running.length = n) :
    WF (drain n s) [] ∧ (drain n s).running = [] ∧ (drain n s).pending = s.pending ∧ (drain n s).calling = s.calling := by
  induction n generalizing s with
  | zero => exact ⟨h, List.eq_nil_of_length_eq_zero hn, rfl, rfl⟩
  | succ n ih =>
    obtain ⟨h1, h2, h3, h4⟩ := runNext_spec h
    obtain ⟨g1, g2, g3, g4⟩ := ih (runNext s) h1 (by rw [h2, List.length_tail, hn]; rfl)
    exact ⟨g1, g2, g3.trans h3, g4.trans h4⟩

theorem Top.handleRead {s : TQ} (h : Top s) : Top (Timer.handleRead s) := by
  have he := handleRead_extW s h.calling
  refine ⟨?_, by rw [he.running]; exact h.running, by rw [he.calling]; exact h.calling⟩
  show WFp _ [] (limbo _)
  rw [limbo_of_extW he]
  exact WFp.handleRead h.wf

theorem Top.iter {s : TQ} (h : Top s) : Top (Timer.iter s) := by
  unfold Timer.iter
  have h1 : Top (if s.readable then Timer.handleRead s else s) := by
    split
    · exact h.handleRead
    · exact h
  generalize (if s.readable then Timer.handleRead s else s) = s1 at h1
  simp only []
  have hw : WF { s1 with running := s1.pending, pending := [] } [] := by
    have : limbo { s1 with running := s1.pending, pending := [] } = limbo s1 := by
      show addsOf (s1.pending ++ []) = addsOf (s1.running ++ s1.pending)
      rw [h1.running]; simp
    show WFp _ [] (limbo _)
    rw [this]
    exact h1.wf.congr rfl rfl rfl rfl h1.wf.no_uaf
  obtain ⟨g1, g2, _, g4⟩ := drain_spec s1.pending.length _ hw rfl
  exact ⟨g1, g2, g4.trans h1.calling⟩

theorem Top.step {s : TQ} (h : Top s) (i : In) : Top (Timer.step s i) := by
  cases i with
  | now t => exact ⟨h.wf.congr rfl rfl rfl rfl h.wf.no_uaf, h.running, h.calling⟩
  | addr a => exact ⟨h.wf.congr rfl rfl rfl rfl h.wf.no_uaf, h.running, h.calling⟩
  | script name k a => exact ⟨h.wf.congr rfl rfl rfl rfl h.wf.no_uaf, h.running, h.calling⟩
  | add who name m =>
    cases who with
    | loop => exact h.addL name m
    | foreign =>
      show Top (if s.parked.isSome then s else Timer.addFinish (Timer.addAlloc s name m))
      split
      · exact h
      · exact (h.addAlloc name m).addFinish
  | addAlloc name m => exact h.addAlloc name m
  | addFinish => exact h.addFinish
  | cancel who v k =>
    cases who with
    | loop => exact (h.cancelInLoop _).emit _ (by intro x; simp)
    | foreign =>
      refine ⟨?_, h.running, h.calling⟩
      have : limbo { s with pending := s.pending ++ [.cancel (lookupId s v), .marker k] } = limbo s := by
        show addsOf (s.running ++ (s.pending ++ _)) = addsOf (s.running ++ s.pending)
        rw [← List.append_assoc, addsOf_append]; simp [addsOf]
      show WFp { s with pending := s.pending ++ [.cancel (lookupId s v), .marker k] } []
        (limbo { s with pending := s.pending ++ [.cancel (lookupId s v), .marker k] })
      rw [this]
      exact h.wf.congr rfl rfl rfl rfl h.wf.no_uaf
  | expire =>
    show Top (match s.alarm with | some _ => { s with alarm := none, readable := true } | none => s)
    split
    · exact ⟨h.wf.congr rfl rfl rfl rfl h.wf.no_uaf, h.running, h.calling⟩
    · exact h
  | iter => exact h.iter

theorem Top.init : Top ({} : TQ) := by
  refine ⟨⟨?_, ?_, ?_, ?_, ?_, ?_, ?_, ?_, ?_, ?_, ?_, ?_, ?_⟩, rfl, rfl⟩ <;> simp [limbo, addsOf]

theorem foldl_top (ins : List In) (s : TQ) (h : Top s) : Top (ins.foldl step s) := by
  induction ins generalizing s with
  | nil => exact h
  | cons i r ih => exact ih _ (h.step i)

theorem run_top (ins : List In) : Top (run ins) := foldl_top ins _ Top.init


/-- a step of a foreign thread / of the API wrapper that leaves the queue's own state alone -/
structure Quiet (s s' : TQ) : Prop where
  timers : s'.timers = s.timers
  active : s'.active = s.active
  alarm : s'.alarm = s.alarm
  readable : s'.readable = s.readable
  armedAt : s'.armedAt = s.armedAt
  calling : s'.calling = s.calling
  cancelling : s'.cancelling = s.cancelling
  running : s'.running = s.running
  scripts : s'.scripts = s.scripts
  numCreated : s.numCreated ≤ s'.numCreated
  trace : s'.trace = s.trace ∨ ∃ n a q, s'.trace = .added n a q :: s.trace

theorem Quiet.suffix {s s' : TQ} (h : Quiet s s') : s.trace <:+ s'.trace := by
  rcases h.trace with h | ⟨n, a, q, h⟩ <;> rw [h]
  · exact List.suffix_refl _
  · exact List.suffix_cons _ _

theorem Quiet.runs {s s' : TQ} (h : Quiet s s') : runRecs s'.trace = runRecs s.trace := by
  rcases h.trace with h | ⟨n, a, q, h⟩ <;> rw [h]
  rw [runRecs_cons]; rfl

theorem Frame.quiet {s s' : TQ} (h : Frame s s') : Quiet s s' :=
  ⟨h.timers, h.active, h.alarm, h.readable, h.armedAt, h.calling, h.cancelling, h.running, h.scripts,
   by rw [h.numCreated], Or.inl h.trace⟩

theorem addAlloc_quiet (s : TQ) (name : Nat) (m : Mode) : Quiet s (addAlloc s name m) := by
  rcases addAlloc_spec s name m with hf | ⟨s1, a, c, h1, _, _, h4, _, _, _, h8⟩
  · exact hf.quiet
  · rw [h8]
    exact ⟨h1.timers, h1.active, h1.alarm, h1.readable, h1.armedAt, h1.calling, h1.cancelling, h1.running, h1.scripts,
      by show s.numCreated ≤ c.seq; rw [h4, h1.numCreated]; omega, Or.inl h1.trace⟩

theorem addFinish_quiet (s : TQ) : Quiet s (addFinish s) := by
  cases hp : s.parked with
  | none => rw [addFinish_none hp]; exact (Frame.refl s).quiet
  | some p =>
    obtain ⟨name, a, q⟩ := p
    rw [addFinish_some hp]
    exact ⟨rfl, rfl, rfl, rfl, rfl, rfl, rfl, rfl, rfl, Nat.le_refl _, Or.inr ⟨name, a, q, rfl⟩⟩

theorem Quiet.trans {s s' s'' : TQ} (h : Quiet s s') (h' : Quiet s' s'') (hq : s'.trace = s.trace) : Quiet s s'' :=
  ⟨h'.timers.trans h.timers, h'.active.trans h.active, h'.alarm.trans h.alarm, h'.readable.trans h.readable,
   h'.armedAt.trans h.armedAt, h'.calling.trans h.calling, h'.cancelling.trans h.cancelling, h'.running.trans h.running,
   h'.scripts.trans h.scripts, Nat.le_trans h.numCreated h'.numCreated, by rw [← hq]; exact h'.trace⟩

theorem addAlloc_trace (s : TQ) (name : Nat) (m : Mode) : (addAlloc s name m).trace = s.trace := by
  rcases addAlloc_spec s name m with hf | ⟨s1, a, c, h1, _, _, h4, _, _, _, h8⟩
  · exact hf.trace
  · rw [h8]; exact h1.trace

/-- `addTimer` on a foreign thread, joined -/
theorem addForeign_quiet (s : TQ) (name : Nat) (m : Mode) : Quiet s (addFinish (addAlloc s name m)) :=
  (addAlloc_quiet s name m).trans (addFinish_quiet _) (addAlloc_trace s name m)

/-! ### induction principles for further invariants -/

theorem wf_pop {s : TQ} {f : Functor} {r : List Functor} (h : WF s []) (hr : s.running = f :: r) :
    WFp { s with running := r } [] (addsOf [f] ++ limbo { s with running := r }) := by
  have hl : limbo s = addsOf [f] ++ limbo { s with running := r } := by
    show addsOf (s.running ++ s.pending) = addsOf [f] ++ addsOf (r ++ s.pending)
    rw [hr, ← addsOf_append]; rfl
  rw [← hl]; exact h.congr rfl rfl rfl rfl h.no_uaf

theorem runNext_nil {s : TQ} (h : s.running = []) : runNext s = s := by unfold runNext; rw [h]
theorem runNext_cons {s : TQ} {f : Functor} {r : List Functor} (h : s.running = f :: r) :
    runNext s = runFunctor { s with running := r } f := by unfold runNext; rw [h]

theorem drain_inv (P : TQ → Prop) (hnext : ∀ s, WF s [] → s.calling = false → P s → P (runNext s)) (n : Nat) (s : TQ)
    (h : WF s []) (hc : s.calling = false) (hp : P s) : P (drain n s) := by
  induction n generalizing s with
  | zero => exact hp
  | succ n ih =>
    obtain ⟨h1, _, _, h4⟩ := runNext_spec h
    exact ih (runNext s) h1 (h4.trans hc) (hnext s h hc hp)

theorem iter_inv (P : TQ → Prop) (hread : ∀ s, Top s → P s → P (handleRead s))
    (hswap : ∀ s, Top s → P s → P { s with running := s.pending, pending := [] })
    (hnext : ∀ s, WF s [] → s.calling = false → P s → P (runNext s)) (s : TQ) (h : Top s) (hp : P s) : P (iter s) := by
  unfold iter
  have h1 : Top (if s.readable then handleRead s else s) ∧ P (if s.readable then handleRead s else s) := by
    split
    · exact ⟨h.handleRead, hread s h hp⟩
    · exact ⟨h, hp⟩
  generalize (if s.readable then handleRead s else s) = s1 at h1
  simp only []
  have hw : WF { s1 with running := s1.pending, pending := [] } [] := by
    have : limbo { s1 with running := s1.pending, pending := [] } = limbo s1 := by
      show addsOf (s1.pending ++ []) = addsOf (s1.running ++ s1.pending)
      rw [h1.1.running]; simp
    show WFp _ [] (limbo _)
    rw [this]
    exact h1.1.wf.congr rfl rfl rfl rfl h1.1.wf.no_uaf
  exact drain_inv P hnext _ _ hw h1.1.calling (hswap s1 h1.1 h1.2)

theorem run_inv (P : TQ → Prop) (h0 : P {}) (hstep : ∀ s i, Top s → P s → P (step s i)) (ins : List In) : P (run ins) := by
  have : ∀ (l : List In) (s : TQ), Top s → P s → Top (l.foldl step s) ∧ P (l.foldl step s) := by
    intro l
    induction l with
    | nil => intro s h hp; exact ⟨h, hp⟩
    | cons i r ih => intro s h hp; exact ih _ (h.step i) (hstep s i h hp)
  exact (this ins _ Top.init h0).2

end MuduoVerif.Timer
