import MuduoVerif.Proofs.RpcCall
/-! `CallInv` through the RESPONSE branch, the REQUEST side (foreign to it) and whole runs. -/
namespace MuduoVerif.Rpc
open MuduoVerif.Gen.Rpc

theorem CallInv.recvResponse {s : Chan} (inv : CallInv s) (m : Msg) (hp : s.pending = none) :
    CallInv (recvResponse s m) := by
  unfold MuduoVerif.Rpc.recvResponse
  split
  · -- assertion failure: only `abort` and `arrived` are logged
    exact inv.foreign_step [.abort, .arrived m] rfl (by simp [Ev.foreign]) rfl rfl rfl rfl rfl rfl
  · split
    next hl =>
      exact inv.foreign_step [.arrived m] rfl (by simp [Ev.foreign]) rfl rfl rfl rfl rfl rfl
    next k hl =>
      simp only [erases_eq, if_true]
      obtain ⟨hid, hreg, hr0, hf0, _⟩ := inv.out m.id k hl
      have hklt : k < s.nextCall := inv.alive k (by rcases hreg with h | h <;> simp [h])
      have hr : ∀ j, ranCount j (Ev.arrived m :: s.log) = ranCount j s.log := fun j => ranCount_cons_foreign j _ _ rfl
      have hf : ∀ j, freeCount j (Ev.arrived m :: s.log) = freeCount j s.log := fun j => freeCount_cons_foreign j _ _ rfl
      constructor
      · exact inv.born
      · exact inv.alive
      · exact inv.idpos
      · exact inv.inj
      · exact inv.noSentOnly
      · intro i j hlj
        have hlj' : lookup i (eraseKey m.id s.outstanding) = some j := hlj
        rw [lookup_eraseKey] at hlj'
        split at hlj'
        · simp at hlj'
        next hne =>
          obtain ⟨a, b, c, d, _⟩ := inv.out i j hlj'
          show s.idOf j = i ∧ Registered s j ∧ ranCount j (_ :: s.log) = 0 ∧ freeCount j (_ :: s.log) = 0 ∧
            ∀ m', some (k, m) ≠ some (j, m')
          rw [hr, hf]
          refine ⟨a, b, c, d, ?_⟩
          intro m' h
          injection h with h
          injection h with h1 h2
          subst h1
          exact hne (a.symm.trans hid)
      · intro j m' hpj
        have hpj' : some (k, m) = some (j, m') := hpj
        injection hpj' with h
        injection h with h1 h2
        subst h1; subst h2
        show m.id = s.idOf k ∧ Registered s k ∧ Ev.arrived m ∈ (Ev.arrived m :: s.log) ∧ ranCount k (_ :: s.log) = 0 ∧ freeCount k (_ :: s.log) = 0
        rw [hr, hf]
        exact ⟨hid.symm, hreg, List.mem_cons_self, hr0, hf0⟩
      · intro j
        show ranCount j (_ :: s.log) ≤ 1 ∧ freeCount j (_ :: s.log) ≤ 1
        rw [hr, hf]; exact inv.once j
      · intro j hj
        show ranCount j (_ :: s.log) = 0 ∧ freeCount j (_ :: s.log) = 0 ∧ ∀ m', some (k, m) ≠ some (j, m')
        rw [hr, hf]
        obtain ⟨a, b, _⟩ := inv.fresh j hj
        refine ⟨a, b, ?_⟩
        intro m' h
        injection h with h
        injection h with h1 h2
        subst h1
        exact hj hreg
      · intro j i v he
        have he' : Ev.ran j i v ∈ s.log := by
          have : Ev.ran j i v ∈ Ev.arrived m :: s.log := he
          simpa using this
        obtain ⟨a, m', b, c, d⟩ := inv.own j i v he'
        exact ⟨a, m', List.mem_cons_of_mem _ b, c, d⟩
      · intro j hj hrj hpj
        have hrj' : ranCount j (Ev.arrived m :: s.log) = 0 := hrj
        rw [hr] at hrj'
        have hjk : j ≠ k := by
          intro h; subst h
          exact hpj m rfl
        have hj' : Registered s j := hj
        have hjlt : j < s.nextCall := inv.alive j (by rcases hj' with h | h <;> simp [h])
        show lookup (s.idOf j) (eraseKey m.id s.outstanding) = some j
        rw [lookup_eraseKey]
        have hne : s.idOf j ≠ m.id := fun h => hjk (inv.inj j k hjlt hklt (h.trans hid.symm))
        simp only [hne, if_false]
        exact inv.reg j hj' hrj' (by rw [hp]; simp)
      · intro i j he
        have he' : Ev.sent i j ∈ s.log := by
          have : Ev.sent i j ∈ Ev.arrived m :: s.log := he
          simpa using this
        exact inv.wire i j he'

theorem CallInv.finish {s : Chan} (inv : CallInv s) : CallInv (finish s) := by
  unfold MuduoVerif.Rpc.finish
  split
  next => exact inv
  next k m hp =>
    obtain ⟨hid, hreg, harr, hr0, hf0⟩ := inv.pend k m hp
    simp only [runCount_eq, freeCount_eq, List.replicate, List.cons_append, List.nil_append]
    -- the new log: free · ran · (parse)? · old
    have hlog : ∀ (tail : List Ev), (∀ e ∈ tail, e.foreign = true) →
        ∀ j, ranCount j (Ev.free (.resp k) :: Ev.ran k m.id (view m) :: (tail ++ s.log)) =
              (if j = k then 1 else 0) + ranCount j s.log ∧
             freeCount j (Ev.free (.resp k) :: Ev.ran k m.id (view m) :: (tail ++ s.log)) =
              (if j = k then 1 else 0) + freeCount j s.log := by
      intro tail ht j
      have h1 := ranCount_foreign j tail s.log ht
      have h2 := freeCount_foreign j tail s.log ht
      unfold ranCount freeCount at *
      simp only [List.countP_cons, isRan, isFreeResp, h1, h2]
      by_cases h : k = j
      · subst h; simp; omega
      · have : ¬ j = k := fun h' => h h'.symm
        simp [h, this]
    generalize htail : (if respParses m.payload.isSome m.err.isSome then [Ev.parse k] else []) = tail
    have ht : ∀ e ∈ tail, e.foreign = true := by
      intro e he
      rw [← htail] at he
      by_cases hc : respParses m.payload.isSome m.err.isSome
      · rw [if_pos hc] at he
        simp at he
        rw [he]; rfl
      · rw [if_neg hc] at he
        simp at he
    have hc := hlog tail ht
    have hmem : ∀ e, e ∈ s.log → e ∈ Ev.free (.resp k) :: Ev.ran k m.id (view m) :: (tail ++ s.log) := by
      intro e he
      exact List.mem_cons_of_mem _ (List.mem_cons_of_mem _ (List.mem_append_right _ he))
    constructor
    · exact inv.born
    · exact inv.alive
    · exact inv.idpos
    · exact inv.inj
    · exact inv.noSentOnly
    · intro i j hl
      obtain ⟨a, b, c, d, e⟩ := inv.out i j hl
      have hjk : j ≠ k := fun h => e m (by rw [hp, h])
      show s.idOf j = i ∧ Registered s j ∧ ranCount j _ = 0 ∧ freeCount j _ = 0 ∧ ∀ m', none ≠ some (j, m')
      rw [(hc j).1, (hc j).2]
      simp [hjk, a, b, c, d]
    · intro j m' h
      exact absurd h (by simp)
    · intro j
      show ranCount j _ ≤ 1 ∧ freeCount j _ ≤ 1
      rw [(hc j).1, (hc j).2]
      by_cases h : j = k
      · subst h; simp [hr0, hf0]
      · simp [h]; exact inv.once j
    · intro j hj
      have hjk : j ≠ k := fun h => hj (h ▸ hreg)
      show ranCount j _ = 0 ∧ freeCount j _ = 0 ∧ ∀ m', none ≠ some (j, m')
      rw [(hc j).1, (hc j).2]
      obtain ⟨a, b, _⟩ := inv.fresh j hj
      simp [hjk, a, b]
    · intro j i v he
      have he' : Ev.ran j i v ∈ Ev.free (.resp k) :: Ev.ran k m.id (view m) :: (tail ++ s.log) := he
      rcases List.mem_cons.mp he' with h | h
      · cases h
      · rcases List.mem_cons.mp h with h | h
        · injection h with h1 h2 h3
          subst h1; subst h2; subst h3
          exact ⟨hid, m, hmem _ harr, rfl, rfl⟩
        · rcases List.mem_append.mp h with h | h
          · have := ht _ h; simp [Ev.foreign] at this
          · obtain ⟨a, m', b, c, d⟩ := inv.own j i v h
            exact ⟨a, m', hmem _ b, c, d⟩
    · intro j hj hrj _
      have hrj' : ranCount j (Ev.free (.resp k) :: Ev.ran k m.id (view m) :: (tail ++ s.log)) = 0 := hrj
      rw [(hc j).1] at hrj'
      have hjk : j ≠ k := by
        intro h; subst h; simp at hrj'
      simp only [hjk, if_false, Nat.zero_add] at hrj'
      exact inv.reg j hj hrj' (by intro m' h; rw [hp] at h; injection h with h; injection h with h1 _; exact hjk h1.symm)
    · intro i j he
      have he' : Ev.sent i j ∈ Ev.free (.resp k) :: Ev.ran k m.id (view m) :: (tail ++ s.log) := he
      rcases List.mem_cons.mp he' with h | h
      · cases h
      · rcases List.mem_cons.mp h with h | h
        · cases h
        · rcases List.mem_append.mp h with h | h
          · have := ht _ h; simp [Ev.foreign] at this
          · exact inv.wire i j h

/-! ### the REQUEST side never touches the caller side -/

theorem doneEvents_foreign (r id p : Nat) : ∀ e ∈ doneEvents r id p, e.foreign = true := by
  intro e he
  unfold doneEvents at he
  rcases List.mem_append.mp he with h | h
  · rw [List.mem_replicate] at h; rw [h.2]; rfl
  · rw [List.mem_replicate] at h; rw [h.2]; rfl

/-- what a REQUEST-side step may do as far as the caller side is concerned -/
structure SameCalls (s s' : Chan) : Prop where
  log : ∃ evs, s'.log = evs ++ s.log ∧ ∀ e ∈ evs, e.foreign = true
  counter : s'.counter = s.counter
  outstanding : s'.outstanding = s.outstanding
  stage : s'.stage = s.stage
  idOf : s'.idOf = s.idOf
  pending : s'.pending = s.pending
  nextCall : s'.nextCall = s.nextCall

theorem SameCalls.refl (s : Chan) : SameCalls s s := ⟨⟨[], rfl, by simp⟩, rfl, rfl, rfl, rfl, rfl, rfl⟩

theorem SameCalls.trans {a b c : Chan} (h1 : SameCalls a b) (h2 : SameCalls b c) : SameCalls a c := by
  obtain ⟨e1, l1, f1⟩ := h1.log
  obtain ⟨e2, l2, f2⟩ := h2.log
  refine ⟨⟨e2 ++ e1, by rw [l2, l1, List.append_assoc], ?_⟩, ?_, ?_, ?_, ?_, ?_, ?_⟩
  · intro e he
    rcases List.mem_append.mp he with h | h
    · exact f2 e h
    · exact f1 e h
  · rw [h2.counter, h1.counter]
  · rw [h2.outstanding, h1.outstanding]
  · rw [h2.stage, h1.stage]
  · rw [h2.idOf, h1.idOf]
  · rw [h2.pending, h1.pending]
  · rw [h2.nextCall, h1.nextCall]

theorem CallInv.same {s s' : Chan} (inv : CallInv s) (h : SameCalls s s') : CallInv s' := by
  obtain ⟨evs, hl, hf⟩ := h.log
  exact inv.foreign_step evs hl hf h.counter h.outstanding h.stage h.idOf h.pending h.nextCall

theorem SameCalls.dispatchOnce (s : Chan) (r id p : Nat) (meth : Meth) : SameCalls s (dispatchOnce s r id p meth) := by
  cases meth
  · refine ⟨⟨doneEvents r id p ++ [.dispatch r p], by simp [MuduoVerif.Rpc.dispatchOnce], ?_⟩, rfl, rfl, rfl, rfl, rfl, rfl⟩
    intro e he
    rcases List.mem_append.mp he with h | h
    · exact doneEvents_foreign r id p e h
    · simp at h; rw [h]; rfl
  · exact ⟨⟨[.dispatch r p], rfl, by simp [Ev.foreign]⟩, rfl, rfl, rfl, rfl, rfl, rfl⟩

theorem SameCalls.dispatchN (r id p : Nat) (meth : Meth) : ∀ (n : Nat) (s : Chan), SameCalls s (dispatchN s r id p meth n)
  | 0, s => SameCalls.refl s
  | n + 1, s => (SameCalls.dispatchOnce s r id p meth).trans (SameCalls.dispatchN r id p meth n _)

theorem SameCalls.recvRequest (s : Chan) (m : Msg) : SameCalls s (recvRequest s m) := by
  unfold MuduoVerif.Rpc.recvRequest
  simp only []
  refine SameCalls.trans (b := { s with nextReq := s.nextReq + 1, reqs := setAt s.reqs s.nextReq (some m), log := .arrived m :: s.log }) ?_ ?_
  · exact ⟨⟨[.arrived m], rfl, by simp [Ev.foreign]⟩, rfl, rfl, rfl, rfl, rfl, rfl⟩
  · refine SameCalls.trans (SameCalls.dispatchN s.nextReq m.id (m.request.parse.getD 0) (m.meth.getD .sync)
      (requestDecision s.hasServices m.serviceFound m.meth.isSome m.request.parse.isSome).1 _) ?_
    refine ⟨⟨errorReplies _ _ _, rfl, ?_⟩, rfl, rfl, rfl, rfl, rfl, rfl⟩
    intro e he
    unfold errorReplies at he
    rw [List.mem_reverse, List.mem_map] at he
    obtain ⟨x, _, hx⟩ := he
    rw [← hx]; rfl

theorem SameCalls.fireDone (s : Chan) (r : Nat) : SameCalls s (fireDone s r) := by
  unfold MuduoVerif.Rpc.fireDone
  split
  · exact ⟨⟨_, rfl, doneEvents_foreign _ _ _⟩, rfl, rfl, rfl, rfl, rfl, rfl⟩
  · split
    · exact ⟨⟨[.uaf (.closure r)], rfl, by simp [Ev.foreign]⟩, rfl, rfl, rfl, rfl, rfl, rfl⟩
    · exact SameCalls.refl s

theorem CallInv.recv {s : Chan} (inv : CallInv s) (m : Msg) : CallInv (recv s m) := by
  unfold MuduoVerif.Rpc.recv
  split
  · exact inv
  next hp =>
    have hp' : s.pending = none := by
      cases h : s.pending with
      | none => rfl
      | some x => simp [h] at hp
    split
    · exact inv.recvResponse m hp'
    · exact inv.same (SameCalls.recvRequest s m)
    · exact inv.foreign_step [.arrived m] rfl (by simp [Ev.foreign]) rfl rfl rfl rfl rfl rfl
    · exact inv.foreign_step [.arrived m] rfl (by simp [Ev.foreign]) rfl rfl rfl rfl rfl rfl

theorem CallInv.step {s : Chan} (inv : CallInv s) (a : Act) : CallInv (step s a) := by
  unfold MuduoVerif.Rpc.step
  split
  · exact inv
  · cases a with
    | callBegin => exact inv.callBegin
    | callInsert k => exact inv.callInsert k
    | callSend k => exact inv.callSend k
    | recv m => exact inv.recv m
    | finish => exact inv.finish
    | fireDone r => exact inv.same (SameCalls.fireDone s r)

theorem CallInv.foldl (acts : List Act) : ∀ {s : Chan}, CallInv s → CallInv (acts.foldl MuduoVerif.Rpc.step s) := by
  induction acts with
  | nil => intro s h; exact h
  | cons a rest ih => intro s h; exact ih (h.step a)

theorem CallInv.run (asserts hs : Bool) (acts : List Act) : CallInv (run asserts hs acts) :=
  CallInv.foldl acts (CallInv.init asserts hs)

end MuduoVerif.Rpc
