import MuduoVerif.Proofs.OwnerMap
namespace MuduoVerif.Owner
open MuduoVerif.Gen.Owner
open MuduoVerif.Gen.Conn (StateE forceCloseAccepts shutdownAccepts forceCloseInLoopActs destroyedWhileConnected)

theorem cinv_handleClose (s : Srv) (hm : MapOK s) (l c : Nat) (hcn : c < s.n)
    (hcore : CCore s c (s.inMap c) s.alive)
    (hl : l = (s.conn c).loop) (hup : isUp (s.conn c).st = true) (hal : (s.conn c).alive = true) :
    CInv (handleClose s l c) c := by
  have hrow := hcore.row
  unfold RowP at hrow
  have hr : ioQ s c = (if s.alive then [] else [.des c]) ∧ remN s c = 0 ∧ (s.conn c).registered = true ∧ s.inMap c = s.alive ∧
      (s.alive = false → (s.conn c).loop ≠ 0) := by
    rcases hrow with r|r|r|r|r|r|r|r|r <;> grind [isUp]
  obtain ⟨hio, hrem, hreg, him, hdead0⟩ := hr
  obtain ⟨a, ha, hb, hcb, hd, hdead, her⟩ := hcore.life
  have hcbup : a.cb = .up := by rw [hcb]; cases hs : (s.conn c).st <;> simp_all [clsOf, isUp]
  have hne : (s.conn c).st ≠ .kConnecting := by intro h; simp [h, isUp] at hup
  by_cases hl0 : (s.conn c).loop = 0
  · -- the base loop serves the connection: `removeConnectionInLoop` runs inside the close callback
    have hsa : s.alive = true := by
      cases h : s.alive with
      | true => rfl
      | false => exact absurd hl0 (hdead0 h)
    have him1 : s.inMap c = true := by rw [him, hsa]
    have hk := erase_count s hm c him1
    have hrun : handleClose s l c =
        (({ ((s.setConn c { s.conn c with st := .kDisconnected, cause := true }).emit c .down l).emit c .closeCb l with
              map := mapErase s.map (s.conn c).name }.emit c .erase l).enq 0 (.des c)) := by
      simp [handleClose, hup, removeConnection_nf, hl, hl0, removeInLoop, hsa, handDestroy_rem, hk]
    rw [hrun]
    have him' : (mapErase s.map (s.conn c).name).any (·.2 == c) = false := by
      rw [inMap_erase s hm c c hcn hcn]; simp
    rw [hsa] at hio
    refine ⟨⟨?_, ?_, ?_, ?_, ?_, ?_, ?_⟩, ?_, ?_⟩
    · simpa using hcore.loop_le
    · intro l'
      have := hcore.stray l'
      simp only [enq_conn, emit_conn, setConn_conn_self, enq_q, emit_q, setConn_q, hl0]
      rw [hl0] at this
      refine ⟨fun h => ?_, fun h => ?_⟩
      · simp only [h, if_false]; exact this.1 h
      · simp only [h, if_false]; exact this.2 h
    · unfold RowP ioQ remN Srv.inMap
      unfold ioQ at hio; unfold remN at hrem
      rw [hl0] at hio
      simp [hl0, him', List.filter_append, hio, isIo, List.count_append, hrem, hreg]
    · simp
    · simpa using hcore.fd
    · simpa using hcore.name
    · refine ⟨{ a with cb := .down, erased := true }, ?_, hb, ?_, ?_, ?_, ?_⟩
      · simp only [enq_trace, emit_trace, setConn_trace, life_snoc, lifeStep, ha, if_true, Option.bind_some]
        have h2 : a.erased = false := by rw [her hsa, him1]; rfl
        simp [autoStep, hcbup, h2, hdead, hal]
      · simp [clsOf]
      · simp [hd, hreg]
      · simpa using hdead
      · intro _; simp [Srv.inMap, him']
    · have : ((({ ((s.setConn c { s.conn c with st := .kDisconnected, cause := true }).emit c .down l).emit c .closeCb l with
              map := mapErase s.map (s.conn c).name }.emit c .erase l).enq 0 (.des c))).inQueues c = true :=
        inQueues_of_mem (l := 0) (t := .des c) (by simp) (by simp [Task.holds]) (by simp)
      unfold Srv.held
      rw [this]
      simp [hal]
    · simp
  · -- an io loop serves it: `removeConnectionInLoop` is handed to the base loop
    have hrun : handleClose s l c =
        (((s.setConn c { s.conn c with st := .kDisconnected, cause := true }).emit c .down l).emit c .closeCb l).enq 0 (.rem c) := by
      simp [handleClose, hup, removeConnection_nf, hl, hl0]
    rw [hrun]
    refine ⟨⟨?_, ?_, ?_, ?_, ?_, ?_, ?_⟩, ?_, ?_⟩
    · simpa using hcore.loop_le
    · intro l'
      have := hcore.stray l'
      simp only [enq_conn, emit_conn, setConn_conn_self, enq_q, emit_q, setConn_q]
      refine ⟨fun h => ?_, fun h => ?_⟩
      · split <;> simpa using this.1 h
      · simp only [h, if_false]; exact this.2 h
    · unfold RowP ioQ remN
      unfold ioQ at hio; unfold remN at hrem
      simp only [enq_conn, emit_conn, setConn_conn_self, enq_q, emit_q, setConn_q, hl0, if_false, if_true, List.count_append, hrem,
        enq_alive, emit_alive, setConn_alive, inMap_enq, inMap_emit, inMap_setConn, him, hio, hreg]
      cases hsa : s.alive <;> simp_all
    · simp
    · simpa using hcore.fd
    · simpa using hcore.name
    · refine ⟨{ a with cb := .down }, ?_, hb, ?_, ?_, ?_, ?_⟩
      · simp only [enq_trace, emit_trace, setConn_trace, life_snoc, lifeStep, ha, if_true, Option.bind_some]
        simp [autoStep, hcbup, hdead, hal]
      · simp [clsOf]
      · simp [hd, hreg]
      · simpa using hdead
      · simpa using her
    · have : ((((s.setConn c { s.conn c with st := .kDisconnected, cause := true }).emit c .down l).emit c .closeCb l).enq 0 (.rem c)).inQueues c = true :=
        inQueues_of_mem (l := 0) (t := .rem c) (by simp) (by simp [Task.holds]) (by simp)
      unfold Srv.held
      rw [this]
      simp [hal]
    · simp


theorem mem_pop_ne {s : Srv} {l : Nat} {t : Task} {rest : List Task} (hq : s.q l = t :: rest) {u : Task} (hu : u ≠ t) (l' : Nat) :
    u ∈ (pop s l t rest).q l' ↔ u ∈ s.q l' := by
  rw [pop_q]; split
  · rename_i h; subst h; rw [hq]; simp [hu]
  · rfl

/-- popping a functor of `c` that is neither `est`, `des` nor `rem` leaves the configuration of `c` as it is -/
theorem ccore_pop_light (s : Srv) (l c : Nat) (t : Task) (rest : List Task) (hq : s.q l = t :: rest)
    (ht : t = .fcl c ∨ t = .shut c) (hc : CInv s c) :
    CCore (pop s l t rest) c (s.inMap c) s.alive ∧ (s.conn c).alive = (pop s l t rest).held c := by
  have hne1 : Task.est c ≠ t := by rcases ht with h | h <;> simp [h]
  have hne2 : Task.des c ≠ t := by rcases ht with h | h <;> simp [h]
  have hne3 : Task.rem c ≠ t := by rcases ht with h | h <;> simp [h]
  have hsub : ∀ l' u, u ∈ (pop s l t rest).q l' → u ∈ s.q l' := fun _ _ m => mem_pop hq m
  refine ⟨⟨?_, ?_, ?_, ?_, ?_, ?_, ?_⟩, ?_⟩
  · simpa using hc.core.loop_le
  · exact stray_sub (by simp) hsub hc.core.stray
  · have hio : ioQ (pop s l t rest) c = ioQ s c := by
      unfold ioQ; simp only [pop_conn, pop_q]; split
      · rename_i h; rw [h, hq]
        have : isIo c t = false := by rcases ht with h | h <;> simp [h, isIo]
        simp [List.filter, this]
      · rfl
    have hrm : remN (pop s l t rest) c = remN s c := remN_pop_ne s l c t rest hq hne3.symm
    have := hc.core.row
    unfold RowP at this ⊢
    rw [hio, hrm]; exact this
  · intro h; exact hc.core.fcl_up (hsub _ _ h)
  · simpa using hc.core.fd
  · simpa using hc.core.name
  · simpa using hc.core.life
  · have := hc.alive_held
    unfold Srv.held at this ⊢
    rw [inQueues_pop s c l t rest hq]; exact this

theorem cinv_shut (s : Srv) (l c : Nat) (rest : List Task) (hq : s.q l = .shut c :: rest) (hc : CInv s c) :
    CInv (runTask (pop s l (.shut c) rest) l (.shut c)) c := by
  obtain ⟨h1, h2⟩ := ccore_pop_light s l c _ rest hq (Or.inr rfl) hc
  refine ⟨h1, h2, ?_⟩
  simp only [runTask, pop_conn]
  rw [mem_pop_ne hq (by simp), mem_pop_ne hq (by simp)]
  exact hc.cause

theorem cinv_fcl (s : Srv) (hm : MapOK s) (l c : Nat) (hcn : c < s.n) (rest : List Task) (hq : s.q l = .fcl c :: rest) (hc : CInv s c) :
    CInv (runTask (pop s l (.fcl c) rest) l (.fcl c)) c := by
  obtain ⟨h1, h2⟩ := ccore_pop_light s l c _ rest hq (Or.inl rfl) hc
  have hl : l = (s.conn c).loop := by
    apply Decidable.byContradiction; intro h; exact ((hc.core.stray l).1 h).2.2 (hq ▸ List.mem_cons_self)
  have hne : (s.conn c).st ≠ .kConnecting := hc.core.fcl_up (by rw [← hl, hq]; exact List.mem_cons_self)
  have hmp : MapOK (pop s l (.fcl c) rest) := ⟨hm.keys, hm.nodup, hm.lt, hm.names⟩
  by_cases hact : (s.conn c).alive = true ∧ forceCloseInLoopActs (s.conn c).st
  · have hrun : runTask (pop s l (.fcl c) rest) l (.fcl c) = handleClose (pop s l (.fcl c) rest) l c := by
      simp [runTask, forceCloseInLoop, hl, hact.1, hact.2]
    rw [hrun]
    have hup : isUp (s.conn c).st = true := by
      have := hact.2; unfold forceCloseInLoopActs at this
      rcases this with h | h <;> simp [isUp, h]
    exact cinv_handleClose _ hmp l c hcn h1 hl hup hact.1
  · have hrun : runTask (pop s l (.fcl c) rest) l (.fcl c) = pop s l (.fcl c) rest := by
      simp only [runTask, forceCloseInLoop, pop_conn, hl, ne_eq, not_true_eq_false, if_false]
      rw [if_neg hact]
    rw [hrun]
    refine ⟨h1, h2, ?_⟩
    intro _
    left
    -- alive (the functor held a reference), so the state test failed
    have hheld : s.held c = true := held_of_mem (hq ▸ List.mem_cons_self) (by simp [Task.holds, MuduoVerif.Gen.Conn.forceCloseHold]) (hl ▸ hc.core.loop_le)
    have hal : (s.conn c).alive = true := hc.alive_held.trans hheld
    have hna : ¬ forceCloseInLoopActs (s.conn c).st := fun h => hact ⟨hal, h⟩
    unfold forceCloseInLoopActs at hna
    simp only [pop_conn]
    cases hs : (s.conn c).st <;> simp_all

end MuduoVerif.Owner
