import MuduoVerif.Model.Conn
/-! The stream invariant of the connection model, preserved by every transition. -/
namespace MuduoVerif.Conn
open MuduoVerif.Gen.Conn

/-- nothing lost, duplicated, reordered or interleaved between `send` and the kernel -/
def StreamInv (c : Conn) : Prop := c.discarded = false → c.wrote ++ c.outBuf = c.accepted

/-- `c'` has the same four stream fields as `c` -/
def SameStream (c c' : Conn) : Prop :=
  c'.wrote = c.wrote ∧ c'.outBuf = c.outBuf ∧ c'.accepted = c.accepted ∧ c'.discarded = c.discarded

theorem StreamInv.of_same {c c' : Conn} (h : SameStream c c') (hi : StreamInv c) : StreamInv c' := by
  unfold StreamInv at *; obtain ⟨h1, h2, h3, h4⟩ := h; rw [h1, h2, h3, h4]; exact hi

theorem same_refl (c : Conn) : SameStream c c := ⟨rfl, rfl, rfl, rfl⟩
theorem same_trans {a b c : Conn} (h1 : SameStream a b) (h2 : SameStream b c) : SameStream a c := by
  unfold SameStream at *; obtain ⟨a1,a2,a3,a4⟩ := h1; obtain ⟨b1,b2,b3,b4⟩ := h2
  exact ⟨b1.trans a1, b2.trans a2, b3.trans a3, b4.trans a4⟩

theorem emit_same (c : Conn) (e : Ev) : SameStream c (emit c e) := by simp [SameStream, emit]
theorem setEvents_same (c : Conn) (r w : Bool) : SameStream c (setEvents c r w) := by
  simp [SameStream, setEvents]
theorem enqueue_same (c : Conn) (t : Task) : SameStream c (enqueue c t) := by simp [SameStream, enqueue]
theorem popWrite_sameS (c : Conn) : SameStream c (popWrite c) := by
  unfold popWrite; split <;> simp [SameStream]
theorem popRead_sameS (c : Conn) : SameStream c (popRead c) := by
  unfold popRead; split <;> simp [SameStream]
theorem shutdownInLoop_same (c : Conn) : SameStream c (shutdownInLoop c) := by
  unfold shutdownInLoop; split <;> simp [SameStream, emit]

theorem queueRemainder_stream (c : Conn) (data : Bytes) (n : Nat) (fault : Bool)
    (h : c.discarded = false → c.wrote ++ c.outBuf ++ data.drop n = c.accepted)
    (hz : fault = false → data.length - n = 0 → c.discarded = false → c.wrote ++ c.outBuf = c.accepted) :
    StreamInv (queueRemainder c data n fault) := by
  unfold queueRemainder
  split
  · -- queue the rest
    simp only
    have key : ∀ c1 : Conn, SameStream c c1 →
        StreamInv (if sendEnablesWriting ({ c1 with outBuf := c1.outBuf ++ data.drop n } : Conn).ch.evWrite
          then enableWriting { c1 with outBuf := c1.outBuf ++ data.drop n }
          else { c1 with outBuf := c1.outBuf ++ data.drop n }) := by
      intro c1 hs
      obtain ⟨s1, s2, s3, s4⟩ := hs
      have base : StreamInv ({ c1 with outBuf := c1.outBuf ++ data.drop n } : Conn) := by
        unfold StreamInv; simp only [s1, s2, s3, s4]
        intro hd; rw [← List.append_assoc]; exact h hd
      split
      · exact StreamInv.of_same (setEvents_same _ _ _) base
      · exact base
    split
    · exact key _ (enqueue_same _ _)
    · exact key _ (same_refl _)
  · rename_i hq
    split
    · unfold StreamInv; simp
    · rename_i hf
      unfold StreamInv
      intro hd
      have hf' : fault = false := by simpa using hf
      have hz' : data.length - n = 0 := by
        simp [queueRest, hf'] at hq; exact hq
      exact hz hf' hz' hd

theorem sendDirect_stream (c : Conn) (data : Bytes) (r : WriteRes)
    (h : c.discarded = false → c.wrote ++ c.outBuf ++ data = c.accepted) (ho : c.outBuf = []) :
    StreamInv (sendDirect c data r) := by
  cases r with
  | took n =>
    simp only [sendDirect]
    have key : ∀ c2 : Conn, SameStream ({ c with wrote := c.wrote ++ data.take n } : Conn) c2 →
        StreamInv (queueRemainder c2 data n false) := by
      intro c2 hs
      obtain ⟨s1, s2, s3, s4⟩ := hs
      apply queueRemainder_stream
      · rw [s1, s2, s3, s4]; simp only
        intro hd
        have := h hd
        rw [ho] at this ⊢
        simpa [List.append_assoc] using this
      · rw [s1, s2, s3, s4]; simp only
        intro _ hz hd
        have := h hd
        rw [ho] at this ⊢
        have ht : data.take n = data := List.take_of_length_le (by omega)
        simpa [ht] using this
    split
    · exact key _ (enqueue_same _ _)
    · exact key _ (same_refl _)
  | err e =>
    simp only [sendDirect]
    apply queueRemainder_stream
    · simpa using h
    · intro _ hz hd
      have := h hd
      have : data = [] := List.eq_nil_of_length_eq_zero (by omega)
      subst this; simpa using h hd

theorem accept_emit_same_shape (c : Conn) (data : Bytes) (q : Bool) (e : Ev) :
    let c' := emit (popWrite (accept c data q)) e
    c'.wrote = c.wrote ∧ c'.outBuf = c.outBuf ∧ c'.accepted = c.accepted ++ data ∧ c'.discarded = c.discarded := by
  simp only [emit]
  unfold popWrite accept
  split <;> simp

theorem sendInLoop_stream (c : Conn) (data : Bytes) (q : Bool) (h : StreamInv c) : StreamInv (sendInLoop c data q) := by
  unfold sendInLoop
  split
  · exact StreamInv.of_same (emit_same _ _) h
  · split
    · rename_i hd
      obtain ⟨s1, s2, s3, s4⟩ := accept_emit_same_shape c data q (.sysWrite data.length (peekWrite c))
      have ho : c.outBuf = [] := by
        simp only [directWrite] at hd; exact List.eq_nil_of_length_eq_zero hd.2
      apply sendDirect_stream
      · rw [s1, s2, s3, s4]; intro hdd; rw [h hdd]
      · rw [s2]; exact ho
    · apply queueRemainder_stream
      · simp only [accept, List.drop_zero]; intro hd; rw [h hd]
      · simp only [accept]
        intro _ hz hd
        have : data = [] := List.eq_nil_of_length_eq_zero (by omega)
        subst this; simpa using h hd

theorem handOff_same (c : Conn) (f : Bool) (d : Dispatch) (t : Task) (g : Conn → Conn)
    (hg : ∀ c, SameStream c (g c)) : SameStream c (handOff c f d t g) := by
  unfold handOff; split
  · exact enqueue_same _ _
  · exact hg _

theorem afterDrain_same (c : Conn) : SameStream c (afterDrain c) := by
  unfold afterDrain
  simp only
  have h1 := setEvents_same c c.ch.evRead false
  split
  · split
    · exact same_trans (same_trans h1 (enqueue_same _ _)) (handOff_same _ _ _ _ _ shutdownInLoop_same)
    · exact same_trans h1 (enqueue_same _ _)
  · split
    · exact same_trans h1 (handOff_same _ _ _ _ _ shutdownInLoop_same)
    · exact h1

theorem handleWriteRes_stream (c : Conn) (r : WriteRes) (h : StreamInv c) : StreamInv (handleWriteRes c r) := by
  unfold handleWriteRes
  split
  · rename_i n
    have base : StreamInv ({ c with wrote := c.wrote ++ c.outBuf.take (n+1), outBuf := c.outBuf.drop (n+1) } : Conn) := by
      unfold StreamInv; simp only
      intro hd; rw [List.append_assoc, List.take_append_drop]; exact h hd
    simp only
    split
    · exact StreamInv.of_same (afterDrain_same _) base
    · exact base
  · exact h

theorem handleWrite_stream (c : Conn) (h : StreamInv c) : StreamInv (handleWrite c) := by
  unfold handleWrite
  split
  · exact handleWriteRes_stream _ _ (StreamInv.of_same (same_trans (popWrite_sameS _) (emit_same _ _)) h)
  · exact h

theorem startReadInLoop_same (c : Conn) : SameStream c (startReadInLoop c) := by
  unfold startReadInLoop; split
  · exact same_trans (setEvents_same c true c.ch.evWrite) ⟨rfl, rfl, rfl, rfl⟩
  · exact same_refl _

theorem stopReadInLoop_same (c : Conn) : SameStream c (stopReadInLoop c) := by
  unfold stopReadInLoop; split
  · exact same_trans (setEvents_same c false c.ch.evWrite) ⟨rfl, rfl, rfl, rfl⟩
  · exact same_refl _

theorem act_stream (c : Conn) (f : Bool) (a : Act) (h : StreamInv c) : StreamInv (act c f a) := by
  cases a with
  | send d =>
    simp only [act]; split
    · split
      · exact StreamInv.of_same (same_trans (c := enqueue { c with offeredF := c.offeredF ++ [d] } (.sendInLoop d))
          (b := { c with offeredF := c.offeredF ++ [d] }) ⟨rfl, rfl, rfl, rfl⟩ (enqueue_same _ _)) h
      · exact sendInLoop_stream _ _ _ (StreamInv.of_same (c := c) ⟨rfl, rfl, rfl, rfl⟩ h)
    · exact h
  | shutdown =>
    simp only [act]; split
    · exact StreamInv.of_same (same_trans (a := c) ⟨rfl, rfl, rfl, rfl⟩ (handOff_same _ _ _ _ _ shutdownInLoop_same)) h
    · exact h
  | forceClose =>
    simp only [act]; split
    · exact StreamInv.of_same (same_trans (a := c) ⟨rfl, rfl, rfl, rfl⟩ (handOff_same _ _ _ _ _ same_refl)) h
    · exact h
  | forceCloseDelay us =>
    simp only [act]; split
    · split
      · exact StreamInv.of_same (same_trans (a := c) ⟨rfl, rfl, rfl, rfl⟩ (enqueue_same _ _)) h
      · exact StreamInv.of_same ⟨rfl, rfl, rfl, rfl⟩ h
    · exact h
  | stopRead => simp only [act]; exact StreamInv.of_same (handOff_same _ _ _ _ _ stopReadInLoop_same) h
  | startRead => simp only [act]; exact StreamInv.of_same (handOff_same _ _ _ _ _ startReadInLoop_same) h
  | setWc k => exact StreamInv.of_same (c := c) ⟨rfl, rfl, rfl, rfl⟩ h
  | setHwm k m => exact StreamInv.of_same (c := c) ⟨rfl, rfl, rfl, rfl⟩ h

theorem actLoop_stream (c : Conn) (a : Act) (h : StreamInv c) : StreamInv (actLoop c a) := act_stream c false a h
theorem actForeign_stream (c : Conn) (a : Act) (h : StreamInv c) : StreamInv (actForeign c a) := act_stream c true a h

theorem callback_stream (c : Conn) (k : Cb) (e : Ev) (h : StreamInv c) : StreamInv (callback c k e) := by
  unfold callback
  split
  · apply actLoop_stream
    exact StreamInv.of_same (same_trans (emit_same c e) ⟨rfl, rfl, rfl, rfl⟩) h
  · exact StreamInv.of_same (emit_same _ _) h

theorem handleClose_stream (c : Conn) (h : StreamInv c) : StreamInv (handleClose c) := by
  unfold handleClose
  split
  · exact StreamInv.of_same (same_trans ⟨rfl, rfl, rfl, rfl⟩ (emit_same _ _)) h
  · apply StreamInv.of_same (enqueue_same _ _)
    apply StreamInv.of_same (c := emit (callback (disableAll { c with st := .kDisconnected }) .down .down) .closeCb) ⟨rfl, rfl, rfl, rfl⟩
    apply StreamInv.of_same (emit_same _ _)
    apply callback_stream
    have hs := setEvents_same ({ c with st := StateE.kDisconnected } : Conn) false false
    exact StreamInv.of_same (same_trans (a := c) ⟨rfl, rfl, rfl, rfl⟩ hs) h

theorem handleReadRes_stream (c : Conn) (r : ReadRes) (h : StreamInv c) : StreamInv (handleReadRes c r) := by
  unfold handleReadRes
  split
  · exact handleClose_stream _ h
  · simp only
    apply StreamInv.of_same (c := callback (deliver c _) .msg _) ⟨rfl, rfl, rfl, rfl⟩
    apply callback_stream
    exact StreamInv.of_same (c := c) ⟨rfl, rfl, rfl, rfl⟩ h
  · exact h

theorem handleRead_stream (c : Conn) (h : StreamInv c) : StreamInv (handleRead c) := by
  unfold handleRead
  exact handleReadRes_stream _ _ (StreamInv.of_same (same_trans (popRead_sameS _) (emit_same _ _)) h)

theorem guarded_stream (f : Conn → Conn) (hf : ∀ c, StreamInv c → StreamInv (f c)) (rev : Prop) [Decidable rev]
    (sub : Bool → Bool → Bool → Prop) [∀ a b c, Decidable (sub a b c)]
    (c : Conn) (h : StreamInv c) : StreamInv (guarded f rev sub c) := by
  unfold guarded; split; exact hf _ h; exact h

theorem handleEvent_stream (c : Conn) (r : Nat) (h : StreamInv c) : StreamInv (handleEvent c r) := by
  unfold handleEvent
  split
  · exact h
  · exact guarded_stream _ handleWrite_stream _ _ _
      (guarded_stream _ handleRead_stream _ _ _ (guarded_stream _ handleClose_stream _ _ _ h))

theorem removeChannel_stream (c : Conn) (h : StreamInv c) : StreamInv (removeChannel c) := by
  unfold removeChannel; split
  · exact StreamInv.of_same (same_trans ⟨rfl, rfl, rfl, rfl⟩ (emit_same _ _)) h
  · exact StreamInv.of_same ⟨rfl, rfl, rfl, rfl⟩ h

theorem connectDestroyed_stream (c : Conn) (h : StreamInv c) : StreamInv (connectDestroyed c) := by
  unfold connectDestroyed; split
  · apply removeChannel_stream; apply callback_stream
    have hs := setEvents_same ({ c with st := StateE.kDisconnected } : Conn) false false
    exact StreamInv.of_same (same_trans (a := c) ⟨rfl, rfl, rfl, rfl⟩ hs) h
  · exact removeChannel_stream _ h

theorem connectEstablished_stream (c : Conn) (h : StreamInv c) : StreamInv (connectEstablished c) := by
  unfold connectEstablished; split
  · exact StreamInv.of_same (same_trans ⟨rfl, rfl, rfl, rfl⟩ (emit_same _ _)) h
  · apply callback_stream
    have hs := setEvents_same ({ c with st := StateE.kConnected } : Conn) true c.ch.evWrite
    exact StreamInv.of_same (same_trans (a := c) ⟨rfl, rfl, rfl, rfl⟩ hs) h

theorem fireDelay_stream (c : Conn) (h : StreamInv c) : StreamInv (fireDelay c) := by
  unfold fireDelay; split; exact actLoop_stream _ _ h; exact h

theorem runTask_stream (c : Conn) (t : Task) (h : StreamInv c) : StreamInv (runTask c t) := by
  unfold runTask
  split
  · split
    · exact StreamInv.of_same ⟨rfl, rfl, rfl, rfl⟩ h
    · split
      · exact h
      · exact StreamInv.of_same (same_trans ⟨rfl, rfl, rfl, rfl⟩ (emit_same _ _)) h
  · cases t with
    | sendInLoop d => exact sendInLoop_stream _ _ _ h
    | shutdownInLoop => exact StreamInv.of_same (shutdownInLoop_same _) h
    | drainShutdownInLoop => exact StreamInv.of_same (shutdownInLoop_same _) h
    | forceCloseInLoop => simp only; split; exact handleClose_stream _ h; exact h
    | connectDestroyed => exact connectDestroyed_stream _ h
    | writeComplete => exact callback_stream _ _ _ h
    | highWater n => exact callback_stream _ _ _ h
    | startReadInLoop => exact StreamInv.of_same (startReadInLoop_same _) h
    | stopReadInLoop => exact StreamInv.of_same (stopReadInLoop_same _) h
    | addDelayTimer d => exact StreamInv.of_same ⟨rfl, rfl, rfl, rfl⟩ h

theorem maybeDestroy_stream (c : Conn) (h : StreamInv c) : StreamInv (maybeDestroy c) := by
  unfold maybeDestroy
  split
  · split
    · exact StreamInv.of_same (same_trans ⟨rfl, rfl, rfl, rfl⟩ (emit_same _ _)) h
    · split
      · exact StreamInv.of_same (same_trans ⟨rfl, rfl, rfl, rfl⟩ (emit_same _ _)) h
      · have h1 := emit_same ({ c with alive := false } : Conn) .sysClose
        have h2 := emit_same (emit ({ c with alive := false } : Conn) .sysClose) .destroyed
        exact StreamInv.of_same (same_trans (same_trans (a := c) ⟨rfl, rfl, rfl, rfl⟩ h1) h2) h
  · exact h

theorem runBatch_stream (n : Nat) (c : Conn) (h : StreamInv c) : StreamInv (runBatch n c) := by
  induction n generalizing c with
  | zero => exact h
  | succ n ih =>
    unfold runBatch; split
    · exact h
    · split
      · exact h
      · exact ih _ (runTask_stream _ _ (StreamInv.of_same ⟨rfl, rfl, rfl, rfl⟩ h))

theorem fireN_stream (n : Nat) (c : Conn) (h : StreamInv c) : StreamInv (fireN c n) := by
  induction n generalizing c with
  | zero => exact h
  | succ n ih => exact ih _ (fireDelay_stream _ h)

theorem fireTimers_stream (c : Conn) (h : StreamInv c) : StreamInv (fireTimers c) := by
  unfold fireTimers
  exact fireN_stream _ _ (StreamInv.of_same ⟨rfl, rfl, rfl, rfl⟩ h)

theorem dispatch_stream (c : Conn) (s : Src) (h : StreamInv c) : StreamInv (dispatch c s) := by
  cases s with
  | conn r => simp only [dispatch]; split; exact h; exact handleEvent_stream _ _ h
  | timer => simp only [dispatch]; split; exact h; exact fireTimers_stream _ h

theorem foldl_dispatch_stream (l : List Src) (c : Conn) (h : StreamInv c) : StreamInv (l.foldl dispatch c) := by
  induction l generalizing c with
  | nil => exact h
  | cons s rest ih => exact ih _ (dispatch_stream _ _ h)

theorem iter_stream (c : Conn) (a : List Src) (h : StreamInv c) : StreamInv (iter c a) := by
  unfold iter
  split
  · exact h
  · simp only
    have h1 : StreamInv (drainPending (a.foldl dispatch c)) := by
      unfold drainPending
      exact runBatch_stream _ _ (StreamInv.of_same ⟨rfl, rfl, rfl, rfl⟩ (foldl_dispatch_stream _ _ h))
    split
    · exact h1
    · exact maybeDestroy_stream _ h1

theorem step_stream (c : Conn) (i : Input) (h : StreamInv c) : StreamInv (step c i) := by
  cases i with
  | establish => simp only [step]; split; exact h; exact connectEstablished_stream _ h
  | act f a =>
    simp only [step]; split
    · exact h
    · split
      · exact actForeign_stream _ _ h
      · exact actLoop_stream _ _ h
  | iter a => exact iter_stream _ _ h
  | ownerDestroy =>
    simp only [step]; split
    · exact h
    · apply maybeDestroy_stream
      exact StreamInv.of_same (c := connectDestroyed c) ⟨rfl, rfl, rfl, rfl⟩ (connectDestroyed_stream _ h)
  | hook k a => exact StreamInv.of_same (c := c) ⟨rfl, rfl, rfl, rfl⟩ h
  | setMark n => exact StreamInv.of_same (c := c) ⟨rfl, rfl, rfl, rfl⟩ h
  | setRetrieve n => exact StreamInv.of_same (c := c) ⟨rfl, rfl, rfl, rfl⟩ h
  | peerWrite d => exact StreamInv.of_same (c := c) ⟨rfl, rfl, rfl, rfl⟩ h
  | envWrite r => exact StreamInv.of_same (c := c) ⟨rfl, rfl, rfl, rfl⟩ h
  | envRead r => exact StreamInv.of_same (c := c) ⟨rfl, rfl, rfl, rfl⟩ h
  | advance us => exact StreamInv.of_same (c := c) ⟨rfl, rfl, rfl, rfl⟩ h

theorem run_stream (ins : List Input) (c : Conn) (h : StreamInv c) : StreamInv (run c ins) := by
  induction ins generalizing c with
  | nil => exact h
  | cons i rest ih => exact ih _ (step_stream _ _ h)

end MuduoVerif.Conn
