import MuduoVerif.Proofs.TPoolA
/-! Invariants of the ThreadPool model, part C: worker threads, joins, the time after `stop()`. -/
namespace MuduoVerif.Monitor

def isWorkerPc : PPc → Bool
  | .wTest | .wTake | .wExec _ | .wGate _ | .wDone => true
  | _ => false

/-- where a task may be executed -/
def EvPlace (n : Nat) : PEv → Prop
  | .exec w _ => 1 ≤ w ∧ w ≤ n
  | .inl _ _ => n = 0
  | _ => True

structure PC (s : PState) : Prop where
  /-- threads `1 … n` (and only they) run `runInThread` -/
  workers : ∀ t, isWorkerPc (s.pc t) = true ↔ (1 ≤ t ∧ t ≤ s.n)
  /-- a worker leaves its loop only after it has read `running_ == false` -/
  doneOff : ∀ t, s.pc t = .wDone → s.running = false
  /-- in `threads_[i]->join()`: the flag is cleared and the workers before `i` have been joined -/
  join : ∀ u i, s.pc u = .stopJoin i → s.running = false ∧ i < s.n ∧ ∀ j, j < i → s.pc (j + 1) = .wDone
  /-- once a `stop()` on a pool with threads has returned, every worker has left its loop -/
  quiet : (∃ t, PEv.stopRet t ∈ s.log) → 0 < s.n → s.running = false ∧ ∀ w, 1 ≤ w → w ≤ s.n → s.pc w = .wDone
  /-- tasks are started by pool threads, or by the caller of `run()` when the pool has none -/
  place : ∀ e, e ∈ s.log → EvPlace s.n e

theorem pc_upd {s : PState} (h : PC s) {t : Nat} {p : PPc} (hw : isWorkerPc p = isWorkerPc (s.pc t)) (hnd : s.pc t ≠ .wDone)
    (running' : Bool) (hrun : running' = s.running ∨ running' = false)
    (hdone : p = .wDone → running' = false)
    (hjoin : ∀ i, p = .stopJoin i → running' = false ∧ i < s.n ∧ ∀ j, j < i → s.pc (j + 1) = .wDone)
    (evs : List PEv) (hplace : ∀ e, e ∈ evs → EvPlace s.n e)
    (hquiet : (∃ u, PEv.stopRet u ∈ evs) → 0 < s.n → running' = false ∧ ∀ w, 1 ≤ w → w ≤ s.n → w ≠ t → s.pc w = .wDone)
    (hquiet2 : (∃ u, PEv.stopRet u ∈ evs) → 0 < s.n → 1 ≤ t → t ≤ s.n → p = .wDone)
    (toMon' : Mon) (q' : List Task) (nacc' : Nat) (prog' : Nat → List POp) (log' : List PEv) (hlog : log' = s.log ++ evs)
    {gate' : Bool} :
    PC { toMon := toMon', n := s.n, maxq := s.maxq, running := running', q := q', nacc := nacc', pc := upd s.pc t p,
         prog := prog', log := log', kind := s.kind, gate := gate' } := by
  subst hlog
  have hoff : s.running = false → running' = false := by
    intro hr; rcases hrun with h1 | h1
    · rw [h1]; exact hr
    · exact h1
  have hkeep : ∀ w, s.pc w = .wDone → upd s.pc t p w = .wDone := by
    intro w hw'
    have : w ≠ t := by rintro rfl; exact hnd hw'
    rw [upd_other _ _ _ _ this]; exact hw'
  refine ⟨?_, ?_, ?_, ?_, ?_⟩
  · intro x
    show isWorkerPc (upd s.pc t p x) = true ↔ _
    by_cases hx : x = t
    · subst hx; rw [upd_same, hw]; exact h.workers x
    · rw [upd_other _ _ _ _ hx]; exact h.workers x
  · intro x hx
    show running' = false
    have hx' : upd s.pc t p x = .wDone := hx
    by_cases hxt : x = t
    · subst hxt; rw [upd_same] at hx'; exact hdone hx'
    · rw [upd_other _ _ _ _ hxt] at hx'; exact hoff (h.doneOff x hx')
  · intro u i hu
    have hu' : upd s.pc t p u = .stopJoin i := hu
    show running' = false ∧ i < s.n ∧ ∀ j, j < i → upd s.pc t p (j + 1) = .wDone
    by_cases hut : u = t
    · subst hut; rw [upd_same] at hu'
      obtain ⟨h1, h2, h3⟩ := hjoin i hu'
      exact ⟨h1, h2, fun j hj => hkeep _ (h3 j hj)⟩
    · rw [upd_other _ _ _ _ hut] at hu'
      obtain ⟨h1, h2, h3⟩ := h.join u i hu'
      exact ⟨hoff h1, h2, fun j hj => hkeep _ (h3 j hj)⟩
  · intro hex hn
    show running' = false ∧ ∀ w, 1 ≤ w → w ≤ s.n → upd s.pc t p w = .wDone
    obtain ⟨u, hu⟩ := hex
    have hu' : PEv.stopRet u ∈ s.log ++ evs := hu
    rw [List.mem_append] at hu'
    rcases hu' with hu' | hu'
    · obtain ⟨h1, h2⟩ := h.quiet ⟨u, hu'⟩ hn
      exact ⟨hoff h1, fun w hw1 hw2 => hkeep w (h2 w hw1 hw2)⟩
    · obtain ⟨h1, h2⟩ := hquiet ⟨u, hu'⟩ hn
      refine ⟨h1, fun w hw1 hw2 => ?_⟩
      by_cases hwt : w = t
      · subst hwt; rw [upd_same]; exact hquiet2 ⟨u, hu'⟩ hn hw1 hw2
      · exact hkeep w (h2 w hw1 hw2 hwt)
  · intro e he
    have he' : e ∈ s.log ++ evs := he
    rw [List.mem_append] at he'
    rcases he' with he' | he'
    · exact h.place e he'
    · exact hplace e he'

theorem no_stopRet {evs : List PEv} (h : ∀ e ∈ evs, ∀ u, e ≠ PEv.stopRet u) : ¬ ∃ u, PEv.stopRet u ∈ evs := by
  rintro ⟨u, hu⟩; exact h _ hu u rfl


theorem pc_step {s s' : PState} (ha : PA s) (h : PC s) (hs : PStep s s') : PC s' := by
  have nos : ∀ {evs : List PEv}, (∀ e ∈ evs, ∀ u, e ≠ PEv.stopRet u) →
      ((∃ u, PEv.stopRet u ∈ evs) → 0 < s.n → False) := fun hh hex _ => no_stopRet hh hex
  cases hs with
  | acq t ho hl hE hF => exact ⟨h.workers, h.doneOff, h.join, h.quiet, h.place⟩
  | spur t c ht => exact ⟨h.workers, h.doneOff, h.join, h.quiet, h.place⟩
  | takePark t S' hpc ho hS hq hr => exact ⟨h.workers, h.doneOff, h.join, h.quiet, h.place⟩
  | runPark t id rest S' hpc hp hn ho hS hfull hr => exact ⟨h.workers, h.doneOff, h.join, h.quiet, h.place⟩
  | test t hpc =>
    have hn : (∃ u, PEv.stopRet u ∈ ([] : List PEv)) → 0 < s.n → False := nos (by simp)
    refine pc_upd h ?_ (by rw [hpc]; intro hc; cases hc) s.running (Or.inl rfl) ?_ ?_ [] (by simp) (fun a b => (hn a b).elim)
      (fun a b => (hn a b).elim) _ _ _ _ _ (List.append_nil _).symm
    · rw [hpc]; split <;> rfl
    · intro hd; cases hr : s.running
      · rfl
      · simp [hr] at hd
    · intro i hi; split at hi <;> cases hi
  | takeNone t S' hpc ho hS hq hr =>
    have hn : (∃ u, PEv.stopRet u ∈ ([] : List PEv)) → 0 < s.n → False := nos (by simp)
    exact pc_upd h (by rw [hpc]; rfl) (by rw [hpc]; intro hc; cases hc) s.running (Or.inl rfl) (by intro hc; cases hc)
      (by intro i hc; cases hc) [] (by simp) (fun a b => (hn a b).elim) (fun a b => (hn a b).elim) _ _ _ _ _ (List.append_nil _).symm
  | takeSome t S' x q' hpc ho hS hq =>
    have hn : (∃ u, PEv.stopRet u ∈ [PEv.took t x]) → 0 < s.n → False := nos (by simp)
    exact pc_upd h (by rw [hpc]; rfl) (by rw [hpc]; intro hc; cases hc) s.running (Or.inl rfl) (by intro hc; cases hc)
      (by intro i hc; cases hc) [.took t x] (by simp [EvPlace]) (fun a b => (hn a b).elim) (fun a b => (hn a b).elim) _ _ _ _ _ rfl
  | exec t x p g hpc hp =>
    have hwk : 1 ≤ t ∧ t ≤ s.n := (h.workers t).mp (by rw [hpc]; rfl)
    have hn : (∃ u, PEv.stopRet u ∈ [PEv.exec t x]) → 0 < s.n → False := nos (by simp)
    exact pc_upd h (by rw [hpc]; rcases hp with rfl | ⟨rfl, _⟩ <;> rfl) (by rw [hpc]; intro hc; cases hc) s.running (Or.inl rfl)
      (by intro hc; rcases hp with rfl | ⟨rfl, _⟩ <;> cases hc)
      (by intro i hc; rcases hp with rfl | ⟨rfl, _⟩ <;> cases hc) [.exec t x] (by simpa [EvPlace] using hwk) (fun a b => (hn a b).elim)
      (fun a b => (hn a b).elim) _ _ _ _ _ rfl
  | pass t x hpc hg =>
    have hn : (∃ u, PEv.stopRet u ∈ [PEv.pass t x]) → 0 < s.n → False := nos (by simp)
    exact pc_upd h (by rw [hpc]; rfl) (by rw [hpc]; intro hc; cases hc) s.running (Or.inl rfl) (by intro hc; cases hc)
      (by intro i hc; cases hc) [.pass t x] (by simp [EvPlace]) (fun a b => (hn a b).elim) (fun a b => (hn a b).elim) _ _ _ _ _ rfl
  | openGate t rest hpc hp =>
    have hn : (∃ u, PEv.stopRet u ∈ [PEv.openRet t]) → 0 < s.n → False := nos (by simp)
    exact pc_upd h (by rw [hpc]) (by rw [hpc]; intro hc; cases hc) s.running (Or.inl rfl) (by intro hc; cases hc)
      (by intro i hc; cases hc) [.openRet t] (by simp [EvPlace]) (fun a b => (hn a b).elim) (fun a b => (hn a b).elim) _ _ _ _ _ rfl
  | runInline t id rest hpc hp hn0 =>
    have hn : (∃ u, PEv.stopRet u ∈ [PEv.inl t id, PEv.runRet t id]) → 0 < s.n → False := nos (by simp)
    exact pc_upd h (by rw [hpc]) (by rw [hpc]; intro hc; cases hc) s.running (Or.inl rfl) (by intro hc; cases hc)
      (by intro i hc; cases hc) [.inl t id, .runRet t id] (by simp [EvPlace, hn0]) (fun a b => (hn a b).elim) (fun a b => (hn a b).elim) _ _ _ _ _ rfl
  | runStopped t id rest S' hpc hp hn0 ho hS hr =>
    have hn : (∃ u, PEv.stopRet u ∈ [PEv.runRet t id]) → 0 < s.n → False := nos (by simp)
    exact pc_upd h (by rw [hpc]) (by rw [hpc]; intro hc; cases hc) s.running (Or.inl rfl) (by intro hc; cases hc)
      (by intro i hc; cases hc) [.runRet t id] (by simp [EvPlace]) (fun a b => (hn a b).elim) (fun a b => (hn a b).elim) _ _ _ _ _ rfl
  | runPush t id rest S' hpc hp hn0 ho hS hroom hr =>
    have hn : (∃ u, PEv.stopRet u ∈ [PEv.accept t (s.nacc, id), PEv.runRet t id]) → 0 < s.n → False := nos (by simp)
    exact pc_upd h (by rw [hpc]) (by rw [hpc]; intro hc; cases hc) s.running (Or.inl rfl) (by intro hc; cases hc)
      (by intro i hc; cases hc) [.accept t (s.nacc, id), .runRet t id] (by simp [EvPlace]) (fun a b => (hn a b).elim) (fun a b => (hn a b).elim)
      _ _ _ _ _ rfl
  | stopFlag t rest hpc hp ho =>
    have hn : (∃ u, PEv.stopRet u ∈ [PEv.stopFlag t]) → 0 < s.n → False := nos (by simp)
    exact pc_upd h (by rw [hpc]; rfl) (by rw [hpc]; intro hc; cases hc) false (Or.inr rfl) (fun _ => rfl)
      (by intro i hc; cases hc) [.stopFlag t] (by simp [EvPlace]) (fun a b => (hn a b).elim) (fun a b => (hn a b).elim) _ _ _ _ _ rfl
  | stopNotify t hpc ho hn0 =>
    have hn : (∃ u, PEv.stopRet u ∈ ([] : List PEv)) → 0 < s.n → False := nos (by simp)
    refine pc_upd h (by rw [hpc]; rfl) (by rw [hpc]; intro hc; cases hc) s.running (Or.inl rfl) (by intro hc; cases hc)
      ?_ [] (by simp) (fun a b => (hn a b).elim) (fun a b => (hn a b).elim) _ _ _ _ _ (List.append_nil _).symm
    intro i hi
    cases hi
    exact ⟨ha.flagOff t hpc, Nat.pos_of_ne_zero hn0, fun j hj => absurd hj (Nat.not_lt_zero _)⟩
  | stopNotify0 t hpc ho hn0 =>
    exact pc_upd h (by rw [hpc]; rfl) (by rw [hpc]; intro hc; cases hc) s.running (Or.inl rfl) (by intro hc; cases hc)
      (by intro i hc; cases hc) [.stopRet t] (by simp [EvPlace]) (fun _ b => by rw [hn0] at b; cases b) (fun _ b => by rw [hn0] at b; cases b)
      _ _ _ _ _ rfl
  | joinNext t i hpc hd hi =>
    have hn : (∃ u, PEv.stopRet u ∈ ([] : List PEv)) → 0 < s.n → False := nos (by simp)
    refine pc_upd h (by rw [hpc]; rfl) (by rw [hpc]; intro hc; cases hc) s.running (Or.inl rfl) (by intro hc; cases hc)
      ?_ [] (by simp) (fun a b => (hn a b).elim) (fun a b => (hn a b).elim) _ _ _ _ _ (List.append_nil _).symm
    intro k hk
    cases hk
    obtain ⟨h1, _, h3⟩ := h.join t i hpc
    refine ⟨h1, hi, fun j hj => ?_⟩
    by_cases hji : j = i
    · subst hji; exact hd
    · exact h3 j (by omega)
  | joinLast t i hpc hd hi =>
    obtain ⟨h1, h2, h3⟩ := h.join t i hpc
    have hall : ∀ w, 1 ≤ w → w ≤ s.n → s.pc w = .wDone := by
      intro w hw1 hw2
      by_cases hwi : w = i + 1
      · subst hwi; exact hd
      · have := h3 (w - 1) (by omega)
        have e : w - 1 + 1 = w := by omega
        rw [e] at this; exact this
    refine pc_upd h (by rw [hpc]; rfl) (by rw [hpc]; intro hc; cases hc) s.running (Or.inl rfl) (by intro hc; cases hc)
      (by intro k hc; cases hc) [.stopRet t] (by simp [EvPlace]) (fun _ _ => ⟨h1, fun w a b _ => hall w a b⟩) ?_ _ _ _ _ _ rfl
    intro _ _ ht1 ht2
    have := hall t ht1 ht2
    rw [hpc] at this; cases this

end MuduoVerif.Monitor
