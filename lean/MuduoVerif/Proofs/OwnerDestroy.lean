import MuduoVerif.Proofs.OwnerAccept
namespace MuduoVerif.Owner
open MuduoVerif.Gen.Owner
open MuduoVerif.Gen.Conn (StateE forceCloseAccepts shutdownAccepts forceCloseInLoopActs destroyedWhileConnected)

/-- a connection whose map entry `~TcpServer` has reset but not yet processed: configured as if it still were in the
map of a living server -/
structure CPre (s : Srv) (c : Nat) : Prop where
  core : CCore s c true true
  alive : (s.conn c).alive = true
  cause : (s.conn c).cause = true →
    (s.conn c).st = .kDisconnected ∨ Task.fcl c ∈ s.q (s.conn c).loop ∨ Task.des c ∈ s.q (s.conn c).loop

theorem CPre.agree {s s' : Srv} {c : Nat} (hc : CPre s c) (h : Agree s s' c) : CPre s' c where
  core := hc.core.agree h.c
  alive := by rw [h.conn]; exact hc.alive
  cause := by rw [h.conn, agree_mem h.c (about_fcl c), agree_mem h.c (about_des c)]; exact hc.cause

theorem setConn_setConn (s : Srv) (c : Nat) (C1 C2 : Conn) : (s.setConn c C1).setConn c C2 = s.setConn c C2 := by
  unfold Srv.setConn
  congr 1
  funext i
  split <;> simp_all

theorem dtorOne_nf (s : Srv) (c : Nat) :
    dtorOne s c = reapOne (if (s.conn c).loop = 0 then connectDestroyed (s.setConn c { s.conn c with cause := true }) 0 c
      else (s.setConn c { s.conn c with cause := true }).enq (s.conn c).loop (.des c)) 0 c := by
  unfold dtorOne; rw [handDestroy_dtor]; simp

theorem agree_dtorOne (s : Srv) {c c' : Nat} (h : c ≠ c') : Agree s (dtorOne s c) c' := by
  rw [dtorOne_nf]
  refine Agree.trans ?_ (agree_reapOne _ 0 h)
  split
  · exact (agree_setConn s _ h).trans (agree_connectDestroyed _ 0 h)
  · exact (agree_setConn s _ h).trans (agree_enq _ _ (by simp [about, Task.conn?, h]))

theorem ext_dtorOne (s : Srv) (c : Nat) : Ext s (dtorOne s c) := by
  rw [dtorOne_nf]
  have e1 : Ext s (s.setConn c { s.conn c with cause := true }) := ext_setConn s c _ rfl rfl
  refine Ext.trans ?_ (ext_reapOne _ 0 c)
  split
  · exact e1.trans (ext_connectDestroyed _ 0 c)
  · exact e1.trans (ext_enq _ _ _)

theorem cinv_dtorOne (s : Srv) (c : Nat) (hp : CPre s c) (hsa : s.alive = false) (him : s.inMap c = false) :
    CInv (dtorOne s c) c := by
  rw [dtorOne_nf]
  apply cinv_reapOne
  have hrow := hp.core.row
  unfold RowP at hrow
  obtain ⟨a, ha, hb, hcb, hd, hdead, her⟩ := hp.core.life
  by_cases hl0 : (s.conn c).loop = 0
  · -- the base loop serves the connection: `connectDestroyed` runs inside `~TcpServer`
    rw [if_pos hl0]
    have hr : ioQ s c = [] ∧ remN s c = 0 ∧ isUp (s.conn c).st = true ∧ (s.conn c).registered = true := by
      rcases hrow with r|r|r|r|r|r|r|r|r <;> grind
    obtain ⟨hio, hrem, hup, hreg⟩ := hr
    have hdw : destroyedWhileConnected (s.conn c).st := by
      unfold destroyedWhileConnected; cases hs : (s.conn c).st <;> simp_all [isUp]
    have hrun : connectDestroyed (s.setConn c { s.conn c with cause := true }) 0 c =
        (((s.setConn c { s.conn c with st := .kDisconnected, registered := false, cause := true }).emit c .down 0).emit c .destroyed 0) := by
      simp [connectDestroyed, hl0, hreg, hdw, setConn_setConn]
    rw [hrun]
    have hcbup : a.cb = .up := by rw [hcb]; cases hs : (s.conn c).st <;> simp_all [clsOf, isUp]
    refine ⟨⟨?_, ?_, ?_, ?_, ?_, ?_, ?_⟩, ?_, ?_⟩
    · simpa using hp.core.loop_le
    · exact stray_sub (by simp) (by simp) hp.core.stray
    · unfold RowP ioQ remN
      unfold ioQ at hio; unfold remN at hrem
      simp [hio, hrem, him, hsa]
    · simp
    · simpa using hp.core.fd
    · simpa using hp.core.name
    · refine ⟨{ a with cb := .down, destroyed := true }, ?_, hb, ?_, ?_, ?_, ?_⟩
      · simp only [emit_trace, setConn_trace, life_snoc, lifeStep, ha, if_true, Option.bind_some]
        simp [autoStep, hcbup, hdead, hp.alive, hd, hreg]
      · simp [clsOf]
      · simp
      · simpa using hdead
      · intro h; simp [hsa] at h
    · intro h; simp [hp.alive] at h
    · simp
  · rw [if_neg hl0]
    have hr : (ioQ s c = [.est c] ∧ (s.conn c).st = .kConnecting ∧ (s.conn c).registered = false ∧ remN s c = 0) ∨
        (ioQ s c = [] ∧ isUp (s.conn c).st = true ∧ (s.conn c).registered = true ∧ remN s c = 0) ∨
        (ioQ s c = [] ∧ (s.conn c).st = .kDisconnected ∧ (s.conn c).registered = true ∧ remN s c = 1) := by
      rcases hrow with r|r|r|r|r|r|r|r|r <;> grind
    refine ⟨⟨?_, ?_, ?_, ?_, ?_, ?_, ?_⟩, ?_, ?_⟩
    · simpa using hp.core.loop_le
    · intro l'
      have := hp.core.stray l'
      simp only [enq_conn, setConn_conn_self, enq_q, setConn_q]
      refine ⟨fun hne => ?_, fun hne => ?_⟩
      · simp only [hne, if_false]; exact this.1 hne
      · split <;> simpa using this.2 hne
    · unfold RowP ioQ remN
      unfold ioQ remN at hr
      simp only [enq_conn, setConn_conn_self, enq_q_self, setConn_q, enq_alive, setConn_alive, inMap_enq, inMap_setConn, him, hsa,
        List.filter_append]
      rw [enq_q_other _ _ _ _ (Ne.symm hl0)]
      simp only [setConn_q]
      rcases hr with r | r | r <;> simp [r, isIo, hl0]
    · simp only [enq_conn, setConn_conn_self, enq_q_self, setConn_q, List.mem_append, List.mem_singleton, reduceCtorEq, or_false]
      exact hp.core.fcl_up
    · simpa using hp.core.fd
    · simpa using hp.core.name
    · exact ⟨a, by simpa using ha, hb, by simpa using hcb, by simpa using hd, by simpa using hdead, by intro h; simp [hsa] at h⟩
    · intro h; simp [hp.alive] at h
    · intro _; right; right; simp


/-! ### `~TcpServer`: the loop over the map -/

/-- in the middle of `~TcpServer`: the entries of `todo` have been reset but not yet been handed their `connectDestroyed` -/
structure DInv (s : Srv) (todo : List Nat) : Prop where
  alive : s.alive = false
  map : s.map = []
  pre : ∀ c ∈ todo, c < s.n ∧ CPre s c
  inv : ∀ c, c < s.n → c ∉ todo → CInv s c
  fresh : ∀ c, s.n ≤ c → (∀ l, ∀ t ∈ s.q l, about c t = false) ∧ life c s.trace = some {} ∧ s.conn c = {}
  rest : GRest s
  nodup : todo.Nodup

theorem dinv_step (s : Srv) (c : Nat) (todo : List Nat) (h : DInv s (c :: todo)) : DInv (dtorOne s c) todo := by
  have he := ext_dtorOne s c
  have hnd := List.nodup_cons.mp h.nodup
  refine ⟨he.alive.trans h.alive, ?_, ?_, ?_, ?_, h.rest.ext he, hnd.2⟩
  · have := he.map; rw [h.map] at this; exact List.sublist_nil.mp this
  · intro c' hc'
    have hne : c ≠ c' := fun heq => hnd.1 (heq ▸ hc')
    obtain ⟨h1, h2⟩ := h.pre c' (List.mem_cons_of_mem _ hc')
    exact ⟨by rw [he.n]; exact h1, h2.agree (agree_dtorOne s hne)⟩
  · intro c' hlt hnt
    rw [he.n] at hlt
    by_cases heq : c' = c
    · subst heq
      have him : s.inMap c' = false := by simp [Srv.inMap, h.map]
      exact cinv_dtorOne s c' (h.pre c' List.mem_cons_self).2 h.alive him
    · exact (h.inv c' hlt (by simp [heq, hnt])).agree (agree_dtorOne s (Ne.symm heq))
  · intro c' hge
    rw [he.n] at hge
    have hne : c ≠ c' := by
      have := (h.pre c List.mem_cons_self).1; omega
    exact agree_fresh (agree_dtorOne s hne).c (h.fresh c' hge)

theorem dinv_fold (todo : List Nat) : ∀ s, DInv s todo → GInv (todo.foldl dtorOne s) := by
  induction todo with
  | nil => intro s h; exact ⟨fun c hc => h.inv c hc (by simp), h.fresh, h.rest⟩
  | cons c todo ih => intro s h; exact ih _ (dinv_step s c todo h)

theorem nodup_map_of {α β γ : Type} (l : List α) (f : α → β) (g : α → γ) (hf : (l.map f).Nodup)
    (hfg : ∀ a ∈ l, ∀ b ∈ l, g a = g b → f a = f b) : (l.map g).Nodup := by
  induction l with
  | nil => simp
  | cons x l ih =>
    simp only [List.map_cons, List.nodup_cons] at hf ⊢
    refine ⟨?_, ih hf.2 (fun a ha b hb => hfg a (List.mem_cons_of_mem _ ha) b (List.mem_cons_of_mem _ hb))⟩
    intro hm
    obtain ⟨y, hy, hyx⟩ := List.mem_map.mp hm
    exact hf.1 (List.mem_map.mpr ⟨y, hy, hfg y (List.mem_cons_of_mem _ hy) x List.mem_cons_self hyx⟩)

/-- with the server gone and not in the map, the configuration of a connection reads the same -/
theorem ccore_unmapped {s s' : Srv} {c : Nat} (hc : CCore s c false true) (h : AgreeC s s' c) : CCore s' c false false := by
  have h1 := hc.agree h
  refine ⟨h1.loop_le, h1.stray, ?_, h1.fcl_up, h1.fd, h1.name, ?_⟩
  · have := h1.row
    unfold RowP at this ⊢
    rcases this with r|r|r|r|r|r|r|r|r <;> simp_all
  · obtain ⟨a, ha, hb, hcb, hd, hdead, _⟩ := h1.life
    exact ⟨a, ha, hb, hcb, hd, hdead, by intro h; cases h⟩

theorem insertKey_perm (e : Nat × Nat) (l : List (Nat × Nat)) : (insertKey e l).Perm (e :: l) := by
  induction l with
  | nil => exact List.Perm.refl _
  | cons x xs ih =>
    simp only [insertKey]; split
    · exact List.Perm.refl _
    · exact (List.Perm.cons x ih).trans (List.Perm.swap e x xs)

theorem mapOrder_perm (m : List (Nat × Nat)) : (mapOrder m).Perm m := by
  induction m with
  | nil => exact List.Perm.refl _
  | cons e m ih => exact (insertKey_perm e _).trans (List.Perm.cons e ih)

theorem ginv_destroyServer (s : Srv) (h : GInv s) : GInv (destroyServer s) := by
  unfold destroyServer
  by_cases ha : s.alive = true
  swap
  · have : s.alive = false := by simpa using ha
    simp only [this, Bool.not_false, if_true]; exact h
  simp only [ha, Bool.not_true, Bool.false_eq_true, if_false]
  apply dinv_fold
  have hperm : (mapOrder s.map).Perm s.map := mapOrder_perm _
  have hmem : ∀ c, c ∈ (mapOrder s.map).map (·.2) ↔ s.inMap c = true := by
    intro c
    rw [inMap_iff, List.mem_map]
    constructor
    · rintro ⟨e, he, hec⟩; exact ⟨e, hperm.mem_iff.mp he, hec⟩
    · rintro ⟨e, he, hec⟩; exact ⟨e, hperm.mem_iff.mpr he, hec⟩
  have hagc : ∀ c, AgreeC s { s with map := [], alive := false } c := fun c => ⟨rfl, fun _ => rfl, rfl, rfl, rfl⟩
  refine ⟨rfl, rfl, ?_, ?_, ?_, ?_, ?_⟩
  · intro c hc
    have him := (hmem c).mp hc
    have hlt : c < s.n := by
      obtain ⟨e, he, hec⟩ := (inMap_iff s c).mp him
      exact hec ▸ h.mapOK.lt e he
    have hci := h.conns c hlt
    refine ⟨hlt, ?_, ?_, ?_⟩
    · have := hci.core; rw [him, ha] at this; exact this.agree (hagc c)
    · show (s.conn c).alive = true
      rw [hci.alive_held]; unfold Srv.held; simp [him]
    · exact hci.cause
  · intro c hlt hnt
    have hlt' : c < s.n := hlt
    have him : s.inMap c = false := by
      cases hi : s.inMap c with
      | false => rfl
      | true => exact absurd ((hmem c).mpr hi) hnt
    have hci := h.conns c hlt'
    refine ⟨?_, ?_, hci.cause⟩
    · have := hci.core; rw [him, ha] at this
      exact ccore_unmapped this (hagc c)
    · show (s.conn c).alive = _
      rw [hci.alive_held]; unfold Srv.held Srv.inMap at *; simp [him]
      rfl
  · intro c hge; exact h.fresh c hge
  · have hr := h.rest
    refine ⟨⟨?_, ?_, ?_, hr.mapOK.names⟩, hr.nextId, hr.pool, hr.assigned, hr.aff, fun _ => rfl⟩
    · intro e he; exact absurd he (List.not_mem_nil)
    · exact List.nodup_nil
    · intro e he; exact absurd he (List.not_mem_nil)
  · have h1 : ((mapOrder s.map).map (·.2)).Nodup := by
      have h2 : (s.map.map (·.2)).Nodup := by
        apply nodup_map_of s.map (·.1) (·.2) h.mapOK.nodup
        intro a ha' b hb hab
        rw [h.mapOK.keys a ha', h.mapOK.keys b hb, hab]
      exact (hperm.map _).nodup_iff.mpr h2
    exact h1

end MuduoVerif.Owner
