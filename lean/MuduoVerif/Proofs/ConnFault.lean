import MuduoVerif.Proofs.ConnStream
import MuduoVerif.Proofs.ConnTraceIndep
/-!
What a transient fault at the socket boundary does to a connection (C11): handler by handler,
for **every** state (no reachability hypothesis), and iteration by iteration for a connection
whose loop is otherwise idle.
-/
namespace MuduoVerif.Conn.Fault
open MuduoVerif.Conn MuduoVerif.Gen.Conn MuduoVerif.Conn.TraceIndep

/-! ### handlers -/

/-- `handleWrite` whose `write` fails (any errno: the code only logs) or takes nothing: the result is
consumed and recorded, nothing else changes -/
theorem handleWrite_fault (c : Conn) (r : WriteRes) (hw : c.ch.evWrite = true) (hp : peekWrite c = r)
    (hr : (∃ e, r = .err e) ∨ r = .took 0) :
    handleWrite c = emit (popWrite c) (.sysWrite c.outBuf.length r) := by
  unfold handleWrite
  rw [if_pos (by simpa [handleWriteActs] using hw), hp]
  rcases hr with ⟨e, rfl⟩ | rfl <;> rfl

/-- without write interest `handleWrite` does nothing at all -/
theorem handleWrite_idle (c : Conn) (hw : c.ch.evWrite = false) : handleWrite c = c := by
  unfold handleWrite
  rw [if_neg (by simp [handleWriteActs, hw])]

/-- `handleRead` whose `readv` fails (any errno): the result is consumed and recorded; no callback, no
state change, the input buffer is untouched -/
theorem handleRead_fault (c : Conn) (e : Nat) (hp : peekRead c = .err e) :
    handleRead c = emit (popRead c) (.sysReadv (.err e)) := by
  unfold handleRead
  rw [hp]; rfl

theorem chanUpdate_evWrite' (be : Backend) (ch : Chan) : (chanUpdate be ch).evWrite = ch.evWrite := by
  unfold chanUpdate; split <;> (try split) <;> rfl

theorem popWrite_fields (c : Conn) :
    (popWrite c).outBuf = c.outBuf ∧ (popWrite c).ch = c.ch ∧ (popWrite c).wrote = c.wrote ∧
    (popWrite c).discarded = c.discarded ∧ (popWrite c).accepted = c.accepted ∧ (popWrite c).st = c.st ∧
    (popWrite c).trace = c.trace ∧ (popWrite c).be = c.be ∧ (popWrite c).mark = c.mark ∧ (popWrite c).hasHWM = c.hasHWM := by
  unfold popWrite; split <;> simp

/-- `sendInLoop` whose direct `write` fails with a non-fatal errno (EAGAIN, EINTR, …: anything but
EPIPE / ECONNRESET): the whole block is queued, write interest is switched on, nothing is dropped -/
theorem sendInLoop_fault (c : Conn) (data : Bytes) (q : Bool) (e : Nat)
    (hst : c.st ≠ .kDisconnected) (hw : c.ch.evWrite = false) (ho : c.outBuf = [])
    (hp : peekWrite c = .err e) (hnf : ¬ writeErrFatal e) (hd : data ≠ []) :
    let c' := sendInLoop c data q
    c'.outBuf = data ∧ c'.ch.evWrite = true ∧ c'.wrote = c.wrote ∧ c'.discarded = c.discarded ∧
    c'.accepted = c.accepted ++ data ∧ c'.st = c.st ∧
    c'.trace = c.trace ++ [.sysWrite data.length (.err e)] := by
  have hlen : 0 < data.length := List.length_pos_iff.mpr hd
  have hsg : ¬ sendGivesUp c.st := by simpa [sendGivesUp] using hst
  have hdw : directWrite c.ch.evWrite c.outBuf.length := by simp [directWrite, hw, ho]
  simp only [sendInLoop, if_neg hsg, if_pos hdw, hp, sendDirect]
  have hf : (decide (writeErrLogged e) && decide (writeErrFatal e)) = false := by simp [hnf]
  rw [hf]
  obtain ⟨p1, p2, p3, p4, p5, p6, p7, _⟩ := popWrite_fields (accept c data q)
  generalize hc1 : emit (popWrite (accept c data q)) (Ev.sysWrite data.length (WriteRes.err e)) = c1
  have q1 : c1.outBuf = [] := by rw [← hc1]; simp only [emit]; rw [p1]; simp [accept, ho]
  have q2 : c1.ch.evWrite = false := by rw [← hc1]; simp only [emit]; rw [p2]; simp [accept, hw]
  have q3 : c1.wrote = c.wrote := by rw [← hc1]; simp only [emit]; rw [p3]; simp [accept]
  have q4 : c1.discarded = c.discarded := by rw [← hc1]; simp only [emit]; rw [p4]; simp [accept]
  have q5 : c1.accepted = c.accepted ++ data := by rw [← hc1]; simp only [emit]; rw [p5]; simp [accept]
  have q6 : c1.st = c.st := by rw [← hc1]; simp only [emit]; rw [p6]; simp [accept]
  have q7 : c1.trace = c.trace ++ [.sysWrite data.length (.err e)] := by rw [← hc1]; simp only [emit]; rw [p7]; simp [accept]
  unfold queueRemainder
  have hq : queueRest false (data.length - 0) := by simp [queueRest]; omega
  rw [if_pos hq]
  simp only []
  have hen : ∀ x : Conn, x.ch.evWrite = false → sendEnablesWriting x.ch.evWrite := by
    intro x hx; simp [sendEnablesWriting, hx]
  split
  · rw [if_pos (hen _ (by simpa [enqueue] using q2))]
    simp [enableWriting, setEvents, enqueue, chanUpdate_evWrite', q1, q3, q4, q5, q6, q7]
  · rw [if_pos (hen _ (by simpa using q2))]
    simp [enableWriting, setEvents, chanUpdate_evWrite', q1, q3, q4, q5, q6, q7]

/-- `sendInLoop` whose direct `write` takes only `k` bytes of the block: exactly the rest is queued, in order, and
write interest is switched on -/
theorem sendInLoop_short (c : Conn) (data : Bytes) (q : Bool) (k : Nat)
    (hst : c.st ≠ .kDisconnected) (hw : c.ch.evWrite = false) (ho : c.outBuf = [])
    (hp : peekWrite c = .took k) (hk : k < data.length) :
    let c' := sendInLoop c data q
    c'.outBuf = data.drop k ∧ c'.ch.evWrite = true ∧ c'.wrote = c.wrote ++ data.take k ∧ c'.discarded = c.discarded ∧
    c'.accepted = c.accepted ++ data ∧ c'.st = c.st ∧
    c'.trace = c.trace ++ [.sysWrite data.length (.took k)] := by
  have hsg : ¬ sendGivesUp c.st := by simpa [sendGivesUp] using hst
  have hdw : directWrite c.ch.evWrite c.outBuf.length := by simp [directWrite, hw, ho]
  simp only [sendInLoop, if_neg hsg, if_pos hdw, hp, sendDirect]
  obtain ⟨p1, p2, p3, p4, p5, p6, p7, _⟩ := popWrite_fields (accept c data q)
  generalize hc1 : emit (popWrite (accept c data q)) (Ev.sysWrite data.length (WriteRes.took k)) = c1
  have q1 : c1.outBuf = [] := by rw [← hc1]; simp only [emit]; rw [p1]; simp [accept, ho]
  have q2 : c1.ch.evWrite = false := by rw [← hc1]; simp only [emit]; rw [p2]; simp [accept, hw]
  have q3 : c1.wrote = c.wrote := by rw [← hc1]; simp only [emit]; rw [p3]; simp [accept]
  have q4 : c1.discarded = c.discarded := by rw [← hc1]; simp only [emit]; rw [p4]; simp [accept]
  have q5 : c1.accepted = c.accepted ++ data := by rw [← hc1]; simp only [emit]; rw [p5]; simp [accept]
  have q6 : c1.st = c.st := by rw [← hc1]; simp only [emit]; rw [p6]; simp [accept]
  have q7 : c1.trace = c.trace ++ [.sysWrite data.length (.took k)] := by rw [← hc1]; simp only [emit]; rw [p7]; simp [accept]
  have hnw : ¬ sendWholeWC (data.length - k) c1.hasWC := by simp [sendWholeWC]; omega
  simp only [if_neg hnw]
  unfold queueRemainder
  have hq : queueRest false (data.length - k) := by simp [queueRest]; omega
  rw [if_pos hq]
  simp only []
  have hen : ∀ x : Conn, x.ch.evWrite = false → sendEnablesWriting x.ch.evWrite := by
    intro x hx; simp [sendEnablesWriting, hx]
  split
  · rw [if_pos (hen _ (by simpa [enqueue] using q2))]
    simp [enableWriting, setEvents, enqueue, chanUpdate_evWrite', q1, q3, q4, q5, q6, q7]
  · rw [if_pos (hen _ (by simpa using q2))]
    simp [enableWriting, setEvents, chanUpdate_evWrite', q1, q3, q4, q5, q6, q7]

/-! ### whole iterations of an otherwise idle loop -/

/-- the loop has nothing else to do for this connection: no queued functor, no unconsumed environment result,
the owner holds the connection -/
structure Quiet (c : Conn) : Prop where
  notDead : c.dead = false
  alive : c.alive = true
  owner : c.owner = true
  noPending : c.pending = []
  noBatch : c.batch = []
  noWrites : c.writes = []
  noReads : c.reads = []

theorem drainPending_quiet (c : Conn) (h1 : c.pending = []) (h2 : c.batch = []) : drainPending c = c := by
  unfold drainPending
  rw [h1, h2]
  simp only [List.append_nil, List.length_nil, runBatch]
  cases c; simp_all

theorem maybeDestroy_owned (c : Conn) (h : c.owner = true) : maybeDestroy c = c := by
  unfold maybeDestroy; simp [h]

/-- **an interrupted poll** (`EINTR`: no active channel) on an idle loop is the identity -/
theorem iter_eintr (c : Conn) (h1 : c.pending = []) (h2 : c.batch = []) (h3 : c.owner = true ∨ c.alive = false) :
    iter c [] = c := by
  unfold iter
  split
  · rfl
  · simp only [List.foldl_nil, drainPending_quiet c h1 h2]
    split
    · rfl
    · rcases h3 with h | h
      · exact maybeDestroy_owned c h
      · unfold maybeDestroy; simp [h]

/-- one loop iteration hit by a transient fault -/
inductive FaultIter
  | write (errno : Nat)   -- the socket is reported writable, `write` fails
  | read (errno : Nat)    -- the socket is reported readable, `readv` fails
  | eintr                 -- `poll`/`epoll_wait` itself is interrupted
deriving DecidableEq, Repr

def FaultIter.inputs : FaultIter → List Input
  | .write e => [.envWrite (.err e), .iter [.conn 4]]
  | .read e => [.envRead (.err e), .iter [.conn 1]]
  | .eintr => [.iter []]

/-- what the iteration records (system calls only: no callback, no abort, no close) -/
def FaultIter.evs (c : Conn) : FaultIter → List Ev
  | .write e => [.sysWrite c.outBuf.length (.err e)]
  | .read e => [.sysReadv (.err e)]
  | .eintr => []

/-- the poller reports writability / readability only to a channel that asked for it -/
def FaultIter.applicable (c : Conn) : FaultIter → Prop
  | .write _ => c.ch.evWrite = true
  | .read _ => c.ch.evRead = true
  | .eintr => True

theorem handleEvent_pollout (c : Conn) (ha : c.alive = true) (hd : c.dead = false) (hw : c.ch.evWrite = true) :
    handleEvent c 4 = handleWrite c := by
  unfold handleEvent
  rw [if_neg (by simp [ha])]
  have h1 : ¬ dispClose 4 := by decide
  have h2 : ¬ dispRead 4 := by decide
  have h3 : dispWrite 4 := by decide
  simp only [guarded, h1, h2, h3, false_and, if_false, true_and]
  rw [if_pos ⟨by simp [dispWriteSub, hw], hd⟩]

theorem handleEvent_pollin (c : Conn) (ha : c.alive = true) (hd : c.dead = false) (hr : c.ch.evRead = true) :
    handleEvent c 1 = handleRead c := by
  unfold handleEvent
  rw [if_neg (by simp [ha])]
  have h1 : ¬ dispClose 1 := by decide
  have h2 : dispRead 1 := by decide
  have h3 : ¬ dispWrite 1 := by decide
  simp only [guarded, h1, h2, h3, false_and, if_false, true_and]
  rw [if_pos ⟨by simp [dispReadSub, hr], hd⟩]

/-- one iteration on an idle loop whose only event is a failing `write` / `readv`, or whose poll is interrupted:
every field of the connection is unchanged, the trace gains the record of the failed call and nothing else -/
theorem faultIter_run (c : Conn) (hq : Quiet c) (f : FaultIter) (ha : f.applicable c) :
    run c f.inputs = { c with trace := c.trace ++ f.evs c } := by
  obtain ⟨hd, hal, hown, hp, hb, hws, hrs⟩ := hq
  cases f with
  | write e =>
    have hw : c.ch.evWrite = true := ha
    simp only [FaultIter.inputs, FaultIter.evs, run, List.foldl, step, hws, List.nil_append]
    generalize hc1 : ({ c with writes := [WriteRes.err e] } : Conn) = c1
    have e1 : c1.dead = false := by rw [← hc1]; exact hd
    have e2 : c1.alive = true := by rw [← hc1]; exact hal
    have e3 : c1.ch.evWrite = true := by rw [← hc1]; exact hw
    have e4 : peekWrite c1 = .err e := by rw [← hc1]; rfl
    have e5 : popWrite c1 = c := by rw [← hc1]; simp only [popWrite]; cases c; simp_all
    have e6 : c1.outBuf = c.outBuf := by rw [← hc1]
    unfold iter
    rw [if_neg (by simp [e1])]
    simp only [List.foldl, dispatch, if_neg (show ¬ (c1.dead = true) by simp [e1])]
    rw [handleEvent_pollout c1 e2 e1 e3, handleWrite_fault c1 _ e3 e4 (Or.inl ⟨e, rfl⟩), e5, e6]
    rw [drainPending_quiet _ (by simpa [emit] using hp) (by simpa [emit] using hb)]
    rw [if_neg (by simp [emit, hd]), maybeDestroy_owned _ (by simpa [emit] using hown)]
    cases c; simp_all [emit]
  | read e =>
    have hr : c.ch.evRead = true := ha
    simp only [FaultIter.inputs, FaultIter.evs, run, List.foldl, step, hrs, List.nil_append]
    generalize hc1 : ({ c with reads := [ReadRes.err e] } : Conn) = c1
    have e1 : c1.dead = false := by rw [← hc1]; exact hd
    have e2 : c1.alive = true := by rw [← hc1]; exact hal
    have e3 : c1.ch.evRead = true := by rw [← hc1]; exact hr
    have e4 : peekRead c1 = .err e := by rw [← hc1]; rfl
    have e5 : popRead c1 = c := by rw [← hc1]; simp only [popRead]; cases c; simp_all
    unfold iter
    rw [if_neg (by simp [e1])]
    simp only [List.foldl, dispatch, if_neg (show ¬ (c1.dead = true) by simp [e1])]
    rw [handleEvent_pollin c1 e2 e1 e3, handleRead_fault c1 e e4, e5]
    rw [drainPending_quiet _ (by simpa [emit] using hp) (by simpa [emit] using hb)]
    rw [if_neg (by simp [emit, hd]), maybeDestroy_owned _ (by simpa [emit] using hown)]
    cases c; simp_all [emit]
  | eintr =>
    simp only [FaultIter.inputs, FaultIter.evs, run, List.foldl, step, List.append_nil]
    exact iter_eintr c hp hb (Or.inl hown)

theorem quiet_trace (c : Conn) (t : List Ev) (h : Quiet c) : Quiet { c with trace := t } :=
  ⟨h.notDead, h.alive, h.owner, h.noPending, h.noBatch, h.noWrites, h.noReads⟩

theorem run_app (c : Conn) (xs ys : List Input) : run c (xs ++ ys) = run (run c xs) ys := by
  simp [run, List.foldl_append]

/-- **fault_cost**: `k` consecutive fault iterations on an idle loop cost exactly `k` iterations and change
nothing: every field of the connection (state word, both buffers, interest set, queues, ghost history) is as
before; the trace gains one record per failed system call — no callback, no close, no abort -/
theorem fault_cost (c : Conn) (hq : Quiet c) (fs : List FaultIter) (ha : ∀ f ∈ fs, f.applicable c) :
    run c (fs.flatMap FaultIter.inputs) = { c with trace := c.trace ++ fs.flatMap (FaultIter.evs c) } := by
  induction fs generalizing c with
  | nil => simp [run]
  | cons f fs ih =>
    rw [List.flatMap_cons, run_app, faultIter_run c hq f (ha f (by simp))]
    rw [ih _ (quiet_trace c _ hq)]
    · simp only [List.flatMap_cons, List.append_assoc]
      congr 2
    · intro g hg
      have := ha g (List.mem_cons_of_mem _ hg)
      cases g <;> exact this

theorem faultIter_evs_quiet (c : Conn) (f : FaultIter) :
    ∀ e ∈ f.evs c, (∃ n r, e = .sysWrite n r) ∨ (∃ r, e = .sysReadv r) := by
  intro e he
  cases f with
  | write x => simp [FaultIter.evs] at he; exact Or.inl ⟨_, _, he⟩
  | read x => simp [FaultIter.evs] at he; exact Or.inr ⟨_, he⟩
  | eintr => simp [FaultIter.evs] at he

/-- **fault-oblivious**: on an idle loop, whatever history `rest` follows `k` fault iterations, the state reached
is the state `rest` alone reaches: every field but the trace is equal, and the trace is the fault-free one with the
records of the failed system calls inserted at the point where the faults happened -/
theorem resume_after_faults (c : Conn) (hq : Quiet c) (fs : List FaultIter) (ha : ∀ f ∈ fs, f.applicable c)
    (rest : List Input) :
    ∃ s, (run c rest).trace = c.trace ++ s ∧
      run c (fs.flatMap FaultIter.inputs ++ rest) =
        setTrace (run c rest) (c.trace ++ fs.flatMap (FaultIter.evs c) ++ s) := by
  obtain ⟨s, hs, hall⟩ := run_setTrace c rest
  refine ⟨s, hs, ?_⟩
  rw [run_app, fault_cost c hq fs ha]
  exact hall (c.trace ++ fs.flatMap (FaultIter.evs c))

end MuduoVerif.Conn.Fault
