import MuduoVerif.Proofs.CalendarE
/-! One sixteenth of the 400-year cycle, checked by kernel evaluation (see CalendarCycle.lean). -/
namespace MuduoVerif.CalendarE

theorem cycleDays_15 : checkDays 136980 9132 = true := by decide +kernel

theorem cycleYears_15 : checkYears 375 25 = true := by decide +kernel

end MuduoVerif.CalendarE
