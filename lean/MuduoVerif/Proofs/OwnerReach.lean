import MuduoVerif.Proofs.OwnerDestroy
namespace MuduoVerif.Owner
open MuduoVerif.Gen.Owner
open MuduoVerif.Gen.Conn (StateE forceCloseAccepts shutdownAccepts forceCloseInLoopActs destroyedWhileConnected)

/-- the invariant does not mention which loops have exited -/
theorem ginv_exited (s : Srv) (h : GInv s) (f : Nat → Bool) : GInv { s with exited := f } := by
  have hag : ∀ c, Agree s { s with exited := f } c := fun c => ⟨rfl, fun _ => rfl, fun _ => rfl, rfl, rfl, rfl, rfl, rfl⟩
  refine ⟨fun c hc => (h.conns c hc).agree (hag c), fun c hc => agree_fresh (hag c).c (h.fresh c hc), ?_⟩
  have hr := h.rest
  exact ⟨⟨hr.mapOK.keys, hr.mapOK.nodup, hr.mapOK.lt, hr.mapOK.names⟩, hr.nextId, hr.pool, hr.assigned, hr.aff, hr.mapDead⟩

theorem ginv_pop_other (s : Srv) (h : GInv s) (l : Nat) (t : Task) (rest : List Task) (hq : s.q l = t :: rest) (ht : t.conn? = none) :
    GInv (pop s l t rest) := by
  have hag : ∀ c, Agree s (pop s l t rest) c := fun c => agree_pop s l t rest hq (by simp [about, ht])
  exact h.local (ext_pop s l t rest) 0 (fun h0 => (h.conns 0 h0).agree (hag 0)) (fun _ => (hag 0).c) (fun c _ => hag c)

/-- a loop runs the functor at the head of its queue -/
theorem ginv_runHead (s : Srv) (h : GInv s) (l : Nat) : GInv (runHead s l) := by
  cases hq : s.q l with
  | nil => rw [runHead_nil s l hq]; exact h
  | cons t rest =>
    cases ht : t.conn? with
    | some c0 => exact ginv_runHead_conn s h l t rest hq c0 ht
    | none =>
      rw [runHead_cons s l t rest hq]
      have : t = .srvDtor := by cases t <;> simp_all [Task.conn?]
      subst this
      exact ginv_destroyServer _ (ginv_pop_other s h l _ rest hq ht)


/-! ### an `EventLoop` object is destroyed with functors still queued -/

/-- no functor that still has to run for the protocol to complete is stranded in queue `l` -/
def StrandOK (s : Srv) (l : Nat) : Prop := ∀ t ∈ s.q l, ∀ c, t ≠ .est c ∧ t ≠ .des c

/-- queue `l` without its first functor (which is destroyed unrun) -/
def dropq (s : Srv) (l : Nat) (rest : List Task) : Srv := { s with q := fun i => if i = l then rest else s.q i }

theorem dropHead_cons (s : Srv) (l : Nat) (t : Task) (rest : List Task) (h : s.q l = t :: rest) :
    dropHead s l = match t.conn? with
      | some c => reapOne (dropq s l rest) l c
      | none => dropq s l rest := by
  simp only [dropHead, h]; rfl

theorem ext_dropq (s : Srv) (l : Nat) (rest : List Task) : Ext s (dropq s l rest) :=
  ⟨rfl, rfl, rfl, rfl, rfl, rfl, rfl, List.Sublist.refl _, fun _ => rfl, fun _ => rfl, rfl, rfl, [], by simp [dropq], by simp⟩

theorem agree_dropq (s : Srv) (l : Nat) (t : Task) (rest : List Task) (hq : s.q l = t :: rest) (c : Nat) (h : about c t = false) :
    Agree s (dropq s l rest) c := by
  refine ⟨rfl, fun l' => ?_, fun l' => ?_, rfl, rfl, rfl, rfl, rfl⟩
  · simp only [dropq]; split
    · rename_i h'; subst h'; simp [hq, h]
    · rfl
  · simp only [dropq]; split
    · rename_i h'; subst h'; simp [hq, not_holds_of_not_about h]
    · rfl

theorem agreeC_pop_dropq (s : Srv) (l : Nat) (t : Task) (rest : List Task) (c : Nat) : AgreeC (pop s l t rest) (dropq s l rest) c :=
  ⟨rfl, fun _ => rfl, rfl, rfl, rfl⟩

theorem held_dropq_le (s : Srv) (l : Nat) (t : Task) (rest : List Task) (hq : s.q l = t :: rest) (c : Nat)
    (h : (dropq s l rest).held c = true) : s.held c = true := by
  unfold Srv.held Srv.inQueues at h ⊢
  simp only [Bool.or_eq_true, List.any_eq_true] at h ⊢
  rcases h with (h | h) | ⟨l', hl', h⟩
  · exact Or.inl (Or.inl h)
  · exact Or.inl (Or.inr h)
  · refine Or.inr ⟨l', hl', ?_⟩
    simp only [dropq] at h
    rcases h with h | h
    · left
      split at h
      · rename_i h'; subst h'; rw [hq]
        obtain ⟨u, hu, hu2⟩ := h
        exact ⟨u, List.mem_cons_of_mem _ hu, hu2⟩
      · exact h
    · exact Or.inr h

theorem mem_dropq {s : Srv} {l : Nat} {t : Task} {rest : List Task} (hq : s.q l = t :: rest) {u : Task} {l' : Nat}
    (h : u ∈ (dropq s l rest).q l') : u ∈ s.q l' := by
  simp only [dropq] at h; split at h
  · rename_i h'; subst h'; rw [hq]; exact List.mem_cons_of_mem _ h
  · exact h

theorem ginv_dropHead (s : Srv) (h : GInv s) (hsa : s.alive = false) (l : Nat) (hok : StrandOK s l) :
    GInv (dropHead s l) ∧ StrandOK (dropHead s l) l := by
  cases hq : s.q l with
  | nil => simp only [dropHead, hq]; exact ⟨h, hok⟩
  | cons t rest =>
    rw [dropHead_cons s l t rest hq]
    have hok' : StrandOK (dropq s l rest) l := by
      intro u hu; exact hok u (mem_dropq hq hu)
    cases ht : t.conn? with
    | none =>
      refine ⟨?_, hok'⟩
      have hag : ∀ c, Agree s (dropq s l rest) c := fun c => agree_dropq s l t rest hq c (by simp [about, ht])
      exact h.local (ext_dropq s l rest) 0 (fun h0 => (h.conns 0 h0).agree (hag 0)) (fun _ => (hag 0).c) (fun c _ => hag c)
    | some c0 =>
      simp only
      refine ⟨?_, ?_⟩
      swap
      · intro u hu
        have : (reapOne (dropq s l rest) l c0).q = (dropq s l rest).q := by unfold reapOne; split <;> rfl
        rw [this] at hu; exact hok' u hu
      have hc0 : c0 < s.n := by
        apply Decidable.byContradiction; intro hge
        have := (h.fresh c0 (by omega)).1 l t (hq ▸ List.mem_cons_self)
        simp [about, ht] at this
      refine h.local ((ext_dropq s l rest).trans (ext_reapOne _ l c0)) c0 (fun _ => ?_) (fun hge => absurd hc0 (by omega)) (fun c hne => ?_)
      swap
      · exact (agree_dropq s l t rest hq c (by simp [about, ht, Ne.symm hne])).trans (agree_reapOne _ l (Ne.symm hne))
      apply cinv_reapOne
      have hc := h.conns c0 hc0
      have hnot := hok t (hq ▸ List.mem_cons_self) c0
      have hdf : (s.conn c0).alive = false → (dropq s l rest).held c0 = false := by
        intro hal
        have h1 : s.held c0 = false := by rw [← hc.alive_held]; exact hal
        cases h2 : (dropq s l rest).held c0 with
        | false => rfl
        | true => rw [held_dropq_le s l t rest hq c0 h2] at h1; cases h1
      have hrow := hc.core.row
      unfold RowP at hrow
      rw [hsa] at hrow
      have hcause : (s.conn c0).st = .kDisconnected ∨ Task.des c0 ∈ (dropq s l rest).q (s.conn c0).loop := by
        have hdes : ∀ r, ioQ s c0 = r → Task.des c0 ∈ r → Task.des c0 ∈ (dropq s l rest).q (s.conn c0).loop := by
          intro r hr hm
          have h1 : Task.des c0 ∈ s.q (s.conn c0).loop := mem_ioQ (hr ▸ hm)
          simp only [dropq]; split
          · rename_i h'; rw [h', hq] at h1
            rcases List.mem_cons.mp h1 with h2 | h2
            · exact absurd h2.symm hnot.2
            · exact h2
          · exact h1
        rcases hrow with r|r|r|r|r|r|r|r|r
        · simp_all
        · simp_all
        · simp_all
        · left; exact r.2.2.1
        · left; exact r.2.2.1
        · right; exact hdes _ r.1 (by simp)
        · right; exact hdes _ r.1 (by simp)
        · left; exact r.2.2.1
        · left; exact r.2.2.1
      have light : ∀ c1, t = .fcl c1 ∨ t = .shut c1 → c1 = c0 → CInvW (dropq s l rest) c0 := by
        -- `forceCloseInLoop` / `shutdownInLoop` functors: the configuration does not change
        intro c1 ht1 hc1
        subst hc1
        obtain ⟨h1, _⟩ := ccore_pop_light s l c1 t rest hq ht1 hc
        refine ⟨h1.agree (agreeC_pop_dropq s l _ rest c1), hdf, ?_⟩
        intro _
        rcases hcause with h2 | h2
        · exact Or.inl h2
        · exact Or.inr (Or.inr h2)
      cases t with
      | est c1 => simp only [Task.conn?, Option.some.injEq] at ht; subst ht; exact absurd rfl hnot.1
      | des c1 => simp only [Task.conn?, Option.some.injEq] at ht; subst ht; exact absurd rfl hnot.2
      | fcl c1 => simp only [Task.conn?, Option.some.injEq] at ht; exact light c1 (Or.inl rfl) ht
      | shut c1 => simp only [Task.conn?, Option.some.injEq] at ht; exact light c1 (Or.inr rfl) ht
      | srvDtor => simp [Task.conn?] at ht
      | rem c1 =>
        -- a `removeConnectionIfAlive` functor that never ran
        simp only [Task.conn?, Option.some.injEq] at ht; subst ht
        have hl : l = 0 := by
          apply Decidable.byContradiction; intro hne; exact (hc.core.stray l).2 hne (hq ▸ List.mem_cons_self)
        subst hl
        have hrn : remN s c1 = 1 + rest.count (.rem c1) := by unfold remN; rw [hq]; simp [List.count_cons]; omega
        rw [hrn] at hrow
        have h0 : (s.conn c1).loop ≠ 0 ∧ rest.count (.rem c1) = 0 := by
          rcases hrow with r|r|r|r|r|r|r|r|r <;> grind
        have hioq : (dropq s 0 rest).q (s.conn c1).loop = s.q (s.conn c1).loop := by simp [dropq, h0.1]
        refine ⟨⟨hc.core.loop_le, ?_, ?_, ?_, hc.core.fd, hc.core.name, ?_⟩, hdf, ?_⟩
        · exact stray_sub (s := s) (s' := dropq s 0 rest) rfl (fun _ _ m => mem_dropq hq m) hc.core.stray
        · unfold RowP ioQ remN
          have hc1 : (dropq s 0 rest).conn c1 = s.conn c1 := rfl
          have hq0 : (dropq s 0 rest).q 0 = rest := by simp [dropq]
          have him : (dropq s 0 rest).inMap c1 = s.inMap c1 := rfl
          have hal : (dropq s 0 rest).alive = false := hsa
          rw [hc1, hioq, hq0, him, hal, h0.2]
          unfold ioQ at hrow
          have him0 : s.inMap c1 = false := by
            have := h.rest.mapDead hsa
            simp [Srv.inMap, this]
          rw [him0] at hrow ⊢
          rcases hrow with r|r|r|r|r|r|r|r|r <;> simp_all
        · intro hm; exact hc.core.fcl_up (mem_dropq hq hm)
        · have := hc.core.life; rw [hsa] at this
          obtain ⟨a, ha, hb, hcb, hd, hdead, _⟩ := this
          exact ⟨a, ha, hb, hcb, hd, hdead, by intro h'; rw [show (dropq s 0 rest).alive = s.alive from rfl, hsa] at h'; cases h'⟩
        · intro _
          rcases hcause with h1 | h1
          · exact Or.inl h1
          · exact Or.inr (Or.inr h1)


/-! ### the configuration (`L`, `nameOf`) never changes -/

/-- same number of io loops, same naming function -/
def Same (s s' : Srv) : Prop := s'.L = s.L ∧ s'.nameOf = s.nameOf ∧ s'.drain = s.drain ∧ s'.drainRepeats = s.drainRepeats

theorem Same.refl (s : Srv) : Same s s := ⟨rfl, rfl, rfl, rfl⟩
theorem Same.trans {s s' s'' : Srv} (h1 : Same s s') (h2 : Same s' s'') : Same s s'' := ⟨h2.1.trans h1.1, h2.2.1.trans h1.2.1, h2.2.2.1.trans h1.2.2.1, h2.2.2.2.trans h1.2.2.2⟩
theorem Ext.same {s s' : Srv} (h : Ext s s') : Same s s' := ⟨h.L, h.nameOf, h.drain, h.drainRepeats⟩

theorem same_iterate (f : Srv → Srv) (hf : ∀ s, Same s (f s)) (k : Nat) (s : Srv) : Same s (iterate f k s) := by
  induction k generalizing s with
  | zero => exact Same.refl s
  | succ k ih => exact (hf s).trans (ih (f s))

theorem same_destroyServer (s : Srv) : Same s (destroyServer s) := by
  unfold destroyServer
  split
  · exact Same.refl s
  · have : ∀ (cs : List Nat) (s0 : Srv), Same s0 (cs.foldl dtorOne s0) := by
      intro cs
      induction cs with
      | nil => intro s0; exact Same.refl s0
      | cons c cs ih => intro s0; exact (ext_dtorOne s0 c).same.trans (ih _)
    exact Same.trans ⟨rfl, rfl, rfl, rfl⟩ (this _ _)

theorem same_runHead (s : Srv) (l : Nat) : Same s (runHead s l) := by
  cases hq : s.q l with
  | nil => rw [runHead_nil s l hq]; exact Same.refl s
  | cons t rest =>
    rw [runHead_cons s l t rest hq]
    by_cases ht : t = .srvDtor
    · subst ht; exact (ext_pop s l _ rest).same.trans (same_destroyServer _)
    · exact ((ext_pop s l t rest).trans (ext_runTask _ l t ht)).same

theorem same_releaseHead (s : Srv) (l : Nat) : Same s (releaseHead s l) := by
  cases hd : s.done l with
  | nil => simp only [releaseHead, hd]; exact Same.refl s
  | cons t rest =>
    rw [releaseHead_cons s l t rest hd]
    cases t.conn? with
    | none => exact (ext_undone s l rest).same
    | some c => exact ((ext_undone s l rest).trans (ext_reapOne _ l c)).same

theorem same_dropHead (s : Srv) (l : Nat) : Same s (dropHead s l) := by
  cases hq : s.q l with
  | nil => simp only [dropHead, hq]; exact Same.refl s
  | cons t rest =>
    rw [dropHead_cons s l t rest hq]
    cases t.conn? with
    | none => exact (ext_dropq s l rest).same
    | some c => exact ((ext_dropq s l rest).trans (ext_reapOne _ l c)).same

theorem same_accept (s : Srv) : Same s (accept s) := by
  unfold accept
  split
  · exact Same.refl s
  · simp only
    have h1 : ∀ s2 : Srv, Same s s2 → Same s (match mapFind s.map (s.nameOf s.nextId) with
        | some o => reapOne s2 0 o
        | none => s2) := by
      intro s2 h2
      cases mapFind s.map (s.nameOf s.nextId) with
      | none => exact h2
      | some o => exact h2.trans (ext_reapOne s2 0 o).same
    apply h1
    split
    · exact Same.trans ⟨rfl, rfl, rfl, rfl⟩ (ext_connectEstablished _ 0 _).same
    · exact Same.trans ⟨rfl, rfl, rfl, rfl⟩ (ext_enq _ _ _).same

theorem same_drainBatch (s : Srv) (l : Nat) : Same s (drainBatch s l) := by
  unfold drainBatch endBatch
  exact (same_iterate _ (fun s => same_runHead s l) _ s).trans (same_iterate _ (fun s => same_releaseHead s l) _ _)

theorem same_drainAll (l : Nat) (f : Nat) (s : Srv) : Same s (drainAll l f s) := by
  induction f generalizing s with
  | zero => exact Same.refl s
  | succ f ih =>
    simp only [drainAll]; split
    · exact same_drainBatch s l
    · exact (same_drainBatch s l).trans (ih _)

theorem same_step (s : Srv) (a : Action) : Same s (step s a) := by
  cases a <;> simp only [step]
  · exact same_accept s
  · split
    · exact Same.refl s
    · exact same_runHead s _
  · exact same_iterate _ (fun s => same_releaseHead s _) _ s
  · split
    · exact (ext_emit s _ .msg _ (by simp [AffOK])).same
    · exact Same.refl s
  · split
    · exact ((ext_handleClose s _ _ rfl).trans (ext_reapOne _ _ _)).same
    · exact Same.refl s
  · split
    · split
      · exact Same.trans ⟨rfl, rfl, rfl, rfl⟩ (ext_forceCloseInLoop _ _ _).same
      · exact ⟨rfl, rfl, rfl, rfl⟩
    · exact Same.refl s
  · split
    · split <;> exact ⟨rfl, rfl, rfl, rfl⟩
    · exact Same.refl s
  · split
    · exact ⟨rfl, rfl, rfl, rfl⟩
    · exact Same.refl s
  · split
    · exact Same.trans ⟨rfl, rfl, rfl, rfl⟩ (ext_reapOne _ _ _).same
    · exact Same.refl s
  · exact same_destroyServer s
  · split
    · exact ⟨rfl, rfl, rfl, rfl⟩
    · exact Same.refl s
  · split
    · exact Same.refl s
    · split
      · split
        · exact Same.trans ⟨rfl, rfl, rfl, rfl⟩ (same_drainAll _ _ _)
        · exact Same.trans ⟨rfl, rfl, rfl, rfl⟩ (same_drainBatch _ _)
      · exact ⟨rfl, rfl, rfl, rfl⟩
  · split
    · exact same_iterate _ (fun s => same_dropHead s _) _ s
    · exact Same.refl s

/-! ### every step keeps the invariant -/

theorem strandOK_iterate (l : Nat) (k : Nat) (s : Srv) (h : GInv s) (hsa : s.alive = false) (hok : StrandOK s l) :
    GInv (iterate (fun s => dropHead s l) k s) := by
  induction k generalizing s with
  | zero => exact h
  | succ k ih =>
    obtain ⟨h1, h2⟩ := ginv_dropHead s h hsa l hok
    have hsa' : (dropHead s l).alive = false := by
      cases hq : s.q l with
      | nil => simp only [dropHead, hq]; exact hsa
      | cons t rest =>
        rw [dropHead_cons s l t rest hq]
        cases t.conn? with
        | none => exact hsa
        | some c => exact ((ext_dropq s l rest).trans (ext_reapOne _ l c)).alive.trans hsa
    exact ih _ h1 hsa' h2

/-- `Action.loopGone l` is enabled -/
def goneReady (s : Srv) (l : Nat) : Bool := s.exited l && (s.done l).isEmpty && !s.alive

theorem ginv_drainBatch (s : Srv) (h : GInv s) (l : Nat) : GInv (drainBatch s l) :=
  ginv_endBatch _ (ginv_iterate _ (fun s hs => ginv_runHead s hs l) _ _ h) l

theorem ginv_drainAll (l : Nat) (f : Nat) (s : Srv) (h : GInv s) : GInv (drainAll l f s) := by
  induction f generalizing s with
  | zero => exact h
  | succ f ih =>
    simp only [drainAll]; split
    · exact ginv_drainBatch s h l
    · exact ih _ (ginv_drainBatch s h l)

theorem ginv_step (s : Srv) (h : GInv s) (hinj : Function.Injective s.nameOf) (a : Action)
    (hg : ∀ l, a = .loopGone l → goneReady s l = true → StrandOK s l) : GInv (step s a) := by
  cases a with
  | accept => exact ginv_accept s h hinj
  | run l =>
    simp only [step]; split
    · exact h
    · exact ginv_runHead s h l
  | endBatch l => exact ginv_endBatch s h l
  | msg c => exact ginv_msg s h c
  | close c => exact ginv_close s h c
  | forceClose c thr => exact ginv_forceClose s h c thr
  | shutdown c thr => exact ginv_shutdown s h c thr
  | hold c => exact ginv_hold s h c
  | drop c thr => exact ginv_drop s h c thr
  | destroy => exact ginv_destroyServer s h
  | postDestroy => exact ginv_postDestroy s h
  | exit l =>
    simp only [step]; split
    · exact h
    · split
      · split
        · exact ginv_drainAll l 3 _ (ginv_exited s h _)
        · exact ginv_drainBatch _ (ginv_exited s h _) l
      · exact ginv_exited s h _
  | loopGone l =>
    simp only [step]; split
    · rename_i hc
      have hsa : s.alive = false := by
        cases hs : s.alive <;> simp_all
      exact strandOK_iterate l _ s h hsa (hg l rfl hc)
    · exact h

/-- the schedule never destroys an `EventLoop` object while a `connectEstablished` / `connectDestroyed` functor is
stranded in its queue -/
def GoodSched (s : Srv) : List Action → Prop
  | [] => True
  | a :: as => (∀ l, a = .loopGone l → goneReady s l = true → StrandOK s l) ∧ GoodSched (step s a) as

/-- executable form of `GoodSched` -/
def Task.mustRun : Task → Bool
  | .est _ => true
  | .des _ => true
  | _ => false

def goodB (s : Srv) : List Action → Bool
  | [] => true
  | a :: as =>
    (match a with
     | .loopGone l => !goneReady s l || (s.q l).all (fun t => !t.mustRun)
     | _ => true) && goodB (step s a) as

theorem goodSched_of_goodB (as : List Action) : ∀ s, goodB s as = true → GoodSched s as := by
  induction as with
  | nil => intro s _; trivial
  | cons a as ih =>
    intro s h
    simp only [goodB, Bool.and_eq_true] at h
    refine ⟨?_, ih _ h.2⟩
    intro l hl hr
    subst hl
    have h1 := h.1
    simp only [hr, Bool.not_true, Bool.false_or, List.all_eq_true, Bool.not_eq_true'] at h1
    intro t ht c
    have := h1 t ht
    constructor <;> (intro heq; subst heq; simp [Task.mustRun] at this)

theorem ginv_init (L : Nat) (nameOf : Nat → Nat) : GInv (init L nameOf) := by
  refine ⟨fun c hc => absurd hc (by simp [init]), fun c _ => ⟨fun l t ht => by simp [init] at ht, rfl, rfl⟩, ?_⟩
  refine ⟨⟨fun e he => by simp [init] at he, by simp [init], fun e he => by simp [init] at he, fun c c' hc => by simp [init] at hc⟩,
    rfl, rfl, fun c hc => by simp [init] at hc, fun e he => by simp [init] at he, fun ha => by simp [init] at ha⟩

theorem ginv_run (as : List Action) : ∀ s, GInv s → Function.Injective s.nameOf → GoodSched s as → GInv (run s as) := by
  induction as with
  | nil => intro s h _ _; exact h
  | cons a as ih =>
    intro s h hinj hg
    have hn : (step s a).nameOf = s.nameOf := (same_step s a).2.1
    exact ih (step s a) (ginv_step s h hinj a hg.1) (by rw [hn]; exact hinj) hg.2

end MuduoVerif.Owner
