import MuduoVerif.Generated.ConnSkel
/-!
# T1 tie for the statement order of the connection engine (C01, C02, C03, C13)

`Gen.ConnSkel.<fn>` is the statement skeleton `vlib/gen/connskel.py` extracts from /repo's current
`TcpConnection.cc` / `Channel.cc` on every run; `Decl.<fn>` (`Model/ConnSkelDecl.lean`) is the skeleton the
corresponding definition of `Model/Conn.lean` implements.  Each `skeleton_<fn>` is closed by `decide`: it holds
exactly as long as the source performs the same significant actions, in the same order, under the same nesting
of the same (generated) guards as the model.  The guards themselves are tied by `Generated/Conn.lean`.
`Props/C01, C02, C03, C13` re-export `skeletons_agree`, so a change of statement order in one of these functions
breaks those property modules.
-/
namespace MuduoVerif.ConnSkel

theorem skeleton_sendInLoop : Gen.ConnSkel.sendInLoop = Decl.sendInLoop := by decide
theorem skeleton_shutdown : Gen.ConnSkel.shutdown = Decl.shutdown := by decide
theorem skeleton_shutdownInLoop : Gen.ConnSkel.shutdownInLoop = Decl.shutdownInLoop := by decide
theorem skeleton_forceClose : Gen.ConnSkel.forceClose = Decl.forceClose := by decide
theorem skeleton_forceCloseWithDelay : Gen.ConnSkel.forceCloseWithDelay = Decl.forceCloseWithDelay := by decide
theorem skeleton_forceCloseInLoop : Gen.ConnSkel.forceCloseInLoop = Decl.forceCloseInLoop := by decide
theorem skeleton_startReadInLoop : Gen.ConnSkel.startReadInLoop = Decl.startReadInLoop := by decide
theorem skeleton_stopReadInLoop : Gen.ConnSkel.stopReadInLoop = Decl.stopReadInLoop := by decide
theorem skeleton_connectEstablished : Gen.ConnSkel.connectEstablished = Decl.connectEstablished := by decide
theorem skeleton_connectDestroyed : Gen.ConnSkel.connectDestroyed = Decl.connectDestroyed := by decide
theorem skeleton_handleRead : Gen.ConnSkel.handleRead = Decl.handleRead := by decide
theorem skeleton_handleWrite : Gen.ConnSkel.handleWrite = Decl.handleWrite := by decide
theorem skeleton_handleClose : Gen.ConnSkel.handleClose = Decl.handleClose := by decide
theorem skeleton_handleError : Gen.ConnSkel.handleError = Decl.handleError := by decide
theorem skeleton_handleEventWithGuard : Gen.ConnSkel.handleEventWithGuard = Decl.handleEventWithGuard := by decide

/-- every extracted skeleton is the declared one -/
theorem skeletons_agree :
    Gen.ConnSkel.sendInLoop = Decl.sendInLoop ∧
    Gen.ConnSkel.shutdown = Decl.shutdown ∧
    Gen.ConnSkel.shutdownInLoop = Decl.shutdownInLoop ∧
    Gen.ConnSkel.forceClose = Decl.forceClose ∧
    Gen.ConnSkel.forceCloseWithDelay = Decl.forceCloseWithDelay ∧
    Gen.ConnSkel.forceCloseInLoop = Decl.forceCloseInLoop ∧
    Gen.ConnSkel.startReadInLoop = Decl.startReadInLoop ∧
    Gen.ConnSkel.stopReadInLoop = Decl.stopReadInLoop ∧
    Gen.ConnSkel.connectEstablished = Decl.connectEstablished ∧
    Gen.ConnSkel.connectDestroyed = Decl.connectDestroyed ∧
    Gen.ConnSkel.handleRead = Decl.handleRead ∧
    Gen.ConnSkel.handleWrite = Decl.handleWrite ∧
    Gen.ConnSkel.handleClose = Decl.handleClose ∧
    Gen.ConnSkel.handleError = Decl.handleError ∧
    Gen.ConnSkel.handleEventWithGuard = Decl.handleEventWithGuard :=
  ⟨skeleton_sendInLoop, skeleton_shutdown, skeleton_shutdownInLoop, skeleton_forceClose, skeleton_forceCloseWithDelay,
   skeleton_forceCloseInLoop, skeleton_startReadInLoop, skeleton_stopReadInLoop, skeleton_connectEstablished,
   skeleton_connectDestroyed, skeleton_handleRead, skeleton_handleWrite, skeleton_handleClose, skeleton_handleError,
   skeleton_handleEventWithGuard⟩

/-! the remaining public entry points: the hand-off of `startRead()` / `stopRead()` is unconditional, the three `send`
overloads test the state, then the thread -/
theorem skeleton_startRead : Gen.ConnSkel.startRead = Decl.startRead := by decide
theorem skeleton_stopRead : Gen.ConnSkel.stopRead = Decl.stopRead := by decide
theorem skeleton_sendPiece : Gen.ConnSkel.sendPiece = Decl.sendPiece := by decide
theorem skeleton_sendBuf : Gen.ConnSkel.sendBuf = Decl.sendBuf := by decide
theorem skeleton_sendPtr : Gen.ConnSkel.sendPtr = Decl.sendPtr := by decide
theorem skeleton_sendInLoopPiece : Gen.ConnSkel.sendInLoopPiece = Decl.sendInLoopPiece := by decide
theorem skeleton_setTcpNoDelay : Gen.ConnSkel.setTcpNoDelay = Decl.setTcpNoDelay := by decide

theorem entry_points_agree :
    Gen.ConnSkel.startRead = Decl.startRead ∧
    Gen.ConnSkel.stopRead = Decl.stopRead ∧
    Gen.ConnSkel.sendPiece = Decl.sendPiece ∧
    Gen.ConnSkel.sendBuf = Decl.sendBuf ∧
    Gen.ConnSkel.sendPtr = Decl.sendPtr ∧
    Gen.ConnSkel.sendInLoopPiece = Decl.sendInLoopPiece ∧
    Gen.ConnSkel.setTcpNoDelay = Decl.setTcpNoDelay :=
  ⟨skeleton_startRead, skeleton_stopRead, skeleton_sendPiece, skeleton_sendBuf, skeleton_sendPtr,
   skeleton_sendInLoopPiece, skeleton_setTcpNoDelay⟩

/-! the trampolines that run the weak functors (`TcpConnection.cc`'s `notify*`, `WeakCallback::operator()`) and the
default callbacks -/
theorem skeleton_notifyWriteComplete : Gen.ConnSkel.notifyWriteComplete = Decl.notifyWriteComplete := by decide
theorem skeleton_notifyHighWaterMark : Gen.ConnSkel.notifyHighWaterMark = Decl.notifyHighWaterMark := by decide
theorem skeleton_weakCallbackCall : Gen.ConnSkel.weakCallbackCall = Decl.weakCallbackCall := by decide
theorem skeleton_defaultConnectionCallback : Gen.ConnSkel.defaultConnectionCallback = Decl.defaultConnectionCallback := by decide
theorem skeleton_defaultMessageCallback : Gen.ConnSkel.defaultMessageCallback = Decl.defaultMessageCallback := by decide

/-- lock, test, call - in the three trampolines; the default callbacks do what the model assumes -/
theorem trampolines_agree :
    Gen.ConnSkel.notifyWriteComplete = Decl.notifyWriteComplete ∧
    Gen.ConnSkel.notifyHighWaterMark = Decl.notifyHighWaterMark ∧
    Gen.ConnSkel.weakCallbackCall = Decl.weakCallbackCall ∧
    Gen.ConnSkel.defaultConnectionCallback = Decl.defaultConnectionCallback ∧
    Gen.ConnSkel.defaultMessageCallback = Decl.defaultMessageCallback :=
  ⟨skeleton_notifyWriteComplete, skeleton_notifyHighWaterMark, skeleton_weakCallbackCall,
   skeleton_defaultConnectionCallback, skeleton_defaultMessageCallback⟩

end MuduoVerif.ConnSkel
