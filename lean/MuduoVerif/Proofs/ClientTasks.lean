import MuduoVerif.Proofs.ClientClose
/-! Preservation of `Mid` by the channel dispatch of a connection and by the queued functors. -/
namespace MuduoVerif.Client
open MuduoVerif.Gen.Client

def chanOff : ConnRec → ConnRec := fun r => { r with chanOn := false }
def toDisconnecting : ConnRec → ConnRec := fun r => { r with st := .disconnecting }
def detach : ConnRec → ConnRec := fun r => { r with closeCb := .detached }

macro "mid_auto3" : tactic =>
  `(tactic| (first | assumption | grind [attempting, held, nRetry_snoc_retry, nRetry_snoc_park, Task.plain, Task.holds, updRec, goDown, chanOff, toDisconnecting, detach] | skip))

/-- fields the invariant does not read -/
theorem Mid.env {c : C} {r : List Task} {ph : Bool} (hi : Mid c r ph) (e1 : List Nat) (e2 : List Nat) (e3 : List Bool)
    (e4 : List (Option Nat)) (b : Bool) (h : Nat) :
    Mid { c with envConnect := e1, envSoErr := e2, envSelf := e3, envRead := e4, starved := b, horizon := h } r ph :=
  ⟨hi.notDead, hi.a1, hi.a2, hi.a3, hi.a4, hi.a5, hi.a6, hi.a7, hi.a8, hi.a9, hi.a10, hi.a11, hi.a13, hi.a14, hi.a15, hi.a16,
   hi.s1, hi.c1, hi.c2, hi.c3, hi.c4, hi.c5, hi.c6, hi.c7, hi.c8, hi.c9, hi.c10, hi.g1, hi.g3, hi.t1⟩

theorem closeSock_conns (c : C) (k : Nat) : (closeSock c k).conns = c.conns := rfl
theorem retry_conns (c : C) (k : Nat) : (retry c k).conns = c.conns := by
  unfold retry closeSock; simp only; repeat' split
  all_goals rfl
theorem connecting_conns (c : C) (k : Nat) : (connecting c k).conns = c.conns := by
  unfold connecting die; repeat' split
  all_goals rfl
theorem popConnect_conns (c : C) : (popConnect c).2.conns = c.conns := by
  obtain ⟨e, b, h⟩ := popConnect_snd c; rw [h]
theorem connect_conns (c : C) : (connect c).conns = c.conns := by
  unfold connect
  simp only
  split
  · rw [connecting_conns, popConnect_conns]
  · rw [retry_conns, popConnect_conns]
  · rw [closeSock_conns, popConnect_conns]
theorem startInLoop_conns (c : C) : (startInLoop c).conns = c.conns := by
  unfold startInLoop die
  repeat' split
  all_goals first | rfl | exact connect_conns _

theorem handleClose_conns (c : C) (k : Nat) : (handleClose c k).conns = c.conns.map (updRec k goDown) := by
  unfold handleClose
  simp only
  split
  · rfl
  · split
    · rfl
    · split
      · rfl
      · split
        · unfold restart; rw [startInLoop_conns]; rfl
        · rfl

theorem handleRead_mid (c : C) (r : List Task) (ph : Bool) (hi : Mid c r ph) (k : Nat) (x : ConnRec)
    (hx : findIn c.conns k = some x) (hst : x.st ≠ .disconnected) (hch : x.closeCb = .client → c.chan = none) :
    Mid (handleRead c k) r ph := by
  unfold handleRead
  simp only
  rw [popRead_eq]
  have h1 := hi.env c.envConnect c.envSoErr c.envSelf (popRead c).2.envRead (popRead c).2.starved c.horizon
  split
  · exact handleClose_mid _ r ph h1 k x hx hst hch
  · exact h1

theorem dispatchConn_mid (c : C) (r : List Task) (ph : Bool) (hi : Mid c r ph) (k rev : Nat) :
    Mid (dispatchConn c k rev) r ph := by
  unfold dispatchConn
  rw [findConn_eq]
  split
  · exact hi
  · rename_i x hx
    split
    · exact hi
    · rename_i hcond
      simp only [not_or, Decidable.not_not] at hcond
      obtain ⟨hnd, hon, _, hck⟩ := hcond
      obtain ⟨hxm, hxs⟩ := findIn_some hx
      have hon' : x.chanOn = true := by simpa using hon
      have hst := hi.c3 x hxm hon'
      have hch : x.closeCb = .client → c.chan = none := by
        intro hcb
        have hcn := (hi.c6 x hxm hst hcb).2
        cases hc : c.chan with
        | none => rfl
        | some k' =>
          have := hi.a7 k' x.sock hc hcn
          rw [hxs] at this; rw [hc, ← this] at hck; exact absurd rfl hck
      by_cases hdc : MuduoVerif.Gen.Conn.dispClose rev ∧ MuduoVerif.Gen.Conn.dispCloseSub false true false
      · -- close callback ran
        simp only [hdc, and_self, if_true]
        have h1 := handleClose_mid c r ph hi k x hx hst hch
        rw [if_neg (by simp [h1.notDead])]
        have hoff : ((findConn (handleClose c k) k).map (·.chanOn)).getD false = false := by
          rw [findConn_eq, handleClose_conns, findIn_upd k k goDown (fun _ => rfl), hx]
          simp [updRec, hxs, goDown]
        rw [hoff]
        rw [if_neg (by simp [MuduoVerif.Gen.Conn.dispReadSub])]
        exact h1
      · simp only [hdc, if_false]
        rw [if_neg (by simp [hi.notDead])]
        split
        · exact handleRead_mid c r ph hi k x hx hst hch
        · exact hi

theorem phaseAt_congr' {ss : List SockSt} {cs cs' : List ConnRec} {j : Nat}
    (h2 : (findIn cs' j).map (fun r => (r.destroyed, decide (r.st = .disconnected))) =
          (findIn cs j).map (fun r => (r.destroyed, decide (r.st = .disconnected)))) :
    phaseAt ss cs' j = phaseAt ss cs j := by
  unfold phaseAt
  cases h : ss[j]? with
  | none => rfl
  | some v =>
    cases v with
    | opened => rfl
    | closed => rfl
    | handedOver =>
      simp only
      cases ha : findIn cs' j with
      | none =>
        cases hb : findIn cs j with
        | none => rfl
        | some b => rw [ha, hb] at h2; simp at h2
      | some a =>
        cases hb : findIn cs j with
        | none => rw [ha, hb] at h2; simp at h2
        | some b =>
          rw [ha, hb] at h2; simp at h2
          obtain ⟨h3, h4⟩ := h2
          simp only [h3]
          by_cases hd : b.st = .disconnected
          · simp [hd, h4.mpr hd]
          · simp [hd, mt h4.mp hd]

/-- an update of one connection record that changes neither `destroyed` nor whether it is down -/
theorem Tr.upd_same {tr n ss cs u nr sp al} (h : Tr tr n ss cs u nr sp al) (k : Nat) (f : ConnRec → ConnRec)
    (hs : ∀ r, (f r).sock = r.sock)
    (hf : ∀ r, findIn cs k = some r → (f r).destroyed = r.destroyed ∧ ((f r).st = .disconnected ↔ r.st = .disconnected)) :
    Tr tr n ss (cs.map (updRec k f)) u nr sp al := by
  apply h.same
  intro j
  apply phaseAt_congr'
  rw [findIn_upd k j f hs]
  cases hj : findIn cs j with
  | none => rfl
  | some y =>
    simp only [Option.map_some, updRec]
    split
    · rename_i hk
      have hjk : j = k := by rw [← (findIn_some hj).2]; simpa using hk
      subst hjk
      simp [(hf y hj).1, (hf y hj).2]
    · rfl

/-- `Connector::startCycleInLoop()`; `r0` is the queue before (with or without the functor itself) -/
theorem startCycle_mid (c : C) (r r0 : List Task) (ph : Bool) (hr0 : r0 = r ∨ r0 = Task.startCycle :: r) (hi : Mid c r0 ph)
    (hch : c.chan = none) (hcn : c.connection = none)
    (hna : ¬ attempting c.cstate c.timers) (hns : .startCycle ∉ r ++ c.pending)
    (hal : c.cConnect = true → c.clientAlive = true) : Mid (startCycle c) r ph := by
  have hon : c.chanOn = false := by
    cases h : c.chanOn
    · rfl
    · obtain ⟨k, hk, _⟩ := hi.a3 h; rw [hch] at hk; cases hk
  have hnt : nRetry c.timers = 0 := by
    cases h : nRetry c.timers
    · rfl
    · exact absurd (.inr (by omega)) hna
  have hnc : c.cstate ≠ .kConnecting := fun h => hna (.inl h)
  have htr := hi.tr.cycle
  have hd0 := gen_kInit
  have hst' : (if cycleClearsState c.cstate then States.kDisconnected else c.cstate) = .kDisconnected := by
    unfold cycleClearsState
    cases h : c.cstate <;> simp_all
  unfold startCycle
  rw [hst']
  simp only [cycleResetsDelay, if_true]
  apply startInLoop_mid
  · rcases hr0 with rfl | rfl
    all_goals obtain ⟨notDead, a1, a2, a3, a4, a5, a6, a7, a8, a9, a10, a11, a13, a14, a15, a16, s1, c1, c2, c3, c4, c5, c6, c7, c8, c9, c10, g1, g3, t1⟩ := hi
    all_goals constructor
    all_goals mid_auto2
  · exact ⟨rfl, hch, hcn, hnt, hns, rfl, hal⟩

theorem connectDestroyed_mid (c : C) (r : List Task) (ph : Bool) (k : Nat) (hi : Mid c (.connectDestroyed k :: r) ph) :
    Mid (connectDestroyed c k) r ph := by
  obtain ⟨x, hx, hst⟩ := hi.c9 k (by simp)
  obtain ⟨hxm, hxs⟩ := findIn_some hx
  unfold connectDestroyed
  rw [findConn_eq, hx]
  simp only
  rw [if_neg (by rw [hst]; simp), updConn_eq]
  show Mid { c with conns := c.conns.map (updRec k chanOff) } r ph
  have hmem := @mem_map_upd c.conns k chanOff
  have hfind := fun j => @findIn_upd c.conns k j chanOff (fun _ => rfl)
  have hsocks := @socks_upd c.conns k chanOff (fun _ => rfl)
  have hfs := @findIn_some c.conns
  have htr := hi.tr.upd_same k chanOff (fun _ => rfl) (fun _ _ => ⟨rfl, Iff.rfl⟩)
  have hxu : ∀ y ∈ c.conns, y.sock = k → y = x := by
    intro y hy hk
    have := findIn_of_mem hi.c2 hy; rw [hk, hx] at this; exact (Option.some.inj this).symm
  obtain ⟨notDead, a1, a2, a3, a4, a5, a6, a7, a8, a9, a10, a11, a13, a14, a15, a16, s1, c1, c2, c3, c4, c5, c6, c7, c8, c9, c10, g1, g3, t1⟩ := hi
  constructor
  all_goals mid_auto3
  all_goals (intro y hy; obtain ⟨x0, hx0, rfl⟩ := hmem hy)
  · grind [updRec, chanOff]
  · grind [updRec, chanOff]

theorem holds_shutdown (k j : Nat) : Task.holds (.shutdownInLoop k) j = false := by
  simp [Task.holds, gen_shutdown_weak]

theorem shutdownTask_mid (c : C) (r : List Task) (ph : Bool) (k : Nat) (hi : Mid c (.shutdownInLoop k :: r) ph) :
    Mid (runTask c (.shutdownInLoop k)) r ph := by
  have hw := holds_shutdown k
  have hdrop : Mid c r ph := by
    obtain ⟨notDead, a1, a2, a3, a4, a5, a6, a7, a8, a9, a10, a11, a13, a14, a15, a16, s1, c1, c2, c3, c4, c5, c6, c7, c8, c9, c10, g1, g3, t1⟩ := hi
    constructor
    all_goals mid_auto3
  unfold runTask
  simp only
  split
  · rw [if_neg (by rw [gen_shutdown_weak]; simp)]; exact hdrop
  · rename_i hnd
    change ¬ ((findIn c.conns k).map (·.destroyed)).getD true = true at hnd
    cases hx : findIn c.conns k with
    | none => rw [hx] at hnd; simp at hnd
    | some x =>
      rw [hx] at hnd
      have hd : x.destroyed = false := by simpa using hnd
      obtain ⟨hxm, hxs⟩ := findIn_some hx
      have hk : c.sockSt[k]? = some SockSt.handedOver := by rw [← hxs]; exact hi.c1 x hxm
      have htr := hi.tr.shutdownWr hk hx hd
      unfold emit
      obtain ⟨notDead, a1, a2, a3, a4, a5, a6, a7, a8, a9, a10, a11, a13, a14, a15, a16, s1, c1, c2, c3, c4, c5, c6, c7, c8, c9, c10, g1, g3, t1⟩ := hdrop
      constructor
      all_goals mid_auto3

theorem handleClose_detached_eq (c : C) (k : Nat) (x : ConnRec) (hx : findIn c.conns k = some x) (hcb : x.closeCb = .detached) :
    handleClose c k = { c with conns := c.conns.map (updRec k goDown), trace := c.trace ++ [.down k],
                               pending := c.pending ++ [.connectDestroyed k] } := by
  unfold handleClose
  simp only [findConn_eq, hx, Option.map_some, Option.getD_some, hcb]
  rfl

theorem forceCloseTask_mid (c : C) (r : List Task) (ph : Bool) (k : Nat) (hi : Mid c (.forceCloseInLoop k :: r) ph) :
    Mid (runTask c (.forceCloseInLoop k)) r ph := by
  obtain ⟨x, hx, hcb⟩ := hi.c8 k (by simp)
  have hcs : connSt c k = x.st := by simp [connSt, findConn_eq, hx]
  unfold runTask
  simp only
  rw [hcs]
  split
  · rename_i hst
    rw [handleClose_detached_eq c k x hx hcb]
    exact closeDetached_mid c r _ ph (.inr rfl) hi x hx (by rcases hst with h | h <;> rw [h] <;> simp) hcb
  · rename_i hst
    have hdis : x.st = .disconnected := by
      cases h : x.st <;> simp_all
    have hxu : ∀ y ∈ c.conns, y.sock = k → y = x := by
      intro y hy hk
      have := findIn_of_mem hi.c2 hy; rw [hk, hx] at this; exact (Option.some.inj this).symm
    obtain ⟨notDead, a1, a2, a3, a4, a5, a6, a7, a8, a9, a10, a11, a13, a14, a15, a16, s1, c1, c2, c3, c4, c5, c6, c7, c8, c9, c10, g1, g3, t1⟩ := hi
    constructor
    all_goals mid_auto3

theorem batch_alive {c : C} {t : Task} (h : t ∈ c.batch) (hh : taskHoldsConnector t = true) : connectorAlive c = true := by
  unfold connectorAlive
  have : c.batch.any taskHoldsConnector = true := List.any_eq_true.mpr ⟨t, h, hh⟩
  simp [this]

/-- one functor of the batch -/
theorem runTask_mid (c : C) (r : List Task) (t : Task) (hi : Mid c (t :: r) true) : Mid (runTask c t) r true := by
  have hb : t ∈ c.batch := hi.a15 t (by simp)
  cases t with
  | startCycle =>
    have hal := batch_alive hb (by simp [taskHoldsConnector, gen_holdsRef.1])
    unfold runTask; simp only; rw [if_pos hal]
    have hin : Task.startCycle ∈ (Task.startCycle :: r) ++ c.pending := by simp
    have hcn := hi.a10.2 hin
    have hna : ¬ attempting c.cstate c.timers := fun h => (hi.a9 h).2.1 hin
    have hnr : Task.resetChannel ∉ (Task.startCycle :: r) ++ c.pending := fun h => (hi.a6 h).2.2.2 hin
    have hch : c.chan = none := by
      cases hc : c.chan with
      | none => rfl
      | some k =>
        cases hon : c.chanOn
        · exact absurd (hi.a5 (by simp [hc]) hon).1 hnr
        · exact absurd (.inl (hi.a1 hon)) hna
    have hns : Task.startCycle ∉ r ++ c.pending := by
      intro h
      have h1 := hi.a10.1
      have := List.count_pos_iff.mpr h
      rw [List.cons_append, List.count_cons_self] at h1; omega
    refine startCycle_mid c r _ true (.inr rfl) hi hch hcn hna hns ?_
    intro hcc
    cases h : c.clientAlive
    · rcases (hi.a11 h).2 with h2 | h2
      · rw [hcc] at h2; cases h2
      · exact absurd hin h2.2
    · rfl
  | stopInLoop =>
    have hal := batch_alive hb (by simp [taskHoldsConnector, gen_holdsRef.2.1])
    unfold runTask; simp only; rw [if_pos hal]
    exact stopInLoop_mid c r true hi
  | resetChannel =>
    have hal := batch_alive hb (by simp [taskHoldsConnector, gen_holdsRef.2.2.1])
    unfold runTask; simp only; rw [if_pos hal]
    exact resetChannel_mid c r true hi
  | connectDestroyed k => exact connectDestroyed_mid c r true k hi
  | shutdownInLoop k => exact shutdownTask_mid c r true k hi
  | forceCloseInLoop k => exact forceCloseTask_mid c r true k hi
  | setCloseCb k => have := hi.a13 (.setCloseCb k) (by simp); cases this
  | addTimer d kd => have := hi.a13 (.addTimer d kd) (by simp); cases this

end MuduoVerif.Client
