import MuduoVerif.Proofs.ClientHook
/-! Preservation of `Mid` by the channel dispatch of a connection and by the queued functors. -/
namespace MuduoVerif.Client
open MuduoVerif.Gen.Client

theorem handleRead_mid (c : C) (r : List Task) (ph : Bool) (hi : Mid c r ph) (k : Nat) (x : ConnRec)
    (hx : findIn c.conns k = some x) (hst : x.st ≠ .disconnected) (hch : x.closeCb = .client → c.chan = none) :
    Mid (handleRead c k) r ph := by
  unfold handleRead
  simp only
  rw [popRead_eq]
  have h1 := hi.env c.envConnect c.envSoErr c.envSelf (popRead c).2.envRead (popRead c).2.starved c.horizon
  split
  · exact handleClose_mid _ r ph h1 k x hx hst hch
  · exact h1

theorem dispatchConn_mid (c : C) (r : List Task) (ph : Bool) (hi : Mid c r ph) (k rev : Nat) :
    Mid (dispatchConn c k rev) r ph := by
  unfold dispatchConn
  rw [findConn_eq]
  split
  · exact hi
  · rename_i x hx
    split
    · exact hi
    · rename_i hcond
      simp only [not_or, Decidable.not_not] at hcond
      obtain ⟨hnd, hon, _, hck⟩ := hcond
      obtain ⟨hxm, hxs⟩ := findIn_some hx
      have hon' : x.chanOn = true := by simpa using hon
      have hst := hi.c3 x hxm hon'
      have hch : x.closeCb = .client → c.chan = none := by
        intro hcb
        have hcn := (hi.c6 x hxm hst hcb).2
        cases hc : c.chan with
        | none => rfl
        | some k' =>
          have := hi.a7 k' x.sock hc hcn
          rw [hxs] at this; rw [hc, ← this] at hck; exact absurd rfl hck
      by_cases hdc : MuduoVerif.Gen.Conn.dispClose rev ∧ MuduoVerif.Gen.Conn.dispCloseSub false true false
      · -- close callback ran
        simp only [hdc, and_self, if_true]
        have h1 := handleClose_mid c r ph hi k x hx hst hch
        rw [if_neg (by simp [h1.notDead])]
        have hoff : ((findConn (handleClose c k) k).map (·.chanOn)).getD false = false := by
          rw [findConn_eq, handleClose_find c k x hx]
          simp [goDown]
        rw [hoff]
        rw [if_neg (by simp [MuduoVerif.Gen.Conn.dispReadSub])]
        exact h1
      · simp only [hdc, if_false]
        rw [if_neg (by simp [hi.notDead])]
        split
        · exact handleRead_mid c r ph hi k x hx hst hch
        · exact hi

theorem connectDestroyed_mid (c : C) (r : List Task) (ph : Bool) (k : Nat) (hi : Mid c (.connectDestroyed k :: r) ph) :
    Mid (connectDestroyed c k) r ph := by
  obtain ⟨x, hx, hst⟩ := hi.c9 k (by simp)
  obtain ⟨hxm, hxs⟩ := findIn_some hx
  unfold connectDestroyed
  rw [findConn_eq, hx]
  simp only
  rw [if_neg (by rw [hst]; simp), updConn_eq]
  show Mid { c with conns := c.conns.map (updRec k chanOff) } r ph
  have hmem := @mem_map_upd c.conns k chanOff
  have hfind := fun j => @findIn_upd c.conns k j chanOff (fun _ => rfl)
  have hsocks := @socks_upd c.conns k chanOff (fun _ => rfl)
  have hfs := @findIn_some c.conns
  have htr := hi.tr.upd_same k chanOff (fun _ => rfl) (fun _ _ => ⟨rfl, Iff.rfl⟩)
  have hxu : ∀ y ∈ c.conns, y.sock = k → y = x := by
    intro y hy hk
    have := findIn_of_mem hi.c2 hy; rw [hk, hx] at this; exact (Option.some.inj this).symm
  obtain ⟨notDead, a1, a2, a3, a4, a5, a6, a7, a8, a9, a10, a11, a13, a14, a15, a16, s1, c1, c2, c3, c4, c5, c6, c7, c8, c9, c10, g1, g3, h1, t1⟩ := hi
  constructor
  all_goals mid_auto3
  all_goals (intro y hy; obtain ⟨x0, hx0, rfl⟩ := hmem hy)
  · grind [updRec, chanOff]
  · grind [updRec, chanOff]

theorem shutdownTask_mid (c : C) (r : List Task) (ph : Bool) (k : Nat) (hi : Mid c (.shutdownInLoop k :: r) ph) :
    Mid (runTask c (.shutdownInLoop k)) r ph := by
  have hw := holds_shutdown k
  have hdrop : Mid c r ph := by
    obtain ⟨notDead, a1, a2, a3, a4, a5, a6, a7, a8, a9, a10, a11, a13, a14, a15, a16, s1, c1, c2, c3, c4, c5, c6, c7, c8, c9, c10, g1, g3, h1, t1⟩ := hi
    constructor
    all_goals mid_auto3
  unfold runTask
  simp only
  split
  · rw [if_neg (by rw [gen_shutdown_weak]; simp)]; exact hdrop
  · rename_i hnd
    change ¬ ((findIn c.conns k).map (·.destroyed)).getD true = true at hnd
    cases hx : findIn c.conns k with
    | none => rw [hx] at hnd; simp at hnd
    | some x =>
      rw [hx] at hnd
      have hd : x.destroyed = false := by simpa using hnd
      obtain ⟨hxm, hxs⟩ := findIn_some hx
      have hk : c.sockSt[k]? = some SockSt.handedOver := by rw [← hxs]; exact hi.c1 x hxm
      have htr := hi.tr.shutdownWr hk hx hd
      unfold emit
      obtain ⟨notDead, a1, a2, a3, a4, a5, a6, a7, a8, a9, a10, a11, a13, a14, a15, a16, s1, c1, c2, c3, c4, c5, c6, c7, c8, c9, c10, g1, g3, h1, t1⟩ := hdrop
      constructor
      all_goals mid_auto3

theorem handleClose_detached_eq (c : C) (k : Nat) (x : ConnRec) (hx : findIn c.conns k = some x) (hcb : x.closeCb = .detached)
    (hal : c.clientAlive = false) (hnd : c.dead = false) :
    handleClose c k = { c with conns := c.conns.map (updRec k goDown), trace := c.trace ++ [.down k],
                               pending := c.pending ++ [.connectDestroyed k] } := by
  have e : runHookDown (downState c k) k = downState c k := by
    unfold runHookDown
    rw [if_neg (by rw [show (downState c k).clientAlive = c.clientAlive from rfl, hal]; exact Bool.false_ne_true)]
  rw [handleClose_eq]
  simp only [findConn_eq, hx, Option.map_some, Option.getD_some, hcb]
  rw [e, if_neg (by rw [show (downState c k).dead = c.dead from rfl, hnd]; exact Bool.false_ne_true)]
  rfl

theorem forceCloseTask_mid (c : C) (r : List Task) (ph : Bool) (k : Nat) (hi : Mid c (.forceCloseInLoop k :: r) ph) :
    Mid (runTask c (.forceCloseInLoop k)) r ph := by
  obtain ⟨x, hx, hcb⟩ := hi.c8 k (by simp)
  have hcs : connSt c k = x.st := by simp [connSt, findConn_eq, hx]
  unfold runTask
  simp only
  rw [hcs]
  split
  · rename_i hst
    rw [handleClose_detached_eq c k x hx hcb (hi.c10 x (findIn_some hx).1 hcb) hi.notDead]
    exact closeDetached_mid c r _ ph (.inr rfl) hi x hx (by rcases hst with h | h <;> rw [h] <;> simp) hcb
  · rename_i hst
    have hdis : x.st = .disconnected := by
      cases h : x.st <;> simp_all
    have hxu : ∀ y ∈ c.conns, y.sock = k → y = x := by
      intro y hy hk
      have := findIn_of_mem hi.c2 hy; rw [hk, hx] at this; exact (Option.some.inj this).symm
    obtain ⟨notDead, a1, a2, a3, a4, a5, a6, a7, a8, a9, a10, a11, a13, a14, a15, a16, s1, c1, c2, c3, c4, c5, c6, c7, c8, c9, c10, g1, g3, h1, t1⟩ := hi
    constructor
    all_goals mid_auto3

theorem batch_alive {c : C} {t : Task} (h : t ∈ c.batch) (hh : taskHoldsConnector t = true) : connectorAlive c = true := by
  unfold connectorAlive
  have : c.batch.any taskHoldsConnector = true := List.any_eq_true.mpr ⟨t, h, hh⟩
  simp [this]

/-- one functor of the batch -/
theorem runTask_mid (c : C) (r : List Task) (t : Task) (hi : Mid c (t :: r) true) : Mid (runTask c t) r true := by
  have hb : t ∈ c.batch := hi.a15 t (by simp)
  cases t with
  | startCycle =>
    have hal := batch_alive hb (by simp [taskHoldsConnector, gen_holdsRef.1])
    unfold runTask; simp only; rw [if_pos hal]
    have hin : Task.startCycle ∈ (Task.startCycle :: r) ++ c.pending := by simp
    have hcn := hi.a10.2 hin
    have hna : ¬ attempting c.cstate c.timers := fun h => (hi.a9 h).2.1 hin
    have hnr : Task.resetChannel ∉ (Task.startCycle :: r) ++ c.pending := fun h => (hi.a6 h).2.2.2 hin
    have hch : c.chan = none := by
      cases hc : c.chan with
      | none => rfl
      | some k =>
        cases hon : c.chanOn
        · exact absurd (hi.a5 (by simp [hc]) hon).1 hnr
        · exact absurd (.inl (hi.a1 hon)) hna
    have hns : Task.startCycle ∉ r ++ c.pending := by
      intro h
      have h1 := hi.a10.1
      have := List.count_pos_iff.mpr h
      rw [List.cons_append, List.count_cons_self] at h1; omega
    refine startCycle_mid c r _ true (.inr rfl) hi hch hcn hna hns ?_
    intro hcc
    cases h : c.clientAlive
    · rcases (hi.a11 h).2 with h2 | h2
      · rw [hcc] at h2; cases h2
      · exact absurd hin h2.2
    · rfl
  | stopInLoop =>
    have hal := batch_alive hb (by simp [taskHoldsConnector, gen_holdsRef.2.1])
    unfold runTask; simp only; rw [if_pos hal]
    exact stopInLoop_mid c r true hi
  | resetChannel =>
    have hal := batch_alive hb (by simp [taskHoldsConnector, gen_holdsRef.2.2.1])
    unfold runTask; simp only; rw [if_pos hal]
    exact resetChannel_mid c r true hi
  | connectDestroyed k => exact connectDestroyed_mid c r true k hi
  | shutdownInLoop k => exact shutdownTask_mid c r true k hi
  | forceCloseInLoop k => exact forceCloseTask_mid c r true k hi
  | setCloseCb k => have := hi.a13 (.setCloseCb k) (by simp); cases this
  | addTimer d kd => have := hi.a13 (.addTimer d kd) (by simp); cases this

end MuduoVerif.Client
