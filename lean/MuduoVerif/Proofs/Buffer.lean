import MuduoVerif.Model.Buffer
import MuduoVerif.Proofs.ListPw
/-! Lemmas about the `Buffer` model: index invariant and refinement to the byte-string spec. -/
namespace MuduoVerif.Buffer
open MuduoVerif.Gen.Buffer

/-- index invariant of `Buffer` (the picture at the top of Buffer.h) -/
structure WF (b : Buf) : Prop where
  rw : b.reader ≤ b.writer
  ws : b.writer ≤ b.data.length
  cp : kCheapPrepend ≤ b.data.length

theorem splice_length (d : Bytes) (pos : Nat) (x : Bytes) (h : pos + x.length ≤ d.length) :
    (splice d pos x).length = d.length := by
  simp [splice]; omega

theorem resize_length (d : Bytes) (n : Nat) : (resize d n).length = n := by
  simp [resize]; omega

theorem window_splice_after (d : Bytes) (r w : Nat) (x : Bytes) (hrw : r ≤ w)
    (h : w + x.length ≤ d.length) :
    ((splice d w x).drop r).take (w + x.length - r) = (d.drop r).take (w - r) ++ x := by
  unfold splice; list_pw

theorem window_splice_before (d : Bytes) (r w : Nat) (x : Bytes) (hxr : x.length ≤ r) (hrw : r ≤ w)
    (h : w ≤ d.length) :
    ((splice d (r - x.length) x).drop (r - x.length)).take (w - (r - x.length))
      = x ++ (d.drop r).take (w - r) := by
  unfold splice; list_pw

theorem window_resize (d : Bytes) (r w n : Nat) (hrw : r ≤ w) (h : w ≤ d.length) (hn : w ≤ n) :
    ((resize d n).drop r).take (w - r) = (d.drop r).take (w - r) := by
  unfold resize; list_pw

theorem window_slide (d : Bytes) (r w k : Nat) (hrw : r ≤ w) (h : w ≤ d.length) (hk : k ≤ r) :
    ((splice d k ((d.drop r).take (w - r))).drop k).take (k + (w - r) - k) = (d.drop r).take (w - r) := by
  unfold splice; list_pw

theorem content_length {b : Buf} (h : WF b) : (content b).length = readable b := by
  have := h.rw; have := h.ws
  simp [content, readable]; omega

/-! ### constructor -/
theorem mk_wf (n : Nat) : WF (mk n) := by
  constructor <;> simp [mk]
theorem mk_content (n : Nat) : content (mk n) = [] := by simp [mk, content]
theorem mk_sizes (n : Nat) :
    readable (mk n) = 0 ∧ writable (mk n) = n ∧ prependable (mk n) = kCheapPrepend := by
  simp [mk, readable, writable, prependable]

/-! ### retrieve -/
theorem retrieveAll_wf {b : Buf} (h : WF b) : WF (retrieveAll b) := by
  constructor <;> simp [retrieveAll] <;> exact h.cp
theorem retrieveAll_content (b : Buf) : content (retrieveAll b) = [] := by
  simp [retrieveAll, content]

theorem retrieve_wf {b : Buf} {n : Nat} (h : WF b) (hp : retrievePre b n) : WF (retrieve b n) := by
  unfold retrieve
  split
  · rename_i hk
    have := h.rw; have := h.ws
    simp [retrieveKeeps, readable] at hk
    constructor <;> simp <;> first | omega | exact h.cp
  · exact retrieveAll_wf h

theorem retrieve_content {b : Buf} {n : Nat} (h : WF b) (hp : retrievePre b n) :
    content (retrieve b n) = (content b).drop n := by
  have := h.rw; have := h.ws
  unfold retrieve
  split
  · rename_i hk
    simp [retrieveKeeps, readable] at hk
    simp only [content]
    list_pw
  · rename_i hk
    simp [retrieveKeeps, readable, retrievePre] at hk hp
    rw [retrieveAll_content]
    have : (content b).length ≤ n := by rw [content_length h]; simp [readable]; omega
    exact (List.drop_of_length_le this).symm

/-! ### makeSpace / ensureWritableBytes -/
theorem makeSpace_wf {b : Buf} {len : Nat} (h : WF b) (hn : ensureNeedsSpace (writable b) len) :
    WF (makeSpace b len) ∧ content (makeSpace b len) = content b ∧ len ≤ writable (makeSpace b len) := by
  have h1 := h.rw; have h2 := h.ws; have h3 := h.cp
  simp [ensureNeedsSpace, writable] at hn
  unfold makeSpace
  split
  · rename_i hg
    refine ⟨?_, ?_, ?_⟩
    · constructor <;> simp [resize_length] <;> omega
    · simp only [content]; exact window_resize _ _ _ _ h1 h2 (by omega)
    · simp [writable, resize_length]
  · rename_i hg
    simp [makeSpaceGrows, writable, prependable] at hg
    have hcl : (content b).length = b.writer - b.reader := by
      rw [content_length h]; rfl
    have hsl : (splice b.data kCheapPrepend (content b)).length = b.data.length :=
      splice_length _ _ _ (by rw [hcl]; omega)
    refine ⟨?_, ?_, ?_⟩
    · constructor <;> simp [hsl, readable] <;> omega
    · simp only [content, readable]
      exact window_slide _ _ _ _ h1 h2 (by omega)
    · simp [writable, hsl, readable]; omega

/-- the `assert(kCheapPrepend < readerIndex_)` in the slide branch can never fire -/
theorem makeSpace_slide_assert {b : Buf} {len : Nat} (h : WF b)
    (hn : ensureNeedsSpace (writable b) len)
    (hg : ¬ makeSpaceGrows (writable b) (prependable b) len) : kCheapPrepend < b.reader := by
  simp [ensureNeedsSpace, makeSpaceGrows, writable, prependable] at hn hg
  omega

theorem ensureWritable_spec {b : Buf} {len : Nat} (h : WF b) :
    WF (ensureWritable b len) ∧ content (ensureWritable b len) = content b
      ∧ len ≤ writable (ensureWritable b len) := by
  unfold ensureWritable
  split
  · rename_i hn; exact makeSpace_wf h hn
  · rename_i hn
    simp [ensureNeedsSpace] at hn
    exact ⟨h, rfl, hn⟩

/-! ### hasWritten (with the bytes the caller put at `beginWrite()`), unwrite -/
theorem writeAtEnd_spec {b : Buf} {x : Bytes} (h : WF b) (hp : hasWrittenPre b x.length) :
    WF (writeAtEnd b x) ∧ content (writeAtEnd b x) = content b ++ x := by
  have h1 := h.rw; have h2 := h.ws; have h3 := h.cp
  simp [hasWrittenPre, writable] at hp
  have hsl : (splice b.data b.writer x).length = b.data.length := splice_length _ _ _ (by omega)
  refine ⟨?_, ?_⟩
  · constructor <;> simp [writeAtEnd, hasWritten, hsl] <;> omega
  · simp only [writeAtEnd, hasWritten, content]
    exact window_splice_after _ _ _ _ h1 (by omega)

theorem unwrite_spec {b : Buf} {n : Nat} (h : WF b) (hp : unwritePre b n) :
    WF (unwrite b n) ∧ content (unwrite b n) = (content b).take (readable b - n) := by
  have h1 := h.rw; have h2 := h.ws; have h3 := h.cp
  simp [unwritePre, readable] at hp
  refine ⟨?_, ?_⟩
  · constructor <;> simp [unwrite] <;> omega
  · simp only [unwrite, content, readable]
    list_pw

/-! ### append / prepend -/
theorem append_eq (b : Buf) (x : Bytes) : append b x = writeAtEnd (ensureWritable b x.length) x := rfl

theorem append_spec {b : Buf} {x : Bytes} (h : WF b) :
    WF (append b x) ∧ content (append b x) = content b ++ x := by
  obtain ⟨hw, hc, hl⟩ := ensureWritable_spec (b := b) (len := x.length) h
  rw [append_eq]
  have := writeAtEnd_spec (x := x) hw (by simpa [hasWrittenPre] using hl)
  rw [hc] at this
  exact this

theorem prepend_spec {b : Buf} {x : Bytes} (h : WF b) (hp : prependPre b x) :
    WF (prepend b x) ∧ content (prepend b x) = x ++ content b := by
  have h1 := h.rw; have h2 := h.ws; have h3 := h.cp
  simp [prependPre, prependable] at hp
  have hsl : (splice b.data (b.reader - x.length) x).length = b.data.length :=
    splice_length _ _ _ (by omega)
  refine ⟨?_, ?_⟩
  · constructor <;> simp [prepend, hsl] <;> omega
  · simp only [prepend, content]
    exact window_splice_before _ _ _ _ hp h1 h2

/-! ### shrink -/
theorem shrink_spec {b : Buf} {reserve : Nat} (h : WF b) :
    WF (shrink b reserve) ∧ content (shrink b reserve) = content b
      ∧ reserve ≤ writable (shrink b reserve) := by
  unfold shrink
  obtain ⟨hw, hc, hl⟩ :=
    ensureWritable_spec (b := mk kInitialSize) (len := readable b + reserve) (mk_wf _)
  obtain ⟨hw', hc'⟩ := append_spec (b := ensureWritable (mk kInitialSize) (readable b + reserve))
    (x := content b) hw
  refine ⟨hw', ?_, ?_⟩
  · rw [hc', hc, mk_content]; rfl
  · -- appending `readable b` bytes into a buffer with `readable b + reserve` writable bytes
    rw [append_eq]
    have hlen := content_length h
    have he : ensureWritable (ensureWritable (mk kInitialSize) (readable b + reserve)) (content b).length
        = ensureWritable (mk kInitialSize) (readable b + reserve) := by
      generalize ensureWritable (mk kInitialSize) (readable b + reserve) = e at *
      unfold ensureWritable
      split
      · rename_i hn; simp [ensureNeedsSpace] at hn; omega
      · rfl
    rw [he]
    generalize ensureWritable (mk kInitialSize) (readable b + reserve) = e at *
    have := hw.ws
    simp only [writeAtEnd, hasWritten, writable] at *
    rw [splice_length _ _ _ (by omega)]
    omega

/-! ### readFd -/
theorem readFd_spec {b : Buf} {d : Bytes} (h : WF b) (hp : readFdPre b d) :
    WF (readFd b d) ∧ content (readFd b d) = content b ++ d := by
  have h1 := h.rw; have h2 := h.ws; have h3 := h.cp
  unfold readFd
  split
  · rename_i hf
    simp [readFdFits] at hf
    exact writeAtEnd_spec h (by simpa [hasWrittenPre] using hf)
  · rename_i hf
    simp [readFdFits] at hf
    -- first segment fills the writable area exactly
    have hlen : (d.take (writable b)).length = writable b := by simp; omega
    have hfirst := writeAtEnd_spec (b := b) (x := d.take (writable b)) h
      (by simp [hasWrittenPre, hlen])
    have heq : writeAtEnd b (d.take (writable b))
        = { b with data := splice b.data b.writer (d.take (writable b)), writer := b.data.length } := by
      simp only [writeAtEnd, hasWritten, hlen]
      congr 1
      simp [writable]; omega
    rw [heq] at hfirst
    obtain ⟨hw1, hc1⟩ := hfirst
    obtain ⟨hw2, hc2⟩ := append_spec (x := d.drop (writable b)) hw1
    refine ⟨hw2, ?_⟩
    rw [hc2, hc1, List.append_assoc, List.take_append_drop]

/-! ### where the read index can go (for the cheap-prepend guarantee) -/
theorem ensureWritable_reader (b : Buf) (n : Nat) :
    (ensureWritable b n).reader = kCheapPrepend ∨ (ensureWritable b n).reader = b.reader := by
  unfold ensureWritable makeSpace
  repeat' split
  all_goals simp

theorem append_reader (b : Buf) (x : Bytes) :
    (append b x).reader = kCheapPrepend ∨ (append b x).reader = b.reader :=
  ensureWritable_reader b x.length

theorem mk_append_reader (i n : Nat) (x : Bytes) :
    (append (ensureWritable (mk i) n) x).reader = kCheapPrepend := by
  have h1 := ensureWritable_reader (mk i) n
  have h2 := append_reader (ensureWritable (mk i) n) x
  have : (mk i).reader = kCheapPrepend := rfl
  omega

theorem step_reader (b : Buf) (op : Op) (hnp : ∀ x, op ≠ .prepend x) (hnpi : ∀ n v, op ≠ .prependInt n v) :
    (step b op).reader = kCheapPrepend ∨ b.reader ≤ (step b op).reader := by
  cases op with
  | prepend x => exact absurd rfl (hnp x)
  | prependInt n v => exact absurd rfl (hnpi n v)
  | append x => have := append_reader b x; simp only [step]; omega
  | appendInt n v => have := append_reader b (intBytes n v); simp only [step, appendInt]; omega
  | retrieve n => simp only [step, retrieve, retrieveAll]; split <;> simp
  | readInt n => simp only [step, readInt, retrieve, retrieveAll]; split <;> simp
  | retrieveAll => simp [step, retrieveAll]
  | ensure n => have := ensureWritable_reader b n; simp only [step]; omega
  | write x => simp [step, writeAtEnd, hasWritten]
  | unwrite n => simp [step, unwrite]
  | shrink r => left; exact mk_append_reader _ _ _
  | swapFresh i x =>
    left
    have := append_reader (mk i) x
    have : (mk i).reader = kCheapPrepend := rfl
    simp only [step]; omega
  | readFd d =>
    simp only [step, readFd]
    split
    · simp
    · have := append_reader
        { b with data := splice b.data b.writer (d.take (writable b)), writer := b.data.length }
        (d.drop (writable b))
      simp only at this ⊢
      omega

/-! ### big-endian integers -/
theorem decodeBE_fold (bs : Bytes) (acc : Nat) :
    bs.foldl (fun a b => a * 256 + b.toNat) acc = acc * 256 ^ bs.length + decodeBE bs := by
  unfold decodeBE
  induction bs generalizing acc with
  | nil => simp
  | cons c cs ih =>
    simp only [List.foldl_cons, List.length_cons]
    rw [ih (acc * 256 + c.toNat), ih (0 * 256 + c.toNat)]
    simp [Nat.pow_succ, Nat.add_mul, Nat.mul_assoc, Nat.mul_comm 256, Nat.add_assoc]

theorem encodeBE_length (n u : Nat) : (encodeBE n u).length = n := by
  induction n generalizing u with
  | zero => rfl
  | succ n ih => simp [encodeBE, ih]

theorem decode_encodeBE (n u : Nat) (h : u < 256 ^ n) : decodeBE (encodeBE n u) = u := by
  induction n generalizing u with
  | zero => simp [encodeBE, decodeBE] at *; omega
  | succ n ih =>
    have hlt : u / 256 ^ n < 256 := by
      apply Nat.div_lt_of_lt_mul
      rw [Nat.pow_succ] at h; exact h
    have hpos : 0 < 256 ^ n := Nat.pow_pos (by decide)
    simp only [encodeBE, decodeBE, List.foldl_cons]
    rw [decodeBE_fold, encodeBE_length, ih _ (Nat.mod_lt _ hpos)]
    have : (UInt8.ofNat (u / 256 ^ n)).toNat = u / 256 ^ n := by
      simp [UInt8.toNat_ofNat']; omega
    rw [this, Nat.zero_mul, Nat.zero_add, Nat.mul_comm]
    exact Nat.div_add_mod u (256 ^ n)

theorem toSigned_toUnsigned (bits : Nat) (hb : 0 < bits) (v : Int)
    (hlo : -(2 ^ (bits - 1) : Int) ≤ v) (hhi : v < (2 ^ (bits - 1) : Int)) :
    toSigned bits (toUnsigned bits v) = v := by
  have hp : (2 ^ bits : Int) = 2 * 2 ^ (bits - 1) := by
    have : bits = (bits - 1) + 1 := by omega
    conv => lhs; rw [this, Int.pow_succ]
    omega
  have hpn : ((2 ^ (bits - 1) : Nat) : Int) = (2 ^ (bits - 1) : Int) := by simp
  unfold toSigned toUnsigned
  have hpos : (0 : Int) < 2 ^ (bits - 1) := Int.pow_pos (by decide)
  by_cases hv : 0 ≤ v
  · have hm : v % (2 ^ bits : Int) = v := Int.emod_eq_of_lt hv (by omega)
    rw [hm]
    have : (v.toNat : Int) = v := Int.toNat_of_nonneg hv
    split
    · exact this
    · rename_i hc
      exfalso; apply hc
      have : ((v.toNat : Nat) : Int) < ((2 ^ (bits - 1) : Nat) : Int) := by rw [hpn]; omega
      exact Int.ofNat_lt.mp this
  · have hm : v % (2 ^ bits : Int) = v + 2 ^ bits := by
      rw [← Int.add_emod_right]
      exact Int.emod_eq_of_lt (by omega) (by omega)
    rw [hm]
    have hnn : 0 ≤ v + 2 ^ bits := by omega
    have : (((v + 2 ^ bits).toNat : Nat) : Int) = v + 2 ^ bits := Int.toNat_of_nonneg hnn
    split
    · rename_i hc
      exfalso
      have : (((v + 2 ^ bits).toNat : Nat) : Int) < ((2 ^ (bits - 1) : Nat) : Int) := Int.ofNat_lt.mpr hc
      rw [hpn] at this
      omega
    · omega

theorem toUnsigned_lt (bits : Nat) (v : Int) : toUnsigned bits v < 2 ^ bits := by
  unfold toUnsigned
  have hpos : (0 : Int) < 2 ^ bits := Int.pow_pos (by decide)
  have h1 := Int.emod_lt_of_pos v hpos
  have h0 := Int.emod_nonneg v (Int.ne_of_gt hpos)
  have : (((v % 2 ^ bits).toNat : Nat) : Int) < ((2 ^ bits : Nat) : Int) := by
    rw [Int.toNat_of_nonneg h0]; simpa using h1
  exact Int.ofNat_lt.mp this

theorem intBytes_length (n : Nat) (v : Int) : (intBytes n v).length = n := encodeBE_length _ _

theorem pow256 (n : Nat) : 256 ^ n = 2 ^ (8 * n) := by
  rw [Nat.pow_mul]

/-- decoding the `n`-byte big-endian two's complement form gives the value back -/
theorem int_roundtrip_bytes (n : Nat) (hn : 0 < n) (v : Int)
    (hlo : -(2 ^ (8 * n - 1) : Int) ≤ v) (hhi : v < (2 ^ (8 * n - 1) : Int)) :
    toSigned (8 * n) (decodeBE (intBytes n v)) = v := by
  unfold intBytes
  rw [decode_encodeBE _ _ (by rw [pow256]; exact toUnsigned_lt _ _)]
  exact toSigned_toUnsigned _ (by omega) v hlo hhi

/-! ### searches -/
theorem findSub_some (pat : Bytes) (l : Bytes) (i k : Nat) (h : findSub pat l i = some k) :
    i ≤ k ∧ pat.isPrefixOf (l.drop (k - i)) = true
      ∧ ∀ j, j < k - i → pat.isPrefixOf (l.drop j) = false := by
  induction l generalizing i with
  | nil =>
    unfold findSub at h
    split at h
    · rename_i hp; cases h; subst hp; simp
    · cases h
  | cons c cs ih =>
    unfold findSub at h
    by_cases hpre : pat.isPrefixOf (c :: cs) = true
    · rw [if_pos hpre] at h; cases h
      refine ⟨Nat.le_refl _, by simpa using hpre, ?_⟩
      intro j hj; omega
    · rw [if_neg hpre] at h
      obtain ⟨h1, h2, h3⟩ := ih (i + 1) h
      refine ⟨by omega, ?_, ?_⟩
      · have : k - i = (k - (i + 1)) + 1 := by omega
        rw [this]; simpa using h2
      · intro j hj
        cases j with
        | zero => simpa using (Bool.eq_false_iff.mpr hpre)
        | succ j => simp only [List.drop_succ_cons]; exact h3 j (by omega)

theorem findSub_none (pat : Bytes) (hp : pat ≠ []) (l : Bytes) (i : Nat) (h : findSub pat l i = none) :
    ∀ j, pat.isPrefixOf (l.drop j) = false := by
  induction l generalizing i with
  | nil =>
    intro j
    cases pat with
    | nil => exact absurd rfl hp
    | cons p ps => simp [List.isPrefixOf]
  | cons c cs ih =>
    unfold findSub at h
    by_cases hpre : pat.isPrefixOf (c :: cs) = true
    · rw [if_pos hpre] at h; cases h
    · rw [if_neg hpre] at h
      intro j
      cases j with
      | zero => simpa using (Bool.eq_false_iff.mpr hpre)
      | succ j => simp only [List.drop_succ_cons]; exact ih (i + 1) h j

end MuduoVerif.Buffer
