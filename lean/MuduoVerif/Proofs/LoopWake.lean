import MuduoVerif.Proofs.Loop
/-!
# `no_lost_wakeup` (C04): the wake-up invariant
-/
set_option linter.unnecessarySimpa false
namespace MuduoVerif.Loop
open MuduoVerif.Gen.Loop

/-- somebody is about to write the eventfd, or has done so and the loop has not read it yet -/
def Woken (s : St) : Prop := 0 < s.ev ∨ s.lpc = .appended ∨ inflightF s.thr s.L .appended

structure WakeInv (s : St) : Prop where
  woken : needsWake s.phase = true → s.pending ≠ [] → Woken s
  callingDrain : s.phase = .draining ∨ s.phase = .preSwap → s.calling = true
  notLooping : beforeLoop s.phase = true → s.looping = false
  idleOutside : taskPhase s.phase = false → s.lpc = .idle ∧ s.stack = []

theorem runTop_wake {s : St} (h : WakeInv s) (ht : taskPhase s.phase = true) : WakeInv (runTop s) := by
  obtain ⟨h1, h2, h3, h4⟩ := h
  have hg1 := wakeGuard_calling true s.looping
  have hg2 := wakeGuard_notLooping true s.calling
  ties
  unfold runTop
  split
  · split
    · refine ⟨fun _ _ => Or.inl (by simp), h2, h3, ?_⟩
      intro hh; simp [hh] at ht
    · refine ⟨?_, h2, h3, ?_⟩
      · intro hn hp
        exfalso
        cases hph : s.phase <;> simp_all [needsWake, taskPhase, beforeLoop]
      · intro hh; simp [hh] at ht
  · split
    · refine ⟨fun _ _ => Or.inl (by simp), h2, h3, ?_⟩
      intro hh; simp [hh] at ht
    · refine ⟨?_, h2, h3, ?_⟩
      · intro hn hp
        rcases h1 hn hp with h | h | h
        · exact Or.inl h
        · simp_all
        · exact Or.inr (Or.inr h)
      · intro hh; simp [hh] at ht
  · rename_i hl1 hl2
    split
    all_goals (try split)
    all_goals refine ⟨?_, h2, h3, ?_⟩
    all_goals (try (intro hh; simp [hh] at ht))
    all_goals (intro hn hp)
    all_goals (first
      | exact Or.inr (Or.inl rfl)
      | (rcases h1 hn hp with h | h | h
         · exact Or.inl h
         · exact absurd h hl1
         · exact Or.inr (Or.inr h)))

theorem stepLoop_wake {s : St} (h : WakeInv s) : WakeInv (stepLoop s) := by
  have hr := runTop_wake h
  obtain ⟨h1, h2, h3, h4⟩ := h
  ties
  loop_cases
  all_goals (first
    | exact hr (by simp [*, taskPhase])
    | (refine ⟨?_, ?_, ?_, ?_⟩ <;> simp_all [needsWake, taskPhase, beforeLoop, Woken, busy, St.L]))

theorem woken_keep {s s' : St} {k : Nat} (h : Woken s) (hk : (s.thr k).pc ≠ .appended)
    (hev : s.ev ≤ s'.ev) (hl : s'.lpc = s.lpc) (hL : s'.elt = s.elt)
    (hthr : ∀ j, j ≠ k → s'.thr j = s.thr j) : Woken s' := by
  rcases h with h | h | h
  · exact Or.inl (by omega)
  · exact Or.inr (Or.inl (by rw [hl]; exact h))
  · refine Or.inr (Or.inr ?_)
    unfold St.L; rw [hL]; exact inflightF_keep' h hk hthr

theorem woken_new {s' : St} {k : Nat} (hk : k ≠ s'.L) (ht : (s'.thr k).pc = .appended) : Woken s' :=
  Or.inr (Or.inr ⟨k, hk, ht⟩)

theorem stepOther_wake {s : St} (k : Nat) (hk : k ≠ s.L) (h : WakeInv s) : WakeInv (stepOther s k) := by
  obtain ⟨h1, h2, h3, h4⟩ := h
  have hg := wakeGuard_foreign s.calling s.looping
  ties
  other_cases
  all_goals refine ⟨?_, ?_, ?_, ?_⟩
  all_goals (try (simp_all [needsWake, taskPhase, beforeLoop, St.L, Woken]; done))
  all_goals (intro hn hp)
  all_goals (first
    | (refine Or.inl ?_; simp; done)
    | (refine woken_new (k := k) ?_ ?_ <;> (first | (simpa [St.L] using hk) | (simp; done)); done)
    | (refine woken_keep (k := k) (h1 ?_ ?_) ?_ ?_ ?_ ?_ ?_ <;>
        (first | (simpa using hn) | (simpa using hp) | (simp [*]; done) | (intro j hj; simp [hj]; done) |
          (simp_all [needsWake]; done)); done))

theorem step_wake {s : St} (k : Nat) (h : WakeInv s) : WakeInv (step s k) := by
  unfold step; split
  · exact stepLoop_wake h
  · rename_i hk; exact stepOther_wake k hk h

theorem run_wake {s : St} (sched : List Nat) (h : WakeInv s) : WakeInv (run s sched) :=
  run_invariant (fun _ k h => step_wake k h) h sched

theorem init_wake (elt wl : Bool) (tbl) (dtbl) (pre) (again) (progs) : WakeInv (init elt wl tbl dtbl pre again progs) := by
  refine ⟨?_, ?_, ?_, ?_⟩
  · intro _ hp; simp [init] at hp
  · intro h; cases elt <;> simp [init] at h
  · intro _; simp [init]
  · intro h; cases elt <;> simp [init, taskPhase] at h

end MuduoVerif.Loop
