import MuduoVerif.Proofs.OwnerPrim
namespace MuduoVerif.Owner
open MuduoVerif.Gen.Owner
open MuduoVerif.Gen.Conn (StateE forceCloseAccepts shutdownAccepts forceCloseInLoopActs destroyedWhileConnected)

@[simp] theorem pop_conn (s : Srv) (l : Nat) (t : Task) (rest : List Task) : (pop s l t rest).conn = s.conn := rfl
@[simp] theorem pop_map (s : Srv) (l : Nat) (t : Task) (rest : List Task) : (pop s l t rest).map = s.map := rfl
@[simp] theorem pop_alive (s : Srv) (l : Nat) (t : Task) (rest : List Task) : (pop s l t rest).alive = s.alive := rfl
@[simp] theorem pop_trace (s : Srv) (l : Nat) (t : Task) (rest : List Task) : (pop s l t rest).trace = s.trace := rfl
@[simp] theorem pop_L (s : Srv) (l : Nat) (t : Task) (rest : List Task) : (pop s l t rest).L = s.L := rfl
@[simp] theorem pop_n (s : Srv) (l : Nat) (t : Task) (rest : List Task) : (pop s l t rest).n = s.n := rfl
@[simp] theorem pop_nameOf (s : Srv) (l : Nat) (t : Task) (rest : List Task) : (pop s l t rest).nameOf = s.nameOf := rfl
@[simp] theorem pop_inMap (s : Srv) (l : Nat) (t : Task) (rest : List Task) (c : Nat) : (pop s l t rest).inMap c = s.inMap c := rfl
theorem pop_q (s : Srv) (l : Nat) (t : Task) (rest : List Task) (l' : Nat) :
    (pop s l t rest).q l' = if l' = l then rest else s.q l' := rfl
@[simp] theorem pop_q_self (s : Srv) (l : Nat) (t : Task) (rest : List Task) : (pop s l t rest).q l = rest := by simp [pop]

theorem mem_pop {s : Srv} {l : Nat} {t : Task} {rest : List Task} (hq : s.q l = t :: rest) {u : Task} {l' : Nat}
    (h : u ∈ (pop s l t rest).q l') : u ∈ s.q l' := by
  rw [pop_q] at h; split at h
  · rename_i h'; subst h'; rw [hq]; exact List.mem_cons_of_mem _ h
  · exact h

theorem held_of_mem {s : Srv} {c l : Nat} {t : Task} (h : t ∈ s.q l) (ht : t.holds c = true) (hl : l ≤ s.L) : s.held c = true := by
  unfold Srv.held Srv.inQueues
  have : (List.range (s.L + 1)).any (fun l => (s.q l).any (·.holds c) || (s.done l).any (·.holds c)) = true := by
    rw [List.any_eq_true]
    exact ⟨l, List.mem_range.mpr (by omega), by rw [Bool.or_eq_true]; left; exact List.any_eq_true.mpr ⟨t, h, ht⟩⟩
  simp [this]

theorem inQueues_pop (s : Srv) (c l : Nat) (t : Task) (rest : List Task) (hq : s.q l = t :: rest) :
    (pop s l t rest).inQueues c = s.inQueues c := by
  unfold Srv.inQueues
  have : ∀ l', (((pop s l t rest).q l').any (·.holds c) || ((pop s l t rest).done l').any (·.holds c)) =
      ((s.q l').any (·.holds c) || (s.done l').any (·.holds c)) := by
    intro l'
    simp only [pop]; split
    · rename_i h'; subst h'; simp [hq, List.any_append, Bool.or_comm, Bool.or_assoc, Bool.or_left_comm]
    · rfl
  simp only [this]
  rfl

@[simp] theorem setConn_inQueues (s : Srv) (c : Nat) (C : Conn) (c' : Nat) : (s.setConn c C).inQueues c' = s.inQueues c' := rfl
@[simp] theorem emit_inQueues (s : Srv) (c : Nat) (k : Kind) (l c' : Nat) : (s.emit c k l).inQueues c' = s.inQueues c' := rfl

@[simp] theorem emit_held (s : Srv) (c' : Nat) (k : Kind) (l c : Nat) : (s.emit c' k l).held c = s.held c := rfl

theorem cinv_est (s : Srv) (l c : Nat) (rest : List Task) (hq : s.q l = .est c :: rest) (hc : CInv s c) :
    CInv (runTask (pop s l (.est c) rest) l (.est c)) c := by
  have hl : l = (s.conn c).loop := by
    apply Decidable.byContradiction; intro h; exact ((hc.core.stray l).1 h).1 (hq ▸ List.mem_cons_self)
  have hio : ioQ s c = .est c :: rest.filter (isIo c) := by
    unfold ioQ; rw [← hl, hq]; simp [List.filter, isIo]
  have hheld : s.held c = true := held_of_mem (hq ▸ List.mem_cons_self) (by simp [Task.holds]) (hl ▸ hc.core.loop_le)
  have halive : (s.conn c).alive = true := hc.alive_held.trans hheld
  have hst : (s.conn c).st = .kConnecting ∧ (s.conn c).registered = false ∧ (s.conn c).loop ≠ 0 := by
    have := hc.core.row; unfold RowP at this; rw [hio] at this
    rcases this with r|r|r|r|r|r|r|r|r <;> simp_all
  obtain ⟨hst, hreg, hl0⟩ := hst
  have hrun : runTask (pop s l (.est c) rest) l (.est c) =
      ((pop s l (.est c) rest).setConn c { s.conn c with st := .kConnected, registered := true }).emit c .up l := by
    simp [runTask, connectEstablished, hl, hst]
  rw [hrun]
  have hio' : ioQ (((pop s l (.est c) rest).setConn c { s.conn c with st := .kConnected, registered := true }).emit c .up l) c
      = rest.filter (isIo c) := by
    unfold ioQ; simp [hl]
  have hrem' : remN (((pop s l (.est c) rest).setConn c { s.conn c with st := .kConnected, registered := true }).emit c .up l) c
      = remN s c := by
    unfold remN; simp [pop_q, hl, hl0.symm]
  refine ⟨⟨?_, ?_, ?_, ?_, ?_, ?_, ?_⟩, ?_, ?_⟩
  · simpa using hc.core.loop_le
  · intro l'
    have := hc.core.stray l'
    simp only [emit_q, setConn_q, emit_conn, setConn_conn_self]
    refine ⟨fun h => ?_, fun h => ?_⟩
    · obtain ⟨h1, h2, h3⟩ := this.1 h
      exact ⟨fun m => h1 (mem_pop hq m), fun m => h2 (mem_pop hq m), fun m => h3 (mem_pop hq m)⟩
    · exact fun m => this.2 h (mem_pop hq m)
  · have := hc.core.row; unfold RowP at this ⊢; rw [hio', hrem']; rw [hio] at this
    simp only [emit_conn, setConn_conn_self, emit_alive, setConn_alive, pop_alive, inMap_emit, inMap_setConn, pop_inMap]
    rcases this with r|r|r|r|r|r|r|r|r <;> simp_all [isUp]
  · simp
  · simpa using hc.core.fd
  · simpa using hc.core.name
  · obtain ⟨a, ha, hb, hcb, hd, hdead, her⟩ := hc.core.life
    refine ⟨{ a with cb := .up }, ?_, hb, ?_, ?_, ?_, ?_⟩
    · simp only [emit_trace, setConn_trace, pop_trace, life_snoc, lifeStep, ha, if_true, Option.bind_some]
      simp [autoStep, hb, hcb, hst, clsOf, hdead, halive]
    · simp [clsOf]
    · simp [hd, hreg, hst]
    · simpa using hdead
    · simpa using her
  · simp only [emit_conn, setConn_conn_self, emit_held]
    have := hc.alive_held
    unfold Srv.held at this ⊢
    simpa [inQueues_pop s c l _ rest hq] using this
  · intro hcause
    have := hc.cause (by simpa using hcause)
    simp only [emit_q, setConn_q, emit_conn, setConn_conn_self, ← hl, pop_q_self]
    rw [← hl, hq] at this
    simp_all


theorem stray_sub {s s' : Srv} {c : Nat} (hl : (s'.conn c).loop = (s.conn c).loop)
    (hsub : ∀ l' u, u ∈ s'.q l' → u ∈ s.q l') (h : Stray s c) : Stray s' c := by
  intro l'
  rw [hl]
  refine ⟨fun hne => ?_, fun hne => ?_⟩
  · obtain ⟨h1, h2, h3⟩ := (h l').1 hne
    exact ⟨fun m => h1 (hsub _ _ m), fun m => h2 (hsub _ _ m), fun m => h3 (hsub _ _ m)⟩
  · exact fun m => (h l').2 hne (hsub _ _ m)

theorem life_emit_self (s : Srv) (c : Nat) (k : Kind) (l : Nat) :
    life c (s.emit c k l).trace = (life c s.trace).bind (fun a => autoStep a k) := by
  simp [life_snoc, lifeStep]

theorem remN_pop_ne (s : Srv) (l c : Nat) (t : Task) (rest : List Task) (hq : s.q l = t :: rest) (ht : t ≠ .rem c) :
    ((pop s l t rest).q 0).count (.rem c) = remN s c := by
  unfold remN; rw [pop_q]; split
  · rename_i h; subst h; rw [hq]; simp [List.count_cons, ht]
  · rfl

theorem cinv_des (s : Srv) (l c : Nat) (rest : List Task) (hq : s.q l = .des c :: rest) (hc : CInv s c) :
    CInv (runTask (pop s l (.des c) rest) l (.des c)) c := by
  have hl : l = (s.conn c).loop := by
    apply Decidable.byContradiction; intro h; exact ((hc.core.stray l).1 h).2.1 (hq ▸ List.mem_cons_self)
  have hio : ioQ s c = .des c :: rest.filter (isIo c) := by
    unfold ioQ; rw [← hl, hq]; simp [List.filter, isIo]
  have hheld : s.held c = true := held_of_mem (hq ▸ List.mem_cons_self) (by simp [Task.holds]) (hl ▸ hc.core.loop_le)
  have halive : (s.conn c).alive = true := hc.alive_held.trans hheld
  have hrow := hc.core.row
  unfold RowP at hrow; rw [hio] at hrow
  have hreg : (s.conn c).registered = true ∧ (s.conn c).st ≠ .kConnecting ∧ s.inMap c = false ∧ rest.filter (isIo c) = [] := by
    rcases hrow with r|r|r|r|r|r|r|r|r <;> grind [isUp]
  obtain ⟨hreg, hst, him, hrest⟩ := hreg
  obtain ⟨a, ha, hb, hcb, hd, hdead, her⟩ := hc.core.life
  have hsub : ∀ l' u, u ∈ (pop s l (.des c) rest).q l' → u ∈ s.q l' := fun _ _ m => mem_pop hq m
  have hremq := remN_pop_ne s l c (.des c) rest hq (by simp)
  have hah := hc.alive_held
  unfold Srv.held at hah
  by_cases hup : destroyedWhileConnected (s.conn c).st
  · -- still up: DOWN is reported here
    have hrun : runTask (pop s l (.des c) rest) l (.des c) =
        (((pop s l (.des c) rest).setConn c { s.conn c with st := .kDisconnected, registered := false }).emit c .down l).emit c .destroyed l := by
      simp [runTask, connectDestroyed, hl, hreg, hup]
    rw [hrun]
    have hisup : isUp (s.conn c).st = true := by
      unfold destroyedWhileConnected at hup; rcases hup with h | h <;> simp [isUp, h]
    refine ⟨⟨?_, ?_, ?_, ?_, ?_, ?_, ?_⟩, ?_, ?_⟩
    · simpa using hc.core.loop_le
    · exact stray_sub (by simp) (by simpa using hsub) hc.core.stray
    · unfold RowP ioQ remN
      simp only [emit_conn, setConn_conn_self, emit_q, setConn_q, emit_alive, setConn_alive, pop_alive, inMap_emit, inMap_setConn, pop_inMap, ← hl, pop_q_self, hrest, hremq]
      rcases hrow with r|r|r|r|r|r|r|r|r <;> grind [isUp]
    · simp
    · simpa using hc.core.fd
    · simpa using hc.core.name
    · refine ⟨{ a with cb := .down, destroyed := true }, ?_, hb, ?_, ?_, ?_, ?_⟩
      · simp only [emit_trace, setConn_trace, pop_trace, life_snoc, lifeStep, ha, if_true, Option.bind_some]
        have : a.cb = .up := by rw [hcb]; cases hs : (s.conn c).st <;> simp_all [clsOf, isUp]
        simp [autoStep, this, hdead, halive, hd, hreg]
      · simp [clsOf]
      · simp
      · simpa using hdead
      · simpa using her
    · unfold Srv.held
      simpa [inQueues_pop s c l _ rest hq] using hah
    · simp
  · have hdisc : (s.conn c).st = .kDisconnected := by
      unfold destroyedWhileConnected at hup
      cases hs : (s.conn c).st <;> simp_all
    have hrun : runTask (pop s l (.des c) rest) l (.des c) =
        ((pop s l (.des c) rest).setConn c { s.conn c with registered := false }).emit c .destroyed l := by
      simp [runTask, connectDestroyed, hl, hreg, hup]
    rw [hrun]
    refine ⟨⟨?_, ?_, ?_, ?_, ?_, ?_, ?_⟩, ?_, ?_⟩
    · simpa using hc.core.loop_le
    · exact stray_sub (by simp) (by simpa using hsub) hc.core.stray
    · unfold RowP ioQ remN
      simp only [emit_conn, setConn_conn_self, emit_q, setConn_q, emit_alive, setConn_alive, pop_alive, inMap_emit, inMap_setConn, pop_inMap, ← hl, pop_q_self, hrest, hremq]
      rcases hrow with r|r|r|r|r|r|r|r|r <;> grind [isUp]
    · simp [hdisc]
    · simpa using hc.core.fd
    · simpa using hc.core.name
    · refine ⟨{ a with destroyed := true }, ?_, hb, ?_, ?_, ?_, ?_⟩
      · simp only [emit_trace, setConn_trace, pop_trace, life_snoc, lifeStep, ha, if_true, Option.bind_some]
        have : a.cb = .down := by rw [hcb, hdisc]; rfl
        simp [autoStep, this, hdead, halive, hd, hreg]
      · simpa using hcb
      · simp [hdisc]
      · simpa using hdead
      · simpa using her
    · unfold Srv.held
      simpa [inQueues_pop s c l _ rest hq] using hah
    · simp [hdisc]

end MuduoVerif.Owner
