import MuduoVerif.Model.Pool
/-!
Lemmas about the loop selection of `EventLoopThreadPool` (model: `Model/Pool.lean`, whose guards,
subscripts and cursor update are the generated definitions of `Generated/Pool.lean`).

All statements are for every pool size `n`, every number of calls and every hash value; they are
proved by induction / arithmetic over the generated definitions, so a change of the source that
alters the selection makes them fail to check.
-/
namespace MuduoVerif.Pool
open MuduoVerif.Gen.Pool

/-! ### the cursor -/

/-- the cursor is a valid subscript of `loops_` whenever there are loops -/
def Inv (p : Pool) : Prop := 0 < p.n → p.next < p.n

/-- the generated cursor update is "add one modulo the size" on valid cursors -/
theorem nextCursor_eq (next n : Nat) (h : next < n) : nextCursor next n = (next + 1) % n := by
  unfold nextCursor
  by_cases h1 : next + 1 ≥ n
  · have h2 : next + 1 = n := by omega
    simp [h2]
  · have h2 : next + 1 < n := by omega
    simp [h1, Nat.mod_eq_of_lt h2]

theorem nextCursor_lt (next n : Nat) (h : next < n) : nextCursor next n < n := by
  rw [nextCursor_eq next n h]; exact Nat.mod_lt _ (by omega)

/-! ### `getNextLoop`, one call -/

/-- no worker threads: the base loop, nothing changes -/
theorem getNextLoop_zero (p : Pool) (h : p.n = 0) : getNextLoop p = (.base, p) := by
  simp [getNextLoop, nextGuard, h]

/-- with worker threads and a valid cursor: `loops_[next_]`, and the cursor advances modulo `n` -/
theorem getNextLoop_pos (p : Pool) (h : p.next < p.n) :
    getNextLoop p = (.worker p.next, ⟨p.n, (p.next + 1) % p.n⟩) := by
  have hn : p.n ≠ 0 := by omega
  simp [getNextLoop, nextGuard, hn, nextIndex, subscript, h, nextCursor_eq p.next p.n h]

/-- `getNextLoop` never changes the set of loops -/
theorem getNextLoop_n (p : Pool) : (getNextLoop p).2.n = p.n := by
  unfold getNextLoop; split <;> rfl

theorem inv_start (n : Nat) : Inv (start n) := by
  intro h; simpa [start, initialNext] using h

/-- the invariant `next < n` is preserved by `getNextLoop` -/
theorem inv_getNextLoop (p : Pool) (h : Inv p) : Inv (getNextLoop p).2 := by
  intro hn
  rw [getNextLoop_n] at hn
  have hp := h hn
  rw [getNextLoop_pos p hp]
  exact Nat.mod_lt _ hn

theorem afterNext_n (p : Pool) (k : Nat) : (afterNext p k).n = p.n := by
  induction k generalizing p with
  | zero => rfl
  | succ k ih => simp [afterNext, ih, getNextLoop_n]

/-- … and therefore by any number of calls -/
theorem inv_afterNext (p : Pool) (h : Inv p) (k : Nat) : Inv (afterNext p k) := by
  induction k generalizing p with
  | zero => exact h
  | succ k ih => exact ih _ (inv_getNextLoop p h)

/-- the state after `k` calls from a valid state -/
theorem afterNext_eq (p : Pool) (h : p.next < p.n) (k : Nat) :
    afterNext p k = ⟨p.n, (p.next + k) % p.n⟩ := by
  induction k generalizing p with
  | zero => simp [afterNext, Nat.mod_eq_of_lt h]
  | succ k ih =>
    have hn : 0 < p.n := by omega
    simp only [afterNext, getNextLoop_pos p h]
    rw [ih ⟨p.n, (p.next + 1) % p.n⟩ (Nat.mod_lt _ hn)]
    simp only [Nat.mod_add_mod]
    congr 2; omega

/-- the state after `k` calls from `start n` -/
theorem afterNext_start (n k : Nat) (hn : 0 < n) : afterNext (start n) k = ⟨n, k % n⟩ := by
  have := afterNext_eq (start n) (by simpa [start, initialNext] using hn) k
  simpa [start, initialNext] using this

theorem afterNext_zero (p : Pool) (h : p.n = 0) (k : Nat) : afterNext p k = p := by
  induction k with
  | zero => rfl
  | succ k ih => simp [afterNext, getNextLoop_zero p h, ih]

/-! ### `getNextLoop`, `k` successive calls: round robin -/

theorem nextSeq_length (p : Pool) (k : Nat) : (nextSeq p k).length = k := by
  induction k generalizing p with
  | zero => rfl
  | succ k ih => simp [nextSeq, ih]

/-- from any valid state: the `i`-th result (0-based) is `loops_[(next_ + i) % n]` -/
theorem nextSeq_get_from (p : Pool) (h : p.next < p.n) (k i : Nat) (hi : i < k) :
    (nextSeq p k)[i]? = some (.worker ((p.next + i) % p.n)) := by
  induction k generalizing p i with
  | zero => omega
  | succ k ih =>
    have hn : 0 < p.n := by omega
    cases i with
    | zero => simp [nextSeq, getNextLoop_pos p h, Nat.mod_eq_of_lt h]
    | succ i =>
      simp only [nextSeq, getNextLoop_pos p h, List.getElem?_cons_succ]
      rw [ih ⟨p.n, (p.next + 1) % p.n⟩ (Nat.mod_lt _ hn) i (by omega)]
      simp only [Nat.mod_add_mod]
      congr 3; omega

/-- **round robin**: the `i`-th (0-based) of `k` successive `getNextLoop` calls after `start` with
`n > 0` worker threads is worker `i % n` -/
theorem nextSeq_get (n k i : Nat) (hn : 0 < n) (hi : i < k) :
    (nextSeq (start n) k)[i]? = some (.worker (i % n)) := by
  have := nextSeq_get_from (start n) (by simpa [start, initialNext] using hn) k i hi
  simpa [start, initialNext] using this

/-- without worker threads every call answers with the base loop -/
theorem nextSeq_get_zero (p : Pool) (h : p.n = 0) (k i : Nat) (hi : i < k) :
    (nextSeq p k)[i]? = some .base := by
  induction k generalizing i with
  | zero => omega
  | succ k ih =>
    cases i with
    | zero => simp [nextSeq, getNextLoop_zero p h]
    | succ i =>
      simp only [nextSeq, getNextLoop_zero p h, List.getElem?_cons_succ]
      exact ih i (by omega)

/-- the whole sequence at once, `n > 0` -/
theorem nextSeq_eq (n k : Nat) (hn : 0 < n) :
    nextSeq (start n) k = (List.range k).map (fun i => LoopRef.worker (i % n)) := by
  apply List.ext_getElem?
  intro i
  by_cases hi : i < k
  · rw [nextSeq_get n k i hn hi]; simp [hi]
  · have h1 : (nextSeq (start n) k).length ≤ i := by rw [nextSeq_length]; omega
    rw [List.getElem?_eq_none h1]; simp [hi]

/-- the whole sequence at once, `n = 0` -/
theorem nextSeq_eq_zero (k : Nat) : nextSeq (start 0) k = List.replicate k LoopRef.base := by
  apply List.ext_getElem?
  intro i
  by_cases hi : i < k
  · rw [nextSeq_get_zero (start 0) rfl k i hi]; simp [hi]
  · have h1 : (nextSeq (start 0) k).length ≤ i := by rw [nextSeq_length]; omega
    rw [List.getElem?_eq_none h1]; simp [hi]

/-- a call never leaves `loops_`: every result is the base loop (only if `n = 0`) or a worker `< n` -/
theorem nextSeq_in_range (n k : Nat) (r : LoopRef) (hr : r ∈ nextSeq (start n) k) :
    (n = 0 ∧ r = .base) ∨ (∃ i, i < n ∧ r = .worker i) := by
  obtain ⟨i, hi, rfl⟩ := List.getElem_of_mem hr
  have hik : i < k := by simpa [nextSeq_length] using hi
  by_cases hn : 0 < n
  · right
    have := nextSeq_get n k i hn hik
    rw [List.getElem?_eq_getElem hi] at this
    exact ⟨i % n, Nat.mod_lt _ hn, Option.some.inj this⟩
  · left
    have h0 : n = 0 := by omega
    subst h0
    have := nextSeq_get_zero (start 0) rfl k i hik
    rw [List.getElem?_eq_getElem hi] at this
    exact ⟨rfl, Option.some.inj this⟩

/-! ### windows of `n` consecutive calls -/

/-- residues of two different positions less than `n` apart differ -/
theorem mod_ne_of_window (n i j : Nat) (hij : i < j) (hjn : j < i + n) : i % n ≠ j % n := by
  intro h
  have h1 : (j - i) % n = 0 := Nat.sub_mod_eq_zero_of_mod_eq h.symm
  have h2 : (j - i) % n = j - i := Nat.mod_eq_of_lt (by omega)
  omega

/-- **distinctness**: two different calls less than `n` apart get different loops, i.e. any window of
`n` consecutive calls hands out `n` distinct loops -/
theorem window_distinct (n k i j : Nat) (hn : 0 < n) (hij : i < j) (hjn : j < i + n) (hjk : j < k) :
    (nextSeq (start n) k)[i]? ≠ (nextSeq (start n) k)[j]? := by
  rw [nextSeq_get n k i hn (by omega), nextSeq_get n k j hn hjk]
  intro h
  exact mod_ne_of_window n i j hij hjn (LoopRef.worker.inj (Option.some.inj h))

/-- **coverage**: every worker is chosen in every window of `n` consecutive calls -/
theorem window_covers (n k i w : Nat) (hw : w < n) (hik : i + n ≤ k) :
    ∃ j, i ≤ j ∧ j < i + n ∧ (nextSeq (start n) k)[j]? = some (.worker w) := by
  have hn : 0 < n := by omega
  have hr : i % n < n := Nat.mod_lt _ hn
  refine ⟨i + (w + n - i % n) % n, by omega, ?_, ?_⟩
  · have := Nat.mod_lt (w + n - i % n) hn; omega
  · have hlt : i + (w + n - i % n) % n < k := by
      have := Nat.mod_lt (w + n - i % n) hn; omega
    rw [nextSeq_get n k _ hn hlt]
    congr 2
    rw [Nat.add_mod, Nat.mod_mod, Nat.add_mod_mod]
    have : i % n + (w + n - i % n) = w + n := by omega
    rw [this, Nat.add_mod_right, Nat.mod_eq_of_lt hw]

/-- the same loop comes back exactly every `n` calls -/
theorem nextSeq_periodic (n k i : Nat) (hn : 0 < n) (hi : i + n < k) :
    (nextSeq (start n) k)[i + n]? = (nextSeq (start n) k)[i]? := by
  rw [nextSeq_get n k (i + n) hn hi, nextSeq_get n k i hn (by omega), Nat.add_mod_right]

/-! ### `getLoopForHash` -/

/-- `getLoopForHash` with worker threads: worker `h % n` (in range, never the base loop) -/
theorem hash_eq (p : Pool) (h : Nat) (hn : 0 < p.n) : getLoopForHash p h = .worker (h % p.n) := by
  have hn' : p.n ≠ 0 := by omega
  simp [getLoopForHash, hashGuard, hn', hashIndex, subscript, Nat.mod_lt _ hn]

/-- `getLoopForHash` without worker threads: the base loop -/
theorem hash_eq_zero (p : Pool) (h : Nat) (hn : p.n = 0) : getLoopForHash p h = .base := by
  simp [getLoopForHash, hashGuard, hn]

/-- the answer depends on the hash value and the number of loops only: equal hashes (even equal
residues) get the same loop whatever `getNextLoop` did in between -/
theorem hash_congr (p q : Pool) (h₁ h₂ : Nat) (hpq : p.n = q.n) (hh : h₁ % p.n = h₂ % p.n) :
    getLoopForHash p h₁ = getLoopForHash q h₂ := by
  by_cases hn : 0 < p.n
  · rw [hash_eq p h₁ hn, hash_eq q h₂ (by omega), ← hpq, hh]
  · rw [hash_eq_zero p h₁ (by omega), hash_eq_zero q h₂ (by omega)]

/-- `getLoopForHash` is stable across any number of `getNextLoop` calls -/
theorem hash_stable (p : Pool) (h k : Nat) : getLoopForHash (afterNext p k) h = getLoopForHash p h :=
  hash_congr _ _ h h (afterNext_n p k) rfl

/-- different residues get different loops (the hash spreads over all `n` loops) -/
theorem hash_injective (p : Pool) (h₁ h₂ : Nat) (hn : 0 < p.n)
    (he : getLoopForHash p h₁ = getLoopForHash p h₂) : h₁ % p.n = h₂ % p.n := by
  rw [hash_eq p h₁ hn, hash_eq p h₂ hn] at he
  exact LoopRef.worker.inj he

/-! ### `getAllLoops` -/

theorem allLoops_zero (p : Pool) (hn : p.n = 0) : getAllLoops p = [.base] := by
  simp [getAllLoops, allEmpty, hn, allBaseCount]

theorem allLoops_pos (p : Pool) (hn : 0 < p.n) : getAllLoops p = (List.range p.n).map .worker := by
  have hn' : p.n ≠ 0 := by omega
  simp [getAllLoops, allEmpty, hn']

/-- `getAllLoops`: the base loop alone for an empty pool, otherwise the workers in creation order -/
theorem allLoops (p : Pool) :
    getAllLoops p = if p.n = 0 then [.base] else (List.range p.n).map .worker := by
  by_cases hn : p.n = 0
  · simp [allLoops_zero p hn, hn]
  · simp [allLoops_pos p (by omega), hn]

/-- what `getNextLoop` and `getLoopForHash` hand out is always a member of `getAllLoops` -/
theorem next_mem_allLoops (p : Pool) (h : Inv p) : (getNextLoop p).1 ∈ getAllLoops p := by
  by_cases hn : p.n = 0
  · simp [getNextLoop_zero p hn, allLoops_zero p hn]
  · have hp := h (by omega)
    rw [getNextLoop_pos p hp, allLoops_pos p (by omega)]
    simp only [List.mem_map, List.mem_range]
    exact ⟨p.next, hp, rfl⟩

theorem hash_mem_allLoops (p : Pool) (h : Nat) : getLoopForHash p h ∈ getAllLoops p := by
  by_cases hn : p.n = 0
  · simp [hash_eq_zero p h hn, allLoops_zero p hn]
  · rw [hash_eq p h (by omega), allLoops_pos p (by omega)]
    simp only [List.mem_map, List.mem_range]
    exact ⟨h % p.n, Nat.mod_lt _ (by omega), rfl⟩

/-- the hypotheses above are satisfiable in a non-trivial way: three workers, seven calls -/
example : nextSeq (start 3) 7 = [.worker 0, .worker 1, .worker 2, .worker 0, .worker 1, .worker 2, .worker 0] := by
  decide

end MuduoVerif.Pool
