import MuduoVerif.Proofs.TimerCancelTr
/-! The invariant behind C07 `cancel_final`: once a cancel of a registered timer has been processed, the timer is dead,
or it sits in the batch being run, remembered in `cancelingTimers_`. -/
namespace MuduoVerif.Timer
open MuduoVerif.Gen.Timer

/-- no live `Timer` has the sequence number `q` -/
def Dead (q : Nat) (s : TQ) : Prop := ∀ x c, s.heap x = some c → c.seq ≠ q

/-- `T`: addresses of the batch whose callback has not run yet, `Dn`: those whose callback ran (not yet reset) -/
structure CFq (a : Addr) (q : Nat) (s : TQ) (T Dn : List Addr) : Prop where
  reg : regB a q s.trace = true → q ≤ s.numCreated ∧
    (Dead q s ∨ ∃ c, s.heap a = some c ∧ c.seq = q ∧ ((a, q) ∈ s.active ∨ a ∈ T ∨ a ∈ Dn))
  out : markOut true a q s.trace = true → Dead q s ∧ q ≤ s.numCreated ∧
    after (markOut true a q) (isRunOf q) s.trace = 0 ∧ after (markOut true a q) (isRestartOf q) s.trace = 0
  all : markAll true a q s.trace = true → after (markAll true a q) (isRestartOf q) s.trace = 0 ∧
    ((Dead q s ∧ after (markAll true a q) (isRunOf q) s.trace ≤ 1) ∨
     (∃ c, s.heap a = some c ∧ c.seq = q ∧ (a, q) ∈ s.cancelling ∧
        ((a ∈ T ∧ after (markAll true a q) (isRunOf q) s.trace = 0) ∨
         (a ∈ Dn ∧ after (markAll true a q) (isRunOf q) s.trace ≤ 1))))

variable {a : Addr} {q : Nat} {s s' : TQ} {T Dn T' Dn' : List Addr}

/-- a step that says nothing new about (a, q) in the trace and creates no cell with an old sequence number -/
theorem CFq.state (h : CFq a q s T Dn) (htr : TrSame a q s.trace s'.trace)
    (hreg : regB a q s'.trace = true → regB a q s.trace = true ∨
      (q ≤ s'.numCreated ∧ ∃ c', s'.heap a = some c' ∧ c'.seq = q ∧ ((a, q) ∈ s'.active ∨ a ∈ T' ∨ a ∈ Dn')))
    (hn : s.numCreated ≤ s'.numCreated)
    (hnew : ∀ x c', s'.heap x = some c' → c'.seq = q → q ≤ s.numCreated → ∃ c, s.heap x = some c ∧ c.seq = q)
    (hact : ∀ c, s.heap a = some c → c.seq = q → ((a, q) ∈ s.active ∨ a ∈ T ∨ a ∈ Dn) →
      Dead q s' ∨ ∃ c', s'.heap a = some c' ∧ c'.seq = q ∧ ((a, q) ∈ s'.active ∨ a ∈ T' ∨ a ∈ Dn'))
    (hcan : ∀ c, s.heap a = some c → c.seq = q → (a, q) ∈ s.cancelling → (a ∈ T ∨ a ∈ Dn) →
      Dead q s' ∨ ∃ c', s'.heap a = some c' ∧ c'.seq = q ∧ (a, q) ∈ s'.cancelling ∧ (a ∈ T → a ∈ T') ∧ (a ∈ Dn → a ∈ Dn')) :
    CFq a q s' T' Dn' := by
  have dead : q ≤ s.numCreated → Dead q s → Dead q s' := by
    intro hq hd x c' hx hs
    obtain ⟨c, h1, h2⟩ := hnew x c' hx hs hq
    exact hd x c h1 h2
  refine ⟨?_, ?_, ?_⟩
  · intro hr
    rcases hreg hr with hr | ⟨hq, hr⟩
    · obtain ⟨h1, h2⟩ := h.reg hr
      refine ⟨Nat.le_trans h1 hn, ?_⟩
      rcases h2 with h2 | ⟨c, g1, g2, g3⟩
      · exact Or.inl (dead h1 h2)
      · exact hact c g1 g2 g3
    · exact ⟨hq, Or.inr hr⟩
  · rw [htr.mout, htr.o_run, htr.o_rst]; intro hm
    obtain ⟨h1, h2, h3, h4⟩ := h.out hm
    exact ⟨dead h2 h1, Nat.le_trans h2 hn, h3, h4⟩
  · rw [htr.mall, htr.a_run, htr.a_rst]; intro hm
    obtain ⟨h1, h2⟩ := h.all hm
    have hq : q ≤ s.numCreated := (h.reg (markAll_imp_reg hm)).1
    refine ⟨h1, ?_⟩
    rcases h2 with ⟨h2, h3⟩ | ⟨c, g1, g2, g3, g4⟩
    · exact Or.inl ⟨dead hq h2, h3⟩
    · have hin : a ∈ T ∨ a ∈ Dn := by
        rcases g4 with ⟨g4, _⟩ | ⟨g4, _⟩
        · exact Or.inl g4
        · exact Or.inr g4
      rcases hcan c g1 g2 g3 hin with hd | ⟨c', k1, k2, k3, k4, k5⟩
      · refine Or.inl ⟨hd, ?_⟩
        rcases g4 with ⟨_, g4⟩ | ⟨_, g4⟩
        · omega
        · exact g4
      · refine Or.inr ⟨c', k1, k2, k3, ?_⟩
        rcases g4 with ⟨g4, g5⟩ | ⟨g4, g5⟩
        · exact Or.inl ⟨k4 g4, g5⟩
        · exact Or.inr ⟨k5 g4, g5⟩

/-- nothing the invariant reads changed, the trace grew by events that are silent about (a, q) -/
theorem CFq.same (h : CFq a q s T Dn) (htr : TrSame a q s.trace s'.trace) (hreg : regB a q s'.trace = regB a q s.trace)
    (hn : s.numCreated ≤ s'.numCreated)
    (hh : s'.heap = s.heap) (ha : s'.active = s.active) (hc : s'.cancelling = s.cancelling) : CFq a q s' T Dn :=
  h.state htr (fun hr => Or.inl (by rw [← hreg]; exact hr)) hn (fun x c' hx hs _ => ⟨c', by rw [← hh]; exact hx, hs⟩)
    (fun c g1 g2 g3 => Or.inr ⟨c, by rw [hh]; exact g1, g2, by rw [ha]; exact g3⟩)
    (fun c g1 g2 g3 _ => Or.inr ⟨c, by rw [hh]; exact g1, g2, by rw [hc]; exact g3, id, id⟩)


def CF (s : TQ) (T Dn : List Addr) : Prop := ∀ a q, CFq a q s T Dn

variable {B : List (Time × Addr)} {L : List Addr}

theorem CF.emit_silent (h : CF s T Dn) (ev : Ev) (hs : ∀ a q, Silent a q ev) : CF (emit s ev) T Dn :=
  fun a q => (h a q).same (TrSame.silent (hs a q).weak _) (regB_silent (hs a q) _) (Nat.le_refl _) rfl rfl rfl

theorem CF.frame (h : CF s T Dn) (f : Frame s s') : CF s' T Dn :=
  fun a q => (h a q).same (by rw [f.trace]; exact TrSame.refl _ _ _) (by rw [f.trace]) (by rw [f.numCreated]) f.heap f.active
    f.cancelling

theorem CF.armFd (h : CF s T Dn) (w : Time) : CF (armFd s w) T Dn :=
  fun a q => (h a q).same (by rw [armFd_trace]; exact TrSame.silent (silent_arm a q _ _).weak _)
    (by rw [armFd_trace]; exact regB_silent (silent_arm a q _ _) _) (by rw [armFd_numCreated]) (armFd_heap s w)
    (armFd_active s w) (armFd_cancelling s w)

theorem CF.bindId (h : CF s T Dn) (name : Nat) (x : Addr) (y : Nat) : CF (bindId s name x y) T Dn :=
  fun a q => (h a q).same (TrSame.silent (silent_added a q _ _ _).weak _) (regB_silent (silent_added a q _ _ _) _)
    (Nat.le_refl _) rfl rfl rfl

theorem CF.alloc {a0 : Addr} {c0 : Cell} (h : CF s T Dn) (hf : s.heap a0 = none) (hs : c0.seq = s.numCreated + 1) :
    CF (allocCell s a0 c0) T Dn := by
  intro a q
  refine (h a q).state (TrSame.refl _ _ _) (fun hr => Or.inl hr) (by show s.numCreated ≤ c0.seq; omega) ?_ ?_ ?_
  · intro x c' hx hq hle
    by_cases hxa : x = a0
    · subst hxa
      have : some c0 = some c' := by rw [← hset_same s.heap x c0]; exact hx
      cases this; omega
    · exact ⟨c', by rw [← hset_other s.heap c0 hxa]; exact hx, hq⟩
  · intro c g1 g2 g3
    have : a ≠ a0 := by intro hh; rw [hh, hf] at g1; cases g1
    exact Or.inr ⟨c, by show hset s.heap a0 c0 a = _; rw [hset_other _ _ this]; exact g1, g2, g3⟩
  · intro c g1 g2 g3 _
    have : a ≠ a0 := by intro hh; rw [hh, hf] at g1; cases g1
    exact Or.inr ⟨c, by show hset s.heap a0 c0 a = _; rw [hset_other _ _ this]; exact g1, g2, g3, id, id⟩

theorem silent_registered {a a0 : Addr} {q q0 : Nat} (e : Time) (hne : ¬ (a0 = a ∧ q0 = q)) :
    Silent a q (.registered a0 q0 e) := ⟨by simp [isReg, hne], rfl, rfl, rfl⟩

/-- `addTimerInLoop`: the registration event and the insertion into both sets -/
theorem CF.register {a0 : Addr} {c0 : Cell} (hw : WFp s B L) (h : CF s T Dn) (hc : s.heap a0 = some c0) :
    CF (ins (emit s (.registered a0 c0.seq c0.exp)) a0 c0) T Dn := by
  intro a q
  have htr : TrSame a q s.trace (ins (emit s (.registered a0 c0.seq c0.exp)) a0 c0).trace :=
    TrSame.silent ⟨rfl, rfl, rfl⟩ _
  refine (h a q).state htr ?_ (Nat.le_refl _) (fun x c' hx hs _ => ⟨c', hx, hs⟩)
    (fun c g1 g2 g3 => Or.inr ⟨c, g1, g2, ?_⟩) (fun c g1 g2 g3 _ => Or.inr ⟨c, g1, g2, g3, id, id⟩)
  · intro hr
    by_cases hne : a0 = a ∧ c0.seq = q
    · obtain ⟨rfl, rfl⟩ := hne
      exact Or.inr ⟨(hw.seq_le _ _ hc).2, c0, hc, rfl, Or.inl List.mem_cons_self⟩
    · left
      have : regB a q (Ev.registered a0 c0.seq c0.exp :: s.trace) = true := hr
      rw [regB_silent (silent_registered _ hne)] at this; exact this
  · rcases g3 with g3 | g3
    · exact Or.inl (List.mem_cons_of_mem _ g3)
    · exact Or.inr g3

theorem CF.addInLoop {a0 : Addr} {c0 : Cell} (hw : WFp s B L) (h : CF s T Dn) (hc : s.heap a0 = some c0) :
    CF (Timer.addInLoop s a0) T Dn := by
  rw [addInLoop_eq hc]
  split
  · exact (h.register hw hc).armFd _
  · exact h.register hw hc


/-- the counters are bounded whether or not a cancel has been seen -/
theorem CFq.bounds (h : CFq a q s T Dn) :
    after (markOut true a q) (isRunOf q) s.trace = 0 ∧ after (markOut true a q) (isRestartOf q) s.trace = 0 ∧
    after (markAll true a q) (isRestartOf q) s.trace = 0 ∧ after (markAll true a q) (isRunOf q) s.trace ≤ 1 := by
  refine ⟨?_, ?_, ?_, ?_⟩
  · cases hm : markOut true a q s.trace with
    | true => exact (h.out hm).2.2.1
    | false => exact after_zero_of_not (markOut_mono _ _ _) _ hm
  · cases hm : markOut true a q s.trace with
    | true => exact (h.out hm).2.2.2
    | false => exact after_zero_of_not (markOut_mono _ _ _) _ hm
  · cases hm : markAll true a q s.trace with
    | true => exact (h.all hm).1
    | false => exact after_zero_of_not (markAll_mono _ _ _) _ hm
  · cases hm : markAll true a q s.trace with
    | true =>
      rcases (h.all hm).2 with ⟨_, h1⟩ | ⟨c, _, _, _, ⟨_, h1⟩ | ⟨_, h1⟩⟩
      · exact h1
      · omega
      · exact h1
    | false => rw [after_zero_of_not (markAll_mono _ _ _) _ hm]; omega

theorem silent_cancel {a a0 : Addr} {q q0 : Nat} (ib f : Bool) (hne : ¬ (a0 = a ∧ q0 = q)) :
    Silent a q (.cancel a0 q0 ib f) := ⟨rfl, by simp [isCancel, hne], rfl, rfl⟩

theorem regB_cancel (a : Addr) (q : Nat) (a0 : Addr) (q0 : Nat) (ib f : Bool) (t : List Ev) :
    regB a q (.cancel a0 q0 ib f :: t) = regB a q t := by rw [regB_cons]; rfl

theorem after_cancel {m : List Ev → Bool} (hm : Mono m) (q : Nat) (a0 : Addr) (q0 : Nat) (ib f : Bool) (t : List Ev) :
    after m (isRunOf q) (.cancel a0 q0 ib f :: t) = after m (isRunOf q) t ∧
    after m (isRestartOf q) (.cancel a0 q0 ib f :: t) = after m (isRestartOf q) t :=
  ⟨after_cons_skip hm _ rfl, after_cons_skip hm _ rfl⟩

/-- the cancel found the timer: it is dead from now on -/
theorem CFq.cancel_found (h : CFq a q s T Dn) {ib : Bool} (htr : s'.trace = .cancel a q ib true :: s.trace)
    (hdead : Dead q s') (hle : q ≤ s'.numCreated) : CFq a q s' T Dn := by
  have hb := h.bounds
  have ao := after_cancel (markOut_mono true a q) q a q ib true s.trace
  have aa := after_cancel (markAll_mono true a q) q a q ib true s.trace
  refine ⟨fun _ => ⟨hle, Or.inl hdead⟩, fun _ => ⟨hdead, hle, ?_, ?_⟩, fun _ => ⟨?_, Or.inl ⟨hdead, ?_⟩⟩⟩
  · rw [htr, ao.1]; exact hb.1
  · rw [htr, ao.2]; exact hb.2.1
  · rw [htr, aa.2]; exact hb.2.2.1
  · rw [htr, aa.1]; exact hb.2.2.2

/-- the cancel did not find the timer, inside a batch: remembered -/
theorem CFq.cancel_remember (h : CFq a q s T Dn) (htr : s'.trace = .cancel a q true false :: s.trace)
    (hh : s'.heap = s.heap) (ha : s'.active = s.active) (hn : s'.numCreated = s.numCreated)
    (hc : s'.cancelling = (a, q) :: s.cancelling) (hnf : (a, q) ∉ s.active) : CFq a q s' T Dn := by
  have hb := h.bounds
  have ao := after_cancel (markOut_mono true a q) q a q true false s.trace
  have aa := after_cancel (markAll_mono true a q) q a q true false s.trace
  have dead : Dead q s → Dead q s' := fun hd x c hx => hd x c (by rw [← hh]; exact hx)
  refine ⟨?_, ?_, ?_⟩
  · rw [htr, regB_cancel, hn, hh, ha]; intro hr
    obtain ⟨g0, g⟩ := h.reg hr
    refine ⟨g0, ?_⟩
    rcases g with g | g
    · exact Or.inl (dead g)
    · exact Or.inr g
  · rw [htr, ao.1, ao.2, hn]; intro hmo
    have hmo' : markOut true a q s.trace = true := by simpa [markOut, isCancelFound, isCancelIdle] using hmo
    obtain ⟨g1, g2, _, _⟩ := h.out hmo'
    exact ⟨dead g1, g2, hb.1, hb.2.1⟩
  · rw [htr, aa.1, aa.2, hh, hc]; intro hma
    refine ⟨hb.2.2.1, ?_⟩
    cases hold : markAll true a q s.trace with
    | true =>
      rcases (h.all hold).2 with ⟨g, g'⟩ | ⟨c, g1, g2, g3, g4⟩
      · exact Or.inl ⟨dead g, g'⟩
      · exact Or.inr ⟨c, g1, g2, List.mem_cons_of_mem _ g3, g4⟩
    | false =>
      have hz := after_zero_of_not (markAll_mono true a q) (isRunOf q) hold
      have hr : regB a q s.trace = true := by simpa [markAll, hold, isCancel, qual] using hma
      rcases (h.reg hr).2 with g | ⟨c, g1, g2, g3⟩
      · exact Or.inl ⟨dead g, by omega⟩
      · rcases g3 with g3 | g3 | g3
        · exact absurd g3 hnf
        · exact Or.inr ⟨c, g1, g2, List.mem_cons_self, Or.inl ⟨g3, hz⟩⟩
        · exact Or.inr ⟨c, g1, g2, List.mem_cons_self, Or.inr ⟨g3, by omega⟩⟩

/-- the cancel did not find the timer, outside a batch: if it was ever registered it is dead -/
theorem CFq.cancel_idle (h : CFq a q s [] []) (htr : s'.trace = .cancel a q false false :: s.trace)
    (hh : s'.heap = s.heap) (hn : s'.numCreated = s.numCreated) (hnf : (a, q) ∉ s.active) : CFq a q s' [] [] := by
  have hb := h.bounds
  have ao := after_cancel (markOut_mono true a q) q a q false false s.trace
  have aa := after_cancel (markAll_mono true a q) q a q false false s.trace
  have dead : Dead q s → Dead q s' := fun hd x c hx => hd x c (by rw [← hh]; exact hx)
  have dead_of_reg : regB a q s.trace = true → Dead q s' ∧ q ≤ s.numCreated := by
    intro hr
    obtain ⟨g0, g⟩ := h.reg hr
    rcases g with g | ⟨c, g1, g2, g3⟩
    · exact ⟨dead g, g0⟩
    · rcases g3 with g3 | g3 | g3
      · exact absurd g3 hnf
      · cases g3
      · cases g3
  refine ⟨?_, ?_, ?_⟩
  · rw [htr, regB_cancel, hn]; intro hr
    exact ⟨(dead_of_reg hr).2, Or.inl (dead_of_reg hr).1⟩
  · rw [htr, ao.1, ao.2, hn]; intro hmo
    cases hold : markOut true a q s.trace with
    | true =>
      obtain ⟨g1, g2, _, _⟩ := h.out hold
      exact ⟨dead g1, g2, hb.1, hb.2.1⟩
    | false =>
      have hr : regB a q s.trace = true := by simpa [markOut, hold, isCancelFound, isCancelIdle, qual] using hmo
      exact ⟨(dead_of_reg hr).1, (dead_of_reg hr).2, hb.1, hb.2.1⟩
  · rw [htr, aa.1, aa.2]; intro hma
    refine ⟨hb.2.2.1, Or.inl ⟨?_, hb.2.2.2⟩⟩
    cases hold : markAll true a q s.trace with
    | true => exact (dead_of_reg (markAll_imp_reg hold)).1
    | false =>
      have hr : regB a q s.trace = true := by simpa [markAll, hold, isCancel, qual] using hma
      exact (dead_of_reg hr).1

theorem CF.cancelInLoop (hw : WFp s B L) (hcall : s.calling = false → T = [] ∧ Dn = []) (h : CF s T Dn) (id : TimerId) :
    CF (Timer.cancelInLoop s id) T Dn := by
  have hl : (id.addr, id.seq) ∈ s.active → (s.heap id.addr).isSome := by
    intro hm
    obtain ⟨c, h1, _⟩ := hw.a_live _ hm
    exact isSome_of_eq h1
  rw [cancelInLoop_eq id hl]
  intro a q
  by_cases hne : id.addr = a ∧ id.seq = q
  · -- the cancelled timer itself
    obtain ⟨rfl, rfl⟩ := hne
    split
    · rename_i hm
      obtain ⟨c0, hc0, hq0, _⟩ := hw.a_live _ hm
      have hc0 : s.heap id.addr = some c0 := hc0
      have hq0 : c0.seq = id.seq := hq0
      refine (h id.addr id.seq).cancel_found (ib := s.calling) (by simp [eraseT, emit, hm]) ?_ ?_
      · intro x c hx hs
        obtain ⟨hxa, hx'⟩ := hfree_some hx
        exact hxa (hw.seq_inj x id.addr c c0 hx' hc0 (hs.trans hq0.symm))
      · show id.seq ≤ s.numCreated
        rw [← hq0]; exact (hw.seq_le _ _ hc0).2
    · rename_i hm
      split
      · rename_i hc
        exact (h id.addr id.seq).cancel_remember (by simp [remember, emit, hm, hc]) rfl rfl rfl rfl hm
      · rename_i hc
        have hc' : s.calling = false := by simpa using hc
        obtain ⟨hT, hD⟩ := hcall hc'
        subst hT; subst hD
        exact (h id.addr id.seq).cancel_idle (by simp [emit, hm, hc']) rfl rfl hm
  · -- any other timer
    have hsil : ∀ ib f, Silent a q (.cancel id.addr id.seq ib f) := fun ib f => silent_cancel ib f hne
    split
    · rename_i hm
      obtain ⟨c0, hc0, hq0, _⟩ := hw.a_live _ hm
      have hna : ∀ c, s.heap a = some c → c.seq = q → a ≠ id.addr := by
        intro c g1 g2 hh
        rw [hh, hc0] at g1; cases g1
        exact hne ⟨hh.symm, hq0.symm.trans g2⟩
      refine (h a q).state (TrSame.silent (hsil _ _).weak _) (fun hr => Or.inl ?_) (Nat.le_refl _) ?_ ?_ ?_
      · have : regB a q (Ev.cancel id.addr id.seq s.calling (decide ((id.addr, id.seq) ∈ s.active)) :: s.trace) = true := hr
        rw [regB_silent (hsil _ _)] at this; exact this
      · intro x c' hx hs _
        exact ⟨c', (hfree_some hx).2, hs⟩
      · intro c g1 g2 g3
        have hne' := hna c g1 g2
        refine Or.inr ⟨c, by show hfree s.heap id.addr a = _; rw [hfree_other _ hne']; exact g1, g2, ?_⟩
        rcases g3 with g3 | g3
        · refine Or.inl (List.mem_filter.2 ⟨g3, ?_⟩)
          simp only [ne_eq, decide_eq_true_eq]
          intro hh; exact hne' (Prod.mk.inj hh).1
        · exact Or.inr g3
      · intro c g1 g2 g3 _
        have hne' := hna c g1 g2
        exact Or.inr ⟨c, by show hfree s.heap id.addr a = _; rw [hfree_other _ hne']; exact g1, g2, g3, fun h => h, fun h => h⟩
    · split
      · refine (h a q).state (TrSame.silent (hsil _ _).weak _) (fun hr => Or.inl ?_) (Nat.le_refl _)
          (fun x c' hx hs _ => ⟨c', hx, hs⟩) (fun c g1 g2 g3 => Or.inr ⟨c, g1, g2, g3⟩)
          (fun c g1 g2 g3 _ => Or.inr ⟨c, g1, g2, List.mem_cons_of_mem _ g3, fun h => h, fun h => h⟩)
        have : regB a q (Ev.cancel id.addr id.seq s.calling (decide ((id.addr, id.seq) ∈ s.active)) :: s.trace) = true := hr
        rw [regB_silent (hsil _ _)] at this; exact this
      · exact (h a q).same (TrSame.silent (hsil _ _).weak _) (regB_silent (hsil _ _) _) (Nat.le_refl _) rfl rfl rfl


theorem CF.addL (hw : WFp s B L) (h : CF s T Dn) (name : Nat) (m : Mode) : CF (Timer.addL s name m) T Dn := by
  rcases addL_spec s name m with hf | ⟨s1, a0, c0, h1, h2, h3, h4, _, _, _, h8⟩
  · exact h.frame hf
  · rw [h8]
    exact (((h.frame h1).alloc h2 h4).addInLoop ((hw.frame h1).alloc h2 h3 h4) (allocCell_heap s1 a0 c0)).bindId _ _ _

theorem CF.execAct (hw : WFp s B L) (hcall : s.calling = false → T = [] ∧ Dn = []) (h : CF s T Dn) (act : Act) :
    CF (Timer.execAct s act) T Dn := by
  cases act with
  | add name m => exact h.addL hw name m
  | cancel v => exact h.cancelInLoop hw hcall _

theorem CF.relabel (h : CF s T Dn) (hT : ∀ x, x ∈ T → x ∈ T') (hD : ∀ x, x ∈ Dn → x ∈ Dn') : CF s T' Dn' := by
  intro a q
  refine (h a q).state (TrSame.refl _ _ _) (fun hr => Or.inl hr) (Nat.le_refl _) (fun x c' hx hs _ => ⟨c', hx, hs⟩) ?_ ?_
  · intro c g1 g2 g3
    refine Or.inr ⟨c, g1, g2, ?_⟩
    rcases g3 with g3 | g3 | g3
    · exact Or.inl g3
    · exact Or.inr (Or.inl (hT a g3))
    · exact Or.inr (Or.inr (hD a g3))
  · intro c g1 g2 g3 _
    exact Or.inr ⟨c, g1, g2, g3, hT a, hD a⟩

/-- the callback of the batch entry at `a0` starts -/
theorem CF.run_ev {a0 : Addr} {c0 : Cell} (hw : WFp s B L) (hc : s.heap a0 = some c0) (hnd : a0 ∉ Dn)
    (h : CF s (a0 :: T) Dn) (name k : Nat) (rep : Bool) (first : Time) (delta : Int) (exp now clk : Time) :
    CF (emit s (.run name c0.seq k a0 rep first delta exp now clk)) T (a0 :: Dn) := by
  intro a q
  by_cases hq : c0.seq = q
  · subst hq
    have live : ¬ Dead c0.seq s := fun hd => hd a0 c0 hc rfl
    have at_a0 : ∀ c, s.heap a = some c → c.seq = c0.seq → a = a0 := fun c g1 g2 => hw.seq_inj a a0 c c0 g1 hc g2
    have hreg : regB a c0.seq (emit s (.run name c0.seq k a0 rep first delta exp now clk)).trace = regB a c0.seq s.trace := by
      show regB a c0.seq (_ :: s.trace) = _; rw [regB_cons]; rfl
    have hmo : markOut true a c0.seq (emit s (.run name c0.seq k a0 rep first delta exp now clk)).trace
        = markOut true a c0.seq s.trace := by
      show markOut true a c0.seq (_ :: s.trace) = _; simp [markOut, isCancelFound, isCancelIdle]
    have hma : markAll true a c0.seq (emit s (.run name c0.seq k a0 rep first delta exp now clk)).trace
        = markAll true a c0.seq s.trace := by
      show markAll true a c0.seq (_ :: s.trace) = _; simp [markAll, isCancel]
    refine ⟨?_, ?_, ?_⟩
    · rw [hreg]; intro hr
      obtain ⟨g0, g⟩ := (h a c0.seq).reg hr
      refine ⟨g0, ?_⟩
      rcases g with g | ⟨c, g1, g2, g3⟩
      · exact absurd g live
      · refine Or.inr ⟨c, g1, g2, ?_⟩
        have := at_a0 c g1 g2
        subst this
        rcases g3 with g3 | _ | g3
        · exact Or.inl g3
        · exact Or.inr (Or.inr List.mem_cons_self)
        · exact Or.inr (Or.inr (List.mem_cons_of_mem _ g3))
    · rw [hmo]; intro hm
      exact absurd ((h a c0.seq).out hm).1 live
    · rw [hma]; intro hm
      obtain ⟨g0, g⟩ := (h a c0.seq).all hm
      refine ⟨?_, ?_⟩
      · show after _ _ (_ :: s.trace) = 0
        rw [after_cons_skip (markAll_mono _ _ _) _ rfl]; exact g0
      · rcases g with ⟨g, _⟩ | ⟨c, g1, g2, g3, g4⟩
        · exact absurd g live
        · have := at_a0 c g1 g2
          subst this
          refine Or.inr ⟨c, g1, g2, g3, Or.inr ⟨List.mem_cons_self, ?_⟩⟩
          show after _ _ (_ :: s.trace) ≤ 1
          rw [after_cons_of_mark _ hm]
          rcases g4 with ⟨_, g4⟩ | ⟨g4, _⟩
          · rw [g4]; simp [isRunOf]
          · exact absurd g4 hnd
  · have hsil : Silent a q (.run name c0.seq k a0 rep first delta exp now clk) := ⟨rfl, rfl, by simp [isRunOf, hq], rfl⟩
    have hne : ∀ c, s.heap a = some c → c.seq = q → a ≠ a0 := by
      intro c g1 g2 hh; rw [hh, hc] at g1; cases g1; exact hq g2
    refine (h a q).state (TrSame.silent hsil.weak _) (fun hr => Or.inl ?_) (Nat.le_refl _)
      (fun x c' hx hs _ => ⟨c', hx, hs⟩) ?_ ?_
    · have : regB a q (_ :: s.trace) = true := hr
      rw [regB_silent hsil] at this; exact this
    · intro c g1 g2 g3
      refine Or.inr ⟨c, g1, g2, ?_⟩
      rcases g3 with g3 | g3 | g3
      · exact Or.inl g3
      · rcases List.mem_cons.1 g3 with g3 | g3
        · exact absurd g3 (hne c g1 g2)
        · exact Or.inr (Or.inl g3)
      · exact Or.inr (Or.inr (List.mem_cons_of_mem _ g3))
    · intro c g1 g2 g3 _
      refine Or.inr ⟨c, g1, g2, g3, ?_, fun hh => List.mem_cons_of_mem _ hh⟩
      intro hh
      rcases List.mem_cons.1 hh with hh | hh
      · exact absurd hh (hne c g1 g2)
      · exact hh

theorem CF.runTimer (hw : WFp s B L) (hcall : s.calling = true) {e : Time × Addr} (he : e ∈ B) (hnd : e.2 ∉ Dn)
    (h : CF s (e.2 :: T) Dn) (now : Time) : CF (Timer.runTimer now s e) T (e.2 :: Dn) := by
  obtain ⟨⟨c, hc, _⟩, _⟩ := hw.b_live e he
  rw [runTimer_eq hc]
  have h0 := h.run_ev hw hc hnd c.name (c.runs + 1) c.rep c.first c.delta e.1 now s.clock
  have := foldl_inv (fun s' => WFp s' B L ∧ s'.calling = true ∧ CF s' T (e.2 :: Dn)) Timer.execAct
    (scriptFor s.scripts c.name (c.runs + 1)) _
    ⟨hw.emit (.run c.name c.seq (c.runs + 1) e.2 c.rep c.first c.delta e.1 now s.clock) (by intro y; simp), hcall, h0⟩
    (fun s' act _ hs => ⟨hs.1.execAct act, (execAct_ext s' act).calling.trans hs.2.1,
      hs.2.2.execAct hs.1 (fun hf => by rw [hs.2.1] at hf; cases hf) act⟩)
  exact this.2.2

theorem CF.runFold (now : Time) (todo : List (Time × Addr)) :
    ∀ (done : List (Time × Addr)) (Dn : List Addr) (s : TQ), done ++ todo = B → (∀ x, x ∈ Dn ↔ x ∈ done.map (·.2)) →
      WFp s B L → s.calling = true → CF s (todo.map (·.2)) Dn →
      ∃ Dn', (∀ x, x ∈ Dn' ↔ x ∈ B.map (·.2)) ∧ CF (todo.foldl (Timer.runTimer now) s) [] Dn' := by
  induction todo with
  | nil =>
    intro done Dn s hd hD hw hc h
    rw [List.append_nil] at hd; subst hd
    exact ⟨Dn, hD, h⟩
  | cons e t ih =>
    intro done Dn s hd hD hw hc h
    have he : e ∈ B := by rw [← hd]; simp
    have hnd : e.2 ∉ Dn := by
      have := hw.b_nodup
      rw [← hd, List.map_append, List.map_cons] at this
      intro hm
      exact (List.nodup_append.1 this).2.2 _ ((hD _).1 hm) _ List.mem_cons_self rfl
    refine ih (done ++ [e]) (e.2 :: Dn) _ (by rw [List.append_assoc]; exact hd) ?_ (hw.runTimer now he)
      ((runTimer_extW now s e).calling.trans hc) (h.runTimer hw hc he hnd now)
    intro x
    rw [List.mem_cons, hD x]
    simp [or_comm]

theorem CF.take (h : CF s [] []) (p : Time × Addr → Bool) :
    CF { takeB s p with calling := true, cancelling := [] } ((s.timers.takeWhile p).map (·.2)) [] := by
  intro a q
  refine (h a q).state (TrSame.refl _ _ _) (fun hr => Or.inl hr) (Nat.le_refl _) (fun x c' hx hs _ => ⟨c', hx, hs⟩) ?_ ?_
  · intro c g1 g2 g3
    refine Or.inr ⟨c, g1, g2, ?_⟩
    rcases g3 with g3 | g3 | g3
    · by_cases hex : ∃ e ∈ s.timers.takeWhile p, (a, q) = (e.2, (cellAt s e.2).seq)
      · obtain ⟨e, he, heq⟩ := hex
        exact Or.inr (Or.inl (List.mem_map.2 ⟨e, he, (Prod.mk.inj heq).1.symm⟩))
      · exact Or.inl (List.mem_filter.2 ⟨g3, by simpa using hex⟩)
    · cases g3
    · cases g3
  · intro c g1 g2 g3 g4
    rcases g4 with g4 | g4 <;> cases g4

/-- the timer is dead after a step that left the trace alone -/
theorem CFq.dead_now (h : CFq a q s T Dn) (htr : s'.trace = s.trace) (hd : Dead q s') (hn : s.numCreated ≤ s'.numCreated) :
    CFq a q s' T' Dn' := by
  have hb := h.bounds
  rw [← htr] at hb
  refine ⟨?_, ?_, ?_⟩
  · rw [htr]; intro hr; exact ⟨Nat.le_trans (h.reg hr).1 hn, Or.inl hd⟩
  · intro hm; exact ⟨hd, Nat.le_trans (h.out (by rw [← htr]; exact hm)).2.1 hn, hb.1, hb.2.1⟩
  · intro _; exact ⟨hb.2.2.1, Or.inl ⟨hd, hb.2.2.2⟩⟩

theorem CF.resetOne {e : Time × Addr} (hw : WFp s (e :: B) L) (h : CF s [] (e.2 :: Dn)) (now : Time) :
    CF (Timer.resetOne now s e) [] Dn := by
  obtain ⟨⟨c0, hc, _⟩, _⟩ := hw.b_live e List.mem_cons_self
  have at_e : ∀ {a : Addr} {c : Cell}, s.heap a = some c → c.seq = c0.seq → a = e.2 :=
    fun g1 g2 => hw.seq_inj _ e.2 _ c0 g1 hc g2
  have live : ¬ Dead c0.seq s := fun hd => hd e.2 c0 hc rfl
  rw [resetOne_eq hc]
  split
  · rename_i hr
    have hncan : (e.2, c0.seq) ∉ s.cancelling := by simpa using hr.2
    intro a q
    by_cases hq : c0.seq = q
    · subst hq
      have nma : markAll true a c0.seq s.trace = false := by
        cases hm : markAll true a c0.seq s.trace with
        | false => rfl
        | true =>
          rcases ((h a c0.seq).all hm).2 with ⟨g, _⟩ | ⟨c, g1, g2, g3, _⟩
          · exact absurd g live
          · have := at_e g1 g2; subst this; exact absurd g3 hncan
      have nmo : markOut true a c0.seq s.trace = false := by
        cases hm : markOut true a c0.seq s.trace with
        | false => rfl
        | true => exact absurd ((h a c0.seq).out hm).1 live
      refine ⟨?_, ?_, ?_⟩
      · intro hr'
        have hr'' : regB a c0.seq (Ev.restarted e.2 c0.seq (restarted c0 now).exp :: s.trace) = true := hr'
        rw [regB_cons] at hr''
        have hr3 : regB a c0.seq s.trace = true := by simpa [isReg] using hr''
        obtain ⟨g0, g⟩ := (h a c0.seq).reg hr3
        refine ⟨g0, ?_⟩
        rcases g with g | ⟨c, g1, g2, _⟩
        · exact absurd g live
        · have := at_e g1 g2; subst this
          exact Or.inr ⟨restarted c0 now, hset_same _ _ _, rfl, Or.inl List.mem_cons_self⟩
      · intro hm
        have : markOut true a c0.seq (Ev.restarted e.2 c0.seq (restarted c0 now).exp :: s.trace) = true := hm
        simp [markOut, isCancelFound, isCancelIdle, nmo] at this
      · intro hm
        have : markAll true a c0.seq (Ev.restarted e.2 c0.seq (restarted c0 now).exp :: s.trace) = true := hm
        simp [markAll, isCancel, nma] at this
    · have hsil : Silent a q (.restarted e.2 c0.seq (restarted c0 now).exp) := ⟨rfl, rfl, rfl, by simp [isRestartOf, hq]⟩
      have hne : ∀ c, s.heap a = some c → c.seq = q → a ≠ e.2 := by
        intro c g1 g2 hh; rw [hh, hc] at g1; cases g1; exact hq g2
      refine (h a q).state (TrSame.silent hsil.weak _) (fun hr' => Or.inl ?_) (Nat.le_refl _) ?_ ?_ ?_
      · have : regB a q (_ :: s.trace) = true := hr'
        rw [regB_silent hsil] at this; exact this
      · intro x c' hx hs _
        by_cases hxe : x = e.2
        · subst hxe
          have : some (restarted c0 now) = some c' := by rw [← hset_same s.heap e.2 (restarted c0 now)]; exact hx
          cases this; exact absurd hs hq
        · exact ⟨c', by rw [← hset_other s.heap (restarted c0 now) hxe]; exact hx, hs⟩
      · intro c g1 g2 g3
        have hae := hne c g1 g2
        refine Or.inr ⟨c, by show hset s.heap e.2 _ a = _; rw [hset_other _ _ hae]; exact g1, g2, ?_⟩
        rcases g3 with g3 | g3 | g3
        · exact Or.inl (List.mem_cons_of_mem _ g3)
        · cases g3
        · rcases List.mem_cons.1 g3 with g3 | g3
          · exact absurd g3 hae
          · exact Or.inr (Or.inr g3)
      · intro c g1 g2 g3 _
        have hae := hne c g1 g2
        refine Or.inr ⟨c, by show hset s.heap e.2 _ a = _; rw [hset_other _ _ hae]; exact g1, g2, g3, fun hh => hh, ?_⟩
        intro hh
        rcases List.mem_cons.1 hh with hh | hh
        · exact absurd hh hae
        · exact hh
  · intro a q
    by_cases hq : c0.seq = q
    · subst hq
      refine (h a c0.seq).dead_now rfl ?_ (Nat.le_refl _)
      intro x c hx hs
      obtain ⟨hxe, hx'⟩ := hfree_some hx
      exact hxe (at_e hx' hs)
    · have hne : ∀ c, s.heap a = some c → c.seq = q → a ≠ e.2 := by
        intro c g1 g2 hh; rw [hh, hc] at g1; cases g1; exact hq g2
      refine (h a q).state (TrSame.refl _ _ _) (fun hr' => Or.inl hr') (Nat.le_refl _)
        (fun x c' hx hs _ => ⟨c', (hfree_some hx).2, hs⟩) ?_ ?_
      · intro c g1 g2 g3
        have hae := hne c g1 g2
        refine Or.inr ⟨c, by show hfree s.heap e.2 a = _; rw [hfree_other _ hae]; exact g1, g2, ?_⟩
        rcases g3 with g3 | g3 | g3
        · exact Or.inl g3
        · cases g3
        · rcases List.mem_cons.1 g3 with g3 | g3
          · exact absurd g3 hae
          · exact Or.inr (Or.inr g3)
      · intro c g1 g2 g3 _
        have hae := hne c g1 g2
        refine Or.inr ⟨c, by show hfree s.heap e.2 a = _; rw [hfree_other _ hae]; exact g1, g2, g3, fun hh => hh, ?_⟩
        intro hh
        rcases List.mem_cons.1 hh with hh | hh
        · exact absurd hh hae
        · exact hh

theorem CF.resetFold (now : Time) (l : List (Time × Addr)) (s : TQ) (hw : WFp s l L) (h : CF s [] (l.map (·.2))) :
    CF (l.foldl (Timer.resetOne now) s) [] [] := by
  induction l generalizing s with
  | nil => exact h
  | cons x xs ih => exact ih _ (hw.resetOne now) (h.resetOne hw now)

theorem CF.rearm (hw : WFp s B L) (h : CF s T Dn) : CF (Timer.rearm s) T Dn := by
  rw [rearm_eq hw]
  split
  · exact h
  · split
    · exact h.armFd _
    · exact h

theorem CF.handleRead (hw : WFp s [] L) (h : CF s [] []) : CF (Timer.handleRead s) [] [] := by
  unfold Timer.handleRead
  simp only []
  have hw0 : WFp { (readNow s).2 with readable := false } [] L :=
    (hw.frame (readNow_frame s)).congr rfl rfl rfl rfl (hw.frame (readNow_frame s)).no_uaf
  have hc0 : CF { (readNow s).2 with readable := false } [] [] := by
    intro a q
    exact ((h.frame (readNow_frame s)) a q).same (TrSame.refl _ _ _) rfl (Nat.le_refl _) rfl rfl rfl
  rw [getExpired_eq hw0]
  simp only []
  have hw1 := hw0.take (isExpired (readNow s).1)
  have hw2 : WFp { takeB { (readNow s).2 with readable := false } (isExpired (readNow s).1) with
      calling := true, cancelling := [] } _ L := hw1.congr rfl rfl rfl rfl hw1.no_uaf
  have hc2 := hc0.take (isExpired (readNow s).1)
  obtain ⟨Dn', hD, hc3⟩ := CF.runFold (B := List.takeWhile (isExpired (readNow s).1) (readNow s).2.timers) (L := L)
    (readNow s).1 _ [] [] _ rfl (by intro x; simp) hw2 rfl hc2
  have hw3 := foldl_inv (fun s' => WFp s' (List.takeWhile (isExpired (readNow s).1) (readNow s).2.timers) L)
    (Timer.runTimer (readNow s).1) _ _ hw2 (fun s' e he hs => hs.runTimer _ he)
  unfold reset
  generalize List.foldl (Timer.runTimer (readNow s).1) _ _ = s3 at hw3 hc3 ⊢
  have hw3' : WFp { s3 with calling := false } (List.takeWhile (isExpired (readNow s).1) (readNow s).2.timers) L :=
    hw3.congr rfl rfl rfl rfl hw3.no_uaf
  have hc3' : CF { s3 with calling := false } []
      ((List.takeWhile (isExpired (readNow s).1) (readNow s).2.timers).map (·.2)) := by
    intro a q
    exact ((hc3.relabel (fun _ hx => hx) (fun x hx => (hD x).1 hx)) a q).same (TrSame.refl _ _ _) rfl (Nat.le_refl _) rfl rfl rfl
  exact (CF.resetFold _ _ _ hw3' hc3').rearm (WFp.resetFold _ _ _ hw3')


/-! ### over all histories -/

theorem CF.same_state (h : CF s T Dn) (htr : s'.trace = s.trace) (hn : s.numCreated ≤ s'.numCreated) (hh : s'.heap = s.heap)
    (ha : s'.active = s.active) (hc : s'.cancelling = s.cancelling) : CF s' T Dn :=
  fun a q => (h a q).same (by rw [htr]; exact TrSame.refl _ _ _) (by rw [htr]) hn hh ha hc

theorem CF.runNext (hw : WF s []) (h : CF s [] []) : CF (Timer.runNext s) [] [] := by
  cases hr : s.running with
  | nil => rw [runNext_nil hr]; exact h
  | cons f r =>
    rw [runNext_cons hr]
    have hp := wf_pop hw hr
    have h' : CF { s with running := r } [] [] := h.same_state rfl (Nat.le_refl _) rfl rfl rfl
    cases f with
    | add a0 =>
      obtain ⟨c, hc⟩ := Option.isSome_iff_exists.1 (hp.p_live a0 List.mem_cons_self).1
      exact h'.addInLoop hp hc
    | cancel id => exact h'.cancelInLoop hp (fun _ => ⟨rfl, rfl⟩) id
    | marker k => exact h'.emit_silent _ (fun a q => silent_processed a q k)

theorem CF.quiet (h : CF s [] []) (hq : Quiet s s') (hh : s'.heap = s.heap) : CF s' [] [] := by
  intro a q
  refine (h a q).same ?_ ?_ hq.numCreated hh hq.active hq.cancelling
  · rcases hq.trace with ht | ⟨n, x, y, ht⟩ <;> rw [ht]
    · exact TrSame.refl _ _ _
    · exact TrSame.silent (silent_added a q n x y).weak _
  · rcases hq.trace with ht | ⟨n, x, y, ht⟩ <;> rw [ht]
    exact regB_silent (silent_added a q n x y) _

theorem CF.addAlloc (h : CF s [] []) (name : Nat) (m : Mode) : CF (Timer.addAlloc s name m) [] [] := by
  rcases addAlloc_spec s name m with hf | ⟨s1, a0, c0, h1, h2, _, h4, _, _, _, h8⟩
  · exact h.frame hf
  · rw [h8]
    exact ((h.frame h1).alloc h2 h4).same_state rfl (Nat.le_refl _) rfl rfl rfl

theorem addFinish_heap' (s : TQ) : (addFinish s).heap = s.heap := by
  cases hp : s.parked with
  | none => rw [addFinish_none hp]
  | some p => obtain ⟨name, a, q⟩ := p; rw [addFinish_some hp]; rfl

theorem CF.step (ht : Top s) (h : CF s [] []) (i : In) : CF (Timer.step s i) [] [] := by
  cases i with
  | now t => exact h.same_state rfl (Nat.le_refl _) rfl rfl rfl
  | addr a => exact h.same_state rfl (Nat.le_refl _) rfl rfl rfl
  | script name k a => exact h.same_state rfl (Nat.le_refl _) rfl rfl rfl
  | add who name m =>
    cases who with
    | loop => exact h.addL ht.wf name m
    | foreign =>
      show CF (if s.parked.isSome then s else Timer.addFinish (Timer.addAlloc s name m)) [] []
      split
      · exact h
      · exact (h.addAlloc name m).quiet (addFinish_quiet _) (addFinish_heap' _)
  | addAlloc name m => exact h.addAlloc name m
  | addFinish => exact h.quiet (addFinish_quiet _) (addFinish_heap' _)
  | cancel who v k =>
    cases who with
    | loop => exact (h.cancelInLoop ht.wf (fun _ => ⟨rfl, rfl⟩) _).emit_silent _ (fun a q => silent_processed a q k)
    | foreign => exact h.same_state rfl (Nat.le_refl _) rfl rfl rfl
  | expire =>
    show CF (match s.alarm with | some _ => { s with alarm := none, readable := true } | none => s) [] []
    split
    · exact h.same_state rfl (Nat.le_refl _) rfl rfl rfl
    · exact h
  | iter =>
    exact iter_inv (fun s => CF s [] []) (fun s ht h => h.handleRead ht.wf)
      (fun s _ h => h.same_state rfl (Nat.le_refl _) rfl rfl rfl) (fun s hw _ h => h.runNext hw) s ht h

theorem run_cf (ins : List In) : CF (run ins) [] [] := by
  refine run_inv (fun s => CF s [] []) ?_ (fun _ i ht h => h.step ht i) ins
  intro a q
  refine ⟨?_, ?_, ?_⟩ <;> intro h <;> cases h

/-- between two loop iterations a timer whose (qualifying) cancel was processed is gone -/
theorem CFq.dead_of_mark (h : CFq a q s [] []) (hm : markAll true a q s.trace = true) : Dead q s := by
  rcases (h.all hm).2 with ⟨g, _⟩ | ⟨c, _, _, _, ⟨g, _⟩ | ⟨g, _⟩⟩
  · exact g
  · cases g
  · cases g

end MuduoVerif.Timer
