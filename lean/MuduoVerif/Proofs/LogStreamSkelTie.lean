import MuduoVerif.Generated.LogStreamSkel
import MuduoVerif.Model.LogStream
/-!
# T1 tie for the statement order of LogStream / Logging (C17)

`Gen.LogStreamSkel.<fn>` is the statement skeleton `vlib/gen/logstreamskel.py` extracts from /repo's current
`muduo/base/LogStream.h` / `LogStream.cc` / `Logging.cc` on every run (function templates and members of
`FixedBuffer<SIZE>`: from every instantiation, which must agree); `Decl.<fn>` (`Model/LogStreamSkelDecl.lean`) is the
skeleton the corresponding definition of `Model/LogStream.lean` implements.  Each `skeleton_<fn>` is closed by
`decide`: it holds exactly as long as the source performs the same stores (of the same expressions), engine calls, libc
calls, insertion chains (of the same pieces), assertions and returns, in the same order, under the same nesting of the
same (generated) guards, table rows and loops as the model.  The guards and tables themselves are tied by
`Generated/LogStream.lean`; the statement list of `Logger::Impl::Impl` is `Gen.LogStream.implSteps`, which the model
executes.  `Props/C17.lean` re-exports `skeletons_agree` (`statement_order_tied`), so a change of statement order in one
of these functions breaks that property module.

The second part (`reading_*`) checks, by `rfl` / `simp only`, the places where `Model/LogStream.lean` writes a function
in a more compact form than the statement sequence the declared skeleton lists.
-/
namespace MuduoVerif.LogStreamSkel

theorem skeleton_bufAppend : Gen.LogStreamSkel.bufAppend = Decl.bufAppend := by decide
theorem skeleton_bufAdd : Gen.LogStreamSkel.bufAdd = Decl.bufAdd := by decide
theorem skeleton_bufReset : Gen.LogStreamSkel.bufReset = Decl.bufReset := by decide
theorem skeleton_insBool : Gen.LogStreamSkel.insBool = Decl.insBool := by decide
theorem skeleton_insFloat : Gen.LogStreamSkel.insFloat = Decl.insFloat := by decide
theorem skeleton_insChar : Gen.LogStreamSkel.insChar = Decl.insChar := by decide
theorem skeleton_insCStr : Gen.LogStreamSkel.insCStr = Decl.insCStr := by decide
theorem skeleton_insUCStr : Gen.LogStreamSkel.insUCStr = Decl.insUCStr := by decide
theorem skeleton_insString : Gen.LogStreamSkel.insString = Decl.insString := by decide
theorem skeleton_insPiece : Gen.LogStreamSkel.insPiece = Decl.insPiece := by decide
theorem skeleton_insBuffer : Gen.LogStreamSkel.insBuffer = Decl.insBuffer := by decide
theorem skeleton_streamAppend : Gen.LogStreamSkel.streamAppend = Decl.streamAppend := by decide
theorem skeleton_resetBuffer : Gen.LogStreamSkel.resetBuffer = Decl.resetBuffer := by decide
theorem skeleton_insFmt : Gen.LogStreamSkel.insFmt = Decl.insFmt := by decide
theorem skeleton_convert : Gen.LogStreamSkel.convert = Decl.convert := by decide
theorem skeleton_convertHex : Gen.LogStreamSkel.convertHex = Decl.convertHex := by decide
theorem skeleton_formatSI : Gen.LogStreamSkel.formatSI = Decl.formatSI := by decide
theorem skeleton_formatIEC : Gen.LogStreamSkel.formatIEC = Decl.formatIEC := by decide
theorem skeleton_formatInteger : Gen.LogStreamSkel.formatInteger = Decl.formatInteger := by decide
theorem skeleton_insShort : Gen.LogStreamSkel.insShort = Decl.insShort := by decide
theorem skeleton_insUShort : Gen.LogStreamSkel.insUShort = Decl.insUShort := by decide
theorem skeleton_insInt : Gen.LogStreamSkel.insInt = Decl.insInteger := by decide
theorem skeleton_insUInt : Gen.LogStreamSkel.insUInt = Decl.insInteger := by decide
theorem skeleton_insLong : Gen.LogStreamSkel.insLong = Decl.insInteger := by decide
theorem skeleton_insULong : Gen.LogStreamSkel.insULong = Decl.insInteger := by decide
theorem skeleton_insLongLong : Gen.LogStreamSkel.insLongLong = Decl.insInteger := by decide
theorem skeleton_insULongLong : Gen.LogStreamSkel.insULongLong = Decl.insInteger := by decide
theorem skeleton_insPointer : Gen.LogStreamSkel.insPointer = Decl.insPointer := by decide
theorem skeleton_insDouble : Gen.LogStreamSkel.insDouble = Decl.insDouble := by decide
theorem skeleton_fmtCtor : Gen.LogStreamSkel.fmtCtor = Decl.fmtCtor := by decide
theorem skeleton_tCtor : Gen.LogStreamSkel.tCtor = Decl.tCtor := by decide
theorem skeleton_insT : Gen.LogStreamSkel.insT = Decl.insT := by decide
theorem skeleton_insSourceFile : Gen.LogStreamSkel.insSourceFile = Decl.insSourceFile := by decide
theorem skeleton_formatTime : Gen.LogStreamSkel.formatTime = Decl.formatTime := by decide
theorem skeleton_finish : Gen.LogStreamSkel.finish = Decl.finish := by decide
theorem skeleton_loggerDtor : Gen.LogStreamSkel.loggerDtor = Decl.loggerDtor := by decide

/-- every extracted skeleton is the declared one -/
theorem skeletons_agree :
    Gen.LogStreamSkel.bufAppend = Decl.bufAppend ∧
    Gen.LogStreamSkel.bufAdd = Decl.bufAdd ∧
    Gen.LogStreamSkel.bufReset = Decl.bufReset ∧
    Gen.LogStreamSkel.insBool = Decl.insBool ∧
    Gen.LogStreamSkel.insFloat = Decl.insFloat ∧
    Gen.LogStreamSkel.insChar = Decl.insChar ∧
    Gen.LogStreamSkel.insCStr = Decl.insCStr ∧
    Gen.LogStreamSkel.insUCStr = Decl.insUCStr ∧
    Gen.LogStreamSkel.insString = Decl.insString ∧
    Gen.LogStreamSkel.insPiece = Decl.insPiece ∧
    Gen.LogStreamSkel.insBuffer = Decl.insBuffer ∧
    Gen.LogStreamSkel.streamAppend = Decl.streamAppend ∧
    Gen.LogStreamSkel.resetBuffer = Decl.resetBuffer ∧
    Gen.LogStreamSkel.insFmt = Decl.insFmt ∧
    Gen.LogStreamSkel.convert = Decl.convert ∧
    Gen.LogStreamSkel.convertHex = Decl.convertHex ∧
    Gen.LogStreamSkel.formatSI = Decl.formatSI ∧
    Gen.LogStreamSkel.formatIEC = Decl.formatIEC ∧
    Gen.LogStreamSkel.formatInteger = Decl.formatInteger ∧
    Gen.LogStreamSkel.insShort = Decl.insShort ∧
    Gen.LogStreamSkel.insUShort = Decl.insUShort ∧
    Gen.LogStreamSkel.insInt = Decl.insInteger ∧
    Gen.LogStreamSkel.insUInt = Decl.insInteger ∧
    Gen.LogStreamSkel.insLong = Decl.insInteger ∧
    Gen.LogStreamSkel.insULong = Decl.insInteger ∧
    Gen.LogStreamSkel.insLongLong = Decl.insInteger ∧
    Gen.LogStreamSkel.insULongLong = Decl.insInteger ∧
    Gen.LogStreamSkel.insPointer = Decl.insPointer ∧
    Gen.LogStreamSkel.insDouble = Decl.insDouble ∧
    Gen.LogStreamSkel.fmtCtor = Decl.fmtCtor ∧
    Gen.LogStreamSkel.tCtor = Decl.tCtor ∧
    Gen.LogStreamSkel.insT = Decl.insT ∧
    Gen.LogStreamSkel.insSourceFile = Decl.insSourceFile ∧
    Gen.LogStreamSkel.formatTime = Decl.formatTime ∧
    Gen.LogStreamSkel.finish = Decl.finish ∧
    Gen.LogStreamSkel.loggerDtor = Decl.loggerDtor :=
  ⟨skeleton_bufAppend, skeleton_bufAdd, skeleton_bufReset, skeleton_insBool, skeleton_insFloat, skeleton_insChar,
   skeleton_insCStr, skeleton_insUCStr, skeleton_insString, skeleton_insPiece, skeleton_insBuffer,
   skeleton_streamAppend, skeleton_resetBuffer, skeleton_insFmt, skeleton_convert, skeleton_convertHex,
   skeleton_formatSI, skeleton_formatIEC, skeleton_formatInteger, skeleton_insShort, skeleton_insUShort,
   skeleton_insInt, skeleton_insUInt, skeleton_insLong, skeleton_insULong, skeleton_insLongLong,
   skeleton_insULongLong, skeleton_insPointer, skeleton_insDouble, skeleton_fmtCtor, skeleton_tCtor,
   skeleton_insT, skeleton_insSourceFile, skeleton_formatTime, skeleton_finish, skeleton_loggerDtor⟩


/-! ## The compact model terms are the declared statement sequences -/
section Readings
open MuduoVerif.LogStream MuduoVerif.Gen.LogStream

/-- `Decl.convert`: a `do .. while` - the digit of the value BEFORE the division is emitted unconditionally, the test
looks at the divided value, the recursion continues with it -/
theorem reading_digit_loop (fuel : Nat) (i : Int) :
    digitLoop (fuel + 1) i =
      (let lsd := Int.tmod i radixDec                                    -- int lsd = i % 10
       let i' := Int.tdiv i radixDec                                     -- i /= 10
       if i' = 0 then [zeroAt lsd] else zeroAt lsd :: digitLoop fuel i') := rfl   -- *p++ = zero[lsd]; while (i != 0)

/-- `Decl.convert`: digits, then the sign of the ARGUMENT, then the reverse -/
theorem reading_convert (v : Int) :
    LogStream.convert v = ((digitLoop v.natAbs v) ++ (if v < 0 then [45] else [])).reverse := rfl

/-- `Decl.convertHex` -/
theorem reading_hex_loop (fuel i : Nat) :
    hexLoop (fuel + 1) i =
      (if i / radixHex = 0 then [digitsHex.getD (i % radixHex) 0]
       else digitsHex.getD (i % radixHex) 0 :: hexLoop fuel (i / radixHex)) := rfl

/-- `Decl.formatInteger` / `Decl.bufAppend` / `Decl.insPointer` / `Decl.insDouble`: text and `cur_` change together and
only under the space guard -/
theorem reading_insert (b : FixedBuf) (it : Item) :
    insert b it = if it.fits (avail b) then { b with data := b.data ++ it.text } else b := rfl

/-- `Decl.cascade`: one step of the `else if` cascade of `formatSI` is one row of the table -/
theorem reading_si_row (s : Nat) (onDouble : Bool) (thr k e : Nat) (u : Bytes) (rest : List (Bool × Nat × Nat × Nat × Bytes)) :
    siGo s ((onDouble, thr, k, e, u) :: rest) =
      (if (if onDouble then rnInt s else s) < thr then siFormat s k e u else siGo s rest) := rfl

/-- `Decl.cascade`: ... and of `formatIEC` -/
theorem reading_iec_row (n num den k j : Nat) (u : Bytes) (rest : List (Nat × Nat × Nat × Nat × Bytes)) :
    iecGo n ((num, den, k, j, u) :: rest) = (if n * den < num then iecFormat n k j u else iecGo n rest) := rfl

/-- `Decl.formatTime`, cache miss: second, generation and text change together -/
theorem reading_cache_miss (z : Zone) (gen : Int) (c : TimeCache) (us : Int)
    (h : cacheMiss (splitSeconds us) c.lastSecond gen c.zoneGen) :
    cacheStep z gen c us =
      { lastSecond := splitSeconds us,                                   -- t_lastSecond = seconds
        zoneGen := if cacheStoresGen then gen else c.zoneGen,            -- t_lastZoneGen = zoneGen
        text := secondText z (splitSeconds us) } := by                   -- dt = ..; snprintf(t_time, ..)
  simp only [cacheStep, if_pos h]

/-- `Decl.formatTime`, cache hit: nothing is stored -/
theorem reading_cache_hit (z : Zone) (gen : Int) (c : TimeCache) (us : Int)
    (h : ¬ cacheMiss (splitSeconds us) c.lastSecond gen c.zoneGen) : cacheStep z gen c us = c := by
  simp only [cacheStep, if_neg h]

/-- `Decl.finish` / `Decl.loggerDtor`: the pieces of `finish()` are the LAST items of the line that is handed over -/
theorem reading_line_tail (steps : List ImplStep) (z : Zone) (gen : Int) (c : TimeCache) (t : TidState) (r : LogReq) :
    ∃ front, lineItemsOf steps z gen c t r =
      front ++ finishPieces.map (pieceItem (implRun z (lineEnv z gen c t r) steps).1) :=
  ⟨_, rfl⟩

end Readings

end MuduoVerif.LogStreamSkel
