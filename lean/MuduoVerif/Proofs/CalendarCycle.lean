import MuduoVerif.Proofs.CalendarCycle01
import MuduoVerif.Proofs.CalendarCycle02
import MuduoVerif.Proofs.CalendarCycle03
import MuduoVerif.Proofs.CalendarCycle04
import MuduoVerif.Proofs.CalendarCycle05
import MuduoVerif.Proofs.CalendarCycle06
import MuduoVerif.Proofs.CalendarCycle07
import MuduoVerif.Proofs.CalendarCycle08
import MuduoVerif.Proofs.CalendarCycle09
import MuduoVerif.Proofs.CalendarCycle10
import MuduoVerif.Proofs.CalendarCycle11
import MuduoVerif.Proofs.CalendarCycle12
import MuduoVerif.Proofs.CalendarCycle13
import MuduoVerif.Proofs.CalendarCycle14
import MuduoVerif.Proofs.CalendarCycle15
import MuduoVerif.Proofs.CalendarCycle16
/-!
One full 400-year cycle of the Gregorian calendar (146 097 days, day numbers 0 .. 146 096 and
civil years 0 .. 399), assembled from the sixteen kernel-evaluated chunks, and the
extension to **all** integers by 400-year periodicity.
-/
namespace MuduoVerif.CalendarE

theorem cycle_days (i : Int) (h1 : 0 ≤ i) (h2 : i < 146097) : (ymdE i).valid ∧ (ymdE i).jdn = i := by
  if h :  i < 9132 then exact checkDays_sound _ _ cycleDays_0 i (by omega) (by omega)
  else if h :  i < 18264 then exact checkDays_sound _ _ cycleDays_1 i (by omega) (by omega)
  else if h :  i < 27396 then exact checkDays_sound _ _ cycleDays_2 i (by omega) (by omega)
  else if h :  i < 36528 then exact checkDays_sound _ _ cycleDays_3 i (by omega) (by omega)
  else if h :  i < 45660 then exact checkDays_sound _ _ cycleDays_4 i (by omega) (by omega)
  else if h :  i < 54792 then exact checkDays_sound _ _ cycleDays_5 i (by omega) (by omega)
  else if h :  i < 63924 then exact checkDays_sound _ _ cycleDays_6 i (by omega) (by omega)
  else if h :  i < 73056 then exact checkDays_sound _ _ cycleDays_7 i (by omega) (by omega)
  else if h :  i < 82188 then exact checkDays_sound _ _ cycleDays_8 i (by omega) (by omega)
  else if h :  i < 91320 then exact checkDays_sound _ _ cycleDays_9 i (by omega) (by omega)
  else if h :  i < 100452 then exact checkDays_sound _ _ cycleDays_10 i (by omega) (by omega)
  else if h :  i < 109584 then exact checkDays_sound _ _ cycleDays_11 i (by omega) (by omega)
  else if h :  i < 118716 then exact checkDays_sound _ _ cycleDays_12 i (by omega) (by omega)
  else if h :  i < 127848 then exact checkDays_sound _ _ cycleDays_13 i (by omega) (by omega)
  else if h :  i < 136980 then exact checkDays_sound _ _ cycleDays_14 i (by omega) (by omega)
  else exact checkDays_sound _ _ cycleDays_15 i (by omega) (by omega)

theorem cycle_years (y m d : Int) (h1 : 0 ≤ y) (h2 : y < 400) (hv : validDate y m d) :
    ymdE (jdnE y m d) = ⟨y, m, d⟩ := by
  if h :  y < 25 then exact checkYears_sound _ _ cycleYears_0 y m d (by omega) (by omega) hv
  else if h :  y < 50 then exact checkYears_sound _ _ cycleYears_1 y m d (by omega) (by omega) hv
  else if h :  y < 75 then exact checkYears_sound _ _ cycleYears_2 y m d (by omega) (by omega) hv
  else if h :  y < 100 then exact checkYears_sound _ _ cycleYears_3 y m d (by omega) (by omega) hv
  else if h :  y < 125 then exact checkYears_sound _ _ cycleYears_4 y m d (by omega) (by omega) hv
  else if h :  y < 150 then exact checkYears_sound _ _ cycleYears_5 y m d (by omega) (by omega) hv
  else if h :  y < 175 then exact checkYears_sound _ _ cycleYears_6 y m d (by omega) (by omega) hv
  else if h :  y < 200 then exact checkYears_sound _ _ cycleYears_7 y m d (by omega) (by omega) hv
  else if h :  y < 225 then exact checkYears_sound _ _ cycleYears_8 y m d (by omega) (by omega) hv
  else if h :  y < 250 then exact checkYears_sound _ _ cycleYears_9 y m d (by omega) (by omega) hv
  else if h :  y < 275 then exact checkYears_sound _ _ cycleYears_10 y m d (by omega) (by omega) hv
  else if h :  y < 300 then exact checkYears_sound _ _ cycleYears_11 y m d (by omega) (by omega) hv
  else if h :  y < 325 then exact checkYears_sound _ _ cycleYears_12 y m d (by omega) (by omega) hv
  else if h :  y < 350 then exact checkYears_sound _ _ cycleYears_13 y m d (by omega) (by omega) hv
  else if h :  y < 375 then exact checkYears_sound _ _ cycleYears_14 y m d (by omega) (by omega) hv
  else exact checkYears_sound _ _ cycleYears_15 y m d (by omega) (by omega) hv

/-- every integer day number maps to a valid civil date that maps back to it -/
theorem jdn_ymd_all (j : Int) : (ymdE j).valid ∧ (ymdE j).jdn = j := by
  obtain ⟨hv, hj⟩ := cycle_days (j % 146097) (by omega) (by omega)
  by_cases hk : 0 ≤ j / 146097
  · have e : j = j % 146097 + 146097 * ((j / 146097).toNat : Int) := by omega
    rw [e, ymdE_periodN]
    refine ⟨?_, ?_⟩
    · simp only [Civil.valid] at hv ⊢
      exact (validDate_periodN _ _ _ _).mpr hv
    · simp only [Civil.jdn] at hj ⊢
      rw [jdnE_periodN, hj]
  · have e : j % 146097 = j + 146097 * ((-(j / 146097)).toNat : Int) := by omega
    rw [e, ymdE_periodN] at hv hj
    refine ⟨?_, ?_⟩
    · simp only [Civil.valid] at hv ⊢
      exact (validDate_periodN _ _ _ _).mp hv
    · simp only [Civil.jdn] at hj ⊢
      rw [jdnE_periodN] at hj
      omega

/-- every valid civil date (any year) maps to a day number that maps back to it -/
theorem ymd_jdn_all (y m d : Int) (hv : validDate y m d) : ymdE (jdnE y m d) = ⟨y, m, d⟩ := by
  by_cases hk : 0 ≤ y / 400
  · have e : y = y % 400 + 400 * ((y / 400).toNat : Int) := by omega
    have hv0 : validDate (y % 400) m d := by rw [e] at hv; exact (validDate_periodN _ _ _ _).mp hv
    have := cycle_years (y % 400) m d (by omega) (by omega) hv0
    rw [e, jdnE_periodN, ymdE_periodN, this]
  · have e : y % 400 = y + 400 * ((-(y / 400)).toNat : Int) := by omega
    have hv0 : validDate (y % 400) m d := by rw [e]; exact (validDate_periodN _ _ _ _).mpr hv
    have := cycle_years (y % 400) m d (by omega) (by omega) hv0
    rw [e, jdnE_periodN, ymdE_periodN] at this
    have h2 := congrArg Civil.year this
    have h3 := congrArg Civil.month this
    have h4 := congrArg Civil.day this
    simp only at h2 h3 h4
    cases hx : ymdE (jdnE y m d) with
    | mk a b c =>
      rw [hx] at h2 h3 h4
      simp only at h2 h3 h4
      simp only [Civil.mk.injEq]
      omega

end MuduoVerif.CalendarE
