import MuduoVerif.Proofs.PollerPerm
/-!
# Every ready, subscribed channel is called - in the same iteration under poll, within the doubling bound under epoll

* the size of `EPollPoller::events_` along a history: never shrinks, doubles (`Gen.Poller.epGrowTo`) exactly in an
  iteration that filled the array (`Gen.Poller.epArrayFull`);
* the dispatch phase calls an active channel `c` with the interest and `revents_` it had when `poll` returned, as long
  as no operation scripted inside a callback of this iteration is an operation on `c` (operations on other channels -
  incl. removals that move `c`'s slot - do not matter);
* `PollPoller::fillActiveChannels` finds every reported entry when `poll(2)` returned their number;
* `k` consecutive waits of an epoll loop while `R` descriptors stay ready.
-/
namespace MuduoVerif.Poller
open MuduoVerif.Gen.Poller

/-! ## the size of the result array -/

theorem applyOp_evsize (s : State) (c k) : (applyOp s c k).evsize = s.evsize := by
  rcases applyOp_cases s c k with ⟨_, h⟩ | ⟨_, _, h⟩ | ⟨_, _, h⟩
  · rw [h]
  · rw [h]; rfl
  · exact h.evsize

theorem epollFill_evsize (ready : List (Nat × Nat)) :
    ∀ (s : State) (acc : List Nat), (epollFill s ready acc).1.evsize = s.evsize := by
  induction ready with
  | nil => intro s acc; rfl
  | cons p rest ih =>
    intro s acc
    obtain ⟨c, rev⟩ := p
    simp only [epollFill]
    split
    · rfl
    · rw [ih]; rfl

theorem pollFill_evsize (ready : List (Nat × Nat)) (pfds : List (Int × Nat)) :
    ∀ (s : State) (n : Nat) (acc : List Nat), (pollFill s ready pfds n acc).1.evsize = s.evsize := by
  induction pfds with
  | nil => intro s n acc; simp only [pollFill]
  | cons pfd rest ih =>
    intro s n acc
    cases n with
    | zero => simp only [pollFill]
    | succ n =>
      rw [pollFill_cons]
      by_cases h : pollActive (pollRev ready pfd : Int)
      · rw [if_pos h]
        cases hc : s.cmap pfd.1 with
        | none => rfl
        | some c => simp only; rw [ih]; rfl
      · rw [if_neg h]; exact ih _ _ _

/-- the growth policy never shrinks the array (`Gen.Poller.epGrowTo`) -/
theorem le_epGrowTo (n : Nat) : n ≤ epGrowTo n := by unfold epGrowTo; omega

/-- `EPollPoller::poll`: the new size of the result array -/
theorem pollerPoll_evsize (s : State) (ready) (nret) :
    (pollerPoll s ready nret).1.evsize =
      if s.be = .epoll ∧ epHasEvents (nret : Int) ∧ ¬ (ready.length > s.evsize ∨ nret ≠ ready.length) ∧
          epArrayFull nret s.evsize then epGrowTo s.evsize else s.evsize := by
  unfold pollerPoll
  cases hbe : s.be with
  | poll =>
    simp only
    have hne : ¬ (Backend.poll = Backend.epoll ∧ epHasEvents (nret : Int) ∧
        ¬ (ready.length > s.evsize ∨ nret ≠ ready.length) ∧ epArrayFull nret s.evsize) :=
      fun h => Backend.noConfusion h.1
    rw [if_neg hne]
    split
    · rw [pollFill_evsize]; rfl
    · rfl
  | epoll =>
    simp only [true_and]
    by_cases h2 : epHasEvents (nret : Int)
    · rw [if_pos h2]
      by_cases h1 : ready.length > (emit s (.wait s.evsize kPollTimeMs)).evsize ∨ nret ≠ ready.length
      · rw [if_pos h1, if_neg (fun h => h.2.1 h1)]; rfl
      · rw [if_neg h1]
        have h := epollFill_evsize ready (emit s (.wait s.evsize kPollTimeMs)) []
        generalize epollFill (emit s (.wait s.evsize kPollTimeMs)) ready [] = p at h
        obtain ⟨s1, act⟩ := p
        simp only at h ⊢
        have h' : s1.evsize = s.evsize := h
        rw [h']
        by_cases h3 : epArrayFull nret s.evsize
        · rw [if_pos h3, if_pos ⟨h2, h1, h3⟩]
        · rw [if_neg h3, if_neg (fun h => h3 h.2.2)]; exact h'
    · rw [if_neg h2, if_neg (fun h => h2 h.1)]; rfl

theorem pollerPoll_evsize_le (s : State) (ready) (nret) : s.evsize ≤ (pollerPoll s ready nret).1.evsize := by
  rw [pollerPoll_evsize]
  split
  · exact le_epGrowTo _
  · exact Nat.le_refl _

theorem dispatch_evsize (act : List Nat) (s : State) : (dispatch s act).evsize = s.evsize :=
  ReachF.preserves (F := Quiet) (P := fun t => t.evsize = s.evsize)
    (fun t c k h => (applyOp_evsize t c k).trans h)
    (fun t u q h => by obtain ⟨hh, c, rfl⟩ := q; exact h)
    (fun t u q h => by obtain ⟨c, k, _, _, _, rfl⟩ := q; exact h)
    (reachD_dispatch act s) rfl

/-- one iteration: the array has the size `EPollPoller::poll` left it with -/
theorem iter_evsize (s : State) (ready) (nret) :
    (iter s ready nret).evsize = if s.dead then s.evsize else (pollerPoll s ready nret).1.evsize := by
  rw [iter_eq]
  cases hd : s.dead with
  | true => simp
  | false =>
    simp only [Bool.false_eq_true, if_false]
    split
    · rfl
    · simp only [dispatch_evsize]

theorem iter_evsize_le (s : State) (ready) (nret) : s.evsize ≤ (iter s ready nret).evsize := by
  rw [iter_evsize]
  split
  · exact Nat.le_refl _
  · exact pollerPoll_evsize_le s ready nret

theorem step_evsize_le (s : State) (i : In) : s.evsize ≤ (step s i).evsize := by
  cases i with
  | op c k => exact Nat.le_of_eq (applyOp_evsize s c k).symm
  | hook h => simp only [step]; split <;> exact Nat.le_refl _
  | iter ready nret => exact iter_evsize_le s ready nret

theorem run_evsize_le (ins : List In) : ∀ (s : State), s.evsize ≤ (run s ins).evsize := by
  unfold run
  induction ins with
  | nil => intro s; exact Nat.le_refl _
  | cons i rest ih => intro s; exact Nat.le_trans (step_evsize_le s i) (ih _)

theorem init_evsize (be : Backend) : (init be).evsize = kInitEventListSize := by
  show (applyOp (applyOp (empty be) timerChan .enableR) wakeChan .enableR).evsize = _
  rw [applyOp_evsize, applyOp_evsize]; rfl

/-! ## the dispatch phase calls an active channel nobody operates on -/

/-- channel `c` is as it was when `poll` returned, and no pending scripted operation is one on `c` -/
structure Keeps (c ev rev : Nat) (s : State) : Prop where
  nohook : ∀ h ∈ s.hooks, h.c ≠ c
  ev : (s.chans c).events = ev
  rev : (s.chans c).revents = rev

section dispatch
set_option linter.unusedSectionVars false
variable {G : State → Prop}
  (hop : ∀ s c k, G s → G (applyOp s c k))
  (hquiet : ∀ s t, Quiet s t → G s → G t)
  (hcb : ∀ s t, CbStep s t → G s → G t)
  (hdead : ∀ s, G s → s.dead = false)
include hop hquiet hcb hdead

theorem keeps_applyOp {c ev rev : Nat} {s : State} (hg : G s) (hk : Keeps c ev rev s) (d : Nat) (k : OpKind)
    (hdc : d ≠ c) :
    Keeps c ev rev (applyOp s d k) ∧ ∃ l, (applyOp s d k).out = s.out ++ l := by
  have hc' : ¬ c = d := fun e => hdc e.symm
  rcases applyOp_cases s d k with ⟨h, _⟩ | ⟨_, _, h⟩ | ⟨_, _, h⟩
  · rw [hdead s hg] at h; exact absurd h (by simp)
  · rw [h]; exact ⟨⟨hk.nohook, hk.ev, hk.rev⟩, [_], rfl⟩
  · refine ⟨⟨fun x hx => hk.nohook x (h.hooks ▸ hx), ?_, ?_⟩, ?_⟩
    · rw [h.ev c, if_neg hc']; exact hk.ev
    · rw [h.rev c, if_neg hc']; exact hk.rev
    · obtain ⟨l, _, h2, _⟩ := h.out
      exact ⟨_, by rw [(h2 (hdead _ (hop s d k hg))).2, List.append_assoc]⟩

theorem keeps_foldl_ops {c ev rev : Nat} (hs : List Hook) : ∀ {s : State}, G s → Keeps c ev rev s →
    (∀ h ∈ hs, h.c ≠ c) →
    G (hs.foldl (fun s h => applyOp s h.c h.op) s) ∧ Keeps c ev rev (hs.foldl (fun s h => applyOp s h.c h.op) s) ∧
      ∃ l, (hs.foldl (fun s h => applyOp s h.c h.op) s).out = s.out ++ l := by
  induction hs with
  | nil => intro s hg hk _; exact ⟨hg, hk, [], by simp⟩
  | cons h t ih =>
    intro s hg hk hne
    simp only [List.foldl_cons]
    obtain ⟨k1, l1, o1⟩ := keeps_applyOp hop hquiet hcb hdead hg hk h.c h.op (hne h (by simp))
    obtain ⟨g2, k2, l2, o2⟩ := ih (hop s h.c h.op hg) k1 (fun x hx => hne x (by simp [hx]))
    exact ⟨g2, k2, l1 ++ l2, by rw [o2, o1, List.append_assoc]⟩

theorem keeps_stage {c ev rev : Nat} (k : Kind) {s : State} (hg : G s) (hk : Keeps c ev rev s) (x : Nat) :
    G (stage k s x) ∧ Keeps c ev rev (stage k s x) ∧
      ∃ l, (stage k s x).out = s.out ++ l ∧ (x = c → disp k rev → subscribed k ev → Ev.cb c k rev ev ∈ l) := by
  unfold stage
  rw [if_neg (by simp [hdead s hg])]
  by_cases hc : disp k (s.chans x).revents ∧ subscribed k (s.chans x).events
  · rw [if_pos hc]
    unfold fire runHooks
    have hg1 : G (emit s (.cb x k (s.chans x).revents (s.chans x).events)) :=
      hcb _ _ ⟨x, k, hdead s hg, hc.1, hc.2, rfl⟩ hg
    have hg2 : G { emit s (.cb x k (s.chans x).revents (s.chans x).events) with
        hooks := (emit s (.cb x k (s.chans x).revents (s.chans x).events)).hooks.filter (fun h => !h.isFor x k) } :=
      hquiet _ _ ⟨_, _, rfl⟩ hg1
    have hk2 : Keeps c ev rev { emit s (.cb x k (s.chans x).revents (s.chans x).events) with
        hooks := (emit s (.cb x k (s.chans x).revents (s.chans x).events)).hooks.filter (fun h => !h.isFor x k) } :=
      ⟨fun h hh => hk.nohook h (List.mem_filter.1 hh).1, hk.ev, hk.rev⟩
    obtain ⟨g3, k3, l3, o3⟩ := keeps_foldl_ops hop hquiet hcb hdead
      ((emit s (.cb x k (s.chans x).revents (s.chans x).events)).hooks.filter (·.isFor x k)) hg2 hk2
      (fun h hh => hk.nohook h (List.mem_filter.1 hh).1)
    refine ⟨g3, k3, .cb x k (s.chans x).revents (s.chans x).events :: l3, ?_, ?_⟩
    · rw [o3]; simp [emit]
    · intro hx _ _; subst hx; rw [hk.ev, hk.rev]; exact List.mem_cons_self
  · rw [if_neg hc]
    refine ⟨hg, hk, [], by simp, ?_⟩
    intro hx h1 h2; subst hx
    rw [hk.ev, hk.rev] at hc
    exact absurd ⟨h1, h2⟩ hc

theorem keeps_handleEvent {c ev rev : Nat} {s : State} (hg : G s) (hk : Keeps c ev rev s) (x : Nat) :
    G (handleEvent s x) ∧ Keeps c ev rev (handleEvent s x) ∧
      ∃ l, (handleEvent s x).out = s.out ++ l ∧
        (x = c → ∀ k, disp k rev → subscribed k ev → Ev.cb c k rev ev ∈ l) := by
  unfold handleEvent
  obtain ⟨g1, k1, l1, o1, m1⟩ := keeps_stage hop hquiet hcb hdead .close hg hk x
  obtain ⟨g2, k2, l2, o2, m2⟩ := keeps_stage hop hquiet hcb hdead .error g1 k1 x
  obtain ⟨g3, k3, l3, o3, m3⟩ := keeps_stage hop hquiet hcb hdead .read g2 k2 x
  obtain ⟨g4, k4, l4, o4, m4⟩ := keeps_stage hop hquiet hcb hdead .write g3 k3 x
  refine ⟨g4, k4, l1 ++ l2 ++ l3 ++ l4, by rw [o4, o3, o2, o1]; simp only [List.append_assoc], ?_⟩
  intro hx k hd hs
  cases k with
  | close => simp only [List.mem_append]; exact .inl (.inl (.inl (m1 hx hd hs)))
  | error => simp only [List.mem_append]; exact .inl (.inl (.inr (m2 hx hd hs)))
  | read => simp only [List.mem_append]; exact .inl (.inr (m3 hx hd hs))
  | write => simp only [List.mem_append]; exact .inr (m4 hx hd hs)

theorem keeps_dispatch {c ev rev : Nat} (act : List Nat) : ∀ {s : State}, G s → Keeps c ev rev s →
    G (dispatch s act) ∧ Keeps c ev rev (dispatch s act) ∧
      ∃ l, (dispatch s act).out = s.out ++ l ∧
        (c ∈ act → ∀ k, disp k rev → subscribed k ev → Ev.cb c k rev ev ∈ l) := by
  induction act with
  | nil => intro s hg hk; exact ⟨hg, hk, [], by simp [dispatch], by simp⟩
  | cons x rest ih =>
    intro s hg hk
    unfold dispatch
    simp only [List.foldl_cons]
    have hg0 : G { s with cur := some x } := hquiet _ _ ⟨s.hooks, some x, rfl⟩ hg
    have hk0 : Keeps c ev rev { s with cur := some x } := ⟨hk.nohook, hk.ev, hk.rev⟩
    obtain ⟨g1, k1, l1, o1, m1⟩ := keeps_handleEvent hop hquiet hcb hdead hg0 hk0 x
    obtain ⟨g2, k2, l2, o2, m2⟩ := ih g1 k1
    unfold dispatch at g2 k2 o2
    refine ⟨g2, k2, l1 ++ l2, by rw [o2, o1, List.append_assoc], ?_⟩
    intro hmem k hd hs
    rcases List.mem_cons.1 hmem with e | e
    · exact List.mem_append.2 (.inl (m1 e.symm k hd hs))
    · exact List.mem_append.2 (.inr (m2 e k hd hs))

/-- one iteration: an active channel whose interest and `revents_` are `ev` / `rev` when `poll` returns, and on which
no pending scripted operation operates, gets every callback that `rev` and `ev` call for -/
theorem iter_calls (hbook : ∀ s it act h c, G s → G { s with iteration := it, active := act, handling := h, cur := c })
    {c ev rev : Nat} {s : State} (hd : s.dead = false) (ready) (nret)
    (hg : G (pollerPoll s ready nret).1)
    (hk : Keeps c ev rev (pollerPoll s ready nret).1) (hact : c ∈ (pollerPoll s ready nret).2)
    (k : Kind) (hdisp : disp k rev) (hsub : subscribed k ev) :
    ∃ l, (iter s ready nret).out = s.out ++ l ∧ Ev.cb c k rev ev ∈ l := by
  obtain ⟨l0, o0, _⟩ := (frame_pollerPoll s ready nret).out
  rw [iter_eq, if_neg (by simp [hd]), if_neg (by simpa using hdead _ hg)]
  have hg' := hbook _ ((pollerPoll s ready nret).1.iteration + 1) (pollerPoll s ready nret).2 true
    (pollerPoll s ready nret).1.cur hg
  obtain ⟨_, _, l, o, m⟩ := keeps_dispatch hop hquiet hcb hdead (pollerPoll s ready nret).2 hg'
    (c := c) (ev := ev) (rev := rev) ⟨hk.nohook, hk.ev, hk.rev⟩
  refine ⟨l0 ++ l, ?_, List.mem_append.2 (.inr (m hact k hdisp hsub))⟩
  show (dispatch _ _).out = _
  rw [o]
  show (pollerPoll s ready nret).1.out ++ l = _
  rw [o0, List.append_assoc]

end dispatch

/-! ## what calls for a callback is a non-empty report -/

theorem disp_pos {k : Kind} {r : Nat} (h : disp k r) : 0 < r := by
  rcases Nat.eq_zero_or_pos r with rfl | hp
  · cases k <;> simp [disp, dispClose, dispError, dispRead, dispWrite] at h
  · exact hp

theorem lookupRev_mem {ready : List (Nat × Nat)} (hnd : (ready.map (·.1)).Nodup) {c rev : Nat}
    (h : (c, rev) ∈ ready) : lookupRev ready c = rev := by
  induction ready with
  | nil => simp at h
  | cons p rest ih =>
    obtain ⟨c0, r0⟩ := p
    simp only [List.map_cons, List.nodup_cons] at hnd
    rw [lookupRev_cons]
    rcases List.mem_cons.1 h with e | e
    · injection e with e1 e2; subst e1; subst e2; simp
    · have hne : c0 ≠ c := fun e' => hnd.1 (e' ▸ List.mem_map.2 ⟨(c, rev), e, rfl⟩)
      rw [if_neg hne]; exact ih hnd.2 e

/-! ## poll: the whole array is scanned -/

/-- the number of entries of `pollfds_` that `poll(2)` marked - the value it returns -/
def pollCount (ready : List (Nat × Nat)) (pfds : List (Int × Nat)) : Nat :=
  (pfds.filter (fun pfd => decide (pollActive (pollRev ready pfd : Int)))).length

theorem pollCount_cons (ready) (pfd : Int × Nat) (rest) :
    pollCount ready (pfd :: rest) =
      if pollActive (pollRev ready pfd : Int) then pollCount ready rest + 1 else pollCount ready rest := by
  unfold pollCount
  rw [List.filter_cons]
  by_cases h : pollActive (pollRev ready pfd : Int) <;> simp [h]

/-- `PollPoller::fillActiveChannels` with a budget of at least the number of marked entries: the channel of every
marked entry is in the active list -/
theorem pollFill_complete (ready : List (Nat × Nat)) :
    ∀ (pfds : List (Int × Nat)) (s : State) (n : Nat) (acc : List Nat), PollStruct s →
      (∀ pfd ∈ pfds, pfd ∈ s.pollfds) → pollCount ready pfds ≤ n →
      (∀ x ∈ acc, x ∈ (pollFill s ready pfds n acc).2) ∧
      ∀ pfd ∈ pfds, pollActive (pollRev ready pfd : Int) → ∀ d, s.cmap pfd.1 = some d →
        d ∈ (pollFill s ready pfds n acc).2 := by
  intro pfds
  induction pfds with
  | nil => intro s n acc _ _ _; exact ⟨fun x hx => by simpa [pollFill] using hx, fun _ h => by simp at h⟩
  | cons pfd rest ih =>
    intro s n acc hs hsub hn
    rw [pollCount_cons] at hn
    by_cases hact : pollActive (pollRev ready pfd : Int)
    · rw [if_pos hact] at hn
      cases n with
      | zero => omega
      | succ n =>
        rw [pollFill_cons, if_pos hact]
        obtain ⟨d, hd1, hd2, hd3⟩ := hs.slot (hsub pfd (by simp))
        have hnn := pollActive_pos hact
        rw [hd2] at hnn
        have hfst := (entryOf_nonneg hnn).2
        have hcm : s.cmap pfd.1 = some d := by rw [hd2, hfst]; exact hd3
        rw [hcm]
        simp only
        obtain ⟨h1, h2⟩ := ih (setChan s d { s.chans d with revents := pollRev ready pfd }) n (d :: acc)
          (hs.frame (frame_revents s d _)) (fun p hp => hsub p (by simp [hp])) (by omega)
        refine ⟨fun x hx => h1 x (by simp [hx]), fun q hq hqa d' hd' => ?_⟩
        rcases List.mem_cons.1 hq with e | e
        · subst e
          rw [hcm] at hd'
          injection hd' with e'
          subst e'
          exact h1 _ (by simp)
        · exact h2 q e hqa d' hd'
    · rw [if_neg hact] at hn
      cases n with
      | zero =>
        refine ⟨fun x hx => by simpa [pollFill] using hx, fun q hq hqa d' hd' => ?_⟩
        rcases List.mem_cons.1 hq with e | e
        · subst e; exact absurd hqa hact
        · have : 0 < pollCount ready rest := by
            unfold pollCount
            exact List.length_pos_of_mem (List.mem_filter.2 ⟨e, by simpa using hqa⟩)
          omega
      | succ n =>
        rw [pollFill_cons, if_neg hact]
        obtain ⟨h1, h2⟩ := ih s (n + 1) acc hs (fun p hp => hsub p (by simp [hp])) hn
        refine ⟨h1, fun q hq hqa d' hd' => ?_⟩
        rcases List.mem_cons.1 hq with e | e
        · subst e; exact absurd hqa hact
        · exact h2 q e hqa d' hd'

/-- a registered channel with some interest whose descriptor `poll(2)` marked is in the active list -/
theorem poll_active {s : State} (hbe : s.be = .poll) (hs : PollStruct s) (ready) (nret)
    (henv : pollCount ready s.pollfds ≤ nret) {c : Nat} (hreg : (s.chans c).added = true)
    (hev : (s.chans c).events ≠ 0) (hrdy : 0 < lookupRev ready c) :
    c ∈ (pollerPoll s ready nret).2 := by
  obtain ⟨hi, hcm, hget⟩ := hs.reg c hreg
  have hmem : entryOf (s.chans c).events c ∈ s.pollfds := List.mem_of_getElem? hget
  have hnn : 0 ≤ (entryOf (s.chans c).events c).1 := by
    unfold entryOf; rw [if_neg hev]; unfold fdOf; omega
  have hfst := (entryOf_nonneg hnn).2
  have hact : pollActive (pollRev ready (entryOf (s.chans c).events c) : Int) := by
    rw [pollRev_entry hnn]; unfold pollActive; omega
  have hpos : 0 < nret := by
    have : 0 < pollCount ready s.pollfds := by
      unfold pollCount
      exact List.length_pos_of_mem (List.mem_filter.2 ⟨hmem, by simpa using hact⟩)
    omega
  unfold pollerPoll
  rw [hbe]
  simp only
  rw [if_pos hpos]
  exact (pollFill_complete ready _ (emit s (.wait s.pollfds.length kPollTimeMs)) nret []
    (hs.frame (frame_wait s _)) (fun p hp => hp) henv).2 _ hmem hact c (by rw [hfst]; exact hcm)

/-- **poll, one iteration**: a registered channel that subscribes to `k`, whose descriptor is reported with bits that
call for `k`, and on which no pending scripted operation operates, gets its `k` callback in this very iteration -/
theorem poll_calls {s : State} (hg : PollGood s) (ready) (nret) (henv : pollCount ready s.pollfds ≤ nret)
    {c : Nat} {k : Kind} (hh : ∀ h ∈ s.hooks, h.c ≠ c) (hreg : (s.chans c).added = true)
    (hsub : subscribed k (s.chans c).events) (hrdy : disp k (lookupRev ready c)) :
    ∃ l, (iter s ready nret).out = s.out ++ l ∧ Ev.cb c k (lookupRev ready c) (s.chans c).events ∈ l := by
  have hact := poll_active hg.1 hg.2.2 ready nret henv hreg (subscribed_ne_zero hsub) (disp_pos hrdy)
  refine iter_calls (G := PollGood) pollGood_applyOp pollGood_quiet pollGood_cb (fun _ h => h.2.1) pollGood_book
    hg.2.1 ready nret (pollGood_poll s ready nret hg) ⟨?_, ?_, ?_⟩ hact k hrdy hsub
  · rw [(sameBook_pollerPoll s ready nret).hooks]; exact hh
  · exact (frame_pollerPoll s ready nret).ev c
  · exact poll_reported hg.1 hg.2.2 ready nret c hact

/-! ## epoll: what is reported is called -/

theorem epAlive_applyOp (s : State) (c k) (h : EpAlive s) : EpAlive (applyOp s c k) :=
  ⟨epGood_applyOp s c k h.1, (epStruct_applyOp h.1.1 h.1.2 c k).2.1.trans h.2⟩

theorem epAlive_quiet (s t : State) (q : Quiet s t) (h : EpAlive s) : EpAlive t := by
  have hd : t.dead = s.dead := by obtain ⟨hh, c, rfl⟩ := q; rfl
  exact ⟨epGood_frame s t q.frame h.1, hd.trans h.2⟩

theorem epAlive_cb (s t : State) (q : CbStep s t) (h : EpAlive s) : EpAlive t :=
  ⟨epGood_cb s t q h.1, (frame_of_cbStep q).2.2.2.2.2.trans h.2⟩

theorem epAlive_book (s : State) (it act hh c) (h : EpAlive s) :
    EpAlive { s with iteration := it, active := act, handling := hh, cur := c } :=
  ⟨⟨h.1.1, h.1.2.congr rfl rfl (fun _ => rfl) (fun _ => rfl) (fun _ => rfl)⟩, h.2⟩

/-- one admissible input keeps an epoll loop alive and its invariant true -/
theorem epAlive_step (s : State) (i : In) (h : EpAlive s) (henv : epEnvOk s i) : EpAlive (step s i) :=
  run_induction (P := EpAlive) (Q := epEnvOk) epAlive_applyOp epAlive_quiet epAlive_cb
    (fun s ready nret h _ henv => epAlive_poll s ready nret h henv) epAlive_book [i] s h ⟨henv, trivial⟩

/-- **epoll, one iteration**: a channel the kernel reports with bits that call for `k`, that subscribes to `k` and on
which no pending scripted operation operates, gets its `k` callback in this very iteration -/
theorem epoll_calls {s : State} (hg : EpAlive s) (ready) (nret) (henv : epEnvOk s (.iter ready nret))
    (hnd : (ready.map (·.1)).Nodup) {c rev : Nat} {k : Kind} (hmem : (c, rev) ∈ ready)
    (hh : ∀ h ∈ s.hooks, h.c ≠ c) (hsub : subscribed k (s.chans c).events) (hrdy : disp k rev) :
    ∃ l, (iter s ready nret).out = s.out ++ l ∧ Ev.cb c k rev (s.chans c).events ∈ l := by
  obtain ⟨e1, e2⟩ := pollerPoll_epoll_spec hg.1.1 hg.1.2 ready nret henv hnd
  have hcm : c ∈ ready.map (·.1) := List.mem_map.2 ⟨(c, rev), hmem, rfl⟩
  refine iter_calls (G := EpAlive) epAlive_applyOp epAlive_quiet epAlive_cb (fun _ h => h.2) epAlive_book
    hg.2 ready nret (epAlive_poll s ready nret hg henv) ⟨?_, ?_, ?_⟩ (by rw [e1]; exact hcm) k hrdy hsub
  · rw [(sameBook_pollerPoll s ready nret).hooks]; exact hh
  · exact (frame_pollerPoll s ready nret).ev c
  · rw [e2 c, if_pos hcm]; exact lookupRev_mem hnd hmem

/-! ## consecutive waits of an epoll loop while `R` descriptors stay ready -/

/-- the `j`-th of a series of consecutive waits while the descriptors of `order j` (channel, revents) are ready:
`order j` is the kernel's ready list as it stands at that wait, `epoll_wait` reports its first `min R evsize` entries
(as many as the array `events_` holds) and returns their number -/
def epWait (order : Nat → List (Nat × Nat)) (j : Nat) (s : State) : State :=
  iter s ((order j).take s.evsize) ((order j).take s.evsize).length

/-- the state after `n` consecutive waits -/
def epWaits (order : Nat → List (Nat × Nat)) : Nat → State → State
  | 0, s => s
  | n + 1, s => epWait order n (epWaits order n s)

/-- what `n` consecutive waits without scripted operations keep, and how far the array has grown -/
structure WaitsInv (s0 sn : State) (R n : Nat) : Prop where
  alive : EpAlive sn
  hooks : sn.hooks = []
  kernel : sn.kernel = s0.kernel
  ev : ∀ c, (sn.chans c).events = (s0.chans c).events
  pos : 0 < sn.evsize
  grow : s0.evsize * 2 ^ n ≤ sn.evsize ∨ R < sn.evsize

theorem epWait_env {s0 sn : State} {rdy : List (Nat × Nat)} {l : List (Nat × Nat)} (hl : l.Perm rdy)
    (hker : sn.kernel = s0.kernel) (hk : ∀ p ∈ rdy, (s0.kernel (fdOf p.1)).isSome) :
    epEnvOk sn (.iter (l.take sn.evsize) (l.take sn.evsize).length) :=
  fun _ => ⟨rfl, List.length_take_le _ _, fun p hp => by
    rw [hker]; exact hk p (hl.mem_iff.1 (List.mem_of_mem_take hp))⟩

theorem waitsInv_step {s0 sn : State} {rdy : List (Nat × Nat)} {n : Nat} (order : Nat → List (Nat × Nat))
    (hord : (order n).Perm rdy) (hk : ∀ p ∈ rdy, (s0.kernel (fdOf p.1)).isSome)
    (inv : WaitsInv s0 sn rdy.length n) : WaitsInv s0 (epWait order n sn) rdy.length (n + 1) := by
  have henv := epWait_env (sn := sn) hord inv.kernel hk
  have hlen : ((order n).take sn.evsize).length = min sn.evsize rdy.length := by
    rw [List.length_take, hord.length_eq]
  have halive : EpAlive (epWait order n sn) := epAlive_step sn (.iter _ _) inv.alive henv
  have hp := epAlive_poll sn _ _ inv.alive henv
  have hsb := sameBook_pollerPoll sn ((order n).take sn.evsize) ((order n).take sn.evsize).length
  have hfr := frame_pollerPoll sn ((order n).take sn.evsize) ((order n).take sn.evsize).length
  have hform := iter_nohooks inv.hooks inv.alive.2 ((order n).take sn.evsize) ((order n).take sn.evsize).length
    hp.2 (hsb.hooks.trans inv.hooks)
  have hsize : (epWait order n sn).evsize =
      if rdy.length < sn.evsize then sn.evsize else epGrowTo sn.evsize := by
    unfold epWait
    rw [iter_evsize, inv.alive.2, pollerPoll_evsize]
    simp only [Bool.false_eq_true, if_false]
    by_cases hR : rdy.length < sn.evsize
    · rw [if_pos hR, if_neg]
      intro h
      have := h.2.2.2
      unfold epArrayFull at this
      omega
    · rw [if_neg hR, if_pos]
      refine ⟨inv.alive.1.1, ?_, ?_, ?_⟩
      · unfold epHasEvents; have := inv.pos; omega
      · have := List.length_take_le sn.evsize (order n); omega
      · unfold epArrayFull; omega
  refine ⟨halive, ?_, ?_, ?_, ?_, ?_⟩
  · unfold epWait; rw [hform]; exact hsb.hooks.trans inv.hooks
  · unfold epWait; rw [hform]; exact hfr.kernel.trans inv.kernel
  · intro c; unfold epWait; rw [hform]; exact (hfr.ev c).trans (inv.ev c)
  · rw [hsize]; split
    · exact inv.pos
    · exact Nat.lt_of_lt_of_le inv.pos (le_epGrowTo _)
  · rw [hsize]
    by_cases hR : rdy.length < sn.evsize
    · rw [if_pos hR]; exact .inr hR
    · rw [if_neg hR]
      rcases inv.grow with h | h
      · left
        have e : s0.evsize * 2 ^ (n + 1) = s0.evsize * 2 ^ n * 2 := by rw [Nat.pow_succ, Nat.mul_assoc]
        rw [e]; unfold epGrowTo; omega
      · exact absurd h hR

theorem epWaits_inv {s : State} (hg : EpAlive s) (hh : s.hooks = []) (hpos : 0 < s.evsize)
    {rdy : List (Nat × Nat)} (order : Nat → List (Nat × Nat)) (hord : ∀ j, (order j).Perm rdy)
    (hk : ∀ p ∈ rdy, (s.kernel (fdOf p.1)).isSome) :
    ∀ n, WaitsInv s (epWaits order n s) rdy.length n := by
  intro n
  induction n with
  | zero => exact ⟨hg, hh, rfl, fun _ => rfl, hpos, .inl (by simp [epWaits])⟩
  | succ n ih => exact waitsInv_step order (hord n) hk ih

/-- **epoll, the doubling bound**: once `evsize₀ · 2ⁿ ≥ R`, the wait after `n` consecutive ones reports all `R` ready
descriptors, and every one that subscribes to what it is ready for is called in that iteration -/
theorem epoll_bound_calls {s : State} (hg : EpAlive s) (hh : s.hooks = []) (hpos : 0 < s.evsize)
    {rdy : List (Nat × Nat)} (order : Nat → List (Nat × Nat)) (hord : ∀ j, (order j).Perm rdy)
    (hnd : (rdy.map (·.1)).Nodup) (hk : ∀ p ∈ rdy, (s.kernel (fdOf p.1)).isSome)
    (n : Nat) (hn : rdy.length ≤ s.evsize * 2 ^ n) {c rev : Nat} {k : Kind} (hmem : (c, rev) ∈ rdy)
    (hrdy : disp k rev) (hsub : subscribed k (s.chans c).events) :
    ∃ l, (epWait order n (epWaits order n s)).out = (epWaits order n s).out ++ l ∧
      Ev.cb c k rev (s.chans c).events ∈ l := by
  have inv := epWaits_inv hg hh hpos order hord hk n
  have hge : (order n).length ≤ (epWaits order n s).evsize := by
    rw [(hord n).length_eq]
    rcases inv.grow with h | h <;> omega
  have henv := epWait_env (sn := epWaits order n s) (hord n) inv.kernel hk
  unfold epWait at henv ⊢
  rw [List.take_of_length_le hge] at henv ⊢
  have := epoll_calls inv.alive (order n) (order n).length henv
    (((hord n).map (·.1)).nodup_iff.2 hnd) ((hord n).mem_iff.2 hmem)
    (by rw [inv.hooks]; intro h hh; simp at hh) (k := k) (by rw [inv.ev c]; exact hsub) hrdy
  rw [inv.ev c] at this
  exact this

end MuduoVerif.Poller
