import MuduoVerif.Proofs.MonitorTie
/-! Lemmas about wait-sets and the mutex/condition layer `Mon` shared by the monitor models. -/
namespace MuduoVerif.Monitor

@[simp] theorem upd_same {α : Type} (f : Nat → α) (t : Nat) (v : α) : upd f t v t = v := by simp [upd]
theorem upd_other {α : Type} (f : Nat → α) (t x : Nat) (v : α) (h : x ≠ t) : upd f t v x = f x := by simp [upd, h]

/-! ### `WS` -/

/-- the effect of `notify()` on a wait-set -/
def OneSpec (w w' : WS) : Prop :=
  (w.W = [] ∧ w' = w) ∨ ∃ u, u ∈ w.W ∧ w' = ⟨w.W.erase u, w.S ++ [u]⟩

theorem WS.one_spec (w : WS) (k : Nat) : OneSpec w (w.one k) := by
  unfold WS.one OneSpec
  cases h : w.W[k % w.W.length]? with
  | none =>
    left
    simp only [and_true]
    rw [List.getElem?_eq_none_iff] at h
    cases hw : w.W with
    | nil => rfl
    | cons a l =>
      rw [hw] at h
      have : k % (a :: l).length < (a :: l).length := Nat.mod_lt _ (by simp)
      omega
  | some u =>
    right
    exact ⟨u, List.mem_of_getElem? h, rfl⟩

/-- everybody inside `wait()` on this condition -/
def WS.parked (w : WS) : List Nat := w.W ++ w.S

theorem perm_move (W S : List Nat) (u : Nat) (h : u ∈ W) : (W.erase u ++ (S ++ [u])).Perm (W ++ S) := by
  have h1 : (W.erase u ++ (S ++ [u])).Perm (u :: (W.erase u ++ S)) := by
    rw [← List.append_assoc]
    exact List.perm_append_singleton _ _
  have h2 : (u :: (W.erase u ++ S)).Perm (W ++ S) := by
    have := (List.perm_cons_erase h).symm
    exact (List.Perm.append_right S this)
  exact h1.trans h2

theorem OneSpec.perm {w w' : WS} (h : OneSpec w w') : w'.parked.Perm w.parked := by
  rcases h with ⟨_, rfl⟩ | ⟨u, hu, rfl⟩
  · exact List.Perm.refl _
  · exact perm_move _ _ _ hu

theorem OneSpec.W_sub {w w' : WS} (h : OneSpec w w') {x : Nat} (hx : x ∈ w'.W) : x ∈ w.W := by
  rcases h with ⟨_, rfl⟩ | ⟨u, hu, rfl⟩
  · exact hx
  · exact List.mem_of_mem_erase hx

theorem OneSpec.S_len {w w' : WS} (h : OneSpec w w') : w.W ≠ [] → w'.S.length = w.S.length + 1 := by
  rcases h with ⟨h0, rfl⟩ | ⟨u, hu, rfl⟩
  · intro h; exact absurd h0 h
  · intro _; simp

theorem OneSpec.S_le {w w' : WS} (h : OneSpec w w') : w.S.length ≤ w'.S.length := by
  rcases h with ⟨h0, rfl⟩ | ⟨u, hu, rfl⟩
  · exact Nat.le_refl _
  · simp

theorem OneSpec.nil {w w' : WS} (h : OneSpec w w') (h0 : w.W = []) : w' = w := by
  rcases h with ⟨_, rfl⟩ | ⟨u, hu, rfl⟩
  · rfl
  · rw [h0] at hu; cases hu

theorem WS.all_perm (w : WS) : w.all.parked.Perm w.parked := by
  simp only [WS.all, WS.parked, List.nil_append]
  exact List.perm_append_comm

theorem WS.spur_perm (w : WS) (t : Nat) (h : t ∈ w.W) : (w.spur t).parked.Perm w.parked :=
  perm_move _ _ _ h

/-! ### `Mon` -/

namespace Mon

@[simp] theorem ws_setWs_same (m : Mon) (c : Cond) (w : WS) : (m.setWs c w).ws c = w := by cases c <;> rfl
theorem ws_setWs_other (m : Mon) (c c' : Cond) (w : WS) (h : c' ≠ c) : (m.setWs c w).ws c' = m.ws c' := by
  cases c <;> cases c' <;> first | rfl | exact absurd rfl h
@[simp] theorem owner_setWs (m : Mon) (c : Cond) (w : WS) : (m.setWs c w).owner = m.owner := by cases c <;> rfl
@[simp] theorem sched_setWs (m : Mon) (c : Cond) (w : WS) : (m.setWs c w).sched = m.sched := by cases c <;> rfl
@[simp] theorem ne_eq_ws (m : Mon) : m.ws .notEmpty = m.ne := rfl
@[simp] theorem nf_eq_ws (m : Mon) : m.ws .notFull = m.nf := rfl

/-- what one `notify`/`notifyAll` does, condition by condition -/
theorem notify_spec (m : Mon) (f : NotF) :
    (m.notify f).owner = m.owner ∧ (∀ c, c ≠ f.cond → (m.notify f).ws c = m.ws c) ∧
    (if f.all then (m.notify f).ws f.cond = (m.ws f.cond).all else OneSpec (m.ws f.cond) ((m.notify f).ws f.cond)) := by
  unfold notify
  cases hf : f.all
  · simp only [Bool.false_eq_true, if_false]
    split
    · refine ⟨by simp, ?_, ?_⟩
      · intro c hc
        show (m.setWs f.cond _).ws c = _
        exact ws_setWs_other _ _ _ _ hc
      · show OneSpec _ ((m.setWs f.cond _).ws f.cond)
        rw [ws_setWs_same]; exact WS.one_spec _ _
    · refine ⟨by simp, fun c hc => ws_setWs_other _ _ _ _ hc, ?_⟩
      rw [ws_setWs_same]; exact WS.one_spec _ _
  · simp only [if_true]
    exact ⟨by simp, fun c hc => ws_setWs_other _ _ _ _ hc, by simp⟩

theorem notify_owner (m : Mon) (f : NotF) : (m.notify f).owner = m.owner := (notify_spec m f).1

theorem notify_perm (m : Mon) (f : NotF) (c : Cond) : ((m.notify f).ws c).parked.Perm (m.ws c).parked := by
  have h := notify_spec m f
  by_cases hc : c = f.cond
  · subst hc
    cases hf : f.all
    · have := h.2.2; simp only [hf, Bool.false_eq_true, if_false] at this; exact this.perm
    · have := h.2.2; simp only [hf, if_true] at this; rw [this]; exact WS.all_perm _
  · rw [h.2.1 c hc]

theorem notify_W_sub (m : Mon) (f : NotF) (c : Cond) {x : Nat} (hx : x ∈ ((m.notify f).ws c).W) : x ∈ (m.ws c).W := by
  have h := notify_spec m f
  by_cases hc : c = f.cond
  · subst hc
    cases hf : f.all
    · have := h.2.2; simp only [hf, Bool.false_eq_true, if_false] at this; exact this.W_sub hx
    · have := h.2.2; simp only [hf, if_true] at this; rw [this] at hx; cases hx
  · rw [h.2.1 c hc] at hx; exact hx

theorem notifs_owner (m : Mon) (fs : List NotF) : (m.notifs fs).owner = m.owner := by
  induction fs generalizing m with
  | nil => rfl
  | cons f fs ih => simp only [notifs, List.foldl_cons] at *; rw [ih]; exact notify_owner _ _

theorem notifs_perm (m : Mon) (fs : List NotF) (c : Cond) : ((m.notifs fs).ws c).parked.Perm (m.ws c).parked := by
  induction fs generalizing m with
  | nil => exact List.Perm.refl _
  | cons f fs ih => simp only [notifs, List.foldl_cons] at *; exact (ih _).trans (notify_perm _ _ _)

theorem notifs_W_sub (m : Mon) (fs : List NotF) (c : Cond) {x : Nat} (hx : x ∈ ((m.notifs fs).ws c).W) : x ∈ (m.ws c).W := by
  induction fs generalizing m with
  | nil => exact hx
  | cons f fs ih => simp only [notifs, List.foldl_cons] at *; exact notify_W_sub _ _ _ (ih _ hx)

/-- the structural invariant of the mutex/condition layer -/
structure WF (m : Mon) : Prop where
  nodup : ∀ c, (m.ws c).parked.Nodup
  own : ∀ u, m.owner = some u → ∀ c, u ∉ (m.ws c).W

theorem WF.notifs {m : Mon} (h : m.WF) (fs : List NotF) : (m.notifs fs).WF where
  nodup c := (notifs_perm m fs c).nodup_iff.mpr (h.nodup c)
  own u hu c hx := h.own u (by rw [← hu, notifs_owner]) c (notifs_W_sub m fs c hx)

/-- `enter` on a `while` wait, by cases -/
theorem enter_while (m : Mon) (t : Nat) (c : Cond) (g : Bool) :
    m.enter t (some ⟨true, c⟩) g =
      if t ∈ (m.ws c).S then
        if g = true then (false, (m.setWs c ((m.ws c).wake t)).parkOn c t) else (true, m.setWs c ((m.ws c).wake t))
      else if g = true then (false, m.parkOn c t) else (true, m) := by
  simp [enter]

end Mon

namespace Mon

/-- structural invariant: nobody is in a wait-set twice, the owner is not waiting, and everybody inside
`wait()` on `c` is in an operation that waits on `c` (`R`, supplied by the instance) -/
structure Struct (m : Mon) (R : Nat → Cond → Prop) : Prop where
  nodup : ∀ c, ((m.ws c).W ++ (m.ws c).S).Nodup
  own : ∀ u c, m.owner = some u → u ∉ (m.ws c).W
  role : ∀ c t, t ∈ (m.ws c).W ∨ t ∈ (m.ws c).S → R t c

variable {R : Nat → Cond → Prop}

theorem mem_parked (w : WS) (x : Nat) : x ∈ w.parked ↔ x ∈ w.W ∨ x ∈ w.S := by simp [WS.parked]

theorem Struct.acq {m : Mon} (h : m.Struct R) (t : Nat) (ht : ∀ c, t ∉ (m.ws c).W) :
    ({ m with owner := some t } : Mon).Struct R where
  nodup c := by cases c; exact h.nodup .notEmpty; exact h.nodup .notFull
  own u c hu := by
    have : u = t := by simpa using hu.symm
    subst this; cases c; exact ht .notEmpty; exact ht .notFull
  role c x hx := by cases c; exact h.role .notEmpty x hx; exact h.role .notFull x hx

theorem Struct.mono {m : Mon} {R' : Nat → Cond → Prop} (h : m.Struct R)
    (hr : ∀ c t, (t ∈ (m.ws c).W ∨ t ∈ (m.ws c).S) → R t c → R' t c) : m.Struct R' where
  nodup := h.nodup
  own := h.own
  role c t ht := hr c t ht (h.role c t ht)

theorem Struct.of_perm {m m' : Mon} (h : m.Struct R) (ho : m'.owner = m.owner)
    (hp : ∀ c, (m'.ws c).parked.Perm (m.ws c).parked) (hw : ∀ c x, x ∈ (m'.ws c).W → x ∈ (m.ws c).W) : m'.Struct R where
  nodup c := (hp c).nodup_iff.mpr (h.nodup c)
  own u c hu hx := h.own u c (by rw [← ho]; exact hu) (hw c u hx)
  role c t ht := h.role c t (by
    have := (hp c).mem_iff (a := t)
    rw [mem_parked, mem_parked] at this
    exact this.mp ht)

theorem Struct.notifs {m : Mon} (h : m.Struct R) (fs : List NotF) : (m.notifs fs).Struct R :=
  h.of_perm (notifs_owner m fs) (notifs_perm m fs) (fun c _ hx => notifs_W_sub m fs c hx)

theorem Struct.spur {m : Mon} (h : m.Struct R) (c : Cond) (t : Nat) (ht : t ∈ (m.ws c).W) :
    (m.setWs c ((m.ws c).spur t)).Struct R := by
  refine h.of_perm (by simp) ?_ ?_
  · intro c'
    by_cases hc : c' = c
    · subst hc; rw [ws_setWs_same]; exact WS.spur_perm _ _ ht
    · rw [ws_setWs_other _ _ _ _ hc]
  · intro c' x hx
    by_cases hc : c' = c
    · subst hc; rw [ws_setWs_same] at hx; exact List.mem_of_mem_erase hx
    · rw [ws_setWs_other _ _ _ _ hc] at hx; exact hx

/-- the result of `enter` on a `while` wait -/
theorem enter_facts (m : Mon) (t : Nat) (c : Cond) (g : Bool) :
    ∃ S', (S' = (m.ws c).S ∧ t ∉ (m.ws c).S ∨ S' = (m.ws c).S.erase t ∧ t ∈ (m.ws c).S) ∧
      m.enter t (some ⟨true, c⟩) g =
        if g = true then (false, { m.setWs c ⟨(m.ws c).W ++ [t], S'⟩ with owner := none })
        else (true, m.setWs c ⟨(m.ws c).W, S'⟩) := by
  rw [enter_while]
  by_cases h : t ∈ (m.ws c).S
  · refine ⟨(m.ws c).S.erase t, Or.inr ⟨rfl, h⟩, ?_⟩
    cases g <;> simp [h, parkOn, WS.wake, WS.park]
    cases c <;> simp [setWs]
  · refine ⟨(m.ws c).S, Or.inl ⟨rfl, h⟩, ?_⟩
    cases g <;> simp [h, parkOn, WS.park]
    cases c <;> rfl

theorem shrink_facts {W S S' : List Nat} {t : Nat} (hn : (W ++ S).Nodup)
    (h : S' = S ∧ t ∉ S ∨ S' = S.erase t ∧ t ∈ S) :
    t ∉ S' ∧ (∀ x, x ∈ S' → x ∈ S) ∧ S.length ≤ S'.length + 1 ∧ (W ++ S').Nodup := by
  rcases h with ⟨rfl, h⟩ | ⟨rfl, h⟩
  · exact ⟨h, fun _ hx => hx, by omega, hn⟩
  · have hS : S.Nodup := (List.nodup_append.mp hn).2.1
    refine ⟨fun hx => ((hS.mem_erase_iff).mp hx).1 rfl, fun _ hx => List.mem_of_mem_erase hx, ?_, ?_⟩
    · rw [List.length_erase_of_mem h]; omega
    · exact List.Nodup.sublist (List.Sublist.append_left (List.erase_sublist) W) hn

theorem Struct.park {m : Mon} (h : m.Struct R) {t : Nat} {c : Cond} {S' : List Nat} (ho : m.owner = some t) (hR : R t c)
    (hS : S' = (m.ws c).S ∧ t ∉ (m.ws c).S ∨ S' = (m.ws c).S.erase t ∧ t ∈ (m.ws c).S) :
    ({ m.setWs c ⟨(m.ws c).W ++ [t], S'⟩ with owner := none } : Mon).Struct R := by
  obtain ⟨h1, h2, _, h4⟩ := shrink_facts (h.nodup c) hS
  have hW : t ∉ (m.ws c).W := h.own t c ho
  have key : ∀ c', (({ m.setWs c ⟨(m.ws c).W ++ [t], S'⟩ with owner := none } : Mon).ws c') = (m.setWs c ⟨(m.ws c).W ++ [t], S'⟩).ws c' := by
    intro c'; cases c' <;> rfl
  constructor
  · intro c'
    rw [key]
    by_cases hc : c' = c
    · subst hc
      rw [ws_setWs_same]
      show ((m.ws c').W ++ [t] ++ S').Nodup
      have : ((m.ws c').W ++ [t] ++ S').Perm (t :: ((m.ws c').W ++ S')) := by
        rw [List.append_assoc]; exact List.perm_middle
      rw [this.nodup_iff, List.nodup_cons]
      refine ⟨?_, h4⟩
      simp only [List.mem_append, not_or]; exact ⟨hW, h1⟩
    · rw [ws_setWs_other _ _ _ _ hc]; exact h.nodup c'
  · intro u c' hu; cases hu
  · intro c' x hx
    rw [key] at hx
    by_cases hc : c' = c
    · subst hc
      rw [ws_setWs_same] at hx
      simp only [List.mem_append, List.mem_singleton] at hx
      rcases hx with (hx | rfl) | hx
      · exact h.role c' x (Or.inl hx)
      · exact hR
      · exact h.role c' x (Or.inr (h2 x hx))
    · rw [ws_setWs_other _ _ _ _ hc] at hx; exact h.role c' x hx

theorem Struct.go {m : Mon} (h : m.Struct R) {t : Nat} {c : Cond} {S' : List Nat}
    (hS : S' = (m.ws c).S ∧ t ∉ (m.ws c).S ∨ S' = (m.ws c).S.erase t ∧ t ∈ (m.ws c).S) :
    (m.setWs c ⟨(m.ws c).W, S'⟩).Struct R := by
  obtain ⟨_, h2, _, h4⟩ := shrink_facts (h.nodup c) hS
  constructor
  · intro c'
    by_cases hc : c' = c
    · subst hc; rw [ws_setWs_same]; exact h4
    · rw [ws_setWs_other _ _ _ _ hc]; exact h.nodup c'
  · intro u c' hu
    rw [owner_setWs] at hu
    by_cases hc : c' = c
    · subst hc; rw [ws_setWs_same]; exact h.own u c' hu
    · rw [ws_setWs_other _ _ _ _ hc]; exact h.own u c' hu
  · intro c' x hx
    by_cases hc : c' = c
    · subst hc
      rw [ws_setWs_same] at hx
      rcases hx with hx | hx
      · exact h.role c' x (Or.inl hx)
      · exact h.role c' x (Or.inr (h2 x hx))
    · rw [ws_setWs_other _ _ _ _ hc] at hx; exact h.role c' x hx

/-- the owner finishes its operation and unlocks; its role changes -/
theorem Struct.release {m : Mon} {R' : Nat → Cond → Prop} (h : m.Struct R) {t : Nat} (ho : m.owner = some t)
    (ht : ∀ c, t ∉ (m.ws c).S) (hR : ∀ x c, x ≠ t → R x c → R' x c) :
    ({ m with owner := none } : Mon).Struct R' := by
  have key : ∀ c', (({ m with owner := none } : Mon).ws c') = m.ws c' := by intro c'; cases c' <;> rfl
  constructor
  · intro c'; rw [key]; exact h.nodup c'
  · intro u c' hu; cases hu
  · intro c' x hx
    rw [key] at hx
    have hne : x ≠ t := by
      rintro rfl
      rcases hx with hx | hx
      · exact h.own x c' ho hx
      · exact ht c' hx
    exact hR x c' hne (h.role c' x hx)

/-- the owner goes on holding the mutex (e.g. between two statements of `stop()`); roles may change for it -/
theorem Struct.keep {m : Mon} {R' : Nat → Cond → Prop} (h : m.Struct R) {t : Nat} (ho : m.owner = some t)
    (ht : ∀ c, t ∉ (m.ws c).S) (hR : ∀ x c, x ≠ t → R x c → R' x c) : m.Struct R' := by
  constructor
  · exact h.nodup
  · exact h.own
  · intro c' x hx
    have hne : x ≠ t := by
      rintro rfl
      rcases hx with hx | hx
      · exact h.own x c' ho hx
      · exact ht c' hx
    exact hR x c' hne (h.role c' x hx)

end Mon

theorem Mon.Struct.not_parked {m : Mon} {R : Nat → Cond → Prop} (h : m.Struct R) {t : Nat} {c : Cond} (hr : ¬ R t c) :
    t ∉ (m.ws c).W ∧ t ∉ (m.ws c).S :=
  ⟨fun hx => hr (h.role c t (Or.inl hx)), fun hx => hr (h.role c t (Or.inr hx))⟩

/-- what `notifs [notify c]` leaves behind -/
theorem Mon.notifs_one (m : Mon) (c : Cond) :
    (m.notifs [⟨false, c⟩]).owner = m.owner ∧ (∀ c', c' ≠ c → (m.notifs [⟨false, c⟩]).ws c' = m.ws c') ∧
      OneSpec (m.ws c) ((m.notifs [⟨false, c⟩]).ws c) := by
  have := Mon.notify_spec m ⟨false, c⟩
  simpa [Mon.notifs] using this

theorem Mon.notifs_all (m : Mon) (c : Cond) :
    (m.notifs [⟨true, c⟩]).owner = m.owner ∧ (∀ c', c' ≠ c → (m.notifs [⟨true, c⟩]).ws c' = m.ws c') ∧
      (m.notifs [⟨true, c⟩]).ws c = (m.ws c).all := by
  have := Mon.notify_spec m ⟨true, c⟩
  simpa [Mon.notifs] using this


/-- `S'` is `S` without `t` (which has just returned from `wait()`), or `S` itself when `t` was not in it -/
abbrev Shrunk (S S' : List Nat) (t : Nat) : Prop := S' = S ∧ t ∉ S ∨ S' = S.erase t ∧ t ∈ S

/-- unlock -/
def Mon.unlock (m : Mon) : Mon := { m with owner := none }
@[simp] theorem Mon.unlock_owner (m : Mon) : m.unlock.owner = none := rfl
@[simp] theorem Mon.unlock_ws (m : Mon) (c : Cond) : m.unlock.ws c = m.ws c := by cases c <;> rfl
@[simp] theorem Mon.unlock_ne (m : Mon) : m.unlock.ne = m.ne := rfl
@[simp] theorem Mon.unlock_nf (m : Mon) : m.unlock.nf = m.nf := rfl

theorem Mon.Struct.unlock {m : Mon} {R R' : Nat → Cond → Prop} (h : m.Struct R) {t : Nat} (ho : m.owner = some t)
    (ht : ∀ c, t ∉ (m.ws c).S) (hR : ∀ x c, x ≠ t → R x c → R' x c) : m.unlock.Struct R' :=
  h.release ho ht hR

end MuduoVerif.Monitor
