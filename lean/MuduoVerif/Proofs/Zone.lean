import MuduoVerif.Model.Zone
/-!
Lemmas about the zone look-ups (C20): the libstdc++ binary search returns the partition point of a
sorted key, the UTC look-up returns the record of the last transition `≤ t`, and the local look-up
finds that record again (on the right side of a repeated hour) for well-formed zone data.

The generated guards (`Gen.Zone.*`) are unfolded here, so these proofs are re-checked against
whatever /repo's `findLocalTime` says now.
-/
namespace MuduoVerif.Zone
open MuduoVerif.Gen.Zone

/-! ### binary search -/

/-- `std::upper_bound` with `comp = (<)` on a key that is non-decreasing on `first .. first+len`:
the result is the partition point (everything before it is `≤ val`, everything from it on is `> val`). -/
theorem searchLoop_upper (key : Nat → Int) (v : Int) :
    ∀ (fuel first len : Nat), len ≤ fuel →
      (∀ i j, first ≤ i → i ≤ j → j < first + len → key i ≤ key j) →
      let r := searchLoop true key (fun a b => decide (a < b)) v fuel first len
      first ≤ r ∧ r ≤ first + len ∧ (∀ i, first ≤ i → i < r → key i ≤ v) ∧
        (∀ i, r ≤ i → i < first + len → v < key i) := by
  intro fuel
  induction fuel with
  | zero =>
    intro first len hl _
    have : len = 0 := by omega
    subst this
    simp only [searchLoop]
    refine ⟨by omega, by omega, ?_, ?_⟩ <;> intro i h1 h2 <;> omega
  | succ fuel ih =>
    intro first len hl hs
    simp only [searchLoop]
    by_cases h0 : len = 0
    · subst h0
      simp only [if_true]
      refine ⟨by omega, by omega, ?_, ?_⟩ <;> intro i h1 h2 <;> omega
    · simp only [h0, if_false, if_true]
      by_cases hc : v < key (first + len / 2)
      · simp only [hc, decide_true, if_true]
        have hs' : ∀ i j, first ≤ i → i ≤ j → j < first + len / 2 → key i ≤ key j :=
          fun i j a b c => hs i j a b (by omega)
        obtain ⟨r1, r2, r3, r4⟩ := ih first (len / 2) (by omega) hs'
        refine ⟨r1, by omega, r3, ?_⟩
        intro i h1 h2
        by_cases hi : i < first + len / 2
        · exact r4 i h1 hi
        · have := hs (first + len / 2) i (by omega) (by omega) h2
          omega
      · simp only [hc, decide_false, if_false, Bool.false_eq_true]
        have hs' : ∀ i j, first + len / 2 + 1 ≤ i → i ≤ j → j < first + len / 2 + 1 + (len - len / 2 - 1) →
            key i ≤ key j := fun i j a b c => hs i j (by omega) b (by omega)
        obtain ⟨r1, r2, r3, r4⟩ := ih (first + len / 2 + 1) (len - len / 2 - 1) (by omega) hs'
        refine ⟨by omega, by omega, ?_, ?_⟩
        · intro i h1 h2
          by_cases hi : first + len / 2 + 1 ≤ i
          · exact r3 i hi h2
          · have := hs i (first + len / 2) h1 (by omega) (by omega)
            omega
        · intro i h1 h2
          exact r4 i h1 (by omega)

/-- stepwise non-decreasing ⇒ non-decreasing -/
theorem mono_of_step (key : Nat → Int) (n : Nat) (h : ∀ i, i + 1 < n → key i ≤ key (i + 1)) :
    ∀ i j, i ≤ j → j < n → key i ≤ key j := by
  intro i j hij hj
  induction j with
  | zero =>
    have : i = 0 := by omega
    subst this; exact Int.le_refl _
  | succ j ih =>
    by_cases he : i = j + 1
    · subst he; exact Int.le_refl _
    · have h1 := ih (by omega) (by omega)
      have h2 := h j (by omega)
      omega

/-- the upper bound of `v` in a sorted key, when `key k ≤ v` and `v` is below the next key: `k + 1` -/
theorem search_upper_eq (key : Nat → Int) (v : Int) (n k : Nat)
    (hs : ∀ i, i + 1 < n → key i ≤ key (i + 1)) (hk : k < n) (h1 : key k ≤ v)
    (h2 : k + 1 < n → v < key (k + 1)) :
    search true key (fun a b => decide (a < b)) v n = k + 1 := by
  have hm := mono_of_step key n hs
  obtain ⟨_, r2, r3, r4⟩ := searchLoop_upper key v n 0 n (Nat.le_refl _)
    (fun i j _ b c => hm i j b (by omega))
  simp only [search]
  generalize searchLoop true key (fun a b => decide (a < b)) v n 0 n = r at *
  by_cases ha : r ≤ k
  · have := r4 k ha (by omega); omega
  · by_cases hb : k + 1 < r
    · have h3 := r3 (k + 1) (by omega) hb
      have := h2 (by omega)
      omega
    · omega

/-! ### consequences of well-formedness -/

theorem chg_nonneg (d : Data) (i : Nat) : 0 ≤ d.chg i := by
  unfold Data.chg; split <;> omega

theorem chg_ge' (d : Data) (i : Nat) : d.o i - d.oPrev i ≤ d.chg i ∧ d.oPrev i - d.o i ≤ d.chg i := by
  unfold Data.chg; split <;> omega

theorem oPrev_pos (d : Data) (i : Nat) (hi : 0 < i) : d.oPrev i = d.o (i - 1) := by
  unfold Data.oPrev; rw [if_neg (by omega)]

theorem oPrev_zero (d : Data) : d.oPrev 0 = (d.lt 0).utcOffset := rfl

theorem prevRec_offset (d : Data) (i : Nat) : (d.prevRec i).utcOffset = d.oPrev i := by
  unfold Data.prevRec Data.oPrev; split <;> rfl

theorem chg_ge (d : Data) (i : Nat) (hi : 0 < i) :
    d.o i - d.o (i - 1) ≤ d.chg i ∧ d.o (i - 1) - d.o i ≤ d.chg i := by
  have := chg_ge' d i; rw [oPrev_pos d i hi] at this; exact this

/-- the gap after transition `i` exceeds the changes at both ends -/
theorem WF.gap {d : Data} (h : WF d) (i : Nat) (hi : i + 1 < d.n) :
    d.chg i + d.chg (i + 1) < d.u (i + 1) - d.u i := h.2 i (by omega)

theorem WF.u_lt {d : Data} (h : WF d) (i : Nat) (hi : i + 1 < d.n) : d.u i < d.u (i + 1) := by
  have := h.gap i hi; have := chg_nonneg d i; have := chg_nonneg d (i + 1); omega

theorem WF.loc {d : Data} (h : WF d) (i : Nat) (hi : i < d.n) : (d.tr i).localtime = d.u i + d.o i := h.1 i hi

theorem WF.l_lt {d : Data} (h : WF d) (i : Nat) (hi : i + 1 < d.n) :
    d.u i + d.o i < d.u (i + 1) + d.o (i + 1) := by
  have := h.gap i hi; have := chg_nonneg d i; have := chg_ge d (i + 1) (by omega)
  simp only [Nat.add_sub_cancel] at this
  omega

theorem WF.u_mono {d : Data} (h : WF d) : ∀ i j, i ≤ j → j < d.n → d.u i ≤ d.u j :=
  mono_of_step d.u d.n (fun i hi => Int.le_of_lt (h.u_lt i hi))

/-! ### the UTC look-up -/

/-- the index of the transition in force at `t`: the last one with `u k ≤ t` -/
def InEra (d : Data) (k : Nat) (t : Int) : Prop := k < d.n ∧ d.u k ≤ t ∧ (k + 1 < d.n → t < d.u (k + 1))

instance (d : Data) (k : Nat) (t : Int) : Decidable (InEra d k t) := by unfold InEra; infer_instance

theorem utcBound_eq {d : Data} (h : WF d) {k : Nat} {t : Int} (hk : InEra d k t) : utcBound d t = k + 1 := by
  obtain ⟨h1, h2, h3⟩ := hk
  have hu : utcSearchUpper = true := by decide
  simp only [utcBound, hu, cmpUtc]
  exact search_upper_eq (fun i => (d.tr i).utctime) t d.n k
    (fun i hi => Int.le_of_lt (h.u_lt i hi)) h1 h2 h3

theorem findUtc_eq {d : Data} (h : WF d) {k : Nat} {t : Int} (hk : InEra d k t) : findUtc d t = d.lrec k := by
  have hb := utcBound_eq h hk
  obtain ⟨h1, h2, h3⟩ := hk
  have h0 : d.u 0 ≤ t := Int.le_trans (h.u_mono 0 k (Nat.zero_le _) h1) h2
  have hn : ¬ (d.n = 0 ∨ t < (d.tr 0).utctime) := by
    have : (d.tr 0).utctime = d.u 0 := rfl
    omega
  simp only [findUtc, utcUseFirst, hn, if_false, hb, utcInside]
  by_cases he : k + 1 = d.n
  · have : d.n - 1 = k := by omega
    simp only [he, ne_eq, not_true_eq_false, if_false, this]
  · simp only [ne_eq, he, not_false_eq_true, if_true, Nat.add_sub_cancel]

/-- every instant from the first transition on lies in exactly one era -/
theorem exists_era {d : Data} (_h : WF d) (t : Int) (hn : 0 < d.n) (ht : d.u 0 ≤ t) : ∃ k, InEra d k t := by
  -- the last index whose transition is ≤ t
  have key : ∀ m, m < d.n → ∃ k, k ≤ m ∧ d.u k ≤ t ∧ (k < m → t < d.u (k + 1)) := by
    intro m
    induction m with
    | zero => intro _; exact ⟨0, Nat.le_refl _, ht, fun hh => absurd hh (Nat.lt_irrefl _)⟩
    | succ m ih =>
      intro hm
      obtain ⟨k, a, b, c⟩ := ih (by omega)
      by_cases hc : d.u (m + 1) ≤ t
      · exact ⟨m + 1, Nat.le_refl _, hc, fun hh => absurd hh (Nat.lt_irrefl _)⟩
      · refine ⟨k, by omega, b, ?_⟩
        intro hk
        by_cases hkm : k < m
        · exact c hkm
        · have : k = m := by omega
          subst this; omega
  obtain ⟨k, a, b, c⟩ := key (d.n - 1) (by omega)
  exact ⟨k, by omega, b, fun hh => c (by omega)⟩

/-! ### the local look-up -/

theorem localBound_eq {d : Data} (h : WF d) {k : Nat} {L : Int} (hk : k < d.n) (h1 : d.u k + d.o k ≤ L)
    (h2 : k + 1 < d.n → L < d.u (k + 1) + d.o (k + 1)) : localBound d L = k + 1 := by
  have hu : localSearchUpper = true := by decide
  simp only [localBound, hu, cmpLocal]
  refine search_upper_eq (fun i => (d.tr i).localtime) L d.n k ?_ hk ?_ ?_
  · intro i hi
    simp only [h.loc i (by omega), h.loc (i + 1) hi]
    exact Int.le_of_lt (h.l_lt i hi)
  · simp only [h.loc k hk]; exact h1
  · intro hh; simp only [h.loc (k + 1) hh]; exact h2 hh

theorem l_mono {d : Data} (h : WF d) : ∀ i j, i ≤ j → j < d.n → d.u i + d.o i ≤ d.u j + d.o j :=
  mono_of_step (fun i => d.u i + d.o i) d.n (fun i hi => Int.le_of_lt (h.l_lt i hi))

/-- not before the first transition's local time -/
theorem not_useFirst {d : Data} (h : WF d) {k : Nat} {L : Int} (hk : k < d.n) (h1 : d.u k + d.o k ≤ L) :
    ¬ (d.n = 0 ∨ L < (d.tr 0).localtime) := by
  have := l_mono h 0 k (Nat.zero_le _) hk
  have := h.loc 0 (by omega)
  omega

/-- what `findLocal` does once the upper bound is known to be `i = k'+1` (`k' < n`): all generated
guards unfolded -/
theorem findLocal_at {d : Data} (h : WF d) {k : Nat} {L : Int} (post : Bool) (hk : k < d.n)
    (h1 : d.u k + d.o k ≤ L) (h2 : k + 1 < d.n → L < d.u (k + 1) + d.o (k + 1)) :
    findLocal d L post =
      if k + 1 < d.n ∧ d.u (k + 1) - 1 + d.o k < L then (if post then d.lrec (k + 1) else d.lrec k)
      else if L ≤ d.u k - 1 + d.oPrev k then (if post then d.lrec k else d.prevRec k)
      else d.lrec k := by
  have hb := localBound_eq h hk h1 h2
  have hf := not_useFirst h hk h1
  have eu : ∀ i, (d.tr i).utctime = d.u i := fun _ => rfl
  have eo : ∀ i, (d.lrec i).utcOffset = d.o i := fun _ => rfl
  simp only [findLocal, localUseFirst, hf, if_false, hb, localAfterLast, Nat.add_sub_cancel, priorSecond,
    priorSecond2, priorSecondFirst, priorIdxFirst, isSkip, isRepeat, hasPrior, eu, eo, decide_eq_true_eq]
  by_cases he : k + 1 = d.n
  · have hn1 : ¬ (k + 1 < d.n) := by omega
    simp only [he, if_true, not_true_eq_false, false_and, if_false, Nat.lt_irrefl]
    by_cases hk0 : k = 0
    · subst hk0
      simp only [ne_eq, not_true_eq_false, if_false, Data.oPrev, Data.prevRec, if_true]
    · have hp : 0 < k := by omega
      simp only [ne_eq, hk0, not_false_eq_true, if_true, Data.oPrev, Data.prevRec, if_false]
  · have hlt : k + 1 < d.n := by omega
    simp only [he, if_false, not_false_eq_true, true_and, hlt]
    by_cases hs : d.u (k + 1) - 1 + d.o k < L
    · simp only [hs, if_true]
    · simp only [hs, if_false]
      by_cases hk0 : k = 0
      · subst hk0
        simp only [ne_eq, not_true_eq_false, if_false, Data.oPrev, Data.prevRec, if_true]
      · have hp : 0 < k := by omega
        simp only [ne_eq, hk0, not_false_eq_true, if_true, Data.oPrev, Data.prevRec, if_false]

/-- `t` (in era `k`) lies in the local period that transition `k` made occur a second time: it is the
**later** of the two instants with this local time -/
def LaterCopy (d : Data) (k : Nat) (t : Int) : Prop := t + d.o k < d.u k + d.oPrev k

/-- `t` (in era `k`) lies in the local period that transition `k+1` will repeat: it is the
**earlier** of the two instants with this local time -/
def EarlierCopy (d : Data) (k : Nat) (t : Int) : Prop := k + 1 < d.n ∧ d.u (k + 1) + d.o (k + 1) ≤ t + d.o k

instance (d : Data) (k : Nat) (t : Int) : Decidable (LaterCopy d k t) := by unfold LaterCopy; infer_instance
instance (d : Data) (k : Nat) (t : Int) : Decidable (EarlierCopy d k t) := by unfold EarlierCopy; infer_instance

/-- under well-formedness no local time occurs three times -/
theorem not_both {d : Data} (h : WF d) {k : Nat} {t : Int} (hk : InEra d k t) :
    ¬ (EarlierCopy d k t ∧ LaterCopy d k t) := by
  rintro ⟨⟨a1, a2⟩, b2⟩
  unfold LaterCopy at b2
  have := h.gap k a1
  have := chg_ge' d k
  have := chg_ge d (k + 1) (by omega)
  simp only [Nat.add_sub_cancel] at this
  obtain ⟨_, _, h3⟩ := hk
  have := h3 a1
  omega

/-- **the local look-up finds the era again**: for the local time of an instant `t` of era `k`,
`findLocalTime(local, post)` returns the record of era `k` — on side `post = false` when `t` is the
earlier instant of a repeated period (side `true` gives the era after it), on side `post = true` when
it is the later one (side `false` gives the era before it), on both sides otherwise. -/
theorem findLocal_era {d : Data} (h : WF d) {k : Nat} {t : Int} (hk : InEra d k t) (post : Bool) :
    findLocal d (t + d.o k) post =
      if EarlierCopy d k t then (if post then d.lrec (k + 1) else d.lrec k)
      else if LaterCopy d k t then (if post then d.lrec k else d.prevRec k)
      else d.lrec k := by
  obtain ⟨h1, h2, h3⟩ := hk
  by_cases he : EarlierCopy d k t
  · obtain ⟨e1, e2⟩ := he
    have ht := h3 e1
    have g1 := h.gap k e1
    have c1 := chg_ge d (k + 1) (by omega)
    simp only [Nat.add_sub_cancel] at c1
    have hn := chg_nonneg d k
    have hb : k + 1 + 1 < d.n → t + d.o k < d.u (k + 1 + 1) + d.o (k + 1 + 1) := by
      intro hh
      have g2 := h.gap (k + 1) hh
      have c2 := chg_ge d (k + 1 + 1) (by omega)
      simp only [Nat.add_sub_cancel] at c2
      omega
    rw [findLocal_at h post e1 e2 hb]
    have hx : ¬ (k + 1 + 1 < d.n ∧ d.u (k + 1 + 1) - 1 + d.o (k + 1) < t + d.o k) := by
      rintro ⟨hh, hl⟩
      have g2 := h.gap (k + 1) hh
      have := chg_nonneg d (k + 1 + 1)
      omega
    have hy : t + d.o k ≤ d.u (k + 1) - 1 + d.oPrev (k + 1) := by rw [oPrev_pos d (k + 1) (by omega), Nat.add_sub_cancel]; omega
    have hz : EarlierCopy d k t := ⟨e1, e2⟩
    have hpr : d.prevRec (k + 1) = d.lrec k := by unfold Data.prevRec; rw [if_neg (by omega), Nat.add_sub_cancel]
    simp only [hx, if_false, hy, if_true, hz, hpr]
  · have hb : k + 1 < d.n → t + d.o k < d.u (k + 1) + d.o (k + 1) := by
      intro hh
      unfold EarlierCopy at he
      omega
    rw [findLocal_at h post h1 (by omega) hb]
    have hx : ¬ (k + 1 < d.n ∧ d.u (k + 1) - 1 + d.o k < t + d.o k) := by
      rintro ⟨hh, hl⟩
      have := h3 hh
      omega
    simp only [hx, if_false, he]
    have : (t + d.o k ≤ d.u k - 1 + d.oPrev k) ↔ LaterCopy d k t := by
      unfold LaterCopy; constructor <;> intro a <;> omega
    simp only [this]

/-- **skipped local times**: a local time that transition `k+1` jumped over (it lies between the last
local second before the transition and the first one after it) is resolved with the offset of the
requested side of that transition. -/
theorem findLocal_skipped {d : Data} (h : WF d) {k : Nat} {L : Int} (hk : k + 1 < d.n)
    (hL1 : d.u (k + 1) + d.o k ≤ L) (hL2 : L < d.u (k + 1) + d.o (k + 1)) (post : Bool) :
    findLocal d L post = if post then d.lrec (k + 1) else d.lrec k := by
  have := h.u_lt k hk
  rw [findLocal_at h post (by omega : k < d.n) (by omega) (fun _ => hL2)]
  have hx : k + 1 < d.n ∧ d.u (k + 1) - 1 + d.o k < L := ⟨hk, by omega⟩
  simp only [hx, and_self, if_true]

/-- zone data without transitions (fixed offset, `TimeZone(eastOfUtc, name)`, `Etc/GMT+5`, …) -/
theorem findUtc_fixed {d : Data} (hn : d.n = 0) (t : Int) : findUtc d t = d.lt 0 := by
  simp only [findUtc, utcUseFirst, hn, true_or, if_true]

theorem findLocal_fixed {d : Data} (hn : d.n = 0) (L : Int) (post : Bool) : findLocal d L post = d.lt 0 := by
  simp only [findLocal, localUseFirst, hn, true_or, if_true, firstSkipPost, not_true_eq_false, and_false, false_and, if_false]

/-- before the first transition both look-ups use `localtimes.front()` -/
theorem findUtc_before {d : Data} (t : Int) (ht : t < d.u 0) : findUtc d t = d.lt 0 := by
  have : t < (d.tr 0).utctime := ht
  simp only [findUtc, utcUseFirst, this, or_true, if_true]

/-- era indices are unique -/
theorem era_unique {d : Data} (h : WF d) {k k' : Nat} {t : Int} (hk : InEra d k t) (hk' : InEra d k' t) : k = k' := by
  obtain ⟨a1, a2, a3⟩ := hk
  obtain ⟨b1, b2, b3⟩ := hk'
  by_cases h1 : k < k'
  · have := h.u_mono (k + 1) k' (by omega) b1
    have := a3 (by omega)
    omega
  · by_cases h2 : k' < k
    · have := h.u_mono (k' + 1) k (by omega) a1
      have := b3 (by omega)
      omega
    · omega

/-! ### the first transition: before it `localtimes.front()` is in force -/

/-- the local look-up for a local time before the first transition's own local start -/
theorem findLocal_beforeFirst {d : Data} (h : WF d) (hn : 0 < d.n) {L : Int} (hL : L < d.u 0 + d.o 0) (post : Bool) :
    findLocal d L post =
      if post = true ∧ d.u 0 - 1 + (d.lt 0).utcOffset < L then d.lrec 0 else d.lt 0 := by
  have hl := h.loc 0 hn
  have hlt : L < (d.tr 0).localtime := by omega
  have hne : ¬ d.n = 0 := by omega
  have eu : (d.tr 0).utctime = d.u 0 := rfl
  simp only [findLocal, localUseFirst, hlt, or_true, if_true, firstSkipPost, hne, not_false_eq_true, and_true, eu]

/-- the local look-up for the local time of an instant `t` BEFORE the first transition: the record in force there
(`localtimes.front()`) - on side `post = false` when the first transition repeats that local time (side `true` gives
the first transition's record), on both sides otherwise -/
theorem findLocal_before {d : Data} (h : WF d) (hn : 0 < d.n) {t : Int} (ht : t < d.u 0) (post : Bool) :
    findLocal d (t + (d.lt 0).utcOffset) post =
      if d.u 0 + d.o 0 ≤ t + (d.lt 0).utcOffset then (if post then d.lrec 0 else d.lt 0) else d.lt 0 := by
  by_cases hc : d.u 0 + d.o 0 ≤ t + (d.lt 0).utcOffset
  · have c0 := chg_ge' d 0
    rw [oPrev_zero] at c0
    have hb : 0 + 1 < d.n → t + (d.lt 0).utcOffset < d.u (0 + 1) + d.o (0 + 1) := by
      intro hh
      have g := h.gap 0 hh
      have c1 := chg_ge d (0 + 1) (by omega)
      simp only [Nat.add_sub_cancel] at c1
      omega
    rw [findLocal_at h post hn hc hb]
    have hx : ¬ (0 + 1 < d.n ∧ d.u (0 + 1) - 1 + d.o 0 < t + (d.lt 0).utcOffset) := by
      rintro ⟨hh, hl⟩
      have g := h.gap 0 hh
      have := chg_nonneg d (0 + 1)
      omega
    have hy : t + (d.lt 0).utcOffset ≤ d.u 0 - 1 + d.oPrev 0 := by rw [oPrev_zero]; omega
    have hp : d.prevRec 0 = d.lt 0 := rfl
    simp only [hx, if_false, hy, if_true, hc, hp]
  · rw [findLocal_beforeFirst h hn (by omega) post]
    have : ¬ (post = true ∧ d.u 0 - 1 + (d.lt 0).utcOffset < t + (d.lt 0).utcOffset) := by
      rintro ⟨_, hl⟩; omega
    simp only [this, if_false, hc]

end MuduoVerif.Zone
