import MuduoVerif.Proofs.ConnFresh
import MuduoVerif.Proofs.ConnLife
/-!
C01, send direction, per thread: the blocks handed to `send()` on the loop thread are accepted
at once and in call order; those handed to `send()` on other threads are accepted in call
order, none skipped while the connection is not down.
C13, counting: every write-complete callback is paid for by a distinct accepted `send()`.
-/
namespace MuduoVerif.Conn
open MuduoVerif.Gen.Conn

def sendData : Task → Option Bytes
  | .sendInLoop d => some d
  | _ => none

/-- the blocks of the `send()`s still waiting in the functor queue, in queue order -/
def Conn.queuedSends (c : Conn) : List Bytes := c.queue.filterMap sendData
/-- accepted blocks that were sent on the loop thread -/
def Conn.lBlocks (c : Conn) : List Bytes := (c.blocks.filter (fun b => !b.1)).map (·.2)
/-- accepted blocks that came through the functor queue (sent on another thread) -/
def Conn.fBlocks (c : Conn) : List Bytes := (c.blocks.filter (·.1)).map (·.2)

structure BlocksInv (c : Conn) : Prop where
  /-- the accepted byte stream is the concatenation of the accepted blocks -/
  flat : c.accepted = (c.blocks.map (·.2)).flatten
  /-- every block sent on the loop thread is accepted at once, in call order -/
  loopOrder : c.lBlocks = c.offeredL
  /-- blocks sent on other threads are accepted in call order … -/
  foreignPrefix : c.fBlocks <+: c.offeredF
  /-- … none skipped while the connection is not down: what is not accepted yet is still queued, in order -/
  foreignAll : c.st ≠ .kDisconnected → c.fBlocks ++ c.queuedSends = c.offeredF

/-- a step that accepts nothing and offers nothing: the ghost lists are unchanged, and either the
connection is down afterwards or it was not down before and the queued sends are the same -/
structure BlkStep (c c' : Conn) : Prop where
  accepted : c'.accepted = c.accepted
  blocks : c'.blocks = c.blocks
  offeredL : c'.offeredL = c.offeredL
  offeredF : c'.offeredF = c.offeredF
  sends : c'.st ≠ .kDisconnected → c.st ≠ .kDisconnected ∧ c'.queuedSends = c.queuedSends

theorem BlkStep.rfl' (c : Conn) : BlkStep c c := ⟨rfl, rfl, rfl, rfl, fun h => ⟨h, rfl⟩⟩

theorem BlkStep.trans {a b c : Conn} (h1 : BlkStep a b) (h2 : BlkStep b c) : BlkStep a c :=
  ⟨h2.accepted.trans h1.accepted, h2.blocks.trans h1.blocks, h2.offeredL.trans h1.offeredL,
   h2.offeredF.trans h1.offeredF,
   fun h => ⟨(h1.sends (h2.sends h).1).1, (h2.sends h).2.trans (h1.sends (h2.sends h).1).2⟩⟩

/-- same ghost lists, state and queue -/
theorem BlkStep.same {c c' : Conn} (h1 : c'.accepted = c.accepted) (h2 : c'.blocks = c.blocks)
    (h3 : c'.offeredL = c.offeredL) (h4 : c'.offeredF = c.offeredF) (h5 : c'.st = c.st)
    (h6 : c'.batch = c.batch) (h7 : c'.pending = c.pending) : BlkStep c c' :=
  ⟨h1, h2, h3, h4, fun h => ⟨by rw [← h5]; exact h, by unfold Conn.queuedSends Conn.queue; rw [h6, h7]⟩⟩

/-- same ghost lists and state, the queue changed but not its sends -/
theorem BlkStep.ofQ {c c' : Conn} (h1 : c'.accepted = c.accepted) (h2 : c'.blocks = c.blocks)
    (h3 : c'.offeredL = c.offeredL) (h4 : c'.offeredF = c.offeredF) (h5 : c'.st = c.st)
    (h6 : c'.queuedSends = c.queuedSends) : BlkStep c c' :=
  ⟨h1, h2, h3, h4, fun h => ⟨by rw [← h5]; exact h, h6⟩⟩

/-- same ghost lists, the connection is down afterwards -/
theorem BlkStep.down {c c' : Conn} (h1 : c'.accepted = c.accepted) (h2 : c'.blocks = c.blocks)
    (h3 : c'.offeredL = c.offeredL) (h4 : c'.offeredF = c.offeredF) (h5 : c'.st = .kDisconnected) : BlkStep c c' :=
  ⟨h1, h2, h3, h4, fun h => absurd h5 h⟩

theorem BlocksInv.frame {c c' : Conn} (hi : BlocksInv c) (h : BlkStep c c') : BlocksInv c' := by
  have hl : c'.lBlocks = c.lBlocks := by unfold Conn.lBlocks; rw [h.blocks]
  have hf : c'.fBlocks = c.fBlocks := by unfold Conn.fBlocks; rw [h.blocks]
  constructor
  · rw [h.accepted, h.blocks]; exact hi.flat
  · rw [hl, h.offeredL]; exact hi.loopOrder
  · rw [hf, h.offeredF]; exact hi.foreignPrefix
  · intro hs
    obtain ⟨h1, h2⟩ := h.sends hs
    rw [hf, h2, h.offeredF]; exact hi.foreignAll h1

theorem queuedSends_enqueue (c : Conn) (t : Task) :
    (enqueue c t).queuedSends = c.queuedSends ++ (sendData t).toList := by
  unfold Conn.queuedSends; rw [queue_enqueue, List.filterMap_append]
  cases h : sendData t <;> simp [h]

theorem enqueue_blk (c : Conn) (t : Task) (h : sendData t = none) : BlkStep c (enqueue c t) :=
  BlkStep.ofQ rfl rfl rfl rfl rfl (by rw [queuedSends_enqueue, h]; simp)

theorem popWrite_blk (c : Conn) : BlkStep c (popWrite c) := by
  unfold popWrite; split <;> exact BlkStep.same rfl rfl rfl rfl rfl rfl rfl
theorem popRead_blk (c : Conn) : BlkStep c (popRead c) := by
  unfold popRead; split <;> exact BlkStep.same rfl rfl rfl rfl rfl rfl rfl

theorem queueRemainder_blk (c : Conn) (data : Bytes) (n : Nat) (fault : Bool) :
    BlkStep c (queueRemainder c data n fault) := by
  unfold queueRemainder
  split
  · simp only []
    have key : ∀ c1 : Conn, BlkStep c c1 →
        BlkStep c (if sendEnablesWriting ({ c1 with outBuf := c1.outBuf ++ data.drop n } : Conn).ch.evWrite
          then enableWriting { c1 with outBuf := c1.outBuf ++ data.drop n }
          else { c1 with outBuf := c1.outBuf ++ data.drop n }) := by
      intro c1 h1
      split
      · exact h1.trans (BlkStep.same rfl rfl rfl rfl rfl rfl rfl)
      · exact h1.trans (BlkStep.same rfl rfl rfl rfl rfl rfl rfl)
    split
    · exact key _ (enqueue_blk _ _ rfl)
    · exact key _ (BlkStep.rfl' c)
  · split
    · exact BlkStep.same rfl rfl rfl rfl rfl rfl rfl
    · exact BlkStep.rfl' c

theorem sendDirect_blk (c : Conn) (data : Bytes) (r : WriteRes) : BlkStep c (sendDirect c data r) := by
  cases r with
  | took n =>
    simp only [sendDirect]; split
    · refine BlkStep.trans (b := enqueue { c with wrote := c.wrote ++ data.take n } (.writeComplete (bindCb wcBindSend c.wcId))) ?_ (queueRemainder_blk _ _ _ _)
      exact BlkStep.trans (b := { c with wrote := c.wrote ++ data.take n }) (BlkStep.same rfl rfl rfl rfl rfl rfl rfl) (enqueue_blk _ _ rfl)
    · exact BlkStep.trans (b := { c with wrote := c.wrote ++ data.take n }) (BlkStep.same rfl rfl rfl rfl rfl rfl rfl) (queueRemainder_blk _ _ _ _)
  | err e => exact queueRemainder_blk _ _ _ _

/-- a step that accepts exactly the block `d` (tagged `q`) on a connection that is not down -/
structure Accepts (c c' : Conn) (q : Bool) (d : Bytes) : Prop where
  up : c.st ≠ .kDisconnected
  accepted : c'.accepted = c.accepted ++ d
  blocks : c'.blocks = c.blocks ++ [(q, d)]
  offeredL : c'.offeredL = c.offeredL
  offeredF : c'.offeredF = c.offeredF
  sends : c'.st ≠ .kDisconnected → c'.queuedSends = c.queuedSends

theorem Accepts.then {a b c : Conn} {q : Bool} {d : Bytes} (h1 : Accepts a b q d) (h2 : BlkStep b c) : Accepts a c q d :=
  ⟨h1.up, h2.accepted.trans h1.accepted, h2.blocks.trans h1.blocks, h2.offeredL.trans h1.offeredL,
   h2.offeredF.trans h1.offeredF, fun h => (h2.sends h).2.trans (h1.sends (h2.sends h).1)⟩

/-- `sendInLoop` either gives up — only when the connection is down — or accepts the block -/
theorem sendInLoop_blk (c : Conn) (data : Bytes) (q : Bool) :
    (c.st = .kDisconnected ∧ BlkStep c (sendInLoop c data q)) ∨ Accepts c (sendInLoop c data q) q data := by
  unfold sendInLoop
  split
  · rename_i hg
    exact Or.inl ⟨hg, BlkStep.same rfl rfl rfl rfl rfl rfl rfl⟩
  · rename_i hg
    have hup : c.st ≠ .kDisconnected := hg
    have ha : Accepts c (accept c data q) q data := ⟨hup, rfl, rfl, rfl, rfl, fun _ => rfl⟩
    right
    split
    · refine ha.then ?_
      refine BlkStep.trans ?_ (sendDirect_blk _ _ _)
      exact BlkStep.trans (popWrite_blk _) (BlkStep.same rfl rfl rfl rfl rfl rfl rfl)
    · exact ha.then (queueRemainder_blk _ _ _ _)

theorem lBlocks_snoc {c c' : Conn} {q : Bool} {d : Bytes} (h : c'.blocks = c.blocks ++ [(q, d)]) :
    c'.lBlocks = c.lBlocks ++ (if q = true then [] else [d]) := by
  unfold Conn.lBlocks; rw [h]; cases q <;> simp [List.filter_append]

theorem fBlocks_snoc {c c' : Conn} {q : Bool} {d : Bytes} (h : c'.blocks = c.blocks ++ [(q, d)]) :
    c'.fBlocks = c.fBlocks ++ (if q = true then [d] else []) := by
  unfold Conn.fBlocks; rw [h]; cases q <;> simp [List.filter_append]

theorem flat_snoc {c c' : Conn} {q : Bool} {d : Bytes} (hi : c.accepted = (c.blocks.map (·.2)).flatten)
    (ha : c'.accepted = c.accepted ++ d) (hb : c'.blocks = c.blocks ++ [(q, d)]) :
    c'.accepted = (c'.blocks.map (·.2)).flatten := by
  rw [ha, hb, hi]; simp

/-- a `send()` on the loop thread that passed the state test: offered and accepted in one step -/
theorem BlocksInv.sentOnLoop {c c1 c' : Conn} {d : Bytes} (hi : BlocksInv c)
    (e1 : c1.accepted = c.accepted) (e2 : c1.blocks = c.blocks) (e3 : c1.offeredL = c.offeredL ++ [d])
    (e4 : c1.offeredF = c.offeredF) (e5 : c1.st = c.st) (e6 : c1.queuedSends = c.queuedSends)
    (h : Accepts c1 c' false d) : BlocksInv c' := by
  have hb : c'.blocks = c.blocks ++ [(false, d)] := by rw [h.blocks, e2]
  have hf : c'.fBlocks = c.fBlocks := by rw [fBlocks_snoc hb]; simp
  constructor
  · exact flat_snoc hi.flat (by rw [h.accepted, e1]) hb
  · rw [lBlocks_snoc hb, h.offeredL, e3, hi.loopOrder]; simp
  · rw [hf, h.offeredF, e4]; exact hi.foreignPrefix
  · intro hs
    rw [hf, h.sends hs, e6, h.offeredF, e4]
    exact hi.foreignAll (by rw [← e5]; exact h.up)

/-- the `send()` functor at the head of the queue runs on a connection that is not down -/
theorem BlocksInv.sentFromQueue {c c1 c' : Conn} {d : Bytes} (hi : BlocksInv c)
    (e1 : c1.accepted = c.accepted) (e2 : c1.blocks = c.blocks) (e3 : c1.offeredL = c.offeredL)
    (e4 : c1.offeredF = c.offeredF) (e5 : c1.st = c.st) (e6 : c.queuedSends = d :: c1.queuedSends)
    (h : Accepts c1 c' true d) : BlocksInv c' := by
  have hb : c'.blocks = c.blocks ++ [(true, d)] := by rw [h.blocks, e2]
  have hf : c'.fBlocks = c.fBlocks ++ [d] := by rw [fBlocks_snoc hb]; simp
  have hall : c.fBlocks ++ [d] ++ c1.queuedSends = c.offeredF := by
    have := hi.foreignAll (by rw [← e5]; exact h.up)
    rw [e6] at this; simpa using this
  constructor
  · exact flat_snoc hi.flat (by rw [h.accepted, e1]) hb
  · rw [lBlocks_snoc hb, h.offeredL, e3, hi.loopOrder]; simp
  · rw [hf, h.offeredF, e4]; exact ⟨_, hall⟩
  · intro hs
    rw [hf, h.sends hs, h.offeredF, e4]; exact hall

theorem shutdownInLoop_blk (c : Conn) : BlkStep c (shutdownInLoop c) := by
  unfold shutdownInLoop; split <;> exact BlkStep.same rfl rfl rfl rfl rfl rfl rfl
theorem startReadInLoop_blk (c : Conn) : BlkStep c (startReadInLoop c) := by
  unfold startReadInLoop; split <;> exact BlkStep.same rfl rfl rfl rfl rfl rfl rfl
theorem stopReadInLoop_blk (c : Conn) : BlkStep c (stopReadInLoop c) := by
  unfold stopReadInLoop; split <;> exact BlkStep.same rfl rfl rfl rfl rfl rfl rfl

theorem handOff_blk (c : Conn) (f : Bool) (d : Dispatch) (t : Task) (g : Conn → Conn)
    (ht : sendData t = none) (hg : BlkStep c (g c)) : BlkStep c (handOff c f d t g) := by
  unfold handOff; split
  · exact enqueue_blk _ _ ht
  · exact hg

/-- `setState(kDisconnecting)` on a connection that is not down -/
theorem disconnecting_blk (c : Conn) (h : c.st ≠ .kDisconnected) : BlkStep c { c with st := .kDisconnecting } :=
  ⟨rfl, rfl, rfl, rfl, fun _ => ⟨h, rfl⟩⟩

theorem act_blocks (c : Conn) (f : Bool) (a : Act) (hi : BlocksInv c) : BlocksInv (act c f a) := by
  cases a with
  | send d =>
    simp only [act]; split
    · rename_i hg
      have hst : c.st = .kConnected := hg
      have hup : c.st ≠ .kDisconnected := by rw [hst]; decide
      split
      · -- another thread: offered, and queued behind everything queued before
        have hq : (enqueue { c with offeredF := c.offeredF ++ [d] } (.sendInLoop d)).queuedSends = c.queuedSends ++ [d] := by
          rw [queuedSends_enqueue]; rfl
        have hall := hi.foreignAll hup
        constructor
        · exact hi.flat
        · exact hi.loopOrder
        · exact List.IsPrefix.trans hi.foreignPrefix (List.prefix_append _ _)
        · intro _
          rw [hq]
          show c.fBlocks ++ (c.queuedSends ++ [d]) = c.offeredF ++ [d]
          rw [← List.append_assoc, hall]
      · -- the loop thread: offered and accepted at once
        rcases sendInLoop_blk { c with offeredL := c.offeredL ++ [d] } d false with ⟨hd, _⟩ | h
        · exact absurd hd hup
        · exact hi.sentOnLoop (c1 := { c with offeredL := c.offeredL ++ [d] }) rfl rfl rfl rfl rfl rfl h
    · exact hi
  | shutdown =>
    simp only [act]; split
    · rename_i hg
      have hst : c.st = .kConnected := hg
      have hup : c.st ≠ .kDisconnected := by rw [hst]; decide
      exact hi.frame ((disconnecting_blk c hup).trans (handOff_blk _ _ _ _ _ rfl (shutdownInLoop_blk _)))
    · exact hi
  | forceClose =>
    simp only [act]; split
    · rename_i hg
      have hup : c.st ≠ .kDisconnected := by
        intro h; simp [forceCloseAccepts, h] at hg
      exact hi.frame ((disconnecting_blk c hup).trans (handOff_blk _ _ _ _ _ rfl (BlkStep.rfl' _)))
    · exact hi
  | forceCloseDelay us =>
    simp only [act]; split
    · rename_i hg
      have hup : c.st ≠ .kDisconnected := by
        intro h; simp [forceCloseDelayAccepts, h] at hg
      split
      · exact hi.frame ((disconnecting_blk c hup).trans (enqueue_blk _ _ rfl))
      · exact hi.frame ((disconnecting_blk c hup).trans (BlkStep.same rfl rfl rfl rfl rfl rfl rfl))
    · exact hi
  | stopRead => simp only [act]; exact hi.frame (handOff_blk _ _ _ _ _ rfl (stopReadInLoop_blk _))
  | startRead => simp only [act]; exact hi.frame (handOff_blk _ _ _ _ _ rfl (startReadInLoop_blk _))
  | setWc k => exact hi.frame (BlkStep.same rfl rfl rfl rfl rfl rfl rfl)
  | setHwm k m => exact hi.frame (BlkStep.same rfl rfl rfl rfl rfl rfl rfl)

theorem callback_blocks (c : Conn) (k : Cb) (e : Ev) (hi : BlocksInv c) : BlocksInv (callback c k e) := by
  unfold callback; split
  · exact act_blocks _ _ _ (hi.frame (BlkStep.same rfl rfl rfl rfl rfl rfl rfl))
  · exact hi.frame (BlkStep.same rfl rfl rfl rfl rfl rfl rfl)

theorem handleClose_blocks (c : Conn) (hi : BlocksInv c) : BlocksInv (handleClose c) := by
  unfold handleClose; split
  · exact hi.frame (BlkStep.same rfl rfl rfl rfl rfl rfl rfl)
  · have h1 : BlocksInv (callback (disableAll { c with st := .kDisconnected }) .down .down) :=
      callback_blocks _ _ _ (hi.frame (BlkStep.down rfl rfl rfl rfl rfl))
    refine h1.frame (BlkStep.trans (b := { emit (callback (disableAll { c with st := .kDisconnected }) .down .down) .closeCb with owner := false }) ?_ (enqueue_blk _ _ rfl))
    exact BlkStep.same rfl rfl rfl rfl rfl rfl rfl

theorem handleReadRes_blocks (c : Conn) (r : ReadRes) (hi : BlocksInv c) : BlocksInv (handleReadRes c r) := by
  unfold handleReadRes; split
  · exact handleClose_blocks c hi
  · rename_i n
    simp only []
    have h1 := callback_blocks (deliver c (n+1)) .msg (.msg (deliver c (n+1)).inBuf.length (fnv64 (deliver c (n+1)).inBuf))
      (hi.frame (BlkStep.same rfl rfl rfl rfl rfl rfl rfl))
    exact h1.frame (BlkStep.same rfl rfl rfl rfl rfl rfl rfl)
  · exact hi

theorem handleRead_blocks (c : Conn) (hi : BlocksInv c) : BlocksInv (handleRead c) := by
  unfold handleRead
  apply handleReadRes_blocks
  exact hi.frame (BlkStep.trans (popRead_blk c) (BlkStep.same rfl rfl rfl rfl rfl rfl rfl))

theorem afterDrain_blk (c : Conn) : BlkStep c (afterDrain c) := by
  unfold afterDrain; simp only []
  split
  · have h1 : BlkStep c (enqueue (disableWriting c) (.writeComplete (bindCb wcBindDrain c.wcId))) :=
      BlkStep.trans (b := disableWriting c) (BlkStep.same rfl rfl rfl rfl rfl rfl rfl) (enqueue_blk _ _ rfl)
    split
    · exact h1.trans (handOff_blk _ _ _ _ _ rfl (shutdownInLoop_blk _))
    · exact h1
  · have h1 : BlkStep c (disableWriting c) := BlkStep.same rfl rfl rfl rfl rfl rfl rfl
    split
    · exact h1.trans (handOff_blk _ _ _ _ _ rfl (shutdownInLoop_blk _))
    · exact h1

theorem handleWriteRes_blk (c : Conn) (r : WriteRes) : BlkStep c (handleWriteRes c r) := by
  unfold handleWriteRes; split
  · simp only []; split
    · exact BlkStep.trans (b := { c with wrote := c.wrote ++ c.outBuf.take _, outBuf := c.outBuf.drop _ })
        (BlkStep.same rfl rfl rfl rfl rfl rfl rfl) (afterDrain_blk _)
    · exact BlkStep.same rfl rfl rfl rfl rfl rfl rfl
  · exact BlkStep.rfl' c

theorem handleWrite_blk (c : Conn) : BlkStep c (handleWrite c) := by
  unfold handleWrite; split
  · refine BlkStep.trans ?_ (handleWriteRes_blk _ _)
    exact BlkStep.trans (popWrite_blk c) (BlkStep.same rfl rfl rfl rfl rfl rfl rfl)
  · exact BlkStep.rfl' c

theorem guarded_blocks (f : Conn → Conn) (hf : ∀ c, BlocksInv c → BlocksInv (f c)) (rev : Prop) [Decidable rev]
    (sub : Bool → Bool → Bool → Prop) [∀ a b c, Decidable (sub a b c)] (c : Conn) (hi : BlocksInv c) :
    BlocksInv (guarded f rev sub c) := by
  unfold guarded; split
  · exact hf c hi
  · exact hi

theorem handleEvent_blocks (c : Conn) (r : Nat) (hi : BlocksInv c) : BlocksInv (handleEvent c r) := by
  unfold handleEvent; split
  · exact hi
  · exact guarded_blocks _ (fun c h => h.frame (handleWrite_blk c)) _ _ _
      (guarded_blocks _ handleRead_blocks _ _ _ (guarded_blocks _ handleClose_blocks _ _ _ hi))

theorem removeChannel_blk (c : Conn) : BlkStep c (removeChannel c) := by
  unfold removeChannel; split <;> exact BlkStep.same rfl rfl rfl rfl rfl rfl rfl

theorem connectDestroyed_blocks (c : Conn) (hi : BlocksInv c) : BlocksInv (connectDestroyed c) := by
  unfold connectDestroyed; split
  · have h1 : BlocksInv (callback (disableAll { c with st := .kDisconnected }) .down .down) :=
      callback_blocks _ _ _ (hi.frame (BlkStep.down rfl rfl rfl rfl rfl))
    exact h1.frame (removeChannel_blk _)
  · exact hi.frame (removeChannel_blk c)

theorem fireDelay_blocks (c : Conn) (hi : BlocksInv c) : BlocksInv (fireDelay c) := by
  unfold fireDelay; split
  · exact act_blocks _ _ _ hi
  · exact hi

theorem fireN_blocks (n : Nat) (c : Conn) (hi : BlocksInv c) : BlocksInv (fireN c n) := by
  induction n generalizing c with
  | zero => exact hi
  | succ n ih => exact ih _ (fireDelay_blocks _ hi)

theorem fireTimers_blocks (c : Conn) (hi : BlocksInv c) : BlocksInv (fireTimers c) := by
  unfold fireTimers
  exact fireN_blocks _ _ (hi.frame (BlkStep.same rfl rfl rfl rfl rfl rfl rfl))

theorem maybeDestroy_blk (c : Conn) : BlkStep c (maybeDestroy c) := by
  unfold maybeDestroy; (repeat' split) <;> exact BlkStep.same rfl rfl rfl rfl rfl rfl rfl

/-- once the object is gone the connection is down (so a weak `send` functor that finds it gone drops nothing
that was promised) -/
theorem LifeInv.goneDown {c : Conn} (hl : LifeInv c) (h : c.alive = false) : c.st = .kDisconnected :=
  hl.ownerGone (hl.gone h).2.1

/-- a functor taken from the head of the batch runs -/
theorem runTask_blocks (c : Conn) (t : Task) (rest : List Task) (hb : c.batch = t :: rest) (hl : LifeInv c)
    (hi : BlocksInv c) : BlocksInv (runTask { c with batch := rest } t) := by
  have hq : c.queuedSends = (sendData t).toList ++ ({ c with batch := rest } : Conn).queuedSends := by
    unfold Conn.queuedSends Conn.queue; rw [hb]
    cases h : sendData t <;> simp [h]
  have hpop : sendData t = none → BlocksInv ({ c with batch := rest } : Conn) := by
    intro hn
    refine hi.frame (BlkStep.ofQ rfl rfl rfl rfl rfl ?_)
    rw [hq, hn]; rfl
  unfold runTask
  split
  · rename_i hg
    have ha : c.alive = false := by
      have : ({ c with batch := rest } : Conn).alive = c.alive := rfl
      simp only [Bool.and_eq_true, Bool.not_eq_true'] at hg; rw [← this]; exact hg.1
    have hd : c.st = .kDisconnected := hl.goneDown ha
    split
    · exact hi.frame (BlkStep.down rfl rfl rfl rfl hd)
    · split
      · exact hi.frame (BlkStep.down rfl rfl rfl rfl hd)
      · exact hi.frame (BlkStep.down rfl rfl rfl rfl hd)
  · cases t with
    | sendInLoop d =>
      rcases sendInLoop_blk { c with batch := rest } d true with ⟨hd, hs⟩ | h
      · exact (hi.frame (c' := { c with batch := rest }) (BlkStep.down rfl rfl rfl rfl hd)).frame hs
      · exact hi.sentFromQueue (c1 := { c with batch := rest }) rfl rfl rfl rfl rfl hq h
    | shutdownInLoop => exact (hpop rfl).frame (shutdownInLoop_blk _)
    | drainShutdownInLoop => exact (hpop rfl).frame (shutdownInLoop_blk _)
    | forceCloseInLoop => simp only []; split; exact handleClose_blocks _ (hpop rfl); exact hpop rfl
    | connectDestroyed => exact connectDestroyed_blocks _ (hpop rfl)
    | writeComplete => exact callback_blocks _ _ _ (hpop rfl)
    | highWater n => exact callback_blocks _ _ _ (hpop rfl)
    | startReadInLoop => exact (hpop rfl).frame (startReadInLoop_blk _)
    | stopReadInLoop => exact (hpop rfl).frame (stopReadInLoop_blk _)
    | addDelayTimer d => exact (hpop rfl).frame (BlkStep.same rfl rfl rfl rfl rfl rfl rfl)

theorem runBatch_blocks (n : Nat) (c : Conn) (hl : LifeInv c) (hi : BlocksInv c) : BlocksInv (runBatch n c) := by
  induction n generalizing c with
  | zero => exact hi
  | succ n ih =>
    unfold runBatch; split
    · exact hi
    · split
      · exact hi
      · rename_i t rest hb
        exact ih _ (runTask_life c t rest hb hl) (runTask_blocks c t rest hb hl hi)

theorem dispatch_blocks (c : Conn) (s : Src) (hi : BlocksInv c) : BlocksInv (dispatch c s) := by
  cases s with
  | conn r => simp only [dispatch]; split; exact hi; exact handleEvent_blocks _ _ hi
  | timer => simp only [dispatch]; split; exact hi; exact fireTimers_blocks _ hi

theorem foldl_dispatch_blocks (l : List Src) (c : Conn) (hi : BlocksInv c) : BlocksInv (l.foldl dispatch c) := by
  induction l generalizing c with
  | nil => exact hi
  | cons s rest ih => exact ih _ (dispatch_blocks _ _ hi)

/-- the swap of `doPendingFunctors` keeps the queue as a whole -/
theorem swap_life (c : Conn) (hi : LifeInv c) :
    LifeInv { c with pending := [], batch := c.batch ++ c.pending } := by
  constructor
  · exact hi.life
  · exact hi.notDead
  · exact hi.established
  · exact hi.ownerGone
  · exact hi.quiet
  · intro h1 h2 h3; have := hi.reg h1 h2 h3; simpa [Conn.queue] using this
  · intro h; have := hi.gone h; simpa [Conn.queue] using this

theorem drainPending_blocks (c : Conn) (hl : LifeInv c) (hi : BlocksInv c) : BlocksInv (drainPending c) := by
  unfold drainPending
  apply runBatch_blocks _ _ (swap_life c hl)
  exact hi.frame (BlkStep.ofQ rfl rfl rfl rfl rfl (by simp [Conn.queuedSends, Conn.queue]))

theorem iter_blocks (c : Conn) (a : List Src) (hl : LifeInv c) (hi : BlocksInv c) : BlocksInv (iter c a) := by
  unfold iter; split
  · exact hi
  · simp only []
    have h1 := drainPending_blocks _ (foldl_dispatch_life a c hl) (foldl_dispatch_blocks a c hi)
    split
    · exact h1
    · exact h1.frame (maybeDestroy_blk _)

theorem step_blocks (c : Conn) (i : Input) (hne : i.notEstablish) (hl : LifeInv c) (hi : BlocksInv c) :
    BlocksInv (step c i) := by
  cases i with
  | establish => exact absurd hne (by simp [Input.notEstablish])
  | act f a =>
    simp only [step]; split
    · exact hi
    · split <;> exact act_blocks _ _ _ hi
  | iter a => exact iter_blocks _ _ hl hi
  | ownerDestroy =>
    simp only [step]; split
    · exact hi
    · have h1 := connectDestroyed_blocks c hi
      refine h1.frame (BlkStep.trans (b := { connectDestroyed c with owner := false }) ?_ (maybeDestroy_blk _))
      exact BlkStep.same rfl rfl rfl rfl rfl rfl rfl
  | hook k a => exact hi.frame (BlkStep.same rfl rfl rfl rfl rfl rfl rfl)
  | setMark n => exact hi.frame (BlkStep.same rfl rfl rfl rfl rfl rfl rfl)
  | setRetrieve n => exact hi.frame (BlkStep.same rfl rfl rfl rfl rfl rfl rfl)
  | peerWrite d => exact hi.frame (BlkStep.same rfl rfl rfl rfl rfl rfl rfl)
  | envWrite r => exact hi.frame (BlkStep.same rfl rfl rfl rfl rfl rfl rfl)
  | envRead r => exact hi.frame (BlkStep.same rfl rfl rfl rfl rfl rfl rfl)
  | advance us => exact hi.frame (BlkStep.same rfl rfl rfl rfl rfl rfl rfl)

theorem run_blocks (ins : List Input) (c : Conn) (hne : ∀ i ∈ ins, i.notEstablish) (hl : LifeInv c)
    (hi : BlocksInv c) : LifeInv (run c ins) ∧ BlocksInv (run c ins) := by
  induction ins generalizing c with
  | nil => exact ⟨hl, hi⟩
  | cons i rest ih =>
    have h1 := hne i (List.mem_cons_self ..)
    exact ih _ (fun j hj => hne j (List.mem_cons_of_mem _ hj)) (step_life c i h1 hl) (step_blocks c i h1 hl hi)

/-! ### the established state -/

/-- the state in which the `up` callback runs -/
theorem established_life' (c : Conn) (h : Fresh c) : LifeInv (emit (enableReading { c with st := .kConnected }) .up) := by
  constructor
  · simp only [emit, enableReading, setEvents, h.trace, phaseOf, h.alive]; rfl
  · exact h.dead
  · simp [emit, enableReading, setEvents]
  · intro h'; have : c.owner = false := h'; rw [h.owner] at this; cases this
  · intro h'; cases h'
  · intro _ h'; have : c.owner = false := h'; rw [h.owner] at this; cases this
  · intro h'; have : c.alive = false := h'; rw [h.alive] at this; cases this

theorem establish_life' (c : Conn) (h : Fresh c) : LifeInv (step c .establish) := by
  simp only [step, connectEstablished]
  rw [if_neg (by simp [h.dead]), if_neg (by simp [h.st])]
  exact callback_life _ _ _ h.alive (established_life' c h)

theorem establish_blocks (c : Conn) (h : Fresh c) : BlocksInv (step c .establish) := by
  simp only [step, connectEstablished]
  rw [if_neg (by simp [h.dead]), if_neg (by simp [h.st])]
  apply callback_blocks
  constructor
  · show c.accepted = (c.blocks.map (·.2)).flatten
    rw [h.accepted, h.blocks]; rfl
  · show (c.blocks.filter (fun b => !b.1)).map (·.2) = c.offeredL
    rw [h.blocks, h.offeredL]; rfl
  · show (c.blocks.filter (·.1)).map (·.2) <+: c.offeredF
    rw [h.blocks, h.offeredF]; exact List.prefix_refl _
  · intro _
    show (c.blocks.filter (·.1)).map (·.2) ++ (c.batch ++ c.pending).filterMap sendData = c.offeredF
    rw [h.blocks, h.offeredF, h.batch, h.pending]; rfl

/-- C01 (send, per thread): in every reachable state the blocks sent on the loop thread have been
accepted in call order, the blocks sent on other threads are accepted in call order, and while
the connection is not down the not yet accepted ones are exactly the queued ones, in order -/
theorem per_thread_fifo (c0 : Conn) (h0 : Fresh c0) (ins : List Input) (hne : ∀ i ∈ ins, i.notEstablish) :
    let c := run (step c0 .establish) ins
    BlocksInv c := by
  intro c
  exact (run_blocks ins _ hne (establish_life' c0 h0) (establish_blocks c0 h0)).2

/-! ### C13: every write-complete callback is paid for by an accepted `send()` -/

/-- a write-complete functor (whatever callback it carries) -/
def Task.isWc : Task → Bool
  | .writeComplete _ => true
  | _ => false
/-- a write-complete callback ran (whichever) -/
def Ev.isWc : Ev → Bool
  | .wc _ => true
  | _ => false

/-- write-complete functors waiting in the queue -/
def wcQueued (c : Conn) : Nat := (c.queue.filter Task.isWc).length
/-- write-complete callbacks run so far -/
def wcRun (c : Conn) : Nat := (c.trace.filter Ev.isWc).length

structure WcInv (c : Conn) : Prop where
  /-- callbacks run + callbacks queued + one held in reserve by a non-empty backlog (its drain will
  schedule one) never exceed the number of accepted blocks -/
  count : wcRun c + wcQueued c + (if c.outBuf = [] then 0 else 1) ≤ c.blocks.length
  /-- write interest is on only over a non-empty backlog -/
  writing : c.ch.evWrite = true → c.outBuf ≠ []

/-- a step that runs and queues no write-complete, accepts nothing, keeps the backlog and does
not switch write interest on -/
structure WcStep (c c' : Conn) : Prop where
  cnt : wcRun c' + wcQueued c' ≤ wcRun c + wcQueued c
  outBuf : c'.outBuf = c.outBuf
  blocks : c'.blocks = c.blocks
  evWrite : c'.ch.evWrite = true → c.ch.evWrite = true

theorem WcStep.rfl' (c : Conn) : WcStep c c := ⟨Nat.le_refl _, rfl, rfl, id⟩
theorem WcStep.trans {a b c : Conn} (h1 : WcStep a b) (h2 : WcStep b c) : WcStep a c :=
  ⟨Nat.le_trans h2.cnt h1.cnt, h2.outBuf.trans h1.outBuf, h2.blocks.trans h1.blocks, fun h => h1.evWrite (h2.evWrite h)⟩

/-- same trace, queue, backlog, blocks and channel interest in writing -/
theorem WcStep.same {c c' : Conn} (h1 : c'.trace = c.trace) (h2 : c'.batch = c.batch) (h3 : c'.pending = c.pending)
    (h4 : c'.outBuf = c.outBuf) (h5 : c'.blocks = c.blocks) (h6 : c'.ch.evWrite = true → c.ch.evWrite = true) :
    WcStep c c' :=
  ⟨by unfold wcRun wcQueued Conn.queue; rw [h1, h2, h3]; exact Nat.le_refl _, h4, h5, h6⟩

theorem WcInv.frame {c c' : Conn} (hi : WcInv c) (h : WcStep c c') : WcInv c' := by
  constructor
  · rw [h.outBuf, h.blocks]; have := hi.count; have := h.cnt; omega
  · intro hw; rw [h.outBuf]; exact hi.writing (h.evWrite hw)

theorem wcRun_emit (c : Conn) (e : Ev) : wcRun (emit c e) = wcRun c + (if e.isWc = true then 1 else 0) := by
  unfold wcRun emit; simp only [List.filter_append, List.length_append]
  by_cases h : e.isWc = true <;> simp [h]

theorem wcQueued_enqueue (c : Conn) (t : Task) :
    wcQueued (enqueue c t) = wcQueued c + (if t.isWc = true then 1 else 0) := by
  unfold wcQueued; rw [queue_enqueue]; simp only [List.filter_append, List.length_append]
  by_cases h : t.isWc = true <;> simp [h]

theorem wcQueued_enqueue_wc (c : Conn) (b : Bound) : wcQueued (enqueue c (.writeComplete b)) = wcQueued c + 1 := by
  rw [wcQueued_enqueue]; rfl
theorem wcRun_emit_wc (c : Conn) (k : Nat) : wcRun (emit c (.wc k)) = wcRun c + 1 := by
  rw [wcRun_emit]; rfl

theorem emit_wcs (c : Conn) (e : Ev) (h : e.isWc = false) : WcStep c (emit c e) :=
  ⟨by rw [wcRun_emit, if_neg (by rw [h]; decide)]; exact Nat.le_refl _, rfl, rfl, id⟩

theorem enqueue_wcs (c : Conn) (t : Task) (h : t.isWc = false) : WcStep c (enqueue c t) :=
  ⟨by rw [wcQueued_enqueue, if_neg (by rw [h]; decide)]; exact Nat.le_refl _, rfl, rfl, id⟩

theorem chanUpdate_keeps_evWrite' (be : Backend) (ch : Chan) : (chanUpdate be ch).evWrite = ch.evWrite := by
  unfold chanUpdate; (repeat' split) <;> rfl

theorem setEvents_evWrite (c : Conn) (r w : Bool) : (setEvents c r w).ch.evWrite = w := by
  unfold setEvents; exact chanUpdate_keeps_evWrite' _ _

/-- changing the interest set without switching write interest on -/
theorem setEvents_wcs (c : Conn) (r w : Bool) (h : w = true → c.ch.evWrite = true) : WcStep c (setEvents c r w) :=
  WcStep.same rfl rfl rfl rfl rfl (fun h' => h (by rw [setEvents_evWrite] at h'; exact h'))

theorem popWrite_wcs (c : Conn) : WcStep c (popWrite c) := by
  unfold popWrite; split <;> exact WcStep.same rfl rfl rfl rfl rfl id
theorem popRead_wcs (c : Conn) : WcStep c (popRead c) := by
  unfold popRead; split <;> exact WcStep.same rfl rfl rfl rfl rfl id

/-- `queueRemainder` with nothing left and no error does nothing -/
theorem queueRemainder_nop (c : Conn) (data : Bytes) (n : Nat) (h : data.length - n = 0) :
    queueRemainder c data n false = c := by
  unfold queueRemainder
  rw [if_neg (by simp [queueRest, h])]; rfl

/-- queueing the rest of a block whose write-complete is still owed -/
theorem queueRemainder_wci (c : Conn) (data : Bytes) (n : Nat) (fault : Bool)
    (hc : wcRun c + wcQueued c + 1 ≤ c.blocks.length) (hw : c.ch.evWrite = true → c.outBuf ≠ []) :
    WcInv (queueRemainder c data n fault) := by
  have base : WcInv c := ⟨by split <;> omega, hw⟩
  unfold queueRemainder
  split
  · rename_i hq
    have hr : 0 < data.length - n := by simp only [queueRest] at hq; exact hq.2
    have hne : ∀ l : Bytes, l ++ data.drop n ≠ [] := by
      intro l h
      have : (l ++ data.drop n).length = 0 := by rw [h]; rfl
      rw [List.length_append, List.length_drop] at this; omega
    simp only []
    have key : ∀ c1 : Conn, WcStep c c1 →
        WcInv (if sendEnablesWriting ({ c1 with outBuf := c1.outBuf ++ data.drop n } : Conn).ch.evWrite
          then enableWriting { c1 with outBuf := c1.outBuf ++ data.drop n }
          else { c1 with outBuf := c1.outBuf ++ data.drop n }) := by
      intro c1 h1
      have hcnt : wcRun c1 + wcQueued c1 + 1 ≤ c1.blocks.length := by rw [h1.blocks]; have := h1.cnt; omega
      split
      · constructor
        · show wcRun c1 + wcQueued c1 + (if c1.outBuf ++ data.drop n = [] then 0 else 1) ≤ c1.blocks.length
          rw [if_neg (hne _)]; exact hcnt
        · intro _; exact hne _
      · constructor
        · show wcRun c1 + wcQueued c1 + (if c1.outBuf ++ data.drop n = [] then 0 else 1) ≤ c1.blocks.length
          rw [if_neg (hne _)]; exact hcnt
        · intro _; exact hne _
    split
    · exact key _ (enqueue_wcs _ _ rfl)
    · exact key _ (WcStep.rfl' c)
  · split
    · exact base.frame (WcStep.same rfl rfl rfl rfl rfl id)
    · exact base

theorem accept_popWrite_emit_wc (c : Conn) (data : Bytes) (q : Bool) (e : Ev) (he : e.isWc = false) :
    let c0 := emit (popWrite (accept c data q)) e
    wcRun c0 = wcRun c ∧ wcQueued c0 = wcQueued c ∧ c0.outBuf = c.outBuf ∧ c0.blocks.length = c.blocks.length + 1
      ∧ c0.ch = c.ch := by
  intro c0
  have h1 : wcRun c0 = wcRun (popWrite (accept c data q)) := by
    show wcRun (emit _ e) = _; rw [wcRun_emit, if_neg (by rw [he]; decide)]; rfl
  have h2 : (popWrite (accept c data q)).trace = c.trace ∧ (popWrite (accept c data q)).batch = c.batch
      ∧ (popWrite (accept c data q)).pending = c.pending ∧ (popWrite (accept c data q)).outBuf = c.outBuf
      ∧ (popWrite (accept c data q)).blocks = c.blocks ++ [(q, data)] ∧ (popWrite (accept c data q)).ch = c.ch := by
    unfold popWrite accept; split <;> exact ⟨rfl, rfl, rfl, rfl, rfl, rfl⟩
  obtain ⟨t1, t2, t3, t4, t5, t6⟩ := h2
  refine ⟨?_, ?_, t4, ?_, t6⟩
  · rw [h1]; unfold wcRun; rw [t1]
  · show wcQueued (emit _ e) = _
    unfold wcQueued Conn.queue; simp only [emit]; rw [t2, t3]
  · show (popWrite (accept c data q)).blocks.length = _
    rw [t5]; simp

theorem sendInLoop_wci (c : Conn) (data : Bytes) (q : Bool) (hi : WcInv c) : WcInv (sendInLoop c data q) := by
  unfold sendInLoop
  split
  · exact hi.frame (emit_wcs _ _ rfl)
  · split
    · rename_i hd
      have ho : c.outBuf = [] := by
        simp only [directWrite] at hd; exact List.eq_nil_of_length_eq_zero hd.2
      have hcount : wcRun c + wcQueued c ≤ c.blocks.length := by have := hi.count; rw [if_pos ho] at this; exact this
      obtain ⟨f1, f2, f3, f4, f5⟩ := accept_popWrite_emit_wc c data q (.sysWrite data.length (peekWrite c)) rfl
      generalize emit (popWrite (accept c data q)) (.sysWrite data.length (peekWrite c)) = c0 at f1 f2 f3 f4 f5 ⊢
      have hw0 : c0.ch.evWrite = true → c0.outBuf ≠ [] := by rw [f5, f3]; exact hi.writing
      cases peekWrite c with
      | took n =>
        simp only [sendDirect]
        have s1 : WcStep c0 { c0 with wrote := c0.wrote ++ data.take n } := WcStep.same rfl rfl rfl rfl rfl id
        split
        · rename_i hs
          have hz : data.length - n = 0 := hs.1
          rw [queueRemainder_nop _ _ _ hz]
          constructor
          · rw [wcQueued_enqueue_wc]
            show wcRun c0 + (wcQueued c0 + 1) + (if c0.outBuf = [] then 0 else 1) ≤ c0.blocks.length
            rw [f1, f2, f3, f4, if_pos ho]; omega
          · exact hw0
        · apply queueRemainder_wci
          · show wcRun c0 + wcQueued c0 + 1 ≤ c0.blocks.length
            rw [f1, f2, f4]; omega
          · exact hw0
      | err e =>
        simp only [sendDirect]
        apply queueRemainder_wci
        · rw [f1, f2, f4]; omega
        · exact hw0
    · apply queueRemainder_wci
      · show wcRun c + wcQueued c + 1 ≤ (c.blocks ++ [(q, data)]).length
        have := hi.count; rw [List.length_append]; simp only [List.length_singleton]; split at this <;> omega
      · exact hi.writing

theorem shutdownInLoop_wcs (c : Conn) : WcStep c (shutdownInLoop c) := by
  unfold shutdownInLoop; split
  · exact WcStep.trans (b := { c with shutWr := true }) (WcStep.same rfl rfl rfl rfl rfl id) (emit_wcs _ _ rfl)
  · exact WcStep.rfl' c

theorem startReadInLoop_wcs (c : Conn) : WcStep c (startReadInLoop c) := by
  unfold startReadInLoop; split
  · exact WcStep.trans (setEvents_wcs c true c.ch.evWrite id) (WcStep.same rfl rfl rfl rfl rfl id)
  · exact WcStep.rfl' c
theorem stopReadInLoop_wcs (c : Conn) : WcStep c (stopReadInLoop c) := by
  unfold stopReadInLoop; split
  · exact WcStep.trans (setEvents_wcs c false c.ch.evWrite id) (WcStep.same rfl rfl rfl rfl rfl id)
  · exact WcStep.rfl' c

theorem handOff_wcs (c : Conn) (f : Bool) (d : Dispatch) (t : Task) (g : Conn → Conn)
    (ht : t.isWc = false) (hg : WcStep c (g c)) : WcStep c (handOff c f d t g) := by
  unfold handOff; split
  · exact enqueue_wcs _ _ ht
  · exact hg

theorem act_wci (c : Conn) (f : Bool) (a : Act) (hi : WcInv c) : WcInv (act c f a) := by
  cases a with
  | send d =>
    simp only [act]; split
    · split
      · exact hi.frame (WcStep.trans (b := { c with offeredF := c.offeredF ++ [d] }) (WcStep.same rfl rfl rfl rfl rfl id)
          (enqueue_wcs _ _ rfl))
      · exact sendInLoop_wci _ _ _ (hi.frame (WcStep.same rfl rfl rfl rfl rfl id))
    · exact hi
  | shutdown =>
    simp only [act]; split
    · exact hi.frame (WcStep.trans (b := { c with st := .kDisconnecting }) (WcStep.same rfl rfl rfl rfl rfl id)
        (handOff_wcs _ _ _ _ _ rfl (shutdownInLoop_wcs _)))
    · exact hi
  | forceClose =>
    simp only [act]; split
    · exact hi.frame (WcStep.trans (b := { c with st := .kDisconnecting }) (WcStep.same rfl rfl rfl rfl rfl id)
        (handOff_wcs _ _ _ _ _ rfl (WcStep.rfl' _)))
    · exact hi
  | forceCloseDelay us =>
    simp only [act]; split
    · split
      · exact hi.frame (WcStep.trans (b := { c with st := .kDisconnecting }) (WcStep.same rfl rfl rfl rfl rfl id)
          (enqueue_wcs _ _ rfl))
      · exact hi.frame (WcStep.same rfl rfl rfl rfl rfl id)
    · exact hi
  | stopRead => simp only [act]; exact hi.frame (handOff_wcs _ _ _ _ _ rfl (stopReadInLoop_wcs _))
  | startRead => simp only [act]; exact hi.frame (handOff_wcs _ _ _ _ _ rfl (startReadInLoop_wcs _))
  | setWc k => exact hi.frame (WcStep.same rfl rfl rfl rfl rfl id)
  | setHwm k m => exact hi.frame (WcStep.same rfl rfl rfl rfl rfl id)

/-- a callback: the event is recorded, then the user's code runs -/
theorem callback_wci (c : Conn) (k : Cb) (e : Ev) (hi : WcInv (emit c e)) : WcInv (callback c k e) := by
  unfold callback; split
  · exact act_wci _ _ _ (hi.frame (WcStep.same rfl rfl rfl rfl rfl id))
  · exact hi

theorem disableAll_wcs (c : Conn) : WcStep c (disableAll c) := setEvents_wcs c false false (fun h => by cases h)

theorem handleClose_wci (c : Conn) (hi : WcInv c) : WcInv (handleClose c) := by
  unfold handleClose; split
  · exact hi.frame (WcStep.trans (b := { c with dead := true }) (WcStep.same rfl rfl rfl rfl rfl id) (emit_wcs _ _ rfl))
  · have h0 : WcInv (emit (disableAll { c with st := .kDisconnected }) .down) :=
      hi.frame (WcStep.trans (WcStep.trans (b := { c with st := .kDisconnected }) (WcStep.same rfl rfl rfl rfl rfl id)
        (disableAll_wcs _)) (emit_wcs _ _ rfl))
    have h1 := callback_wci _ .down _ h0
    refine h1.frame (WcStep.trans (b := { emit (callback (disableAll { c with st := .kDisconnected }) .down .down) .closeCb with owner := false }) ?_ (enqueue_wcs _ _ rfl))
    exact WcStep.trans (emit_wcs _ .closeCb rfl) (WcStep.same rfl rfl rfl rfl rfl id)

theorem handleReadRes_wci (c : Conn) (r : ReadRes) (hi : WcInv c) : WcInv (handleReadRes c r) := by
  unfold handleReadRes; split
  · exact handleClose_wci c hi
  · rename_i n
    simp only []
    have h0 : WcInv (emit (deliver c (n+1)) (.msg (deliver c (n+1)).inBuf.length (fnv64 (deliver c (n+1)).inBuf))) :=
      hi.frame (WcStep.trans (b := deliver c (n+1)) (WcStep.same rfl rfl rfl rfl rfl id) (emit_wcs _ _ rfl))
    exact (callback_wci _ .msg _ h0).frame (WcStep.same rfl rfl rfl rfl rfl id)
  · exact hi

theorem handleRead_wci (c : Conn) (hi : WcInv c) : WcInv (handleRead c) := by
  unfold handleRead
  apply handleReadRes_wci
  exact hi.frame (WcStep.trans (popRead_wcs c) (emit_wcs _ _ rfl))

/-- the drain path: the write-complete owed for the drained backlog is scheduled now -/
theorem afterDrain_wci (c : Conn) (hc : wcRun c + wcQueued c + 1 ≤ c.blocks.length) (ho : c.outBuf = []) :
    WcInv (afterDrain c) := by
  have hdw : WcStep c (disableWriting c) := setEvents_wcs c c.ch.evRead false (fun h => by cases h)
  have hoff : (disableWriting c).ch.evWrite = false := setEvents_evWrite _ _ _
  have hmk : ∀ c2 : Conn, wcRun c2 + wcQueued c2 ≤ wcRun c + wcQueued c + 1 → c2.outBuf = c.outBuf → c2.blocks = c.blocks →
      c2.ch.evWrite = false → WcInv c2 := by
    intro c2 h1 h2 h3 h4
    constructor
    · rw [h2, h3, if_pos ho]; omega
    · intro h; rw [h4] at h; cases h
  have hfin : ∀ c2 : Conn, WcInv c2 → WcInv (if drainShutdown c2.st then
        handOff c2 false drainShutdownDispatch .drainShutdownInLoop shutdownInLoop else c2) := by
    intro c2 h2
    split
    · exact h2.frame (handOff_wcs _ _ _ _ _ rfl (shutdownInLoop_wcs _))
    · exact h2
  unfold afterDrain; simp only []
  split
  · apply hfin
    refine hmk (enqueue (disableWriting c) (.writeComplete (bindCb wcBindDrain c.wcId))) ?_ rfl rfl hoff
    rw [wcQueued_enqueue_wc]
    have := hdw.cnt
    show wcRun (disableWriting c) + (wcQueued (disableWriting c) + 1) ≤ _
    omega
  · apply hfin
    refine hmk (disableWriting c) ?_ rfl rfl hoff
    have := hdw.cnt; omega

theorem handleWriteRes_wci (c : Conn) (r : WriteRes) (hw : c.ch.evWrite = true) (hi : WcInv c) :
    WcInv (handleWriteRes c r) := by
  unfold handleWriteRes; split
  · rename_i n
    have hne : c.outBuf ≠ [] := hi.writing hw
    have hc : wcRun c + wcQueued c + 1 ≤ c.blocks.length := by have := hi.count; rw [if_neg hne] at this; exact this
    simp only []
    split
    · rename_i hd
      apply afterDrain_wci
      · exact hc
      · exact List.eq_nil_of_length_eq_zero hd
    · rename_i hd
      have hne' : c.outBuf.drop (n+1) ≠ [] := by
        intro h; apply hd; show (c.outBuf.drop (n+1)).length = 0; rw [h]; rfl
      constructor
      · show wcRun c + wcQueued c + (if c.outBuf.drop (n+1) = [] then 0 else 1) ≤ c.blocks.length
        rw [if_neg hne']; exact hc
      · intro _; exact hne'
  · exact hi

theorem handleWrite_wci (c : Conn) (hi : WcInv c) : WcInv (handleWrite c) := by
  unfold handleWrite; split
  · rename_i hg
    have hw : c.ch.evWrite = true := hg
    apply handleWriteRes_wci
    · show (popWrite c).ch.evWrite = true
      have : (popWrite c).ch = c.ch := by unfold popWrite; split <;> rfl
      rw [this]; exact hw
    · exact hi.frame (WcStep.trans (popWrite_wcs c) (emit_wcs _ _ rfl))
  · exact hi

theorem guarded_wci (f : Conn → Conn) (hf : ∀ c, WcInv c → WcInv (f c)) (rev : Prop) [Decidable rev]
    (sub : Bool → Bool → Bool → Prop) [∀ a b c, Decidable (sub a b c)] (c : Conn) (hi : WcInv c) :
    WcInv (guarded f rev sub c) := by
  unfold guarded; split
  · exact hf c hi
  · exact hi

theorem handleEvent_wci (c : Conn) (r : Nat) (hi : WcInv c) : WcInv (handleEvent c r) := by
  unfold handleEvent; split
  · exact hi
  · exact guarded_wci _ handleWrite_wci _ _ _
      (guarded_wci _ handleRead_wci _ _ _ (guarded_wci _ handleClose_wci _ _ _ hi))

theorem removeChannel_wcs (c : Conn) : WcStep c (removeChannel c) := by
  unfold removeChannel; split
  · exact WcStep.trans (b := { c with dead := true }) (WcStep.same rfl rfl rfl rfl rfl id) (emit_wcs _ _ rfl)
  · exact WcStep.same rfl rfl rfl rfl rfl id

theorem connectDestroyed_wci (c : Conn) (hi : WcInv c) : WcInv (connectDestroyed c) := by
  unfold connectDestroyed; split
  · have h0 : WcInv (emit (disableAll { c with st := .kDisconnected }) .down) :=
      hi.frame (WcStep.trans (WcStep.trans (b := { c with st := .kDisconnected }) (WcStep.same rfl rfl rfl rfl rfl id)
        (disableAll_wcs _)) (emit_wcs _ _ rfl))
    exact (callback_wci _ .down _ h0).frame (removeChannel_wcs _)
  · exact hi.frame (removeChannel_wcs c)

theorem fireDelay_wci (c : Conn) (hi : WcInv c) : WcInv (fireDelay c) := by
  unfold fireDelay; split
  · exact act_wci _ _ _ hi
  · exact hi

theorem fireN_wci (n : Nat) (c : Conn) (hi : WcInv c) : WcInv (fireN c n) := by
  induction n generalizing c with
  | zero => exact hi
  | succ n ih => exact ih _ (fireDelay_wci _ hi)

theorem fireTimers_wci (c : Conn) (hi : WcInv c) : WcInv (fireTimers c) := by
  unfold fireTimers
  exact fireN_wci _ _ (hi.frame (WcStep.same rfl rfl rfl rfl rfl id))

theorem maybeDestroy_wcs (c : Conn) : WcStep c (maybeDestroy c) := by
  unfold maybeDestroy; split
  · split
    · exact WcStep.trans (b := { c with dead := true }) (WcStep.same rfl rfl rfl rfl rfl id) (emit_wcs _ _ rfl)
    · split
      · exact WcStep.trans (b := { c with dead := true }) (WcStep.same rfl rfl rfl rfl rfl id) (emit_wcs _ _ rfl)
      · exact WcStep.trans (b := { c with alive := false }) (WcStep.same rfl rfl rfl rfl rfl id)
          (WcStep.trans (emit_wcs _ _ rfl) (emit_wcs _ _ rfl))
  · exact WcStep.rfl' c

/-- a functor taken from the head of the batch runs (or finds the object gone) -/
theorem runTask_wci (c : Conn) (t : Task) (rest : List Task) (hb : c.batch = t :: rest) (hi : WcInv c) :
    WcInv (runTask { c with batch := rest } t) := by
  have hq : wcQueued c = (if t.isWc = true then 1 else 0) + wcQueued ({ c with batch := rest } : Conn) := by
    unfold wcQueued Conn.queue; rw [hb]
    by_cases h : t.isWc = true <;> simp [h] <;> omega
  have hpopS : WcStep c { c with batch := rest } :=
    ⟨by show wcRun c + wcQueued ({ c with batch := rest } : Conn) ≤ _; rw [hq]; omega, rfl, rfl, id⟩
  have hpop : WcInv ({ c with batch := rest } : Conn) := hi.frame hpopS
  unfold runTask
  split
  · split
    · exact hpop.frame (WcStep.same rfl rfl rfl rfl rfl id)
    · split
      · exact hpop
      · exact hpop.frame (WcStep.trans (b := { c with batch := rest, dead := true }) (WcStep.same rfl rfl rfl rfl rfl id)
          (emit_wcs _ _ rfl))
  · cases t with
    | sendInLoop d => exact sendInLoop_wci _ _ _ hpop
    | shutdownInLoop => exact hpop.frame (shutdownInLoop_wcs _)
    | drainShutdownInLoop => exact hpop.frame (shutdownInLoop_wcs _)
    | forceCloseInLoop => simp only []; split; exact handleClose_wci _ hpop; exact hpop
    | connectDestroyed => exact connectDestroyed_wci _ hpop
    | writeComplete b =>
      -- the functor leaves the queue and the callback runs: one for one
      apply callback_wci
      have hq : wcQueued c = 1 + wcQueued ({ c with batch := rest } : Conn) := hq
      constructor
      · rw [wcRun_emit_wc]
        show wcRun ({ c with batch := rest } : Conn) + 1 + wcQueued ({ c with batch := rest } : Conn)
          + (if c.outBuf = [] then 0 else 1) ≤ c.blocks.length
        have := hi.count
        have : wcRun ({ c with batch := rest } : Conn) = wcRun c := rfl
        omega
      · exact hi.writing
    | highWater b n => exact callback_wci _ _ _ (hpop.frame (emit_wcs _ _ rfl))
    | startReadInLoop => exact hpop.frame (startReadInLoop_wcs _)
    | stopReadInLoop => exact hpop.frame (stopReadInLoop_wcs _)
    | addDelayTimer d => exact hpop.frame (WcStep.same rfl rfl rfl rfl rfl id)

theorem runBatch_wci (n : Nat) (c : Conn) (hi : WcInv c) : WcInv (runBatch n c) := by
  induction n generalizing c with
  | zero => exact hi
  | succ n ih =>
    unfold runBatch; split
    · exact hi
    · split
      · exact hi
      · rename_i t rest hb
        exact ih _ (runTask_wci c t rest hb hi)

theorem dispatch_wci (c : Conn) (s : Src) (hi : WcInv c) : WcInv (dispatch c s) := by
  cases s with
  | conn r => simp only [dispatch]; split; exact hi; exact handleEvent_wci _ _ hi
  | timer => simp only [dispatch]; split; exact hi; exact fireTimers_wci _ hi

theorem foldl_dispatch_wci (l : List Src) (c : Conn) (hi : WcInv c) : WcInv (l.foldl dispatch c) := by
  induction l generalizing c with
  | nil => exact hi
  | cons s rest ih => exact ih _ (dispatch_wci _ _ hi)

theorem drainPending_wci (c : Conn) (hi : WcInv c) : WcInv (drainPending c) := by
  unfold drainPending
  apply runBatch_wci
  refine hi.frame ⟨?_, rfl, rfl, id⟩
  show wcRun c + wcQueued ({ c with pending := [], batch := c.batch ++ c.pending } : Conn) ≤ _
  have : wcQueued ({ c with pending := [], batch := c.batch ++ c.pending } : Conn) = wcQueued c := by
    simp [wcQueued, Conn.queue]
  omega

theorem iter_wci (c : Conn) (a : List Src) (hi : WcInv c) : WcInv (iter c a) := by
  unfold iter; split
  · exact hi
  · simp only []
    have h1 := drainPending_wci _ (foldl_dispatch_wci a c hi)
    split
    · exact h1
    · exact h1.frame (maybeDestroy_wcs _)

theorem step_wci (c : Conn) (i : Input) (hne : i.notEstablish) (hi : WcInv c) : WcInv (step c i) := by
  cases i with
  | establish => exact absurd hne (by simp [Input.notEstablish])
  | act f a =>
    simp only [step]; split
    · exact hi
    · split <;> exact act_wci _ _ _ hi
  | iter a => exact iter_wci _ _ hi
  | ownerDestroy =>
    simp only [step]; split
    · exact hi
    · have h1 := connectDestroyed_wci c hi
      refine h1.frame (WcStep.trans (b := { connectDestroyed c with owner := false }) ?_ (maybeDestroy_wcs _))
      exact WcStep.same rfl rfl rfl rfl rfl id
  | hook k a => exact hi.frame (WcStep.same rfl rfl rfl rfl rfl id)
  | setMark n => exact hi.frame (WcStep.same rfl rfl rfl rfl rfl id)
  | setRetrieve n => exact hi.frame (WcStep.same rfl rfl rfl rfl rfl id)
  | peerWrite d => exact hi.frame (WcStep.same rfl rfl rfl rfl rfl id)
  | envWrite r => exact hi.frame (WcStep.same rfl rfl rfl rfl rfl id)
  | envRead r => exact hi.frame (WcStep.same rfl rfl rfl rfl rfl id)
  | advance us => exact hi.frame (WcStep.same rfl rfl rfl rfl rfl id)

theorem run_wci (ins : List Input) (c : Conn) (hne : ∀ i ∈ ins, i.notEstablish) (hi : WcInv c) : WcInv (run c ins) := by
  induction ins generalizing c with
  | nil => exact hi
  | cons i rest ih =>
    exact ih _ (fun j hj => hne j (List.mem_cons_of_mem _ hj)) (step_wci c i (hne i (List.mem_cons_self ..)) hi)

theorem establish_wci (c : Conn) (h : Fresh c) : WcInv (step c .establish) := by
  simp only [step, connectEstablished]
  rw [if_neg (by simp [h.dead]), if_neg (by simp [h.st])]
  apply callback_wci
  constructor
  · show (List.filter Ev.isWc (c.trace ++ [Ev.up])).length + ((c.batch ++ c.pending).filter Task.isWc).length
      + (if c.outBuf = [] then 0 else 1) ≤ c.blocks.length
    rw [h.trace, h.batch, h.pending, h.outBuf, h.blocks]; decide
  · intro hw
    have : (emit (enableReading { c with st := .kConnected }) .up).ch.evWrite = c.ch.evWrite := setEvents_evWrite _ _ _
    rw [this, h.ch] at hw; cases hw

/-- C13 (counting): in every reachable state, the write-complete callbacks run so far, plus those
queued, plus one if there is a backlog (its drain will schedule one), are at most the number of
`send()`s accepted — no write-complete without a send of its own before it -/
theorem wc_needs_send (c0 : Conn) (h0 : Fresh c0) (ins : List Input) (hne : ∀ i ∈ ins, i.notEstablish) :
    let c := run (step c0 .establish) ins
    wcRun c + wcQueued c + (if c.outBuf = [] then 0 else 1) ≤ c.blocks.length := by
  intro c
  exact (run_wci ins _ hne (establish_wci c0 h0)).count

/-- … and write interest is on only over a non-empty backlog -/
theorem writing_needs_backlog (c0 : Conn) (h0 : Fresh c0) (ins : List Input) (hne : ∀ i ∈ ins, i.notEstablish) :
    let c := run (step c0 .establish) ins
    c.ch.evWrite = true → c.outBuf ≠ [] := by
  intro c
  exact (run_wci ins _ hne (establish_wci c0 h0)).writing

/-! ### the statements are not vacuous -/

example : Fresh ({} : Conn) := fresh_default .epoll true true true (64 * 1024 * 1024) (1 <<< 40) [] [] []

example : ∀ i ∈ ([.envWrite (.took 3), .act false (.send [1,2,3]), .act true (.send [4,5]), .act true (.send [6]),
      .act false (.send [7]), .iter []] : List Input), i.notEstablish := by
  intro i hi; simp at hi; rcases hi with rfl | rfl | rfl | rfl | rfl | rfl <;> trivial

/-- sends from the loop thread and from other threads, before the loop runs the queue … -/
example :
    let c := run (step {} .establish) [.envWrite (.took 3), .act false (.send [1,2,3]), .act true (.send [4,5]),
      .act true (.send [6]), .act false (.send [7])]
    c.lBlocks = [[1,2,3],[7]] ∧ c.fBlocks = [] ∧ c.queuedSends = [[4,5],[6]] ∧ c.offeredF = [[4,5],[6]]
      ∧ c.accepted = [1,2,3,7] := by decide

/-- … and after -/
example :
    let c := run (step {} .establish) [.envWrite (.took 3), .act false (.send [1,2,3]), .act true (.send [4,5]),
      .act true (.send [6]), .act false (.send [7]), .iter []]
    c.lBlocks = [[1,2,3],[7]] ∧ c.fBlocks = [[4,5],[6]] ∧ c.queuedSends = [] ∧ c.accepted = [1,2,3,7,4,5,6] := by decide

/-- the counting bound is attained: three sends (two of them from inside the write-complete
callback), three write-complete callbacks -/
example :
    let c := run (step {} .establish) [.hook .wc (.send [9]), .hook .wc (.send [8,8]), .envWrite (.took 3), .envWrite (.took 1),
      .envWrite (.took 0), .act false (.send [1,2,3]), .iter [], .iter [], .envWrite (.took 2), .iter [.conn 4], .iter [], .iter []]
    wcRun c = 3 ∧ wcQueued c = 0 ∧ c.outBuf = [] ∧ c.blocks.length = 3 := by decide

end MuduoVerif.Conn
