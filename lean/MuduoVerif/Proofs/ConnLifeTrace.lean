import MuduoVerif.Proofs.ConnFlow
import Mathlib.Data.List.Induction
/-! What the life-cycle automaton of `Proofs/ConnLife.lean` (`runLife`) implies about a trace it
accepts: event counts and the position of each letter. Helper lemmas for `Props/C02.lean`. -/
namespace MuduoVerif.C02
open MuduoVerif.Conn MuduoVerif.Gen.Conn

def isUpEv : Ev → Bool | .up => true | _ => false
def isDownEv : Ev → Bool | .down => true | _ => false
def isMsgEv : Ev → Bool | .msg _ _ => true | _ => false
def isCloseEv : Ev → Bool | .sysClose => true | _ => false
def isBadEv : Ev → Bool | .abort _ => true | .uaf _ => true | _ => false

def cnt (p : Ev → Bool) (tr : List Ev) : Nat := (tr.filter p).length

theorem cnt_snoc (p : Ev → Bool) (tr : List Ev) (e : Ev) : cnt p (tr ++ [e]) = cnt p tr + (if p e then 1 else 0) := by
  unfold cnt; rw [List.filter_append]; cases h : p e <;> simp [List.filter, h]

/-- what the life-cycle automaton has counted when it accepts a trace and stands in phase `p` -/
theorem life_counts (tr : List Ev) : ∀ p, runLife tr = some p →
    cnt isUpEv tr = (if p = .init then 0 else 1) ∧
    cnt isDownEv tr = (if p = .down ∨ p = .closed then 1 else 0) ∧
    cnt isCloseEv tr = (if p = .closed then 1 else 0) ∧
    cnt isBadEv tr = 0 ∧
    (p = .init → cnt isMsgEv tr = 0) := by
  induction tr using List.reverseRecOn with
  | nil =>
    intro p h
    have : p = .init := by simpa [runLife] using h.symm
    subst this; simp [cnt]
  | append_singleton tr e ih =>
    intro p h
    rw [runLife_snoc] at h
    cases hq : runLife tr with
    | none => rw [hq] at h; simp at h
    | some q =>
      rw [hq] at h; simp only [Option.bind_some] at h
      obtain ⟨h1, h2, h3, h4, h5⟩ := ih q hq
      simp only [cnt_snoc, h1, h2, h3, h4]
      cases e <;> cases q <;> simp [lifeStep] at h <;> subst h <;> simp_all [isUpEv, isDownEv, isCloseEv, isBadEv, isMsgEv, cnt_snoc]

theorem runLife_prefix (a b : List Ev) (p : Phase) (h : runLife (a ++ b) = some p) : ∃ q, runLife a = some q := by
  induction b using List.reverseRecOn generalizing p with
  | nil => exact ⟨p, by simpa using h⟩
  | append_singleton b e ih =>
    rw [← List.append_assoc, runLife_snoc] at h
    cases hq : runLife (a ++ b) with
    | none => rw [hq] at h; simp at h
    | some q => exact ih q hq


/-- a letter the automaton accepts was read in a phase from which it is legal -/
theorem accepted_letter (pre post : List Ev) (e : Ev) (p : Phase) (h : runLife (pre ++ e :: post) = some p) :
    ∃ q q', runLife pre = some q ∧ lifeStep q e = some q' := by
  have : pre ++ e :: post = (pre ++ [e]) ++ post := by simp
  rw [this] at h
  obtain ⟨q', hq'⟩ := runLife_prefix _ _ _ h
  rw [runLife_snoc] at hq'
  cases hq : runLife pre with
  | none => rw [hq] at hq'; simp at hq'
  | some q => rw [hq] at hq'; exact ⟨q, q', rfl, by simpa using hq'⟩

end MuduoVerif.C02
