import MuduoVerif.Proofs.CalendarCycle
/-!
Consecutive days: `nextDay` (the calendar's own successor rule) corresponds to `+ 1` on day
numbers, so `ymdE` enumerates the proleptic Gregorian calendar day by day — for every
integer day number (core Lean only).
-/
namespace MuduoVerif.CalendarE

theorem feb_aux (y : Int) :
    (y + 4800) / 4 - (y + 4799) / 4 - ((y + 4800) / 100 - (y + 4799) / 100) + ((y + 4800) / 400 - (y + 4799) / 400)
      = if isLeap y then 1 else 0 := by
  have h4 : (y + 4800) / 4 - (y + 4799) / 4 = if y % 4 = 0 then 1 else 0 := by split <;> omega
  have h100 : (y + 4800) / 100 - (y + 4799) / 100 = if y % 100 = 0 then 1 else 0 := by split <;> omega
  have h400 : (y + 4800) / 400 - (y + 4799) / 400 = if y % 400 = 0 then 1 else 0 := by split <;> omega
  rw [h4, h100, h400]
  simp only [isLeap]
  repeat' split
  all_goals omega

theorem nextDay_valid (x : Civil) (hv : x.valid) : (nextDay x).valid := by
  obtain ⟨y, m, d⟩ := x
  simp only [Civil.valid, validDate, nextDay, daysInMonth] at hv ⊢
  repeat' split
  all_goals simp only []
  all_goals omega

theorem jdnE_day_step (y m d : Int) : jdnE y m (d + 1) = jdnE y m d + 1 := by
  simp only [jdnE]; omega

theorem jdnE_year_step (y : Int) : jdnE (y + 1) 1 1 = jdnE y 12 31 + 1 := by
  simp only [jdnE]; omega

theorem jdnE_month_step (y m : Int) (h1 : 1 ≤ m) (h2 : m < 12) :
    jdnE y (m + 1) 1 = jdnE y m (daysInMonth y m) + 1 := by
  have hm : m = 1 ∨ m = 2 ∨ m = 3 ∨ m = 4 ∨ m = 5 ∨ m = 6 ∨ m = 7 ∨ m = 8 ∨ m = 9 ∨ m = 10 ∨ m = 11 := by omega
  rcases hm with h | h | h | h | h | h | h | h | h | h | h <;> subst h
  case inr.inl =>
    have hf := feb_aux y
    simp only [jdnE, daysInMonth, if_true]
    split
    · rename_i hl; rw [if_pos hl] at hf; omega
    · rename_i hl; rw [if_neg hl] at hf; omega
  all_goals
    simp only [jdnE, daysInMonth]
    simp (decide := true) only [if_true, if_false]
    omega

theorem jdnE_nextDay (x : Civil) (hv : x.valid) : (nextDay x).jdn = x.jdn + 1 := by
  obtain ⟨y, m, d⟩ := x
  simp only [Civil.valid, validDate] at hv
  simp only [Civil.jdn, nextDay]
  split
  · exact jdnE_day_step y m d
  · split
    · have : d = daysInMonth y m := by omega
      subst this
      exact jdnE_month_step y m hv.1 (by assumption)
    · have hm : m = 12 := by omega
      subst hm
      have : d = 31 := by
        have := hv.2.2.2
        simp (decide := true) only [daysInMonth, if_false] at this
        rename_i h _
        simp (decide := true) only [daysInMonth, if_false] at h
        omega
      subst this
      exact jdnE_year_step y

/-- the day after the date of day `j` is the date of day `j + 1` -/
theorem ymdE_succ (j : Int) : ymdE (j + 1) = nextDay (ymdE j) := by
  obtain ⟨hv, hj⟩ := jdn_ymd_all j
  have h1 := jdnE_nextDay (ymdE j) hv
  have h2 := nextDay_valid (ymdE j) hv
  have h3 := ymd_jdn_all _ _ _ h2
  rw [hj] at h1
  simp only [Civil.jdn] at h1
  rw [h1] at h3
  exact h3

/-- `ymdE` agrees with counting days from any anchor: the date of day `j + n` is reached from
the date of day `j` by `n` applications of the successor rule -/
theorem ymdE_civilFrom (j : Int) (n : Nat) : ymdE (j + n) = civilFrom (ymdE j) n := by
  induction n with
  | zero => simp [civilFrom]
  | succ n ih =>
    have : j + ((n + 1 : Nat) : Int) = (j + n) + 1 := by omega
    rw [this, ymdE_succ, ih, civilFrom]

/-- day numbers are strictly monotone in the civil order, hence one-to-one -/
theorem jdnE_injective (y m d y' m' d' : Int) (h : validDate y m d) (h' : validDate y' m' d')
    (he : jdnE y m d = jdnE y' m' d') : y = y' ∧ m = m' ∧ d = d' := by
  have h1 := ymd_jdn_all y m d h
  have h2 := ymd_jdn_all y' m' d' h'
  rw [he, h2] at h1
  simp only [Civil.mk.injEq] at h1
  omega

end MuduoVerif.CalendarE
