import MuduoVerif.Generated.BufferSkel
import MuduoVerif.Model.Buffer
/-!
# T1 tie for the statement order of the Buffer engine (C10)

`Gen.BufferSkel.<fn>` is the statement skeleton `vlib/gen/bufferskel.py` extracts from /repo's current
`muduo/net/Buffer.h` / `Buffer.cc` on every run; `Decl.<fn>` (`Model/BufferSkelDecl.lean`) is the skeleton the
corresponding definition of `Model/Buffer.lean` implements.  Each `skeleton_<fn>` is closed by `decide`: it holds
exactly as long as the source performs the same index stores (of the same expressions), copies, resizes, member
calls, system calls and assertions, in the same order, under the same nesting of the same (generated) guards as the
model.  The guards themselves are tied by `Generated/Buffer.lean`.  `Props/C10.lean` re-exports `skeletons_agree`
(`statement_order_tied`), so a change of statement order in one of these functions breaks that property module.

The second part (`reading_*`) checks, by `rfl`, the places where `Model/Buffer.lean` writes a function in a more
compact form than the statement sequence the declared skeleton lists: the model term IS that sequence.
-/
namespace MuduoVerif.BufferSkel

theorem skeleton_ctor : Gen.BufferSkel.ctor = Decl.ctor := by decide
theorem skeleton_swap : Gen.BufferSkel.swap = Decl.swap := by decide
theorem skeleton_readableBytes : Gen.BufferSkel.readableBytes = Decl.readableBytes := by decide
theorem skeleton_writableBytes : Gen.BufferSkel.writableBytes = Decl.writableBytes := by decide
theorem skeleton_prependableBytes : Gen.BufferSkel.prependableBytes = Decl.prependableBytes := by decide
theorem skeleton_peek : Gen.BufferSkel.peek = Decl.peek := by decide
theorem skeleton_findCRLF : Gen.BufferSkel.findCRLF = Decl.findCRLF := by decide
theorem skeleton_findCRLFFrom : Gen.BufferSkel.findCRLFFrom = Decl.findCRLFFrom := by decide
theorem skeleton_findEOL : Gen.BufferSkel.findEOL = Decl.findEOL := by decide
theorem skeleton_findEOLFrom : Gen.BufferSkel.findEOLFrom = Decl.findEOLFrom := by decide
theorem skeleton_retrieve : Gen.BufferSkel.retrieve = Decl.retrieve := by decide
theorem skeleton_retrieveUntil : Gen.BufferSkel.retrieveUntil = Decl.retrieveUntil := by decide
theorem skeleton_retrieveInt64 : Gen.BufferSkel.retrieveInt64 = Decl.retrieveInt64 := by decide
theorem skeleton_retrieveInt32 : Gen.BufferSkel.retrieveInt32 = Decl.retrieveInt32 := by decide
theorem skeleton_retrieveInt16 : Gen.BufferSkel.retrieveInt16 = Decl.retrieveInt16 := by decide
theorem skeleton_retrieveInt8 : Gen.BufferSkel.retrieveInt8 = Decl.retrieveInt8 := by decide
theorem skeleton_retrieveAll : Gen.BufferSkel.retrieveAll = Decl.retrieveAll := by decide
theorem skeleton_retrieveAllAsString : Gen.BufferSkel.retrieveAllAsString = Decl.retrieveAllAsString := by decide
theorem skeleton_retrieveAsString : Gen.BufferSkel.retrieveAsString = Decl.retrieveAsString := by decide
theorem skeleton_toStringPiece : Gen.BufferSkel.toStringPiece = Decl.toStringPiece := by decide
theorem skeleton_appendPiece : Gen.BufferSkel.appendPiece = Decl.appendPiece := by decide
theorem skeleton_append : Gen.BufferSkel.append = Decl.append := by decide
theorem skeleton_appendVoid : Gen.BufferSkel.appendVoid = Decl.appendVoid := by decide
theorem skeleton_ensureWritableBytes : Gen.BufferSkel.ensureWritableBytes = Decl.ensureWritableBytes := by decide
theorem skeleton_beginWrite : Gen.BufferSkel.beginWrite = Decl.beginWrite := by decide
theorem skeleton_beginWriteConst : Gen.BufferSkel.beginWriteConst = Decl.beginWriteConst := by decide
theorem skeleton_hasWritten : Gen.BufferSkel.hasWritten = Decl.hasWritten := by decide
theorem skeleton_unwrite : Gen.BufferSkel.unwrite = Decl.unwrite := by decide
theorem skeleton_appendInt64 : Gen.BufferSkel.appendInt64 = Decl.appendInt64 := by decide
theorem skeleton_appendInt32 : Gen.BufferSkel.appendInt32 = Decl.appendInt32 := by decide
theorem skeleton_appendInt16 : Gen.BufferSkel.appendInt16 = Decl.appendInt16 := by decide
theorem skeleton_appendInt8 : Gen.BufferSkel.appendInt8 = Decl.appendInt8 := by decide
theorem skeleton_readInt64 : Gen.BufferSkel.readInt64 = Decl.readInt64 := by decide
theorem skeleton_readInt32 : Gen.BufferSkel.readInt32 = Decl.readInt32 := by decide
theorem skeleton_readInt16 : Gen.BufferSkel.readInt16 = Decl.readInt16 := by decide
theorem skeleton_readInt8 : Gen.BufferSkel.readInt8 = Decl.readInt8 := by decide
theorem skeleton_peekInt64 : Gen.BufferSkel.peekInt64 = Decl.peekInt64 := by decide
theorem skeleton_peekInt32 : Gen.BufferSkel.peekInt32 = Decl.peekInt32 := by decide
theorem skeleton_peekInt16 : Gen.BufferSkel.peekInt16 = Decl.peekInt16 := by decide
theorem skeleton_peekInt8 : Gen.BufferSkel.peekInt8 = Decl.peekInt8 := by decide
theorem skeleton_prependInt64 : Gen.BufferSkel.prependInt64 = Decl.prependInt64 := by decide
theorem skeleton_prependInt32 : Gen.BufferSkel.prependInt32 = Decl.prependInt32 := by decide
theorem skeleton_prependInt16 : Gen.BufferSkel.prependInt16 = Decl.prependInt16 := by decide
theorem skeleton_prependInt8 : Gen.BufferSkel.prependInt8 = Decl.prependInt8 := by decide
theorem skeleton_prepend : Gen.BufferSkel.prepend = Decl.prepend := by decide
theorem skeleton_shrink : Gen.BufferSkel.shrink = Decl.shrink := by decide
theorem skeleton_makeSpace : Gen.BufferSkel.makeSpace = Decl.makeSpace := by decide
theorem skeleton_readFd : Gen.BufferSkel.readFd = Decl.readFd := by decide

/-- every extracted skeleton is the declared one -/
theorem skeletons_agree :
    (Gen.BufferSkel.ctor = Decl.ctor ∧
     Gen.BufferSkel.swap = Decl.swap ∧
     Gen.BufferSkel.readableBytes = Decl.readableBytes ∧
     Gen.BufferSkel.writableBytes = Decl.writableBytes ∧
     Gen.BufferSkel.prependableBytes = Decl.prependableBytes ∧
     Gen.BufferSkel.peek = Decl.peek ∧
     Gen.BufferSkel.toStringPiece = Decl.toStringPiece ∧
     Gen.BufferSkel.beginWrite = Decl.beginWrite ∧
     Gen.BufferSkel.beginWriteConst = Decl.beginWriteConst) ∧
    (Gen.BufferSkel.findCRLF = Decl.findCRLF ∧
     Gen.BufferSkel.findCRLFFrom = Decl.findCRLFFrom ∧
     Gen.BufferSkel.findEOL = Decl.findEOL ∧
     Gen.BufferSkel.findEOLFrom = Decl.findEOLFrom) ∧
    (Gen.BufferSkel.retrieve = Decl.retrieve ∧
     Gen.BufferSkel.retrieveUntil = Decl.retrieveUntil ∧
     Gen.BufferSkel.retrieveInt64 = Decl.retrieveInt64 ∧
     Gen.BufferSkel.retrieveInt32 = Decl.retrieveInt32 ∧
     Gen.BufferSkel.retrieveInt16 = Decl.retrieveInt16 ∧
     Gen.BufferSkel.retrieveInt8 = Decl.retrieveInt8 ∧
     Gen.BufferSkel.retrieveAll = Decl.retrieveAll ∧
     Gen.BufferSkel.retrieveAllAsString = Decl.retrieveAllAsString ∧
     Gen.BufferSkel.retrieveAsString = Decl.retrieveAsString) ∧
    (Gen.BufferSkel.appendPiece = Decl.appendPiece ∧
     Gen.BufferSkel.append = Decl.append ∧
     Gen.BufferSkel.appendVoid = Decl.appendVoid ∧
     Gen.BufferSkel.ensureWritableBytes = Decl.ensureWritableBytes ∧
     Gen.BufferSkel.hasWritten = Decl.hasWritten ∧
     Gen.BufferSkel.unwrite = Decl.unwrite ∧
     Gen.BufferSkel.prepend = Decl.prepend ∧
     Gen.BufferSkel.shrink = Decl.shrink ∧
     Gen.BufferSkel.makeSpace = Decl.makeSpace ∧
     Gen.BufferSkel.readFd = Decl.readFd) ∧
    (Gen.BufferSkel.appendInt64 = Decl.appendInt64 ∧
     Gen.BufferSkel.appendInt32 = Decl.appendInt32 ∧
     Gen.BufferSkel.appendInt16 = Decl.appendInt16 ∧
     Gen.BufferSkel.appendInt8 = Decl.appendInt8 ∧
     Gen.BufferSkel.readInt64 = Decl.readInt64 ∧
     Gen.BufferSkel.readInt32 = Decl.readInt32 ∧
     Gen.BufferSkel.readInt16 = Decl.readInt16 ∧
     Gen.BufferSkel.readInt8 = Decl.readInt8 ∧
     Gen.BufferSkel.peekInt64 = Decl.peekInt64 ∧
     Gen.BufferSkel.peekInt32 = Decl.peekInt32 ∧
     Gen.BufferSkel.peekInt16 = Decl.peekInt16 ∧
     Gen.BufferSkel.peekInt8 = Decl.peekInt8 ∧
     Gen.BufferSkel.prependInt64 = Decl.prependInt64 ∧
     Gen.BufferSkel.prependInt32 = Decl.prependInt32 ∧
     Gen.BufferSkel.prependInt16 = Decl.prependInt16 ∧
     Gen.BufferSkel.prependInt8 = Decl.prependInt8) :=
  ⟨⟨skeleton_ctor, skeleton_swap, skeleton_readableBytes, skeleton_writableBytes, skeleton_prependableBytes,
    skeleton_peek, skeleton_toStringPiece, skeleton_beginWrite, skeleton_beginWriteConst⟩,
   ⟨skeleton_findCRLF, skeleton_findCRLFFrom, skeleton_findEOL, skeleton_findEOLFrom⟩,
   ⟨skeleton_retrieve, skeleton_retrieveUntil, skeleton_retrieveInt64, skeleton_retrieveInt32, skeleton_retrieveInt16,
    skeleton_retrieveInt8, skeleton_retrieveAll, skeleton_retrieveAllAsString, skeleton_retrieveAsString⟩,
   ⟨skeleton_appendPiece, skeleton_append, skeleton_appendVoid, skeleton_ensureWritableBytes, skeleton_hasWritten,
    skeleton_unwrite, skeleton_prepend, skeleton_shrink, skeleton_makeSpace, skeleton_readFd⟩,
   ⟨skeleton_appendInt64, skeleton_appendInt32, skeleton_appendInt16, skeleton_appendInt8, skeleton_readInt64,
    skeleton_readInt32, skeleton_readInt16, skeleton_readInt8, skeleton_peekInt64, skeleton_peekInt32,
    skeleton_peekInt16, skeleton_peekInt8, skeleton_prependInt64, skeleton_prependInt32, skeleton_prependInt16,
    skeleton_prependInt8⟩⟩

/-! ## The compact model terms are the declared statement sequences (definitional) -/
section Readings
open MuduoVerif.Buffer MuduoVerif.Gen.Buffer

/-- `Decl.append`: `ensureWritableBytes(len)`, the copy to `beginWrite()` of the ensured buffer, `hasWritten(len)` -/
theorem reading_append (b : Buf) (x : Bytes) :
    Buffer.append b x =
      (let b1 := ensureWritable b x.length                               -- ensureWritableBytes(len)
       let b2 : Buf := { b1 with data := splice b1.data b1.writer x }    -- std::copy(data, data+len, beginWrite())
       hasWritten b2 x.length) := rfl                                   -- hasWritten(len)

/-- `Decl.makeSpace`, slide branch: `readable`, then the copy of the old window, then `readerIndex_ = kCheapPrepend`,
then `writerIndex_ = readerIndex_ + readable` reading the NEW read index -/
theorem reading_makeSpace_slide (b : Buf) (len : Nat) (h : ¬ makeSpaceGrows (writable b) (prependable b) len) :
    Buffer.makeSpace b len =
      (let r := readable b                                               -- size_t readable = readableBytes()
       let b1 : Buf := { b with data := splice b.data kCheapPrepend (content b) }   -- std::copy(.., begin()+kCheapPrepend)
       let b2 : Buf := { b1 with reader := kCheapPrepend }               -- readerIndex_ = kCheapPrepend
       { b2 with writer := b2.reader + r }) := by                        -- writerIndex_ = readerIndex_ + readable
  simp only [Buffer.makeSpace, if_neg h]

/-- `Decl.makeSpace`, grow branch -/
theorem reading_makeSpace_grow (b : Buf) (len : Nat) (h : makeSpaceGrows (writable b) (prependable b) len) :
    Buffer.makeSpace b len = { b with data := resize b.data (b.writer + len) } := by
  simp only [Buffer.makeSpace, if_pos h]

/-- `Decl.prepend`: `readerIndex_ -= len`, then the copy to the NEW `begin() + readerIndex_` -/
theorem reading_prepend (b : Buf) (x : Bytes) :
    Buffer.prepend b x =
      (let b1 : Buf := { b with reader := b.reader - x.length }          -- readerIndex_ -= len
       { b1 with data := splice b1.data b1.reader x }) := rfl            -- std::copy(d, d+len, begin()+readerIndex_)

/-- `Decl.readFd`, spill branch: the kernel fills the writable area, `writerIndex_ = buffer_.size()`, then
`append(extrabuf, n - writable)` -/
theorem reading_readFd_spill (b : Buf) (d : Bytes) (h : ¬ readFdFits d.length (writable b)) :
    Buffer.readFd b d =
      (let w := writable b                                               -- const size_t writable = writableBytes()
       let b1 : Buf := { b with data := splice b.data b.writer (d.take w) }   -- readv into vec[0] = begin()+writerIndex_
       let b2 : Buf := { b1 with writer := b.data.length }               -- writerIndex_ = buffer_.size() (readv keeps the size)
       Buffer.append b2 (d.drop w)) := by                                -- append(extrabuf, n - writable)
  simp only [Buffer.readFd, if_neg h]

/-- `Decl.readFd`, fitting branch: the kernel stored `d` at `begin() + writerIndex_`; `writerIndex_ += n` -/
theorem reading_readFd_fits (b : Buf) (d : Bytes) (h : readFdFits d.length (writable b)) :
    Buffer.readFd b d = { b with data := splice b.data b.writer d, writer := b.writer + d.length } := by
  simp only [Buffer.readFd, if_pos h]

/-- `Decl.readIntN`: the value is peeked BEFORE the retrieve, on the same buffer -/
theorem reading_readInt (b : Buf) (bytes : Nat) :
    Buffer.readInt b bytes = (let result := peekInt b bytes; (Buffer.retrieve b bytes, result)) := rfl

/-- `Decl.shrink`: `Buffer other; other.ensureWritableBytes(readableBytes()+reserve); other.append(toStringPiece());
swap(other)` - the result is `other` -/
theorem reading_shrink (b : Buf) (reserve : Nat) :
    Buffer.shrink b reserve =
      (let other := mk kInitialSize
       let other := ensureWritable other (readable b + reserve)
       Buffer.append other (content b)) := rfl

end Readings

end MuduoVerif.BufferSkel
