import MuduoVerif.Generated.TimerSkel
/-!
# T1 tie for the statement order of the timer engine (C06, C07)

`Gen.TimerSkel.<fn>` is the statement skeleton `vlib/gen/timerskel.py` extracts from /repo's current `TimerQueue.cc` /
`Timer.cc` on every run; `Decl.<fn>` (`Model/TimerSkelDecl.lean`) is the skeleton the corresponding definition of
`Model/Timer.lean` implements.  Each `skeleton_<fn>` is closed by `decide`: it holds exactly as long as the source
performs the same significant actions, in the same order, under the same nesting of the same (generated) guards and
loops as the model.  The guards themselves are tied by `Generated/Timer.lean`.  `Props/C06` and `Props/C07` re-export
`skeletons_agree`, so a change of statement order in one of these functions breaks those property modules.
-/
namespace MuduoVerif.TimerSkel

theorem skeleton_howMuchTimeFromNow : Gen.TimerSkel.howMuchTimeFromNow = Decl.howMuchTimeFromNow := by decide
theorem skeleton_readTimerfd : Gen.TimerSkel.readTimerfd = Decl.readTimerfd := by decide
theorem skeleton_resetTimerfd : Gen.TimerSkel.resetTimerfd = Decl.resetTimerfd := by decide
theorem skeleton_addTimer : Gen.TimerSkel.addTimer = Decl.addTimer := by decide
theorem skeleton_cancel : Gen.TimerSkel.cancel = Decl.cancel := by decide
theorem skeleton_addTimerInLoop : Gen.TimerSkel.addTimerInLoop = Decl.addTimerInLoop := by decide
theorem skeleton_cancelInLoop : Gen.TimerSkel.cancelInLoop = Decl.cancelInLoop := by decide
theorem skeleton_handleRead : Gen.TimerSkel.handleRead = Decl.handleRead := by decide
theorem skeleton_getExpired : Gen.TimerSkel.getExpired = Decl.getExpired := by decide
theorem skeleton_reset : Gen.TimerSkel.reset = Decl.reset := by decide
theorem skeleton_insert : Gen.TimerSkel.insert = Decl.insert := by decide
theorem skeleton_restart : Gen.TimerSkel.restart = Decl.restart := by decide

/-- every extracted skeleton is the declared one -/
theorem skeletons_agree :
    Gen.TimerSkel.howMuchTimeFromNow = Decl.howMuchTimeFromNow ∧
    Gen.TimerSkel.readTimerfd = Decl.readTimerfd ∧
    Gen.TimerSkel.resetTimerfd = Decl.resetTimerfd ∧
    Gen.TimerSkel.addTimer = Decl.addTimer ∧
    Gen.TimerSkel.cancel = Decl.cancel ∧
    Gen.TimerSkel.addTimerInLoop = Decl.addTimerInLoop ∧
    Gen.TimerSkel.cancelInLoop = Decl.cancelInLoop ∧
    Gen.TimerSkel.handleRead = Decl.handleRead ∧
    Gen.TimerSkel.getExpired = Decl.getExpired ∧
    Gen.TimerSkel.reset = Decl.reset ∧
    Gen.TimerSkel.insert = Decl.insert ∧
    Gen.TimerSkel.restart = Decl.restart :=
  ⟨skeleton_howMuchTimeFromNow, skeleton_readTimerfd, skeleton_resetTimerfd, skeleton_addTimer, skeleton_cancel,
   skeleton_addTimerInLoop, skeleton_cancelInLoop, skeleton_handleRead, skeleton_getExpired, skeleton_reset,
   skeleton_insert, skeleton_restart⟩

end MuduoVerif.TimerSkel
