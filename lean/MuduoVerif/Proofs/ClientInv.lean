import MuduoVerif.Proofs.ClientSpec
/-! The invariant of the client model. -/
namespace MuduoVerif.Client
open MuduoVerif.Gen.Client

def isRetryT (t : Nat × TKind) : Bool := t.2 == .retry
/-- number of pending retry timers -/
def nRetry (timers : List (Nat × TKind)) : Nat := timers.countP isRetryT
/-- an attempt is in progress or will be made when the retry timer fires -/
def attempting (st : States) (timers : List (Nat × TKind)) : Prop := st = .kConnecting ∨ 0 < nRetry timers
instance : Decidable (attempting st tm) := by unfold attempting; infer_instance

def findIn (conns : List ConnRec) (k : Nat) : Option ConnRec := conns.find? (·.sock == k)

/-- what the events must have said about socket `k`, given the state -/
def phaseAt (sockSt : List SockSt) (conns : List ConnRec) (k : Nat) : Option Phase :=
  match sockSt[k]? with
  | none => none
  | some .opened => some .opened
  | some .closed => some .closed
  | some .handedOver => match findIn conns k with
     | none => some .handed
     | some r => some (if r.destroyed then .connClosed else if r.st = .disconnected then .down else .up)

structure Rel (s : Spec) (nsock : Nat) (sockSt : List SockSt) (conns : List ConnRec) (ups nretry : Nat)
    (stopReq alive : Bool) : Prop where
  len : s.phases.length = nsock
  ph : ∀ k, s.phases[k]? = phaseAt sockSt conns k
  ups : s.ups = ups
  nretry : s.nretry = nretry
  stopped : s.stopped = stopReq
  gone : s.gone = !alive

def held (alive : Bool) (connection : Option Nat) (q : List Task) (r : ConnRec) : Prop :=
  r.userRef = true ∨ (alive = true ∧ connection = some r.sock) ∨ ∃ t ∈ q, t.holds r.sock = true

def Task.plain : Task → Bool
  | .setCloseCb _ | .addTimer _ _ => false
  | _ => true

/-- `r`: the functors of the running batch that have not run yet; the queue is `r ++ c.pending`.
`ph = true`: the loop is running the functor batch or is between two iterations (no channel reset
can be outstanding that is not in the batch) -/
structure Mid (c : C) (r : List Task) (ph : Bool) : Prop where
  notDead : c.dead = false
  a1 : c.chanOn = true → c.cstate = .kConnecting
  a2 : c.cstate = .kConnecting → c.chanOn = true
  a3 : c.chanOn = true → ∃ k, c.chan = some k ∧ c.sockSt[k]? = some .opened
  a4 : ∀ k, c.sockSt[k]? = some .opened → c.chan = some k ∧ c.chanOn = true
  a5 : c.chan.isSome = true → c.chanOn = false →
        .resetChannel ∈ r ++ c.pending ∧ ∀ t ∈ c.timers, t.2 = .retry → c.now < t.1
  a6 : .resetChannel ∈ r ++ c.pending →
        c.chan.isSome = true ∧ c.chanOn = false ∧ (r ++ c.pending).count .resetChannel ≤ 1 ∧ .startCycle ∉ r ++ c.pending
  a7 : ∀ k j, c.chan = some k → c.connection = some j → j = k
  a8 : nRetry c.timers ≤ 1 ∧ (0 < nRetry c.timers → c.cstate = .kDisconnected)
  a9 : attempting c.cstate c.timers → c.connection = none ∧ .startCycle ∉ r ++ c.pending ∧ c.ups = 0
  a10 : (r ++ c.pending).count .startCycle ≤ 1 ∧ (.startCycle ∈ r ++ c.pending → c.connection = none)
  a11 : c.clientAlive = false →
        c.connection = none ∧ (c.cConnect = false ∨ (¬ attempting c.cstate c.timers ∧ .startCycle ∉ r ++ c.pending))
  a13 : ∀ t ∈ r ++ c.pending, t.plain = true
  a14 : c.chanOn = true → c.clientAlive = true ∨ .stopInLoop ∈ r ++ c.pending
  a15 : ∀ t ∈ r, t ∈ c.batch
  a16 : ph = true → .resetChannel ∉ c.pending
  s1 : c.sockSt.length = c.nsock
  c1 : ∀ x ∈ c.conns, c.sockSt[x.sock]? = some .handedOver
  c2 : (c.conns.map (·.sock)).Nodup
  c3 : ∀ x ∈ c.conns, x.chanOn = true → x.st ≠ .disconnected
  c4 : ∀ x ∈ c.conns, x.destroyed = true → x.st = .disconnected ∧ x.chanOn = false
  c5 : ∀ x ∈ c.conns, x.st ≠ .disconnected → held c.clientAlive c.connection (r ++ c.pending) x
  c6 : ∀ x ∈ c.conns, x.st ≠ .disconnected → x.closeCb = .client → c.clientAlive = true ∧ c.connection = some x.sock
  c7 : ∀ k, c.connection = some k → ∃ x, findIn c.conns k = some x ∧ x.st ≠ .disconnected ∧ x.closeCb = .client
  c8 : ∀ k, .forceCloseInLoop k ∈ r ++ c.pending → ∃ x, findIn c.conns k = some x ∧ x.closeCb = .detached
  c9 : ∀ k, .connectDestroyed k ∈ r ++ c.pending → ∃ x, findIn c.conns k = some x ∧ x.st = .disconnected
  c10 : ∀ x ∈ c.conns, x.closeCb = .detached → c.clientAlive = false
  g1 : c.delay = specDelay c.nretry
  g3 : c.stopReq = true → c.cConnect = false ∧ c.tConnect = false
  /-- scope of the callback operations: `connect()` is never issued from the UP callback (a connection is outstanding),
  and from the DOWN callback only by a client that does not reconnect by itself -/
  h1 : HookOp.connect ∉ c.hooksUp ∧ (HookOp.connect ∈ c.hooksDown → c.retry = false)
  t1 : ∃ s, scan c.trace = some s ∧ Rel s c.nsock c.sockSt c.conns c.ups c.nretry c.stopReq c.clientAlive

/-! ### basic facts -/
theorem findConn_eq (c : C) (k : Nat) : findConn c k = findIn c.conns k := rfl

theorem findIn_some {cs : List ConnRec} {k : Nat} {x : ConnRec} (h : findIn cs k = some x) : x ∈ cs ∧ x.sock = k := by
  unfold findIn at h
  exact ⟨List.mem_of_find?_eq_some h, by simpa using List.find?_some h⟩

theorem findIn_of_mem {cs : List ConnRec} {x : ConnRec} (hn : (cs.map (·.sock)).Nodup) (hx : x ∈ cs) :
    findIn cs x.sock = some x := by
  induction cs with
  | nil => cases hx
  | cons y ys ih =>
    simp only [List.map_cons, List.nodup_cons] at hn
    by_cases hy : y.sock = x.sock
    · rcases List.mem_cons.mp hx with h | h
      · subst h; simp [findIn]
      · exact absurd (hy ▸ List.mem_map_of_mem (f := (·.sock)) h) hn.1
    · rcases List.mem_cons.mp hx with h | h
      · subst h; exact absurd rfl hy
      · have hb : (y.sock == x.sock) = false := by simpa using hy
        simp only [findIn, List.find?_cons, hb]; exact ih hn.2 h

theorem findIn_none_iff {cs : List ConnRec} {k : Nat} : findIn cs k = none ↔ ∀ x ∈ cs, x.sock ≠ k := by
  simp [findIn]

theorem findIn_append_new {cs : List ConnRec} {k j : Nat} (x : ConnRec) (hx : x.sock = k) :
    findIn (cs ++ [x]) j = if j = k then (match findIn cs j with | some y => some y | none => some x) else findIn cs j := by
  unfold findIn
  rw [List.find?_append]
  by_cases h : j = k
  · subst h; cases hf : List.find? (fun r => r.sock == j) cs <;> simp [hx]
  · have : ¬ x.sock = j := by rw [hx]; exact fun e => h e.symm
    cases hf : List.find? (fun r => r.sock == j) cs <;> simp [h, this]

theorem findIn_map {cs : List ConnRec} (k j : Nat) (f : ConnRec → ConnRec) (hf : ∀ r, (f r).sock = r.sock) :
    findIn (cs.map (fun r => if r.sock == k then f r else r)) j =
      (findIn cs j).map (fun r => if r.sock == k then f r else r) := by
  induction cs with
  | nil => rfl
  | cons y ys ih =>
    unfold findIn at ih ⊢
    simp only [List.map_cons, List.find?_cons]
    have hs : (if y.sock == k then f y else y).sock = y.sock := by split <;> simp [hf]
    rw [hs]
    by_cases h : y.sock = j
    · simp [h]
    · have hb : (y.sock == j) = false := by simpa using h
      simp only [hb]; exact ih

theorem scan_snoc (tr : List Ev) (e : Ev) : scan (tr ++ [e]) = (scan tr).bind (fun s => specStep s e) := by
  simp [scan, scanFrom, List.foldl_append]

theorem scan_append (tr d : List Ev) : scan (tr ++ d) = (scan tr).bind (fun s => scanFrom s d) := by
  unfold scan scanFrom
  rw [List.foldl_append]
  cases h : List.foldl (fun o e => o.bind (fun s => specStep s e)) (some ({} : Spec)) tr with
  | some s => rfl
  | none =>
    simp only [Option.bind_none]
    induction d with
    | nil => rfl
    | cons e d ih => simpa [List.foldl_cons] using ih

theorem scanFrom_cons (s : Spec) (e : Ev) (d : List Ev) : scanFrom s (e :: d) = (specStep s e).bind (fun s => scanFrom s d) := by
  unfold scanFrom
  simp only [List.foldl_cons, Option.bind_some]
  cases h : specStep s e with
  | some s' => rfl
  | none =>
    simp only [Option.bind_none]
    induction d with
    | nil => rfl
    | cons e d ih => simpa [List.foldl_cons] using ih

theorem specDelay_pos (i : Nat) : 0 < specDelay i := by
  unfold specDelay
  have : 0 < 2 ^ i := Nat.pow_pos (by decide)
  omega

theorem held_mono {al : Bool} {cn : Option Nat} {q q' : List Task} {x : ConnRec}
    (h : held al cn q x) (hs : ∀ t ∈ q, t.holds x.sock = true → t ∈ q') : held al cn q' x := by
  rcases h with h | h | ⟨t, ht, hh⟩
  · exact .inl h
  · exact .inr (.inl h)
  · exact .inr (.inr ⟨t, hs t ht hh, hh⟩)

end MuduoVerif.Client
