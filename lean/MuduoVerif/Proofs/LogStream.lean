import MuduoVerif.Model.LogStream
/-! Lemmas about the `LogStream` / `Logger` / `formatSI` model (C17): digit loops, the fixed buffer. -/
namespace MuduoVerif.LogStream
open MuduoVerif.Gen.LogStream

/-! ### the printf specification, tied to core's `Nat.toDigits` -/

theorem digitChar_dec : ∀ d, d < 10 → (Nat.digitChar d).toNat = 48 + d := by decide
theorem digitChar_hex : ∀ d, d < 16 → (Nat.digitChar d).toUpper.toNat = hexChar d := by decide

theorem toDigits_step (b n : Nat) (hb : 1 < b) (hn : b ≤ n) :
    Nat.toDigits b n = Nat.toDigits b (n / b) ++ [Nat.digitChar (n % b)] := by
  have h0 : 0 < n / b := Nat.div_pos hn (by omega)
  have hd : n % b < b := Nat.mod_lt _ (by omega)
  have := Nat.toDigits_append_toDigits hb h0 hd
  rw [Nat.toDigits_of_lt_base hd, Nat.div_add_mod] at this
  exact this.symm

theorem decimalAux_eq (fuel : Nat) : ∀ (n : Nat) (acc : Bytes), n ≤ fuel →
    decimalAux fuel n acc = (Nat.toDigits 10 n).map Char.toNat ++ acc := by
  induction fuel with
  | zero =>
    intro n acc h
    have : n = 0 := by omega
    subst this; rfl
  | succ f ih =>
    intro n acc h
    unfold decimalAux
    split
    · rename_i hlt
      rw [Nat.toDigits_of_lt_base hlt]; simp [digitChar_dec n hlt]
    · rename_i hge
      rw [ih _ _ (by omega), toDigits_step 10 n (by omega) (by omega)]
      simp [digitChar_dec (n % 10) (Nat.mod_lt _ (by omega))]

/-- `%u` is the canonical decimal numeral: the digits core's `Nat.toDigits 10` (hence `Nat.repr`) produces -/
theorem decimalNat_eq_toDigits (n : Nat) : decimalNat n = (Nat.toDigits 10 n).map Char.toNat := by
  simp [decimalNat, decimalAux_eq n n [] (Nat.le_refl n)]

theorem decimalNat_lt (n : Nat) (h : n < 10) : decimalNat n = [48 + n] := by
  rw [decimalNat_eq_toDigits, Nat.toDigits_of_lt_base h]; simp [digitChar_dec n h]

theorem decimalNat_ge (n : Nat) (h : 10 ≤ n) : decimalNat n = decimalNat (n / 10) ++ [48 + n % 10] := by
  rw [decimalNat_eq_toDigits, decimalNat_eq_toDigits, toDigits_step 10 n (by omega) h]
  simp [digitChar_dec (n % 10) (Nat.mod_lt _ (by omega))]

theorem hexAux_eq (fuel : Nat) : ∀ (n : Nat) (acc : Bytes), n ≤ fuel →
    hexAux fuel n acc = (Nat.toDigits 16 n).map (fun c => c.toUpper.toNat) ++ acc := by
  induction fuel with
  | zero =>
    intro n acc h
    have : n = 0 := by omega
    subst this; rfl
  | succ f ih =>
    intro n acc h
    unfold hexAux
    split
    · rename_i hlt
      rw [Nat.toDigits_of_lt_base hlt]; simp [digitChar_hex n hlt]
    · rename_i hge
      rw [ih _ _ (by omega), toDigits_step 16 n (by omega) (by omega)]
      simp [digitChar_hex (n % 16) (Nat.mod_lt _ (by omega))]

/-- `%X`: core's hexadecimal digits, upper-cased -/
theorem hexUpper_eq_toDigits (n : Nat) :
    hexUpper n = (Nat.toDigits 16 n).map (fun c => c.toUpper.toNat) := by
  simp [hexUpper, hexAux_eq n n [] (Nat.le_refl n)]

theorem hexUpper_lt (n : Nat) (h : n < 16) : hexUpper n = [hexChar n] := by
  rw [hexUpper_eq_toDigits, Nat.toDigits_of_lt_base h]; simp [digitChar_hex n h]

theorem hexUpper_ge (n : Nat) (h : 16 ≤ n) : hexUpper n = hexUpper (n / 16) ++ [hexChar (n % 16)] := by
  rw [hexUpper_eq_toDigits, hexUpper_eq_toDigits, toDigits_step 16 n (by omega) h]
  simp [digitChar_hex (n % 16) (Nat.mod_lt _ (by omega))]

/-! ### the digit loops -/

theorem radixDec_eq : radixDec = 10 := by decide
theorem radixHex_eq : radixHex = 16 := by decide

/-- the 19-character table read through `zero = digits + 9` -/
theorem zeroAt_table : ∀ k : Fin 19, zeroAt ((k.val : Int) - 9) = 48 + ((k.val : Int) - 9).natAbs := by decide

theorem zeroAt_eq (d : Int) (h1 : -10 < d) (h2 : d < 10) : zeroAt d = 48 + d.natAbs := by
  have := zeroAt_table ⟨(d + 9).toNat, by omega⟩
  have e : (((d + 9).toNat : Nat) : Int) - 9 = d := by omega
  simp only [e] at this
  exact this

theorem hexTable : ∀ k : Fin 16, digitsHex.getD k.val 0 = hexChar k.val := by decide

theorem digitLoop_nat (fuel : Nat) : ∀ n : Nat, n ≤ fuel →
    (digitLoop fuel (n : Int)).reverse = decimalNat n ∧ (digitLoop fuel (-(n : Int))).reverse = decimalNat n := by
  induction fuel with
  | zero =>
    intro n h
    have : n = 0 := by omega
    subst this; exact ⟨rfl, rfl⟩
  | succ f ih =>
    intro n h
    have hm : Int.tmod (n : Int) 10 = ((n % 10 : Nat) : Int) := by
      rw [Int.tmod_eq_emod_of_nonneg (by omega)]; omega
    have hd : Int.tdiv (n : Int) 10 = ((n / 10 : Nat) : Int) := by
      rw [Int.tdiv_eq_ediv_of_nonneg (by omega)]; omega
    have z1 : zeroAt ((n % 10 : Nat) : Int) = 48 + n % 10 := by
      rw [zeroAt_eq _ (by omega) (by omega)]; omega
    have z2 : zeroAt (-((n % 10 : Nat) : Int)) = 48 + n % 10 := by
      rw [zeroAt_eq _ (by omega) (by omega)]; omega
    have hr : ((radixDec : Nat) : Int) = 10 := by decide
    unfold digitLoop
    simp only [hr, Int.neg_tdiv, Int.neg_tmod, hm, hd, z1, z2, Int.neg_eq_zero]
    by_cases hlt : n < 10
    · have : ((n / 10 : Nat) : Int) = 0 := by omega
      simp only [this, if_true, List.reverse_singleton]
      rw [decimalNat_lt n hlt, Nat.mod_eq_of_lt hlt]; exact ⟨rfl, rfl⟩
    · have : ¬ ((n / 10 : Nat) : Int) = 0 := by omega
      simp only [this, if_false, List.reverse_cons]
      obtain ⟨i1, i2⟩ := ih (n / 10) (by omega)
      rw [i1, i2, decimalNat_ge n (by omega)]; exact ⟨rfl, rfl⟩

/-- **`convert` prints the canonical decimal text of every integer** (sign, no leading zeros; no bound on the
magnitude, so every type minimum is included) -/
theorem convert_eq_decimal (v : Int) : convert v = decimal v := by
  unfold convert decimal
  by_cases h : v < 0
  · have e : v = -((v.natAbs : Nat) : Int) := by omega
    have := (digitLoop_nat v.natAbs v.natAbs (Nat.le_refl _)).2
    rw [← e] at this
    simp [h, this]
  · have e : v = ((v.natAbs : Nat) : Int) := by omega
    have := (digitLoop_nat v.natAbs v.natAbs (Nat.le_refl _)).1
    rw [← e] at this
    simp [h, this]

theorem hexLoop_eq (fuel : Nat) : ∀ n : Nat, n ≤ fuel → (hexLoop fuel n).reverse = hexUpper n := by
  induction fuel with
  | zero =>
    intro n h
    have : n = 0 := by omega
    subst this; rfl
  | succ f ih =>
    intro n h
    have t : digitsHex.getD (n % 16) 0 = hexChar (n % 16) := hexTable ⟨n % 16, Nat.mod_lt _ (by omega)⟩
    unfold hexLoop
    simp only [radixHex_eq, t]
    by_cases hlt : n < 16
    · have : n / 16 = 0 := by omega
      simp only [this, if_true, List.reverse_singleton]
      rw [hexUpper_lt n hlt, Nat.mod_eq_of_lt hlt]
    · have : ¬ n / 16 = 0 := by omega
      simp only [this, if_false, List.reverse_cons]
      rw [ih (n / 16) (by omega), hexUpper_ge n (by omega)]

theorem convertHex_eq (v : Nat) : convertHex v = hexUpper v := hexLoop_eq v v (Nat.le_refl v)

/-! ### lengths -/

theorem decimalNat_length_le (k : Nat) : ∀ n, n < 10 ^ (k + 1) → (decimalNat n).length ≤ k + 1 := by
  induction k with
  | zero => intro n h; rw [decimalNat_lt n (by omega)]; simp
  | succ k ih =>
    intro n h
    by_cases hlt : n < 10
    · rw [decimalNat_lt n hlt]; simp
    · rw [decimalNat_ge n (by omega)]
      have : n / 10 < 10 ^ (k + 1) := by
        rw [Nat.div_lt_iff_lt_mul (by omega)]; rw [Nat.pow_succ] at h; omega
      have := ih _ this
      simp; omega

theorem decimalNat_length_pos (n : Nat) : 0 < (decimalNat n).length := by
  by_cases hlt : n < 10
  · rw [decimalNat_lt n hlt]; simp
  · rw [decimalNat_ge n (by omega)]; simp

theorem hexUpper_length_le (k : Nat) : ∀ n, n < 16 ^ (k + 1) → (hexUpper n).length ≤ k + 1 := by
  induction k with
  | zero => intro n h; rw [hexUpper_lt n (by omega)]; simp
  | succ k ih =>
    intro n h
    by_cases hlt : n < 16
    · rw [hexUpper_lt n hlt]; simp
    · rw [hexUpper_ge n (by omega)]
      have : n / 16 < 16 ^ (k + 1) := by
        rw [Nat.div_lt_iff_lt_mul (by omega)]; rw [Nat.pow_succ] at h; omega
      have := ih _ this
      simp; omega

/-! ### the fixed buffer -/

/-- numbers are formatted in place after a test for a fixed headroom; everything else goes through `append` -/
def Item.numeric : Item → Bool
  | .int _ | .ptr _ | .dbl _ => true
  | _ => false

/-- the space is short for the item (specification of the tests in the code): fewer than
`kMaxNumericSize` bytes for a number, not more than the item's length for anything else
(`append` keeps one byte in reserve) -/
def Item.short (room : Nat) (it : Item) : Prop :=
  if it.numeric then room < kMaxNumericSize else room ≤ it.text.length

instance (room : Nat) (it : Item) : Decidable (it.short room) := by unfold Item.short; infer_instance

/-- what the callers guarantee: integers and pointers are values of a (signed or unsigned) type of at most 64 bits,
the text `snprintf("%.12g")` reports is shorter than the size it was given -/
def Item.ok : Item → Prop
  | .int v => -2 ^ 63 ≤ v ∧ v < 2 ^ 64
  | .ptr v => v < 2 ^ 64
  | .dbl t => t.length < doubleBound
  | _ => True

instance (it : Item) : Decidable it.ok := by cases it <;> simp only [Item.ok] <;> infer_instance

/-- the generated guards are the specified space tests (`>` / `≥` exactly) -/
theorem fits_iff_not_short (room : Nat) (it : Item) : it.fits room ↔ ¬ it.short room := by
  cases it <;>
    simp only [Item.fits, Item.short, Item.numeric, Item.text, integerFits, pointerFits, doubleFits, appendFits,
      if_true, Bool.false_eq_true, if_false, List.length_singleton] <;> omega

theorem decimal_length_le (v : Int) (h1 : -2 ^ 63 ≤ v) (h2 : v < 2 ^ 64) : (decimal v).length ≤ 20 := by
  by_cases hn : v < 0
  · -- a negative value of a 64-bit type is at least -2^63: 19 digits and the sign
    have : (decimalNat v.natAbs).length ≤ 19 := decimalNat_length_le 18 _ (by omega)
    unfold decimal; simp only [hn, if_true, List.length_cons]; omega
  · have : (decimalNat v.natAbs).length ≤ 20 := decimalNat_length_le 19 _ (by omega)
    unfold decimal; simp only [hn, if_false]; exact this

/-- an accepted item is shorter than the headroom that was tested / than the room `append` saw -/
theorem text_lt_room (room : Nat) (it : Item) (hok : it.ok) (hf : ¬ it.short room) : it.text.length < room := by
  cases it with
  | int v =>
    have := decimal_length_le v hok.1 hok.2
    simp only [Item.short, Item.numeric, if_true, kMaxNumericSize] at hf
    simp only [Item.text, convert_eq_decimal]; omega
  | ptr v =>
    have := hexUpper_length_le 15 v (by simpa [Item.ok] using hok)
    have hp : pointerPrefix.length = 2 := by decide
    simp only [Item.short, Item.numeric, if_true, kMaxNumericSize] at hf
    simp only [Item.text, convertHex_eq, List.length_append, hp]; omega
  | dbl t =>
    simp only [Item.short, Item.numeric, if_true] at hf
    simp only [Item.ok, doubleBound] at hok
    simp only [Item.text]; omega
  | bool b => simpa [Item.short, Item.numeric] using hf
  | chr c => simpa [Item.short, Item.numeric] using hf
  | str s => simpa [Item.short, Item.numeric] using hf

/-- specification of a sequence of insertions into a buffer of `cap` bytes that holds `d`:
an item for which the space is not short is appended whole, any other item is left out whole -/
inductive Fill (cap : Nat) : Bytes → List Item → Bytes → Prop
  | nil (d : Bytes) : Fill cap d [] d
  | take (d : Bytes) (it : Item) (rest : List Item) (out : Bytes) :
      ¬ it.short (cap - d.length) → Fill cap (d ++ it.text) rest out → Fill cap d (it :: rest) out
  | skip (d : Bytes) (it : Item) (rest : List Item) (out : Bytes) :
      it.short (cap - d.length) → Fill cap d rest out → Fill cap d (it :: rest) out

theorem insert_cap (b : FixedBuf) (it : Item) : (insert b it).cap = b.cap := by
  unfold insert; split <;> rfl

theorem run_cap (items : List Item) : ∀ b : FixedBuf, (run b items).cap = b.cap := by
  induction items with
  | nil => intro b; rfl
  | cons it rest ih => intro b; simp only [run, List.foldl_cons] at *; rw [ih, insert_cap]

theorem run_fill (items : List Item) : ∀ b : FixedBuf, Fill b.cap b.data items (run b items).data := by
  induction items with
  | nil => intro b; exact Fill.nil _
  | cons it rest ih =>
    intro b
    have h := ih (insert b it)
    rw [insert_cap] at h
    simp only [run, List.foldl_cons] at *
    by_cases hf : it.fits (avail b)
    · have e : (insert b it).data = b.data ++ it.text := by simp [insert, hf]
      rw [e] at h
      exact Fill.take _ _ _ _ ((fits_iff_not_short _ _).1 hf) h
    · have e : insert b it = b := by simp [insert, hf]
      rw [e] at h ⊢
      exact Fill.skip _ _ _ _ (by have := (fits_iff_not_short (avail b) it); unfold avail at *; exact Classical.not_not.1 (fun hn => hf (this.2 hn))) h

theorem fill_sublist {cap : Nat} {d out : Bytes} {items : List Item} (h : Fill cap d items out) :
    ∃ kept : List Item, kept.Sublist items ∧ out = d ++ kept.flatMap Item.text := by
  induction h with
  | nil d => exact ⟨[], List.Sublist.slnil, by simp⟩
  | take d it rest out _ _ ih =>
    obtain ⟨k, hk, e⟩ := ih
    exact ⟨it :: k, hk.cons_cons it, by simp [e]⟩
  | skip d it rest out _ _ ih =>
    obtain ⟨k, hk, e⟩ := ih
    exact ⟨k, hk.cons it, e⟩

theorem fill_length {cap : Nat} {d out : Bytes} {items : List Item} (h : Fill cap d items out)
    (hd : d.length ≤ cap) (hok : ∀ it ∈ items, it.ok) : out.length ≤ cap := by
  induction h with
  | nil d => exact hd
  | take d it rest out hs _ ih =>
    have := text_lt_room _ it (hok it (by simp)) hs
    exact ih (by simp; omega) (fun x hx => hok x (by simp [hx]))
  | skip d it rest out _ _ ih => exact ih hd (fun x hx => hok x (by simp [hx]))


/-! ### `SourceFile`: the base name -/

theorem dropWhile_head {α : Type} (p : α → Bool) : ∀ l : List α,
    l.dropWhile p = [] ∨ ∃ x t, l.dropWhile p = x :: t ∧ p x = false := by
  intro l
  induction l with
  | nil => exact Or.inl rfl
  | cons a t ih =>
    by_cases h : p a = true
    · simp only [List.dropWhile_cons, h, if_true]; exact ih
    · exact Or.inr ⟨a, t, by simp [h], by simpa using h⟩

theorem basename_split (path : Bytes) :
    path = (path.reverse.dropWhile (· ≠ 47)).reverse ++ basename path := by
  have := List.takeWhile_append_dropWhile (p := (· ≠ 47)) (l := path.reverse)
  have h2 := congrArg List.reverse this
  simp only [List.reverse_append, List.reverse_reverse] at h2
  exact h2.symm

theorem mem_takeWhile {α : Type} (p : α → Bool) (x : α) : ∀ l : List α, x ∈ l.takeWhile p → p x = true := by
  intro l
  induction l with
  | nil => intro h; simp at h
  | cons a t ih =>
    intro h
    by_cases hp : p a = true
    · simp only [List.takeWhile_cons, hp, if_true, List.mem_cons] at h
      rcases h with rfl | h
      · exact hp
      · exact ih h
    · simp [hp] at h

theorem basename_no_slash (path : Bytes) : 47 ∉ basename path := by
  intro h
  have : 47 ∈ path.reverse.takeWhile (· ≠ 47) := by simpa [basename] using h
  have := mem_takeWhile _ _ _ this
  simp at this

end MuduoVerif.LogStream
