import MuduoVerif.Model.Conn
/-!
The life-cycle of the connection model: the trace of every run is a word of
`UP MSG* DOWN close` (with other events interleaved), nothing aborts, the descriptor is
closed once, after DOWN and after the channel was unregistered.
-/
namespace MuduoVerif.Conn
open MuduoVerif.Gen.Conn

/-- phases of a connection as its user sees them -/
inductive Phase | init | up | down | closed
deriving DecidableEq, Repr

/-- the automaton of legal callback / destruction sequences; `none` = illegal -/
def lifeStep : Phase → Ev → Option Phase
  | .init, .up => some .up
  | .up, .msg _ _ => some .up
  | .up, .down => some .down
  | .down, .sysClose => some .closed
  | _, .up => none
  | _, .msg _ _ => none
  | _, .down => none
  | _, .sysClose => none
  | _, .abort _ => none
  | _, .uaf _ => none
  | p, _ => some p

def runLife (tr : List Ev) : Option Phase := tr.foldl (fun o e => o.bind (fun p => lifeStep p e)) (some .init)

theorem runLife_snoc (tr : List Ev) (e : Ev) : runLife (tr ++ [e]) = (runLife tr).bind (fun p => lifeStep p e) := by
  simp [runLife, List.foldl_append]

def Conn.isUp (c : Conn) : Prop := c.st = .kConnected ∨ c.st = .kDisconnecting
instance (c : Conn) : Decidable c.isUp := by unfold Conn.isUp; infer_instance

def phaseOf (c : Conn) : Phase :=
  if c.alive = false then .closed else
  match c.st with
  | .kConnecting => .init
  | .kConnected => .up
  | .kDisconnecting => .up
  | .kDisconnected => .down

/-- the queue of functors as the loop will run them -/
def Conn.queue (c : Conn) : List Task := c.batch ++ c.pending

structure LifeInv (c : Conn) : Prop where
  life : runLife c.trace = some (phaseOf c)
  notDead : c.dead = false
  established : c.st ≠ .kConnecting
  ownerGone : c.owner = false → c.st = .kDisconnected
  quiet : c.st = .kDisconnected → c.ch.evRead = false ∧ c.ch.evWrite = false
  reg : c.alive = true → c.owner = false → c.registered = true → Task.connectDestroyed ∈ c.queue
  gone : c.alive = false → c.registered = false ∧ c.owner = false ∧ c.queue.any Task.strong = false


/-- `c'` differs from `c` only in fields the life-cycle invariant does not read -/
structure SameCtl (c c' : Conn) : Prop where
  trace : c'.trace = c.trace
  st : c'.st = c.st
  alive : c'.alive = c.alive
  dead : c'.dead = c.dead
  owner : c'.owner = c.owner
  evRead : c'.ch.evRead = c.ch.evRead
  evWrite : c'.ch.evWrite = c.ch.evWrite
  registered : c'.registered = c.registered
  batch : c'.batch = c.batch
  pending : c'.pending = c.pending

theorem SameCtl.rfl' (c : Conn) : SameCtl c c := ⟨rfl, rfl, rfl, rfl, rfl, rfl, rfl, rfl, rfl, rfl⟩
theorem SameCtl.trans {a b c : Conn} (h1 : SameCtl a b) (h2 : SameCtl b c) : SameCtl a c :=
  ⟨h2.trace.trans h1.trace, h2.st.trans h1.st, h2.alive.trans h1.alive, h2.dead.trans h1.dead,
   h2.owner.trans h1.owner, h2.evRead.trans h1.evRead, h2.evWrite.trans h1.evWrite,
   h2.registered.trans h1.registered, h2.batch.trans h1.batch, h2.pending.trans h1.pending⟩

theorem phaseOf_congr {c c' : Conn} (h1 : c'.alive = c.alive) (h2 : c'.st = c.st) : phaseOf c' = phaseOf c := by
  unfold phaseOf; rw [h1, h2]

theorem LifeInv.of_same {c c' : Conn} (h : SameCtl c c') (hi : LifeInv c) : LifeInv c' := by
  have hq : c'.queue = c.queue := by unfold Conn.queue; rw [h.batch, h.pending]
  constructor
  · rw [h.trace, phaseOf_congr h.alive h.st]; exact hi.life
  · rw [h.dead]; exact hi.notDead
  · rw [h.st]; exact hi.established
  · rw [h.owner, h.st]; exact hi.ownerGone
  · rw [h.st, h.evRead, h.evWrite]; exact hi.quiet
  · rw [h.alive, h.owner, h.registered, hq]; exact hi.reg
  · rw [h.alive, h.owner, h.registered, hq]; exact hi.gone

theorem LifeInv.frame {c c' : Conn} (hi : LifeInv c) (h : SameCtl c c') : LifeInv c' := LifeInv.of_same h hi

/-- events that are not part of the life-cycle alphabet -/
def Ev.neutral : Ev → Bool
  | .up | .msg _ _ | .down | .sysClose | .abort _ | .uaf _ => false
  | _ => true

theorem lifeStep_neutral (p : Phase) (e : Ev) (h : e.neutral = true) : lifeStep p e = some p := by
  cases e <;> cases p <;> simp_all [Ev.neutral, lifeStep]

theorem emit_life (c : Conn) (e : Ev) (h : e.neutral = true) (hi : LifeInv c) : LifeInv (emit c e) := by
  constructor
  · simp only [emit, runLife_snoc, hi.life, Option.bind_some]
    rw [lifeStep_neutral _ _ h]; rfl
  · exact hi.notDead
  · exact hi.established
  · exact hi.ownerGone
  · exact hi.quiet
  · exact hi.reg
  · exact hi.gone

theorem queue_enqueue (c : Conn) (t : Task) : (enqueue c t).queue = c.queue ++ [t] := by
  simp [Conn.queue, enqueue, List.append_assoc]

/-- a functor is queued by code that runs on behalf of a live connection -/
theorem enqueue_life (c : Conn) (t : Task) (ha : c.alive = true) (hi : LifeInv c) : LifeInv (enqueue c t) := by
  constructor
  · exact hi.life
  · exact hi.notDead
  · exact hi.established
  · exact hi.ownerGone
  · exact hi.quiet
  · intro h1 h2 h3; rw [queue_enqueue]; exact List.mem_append_left _ (hi.reg h1 h2 h3)
  · intro h; simp [enqueue] at h; rw [ha] at h; cases h

theorem popWrite_same (c : Conn) : SameCtl c (popWrite c) := by
  unfold popWrite; split <;> exact ⟨rfl, rfl, rfl, rfl, rfl, rfl, rfl, rfl, rfl, rfl⟩
theorem popRead_same (c : Conn) : SameCtl c (popRead c) := by
  unfold popRead; split <;> exact ⟨rfl, rfl, rfl, rfl, rfl, rfl, rfl, rfl, rfl, rfl⟩

/-- changing the channel's interest while the connection is up and owned -/
theorem setEvents_life (c : Conn) (r w : Bool) (hu : c.isUp) (ha : c.alive = true) (ho : c.owner = true)
    (hi : LifeInv c) : LifeInv (setEvents c r w) := by
  have hst : (setEvents c r w).st = c.st := rfl
  constructor
  · exact hi.life
  · exact hi.notDead
  · exact hi.established
  · intro h; simp [setEvents] at h; rw [ho] at h; cases h
  · intro h; rw [hst] at h; unfold Conn.isUp at hu; rw [h] at hu; simp at hu
  · intro _ h; simp [setEvents] at h; rw [ho] at h; cases h
  · intro h; simp [setEvents] at h; rw [ha] at h; cases h


/-- while the connection is not down it is up, alive and owned -/
theorem LifeInv.upFacts {c : Conn} (hi : LifeInv c) (h : c.st ≠ .kDisconnected) :
    c.isUp ∧ c.alive = true ∧ c.owner = true := by
  have hu : c.isUp := by
    unfold Conn.isUp; have := hi.established
    cases hs : c.st <;> simp_all
  have ho : c.owner = true := by
    cases hw : c.owner with
    | true => rfl
    | false => exact absurd (hi.ownerGone hw) h
  have ha : c.alive = true := by
    cases hw : c.alive with
    | true => rfl
    | false => have := (hi.gone hw).2.1; rw [ho] at this; cases this
  exact ⟨hu, ha, ho⟩

theorem isUp_ne {c : Conn} (h : c.isUp) : c.st ≠ .kDisconnected := by
  unfold Conn.isUp at h; intro h'; rw [h'] at h; simp at h

/-! ### the send path -/

theorem queueRemainder_life (c : Conn) (data : Bytes) (n : Nat) (fault : Bool)
    (hnd : c.st ≠ .kDisconnected) (hi : LifeInv c) : LifeInv (queueRemainder c data n fault) := by
  obtain ⟨hu, ha, ho⟩ := hi.upFacts hnd
  unfold queueRemainder
  split
  · simp only
    have key : ∀ c1 : Conn, LifeInv c1 → c1.isUp → c1.alive = true → c1.owner = true →
        LifeInv (if sendEnablesWriting ({ c1 with outBuf := c1.outBuf ++ data.drop n } : Conn).ch.evWrite
          then enableWriting { c1 with outBuf := c1.outBuf ++ data.drop n }
          else { c1 with outBuf := c1.outBuf ++ data.drop n }) := by
      intro c1 h1 hu1 ha1 ho1
      have base : LifeInv ({ c1 with outBuf := c1.outBuf ++ data.drop n } : Conn) :=
        h1.frame ⟨rfl, rfl, rfl, rfl, rfl, rfl, rfl, rfl, rfl, rfl⟩
      split
      · exact setEvents_life _ _ _ hu1 ha1 ho1 base
      · exact base
    split
    · exact key _ (enqueue_life _ _ ha hi) hu ha ho
    · exact key _ hi hu ha ho
  · split
    · exact hi.frame ⟨rfl, rfl, rfl, rfl, rfl, rfl, rfl, rfl, rfl, rfl⟩
    · exact hi

theorem sendDirect_life (c : Conn) (data : Bytes) (r : WriteRes)
    (hnd : c.st ≠ .kDisconnected) (hi : LifeInv c) : LifeInv (sendDirect c data r) := by
  obtain ⟨hu, ha, ho⟩ := hi.upFacts hnd
  cases r with
  | took n =>
    simp only [sendDirect]
    have b : LifeInv ({ c with wrote := c.wrote ++ data.take n } : Conn) :=
      hi.frame ⟨rfl, rfl, rfl, rfl, rfl, rfl, rfl, rfl, rfl, rfl⟩
    split
    · exact queueRemainder_life _ _ _ _ hnd (enqueue_life _ _ ha b)
    · exact queueRemainder_life _ _ _ _ hnd b
  | err e => exact queueRemainder_life _ _ _ _ hnd hi

theorem sendInLoop_life (c : Conn) (data : Bytes) (q : Bool) (hi : LifeInv c) : LifeInv (sendInLoop c data q) := by
  unfold sendInLoop
  split
  · exact emit_life _ _ rfl hi
  · rename_i hg
    have hnd : c.st ≠ .kDisconnected := by simpa [sendGivesUp] using hg
    split
    · apply sendDirect_life
      · have : (emit (popWrite (accept c data q)) (Ev.sysWrite data.length (peekWrite c))).st = c.st := by
          simp only [emit]; unfold popWrite accept; split <;> rfl
        rw [this]; exact hnd
      · apply emit_life _ _ rfl
        exact (hi.frame (c' := accept c data q) ⟨rfl, rfl, rfl, rfl, rfl, rfl, rfl, rfl, rfl, rfl⟩).frame (popWrite_same _)
    · exact queueRemainder_life _ _ _ _ hnd (hi.frame ⟨rfl, rfl, rfl, rfl, rfl, rfl, rfl, rfl, rfl, rfl⟩)

theorem shutdownInLoop_life (c : Conn) (hi : LifeInv c) : LifeInv (shutdownInLoop c) := by
  unfold shutdownInLoop; split
  · exact emit_life _ _ rfl (hi.frame ⟨rfl, rfl, rfl, rfl, rfl, rfl, rfl, rfl, rfl, rfl⟩)
  · exact hi

theorem startReadInLoop_life (c : Conn) (hi : LifeInv c) : LifeInv (startReadInLoop c) := by
  unfold startReadInLoop; split
  · rename_i hg
    have hu : c.isUp := by simp only [startReadActs] at hg; exact hg.1
    obtain ⟨_, ha, ho⟩ := hi.upFacts (isUp_ne hu)
    exact (setEvents_life c true c.ch.evWrite hu ha ho hi).frame ⟨rfl, rfl, rfl, rfl, rfl, rfl, rfl, rfl, rfl, rfl⟩
  · exact hi

theorem stopReadInLoop_life (c : Conn) (hi : LifeInv c) : LifeInv (stopReadInLoop c) := by
  unfold stopReadInLoop; split
  · rename_i hg
    have hu : c.isUp := by simp only [stopReadActs] at hg; exact hg.1
    obtain ⟨_, ha, ho⟩ := hi.upFacts (isUp_ne hu)
    exact (setEvents_life c false c.ch.evWrite hu ha ho hi).frame ⟨rfl, rfl, rfl, rfl, rfl, rfl, rfl, rfl, rfl, rfl⟩
  · exact hi

theorem handOff_life (c : Conn) (f : Bool) (d : Dispatch) (t : Task) (g : Conn → Conn)
    (ha : c.alive = true) (hi : LifeInv c) (hg : LifeInv c → LifeInv (g c)) : LifeInv (handOff c f d t g) := by
  unfold handOff; split
  · exact enqueue_life _ _ ha hi
  · exact hg hi

/-- `setState(kDisconnecting)` on a connection that is up -/
theorem disconnecting_life (c : Conn) (hu : c.isUp) (hi : LifeInv c) : LifeInv ({ c with st := .kDisconnecting } : Conn) := by
  obtain ⟨_, ha, ho⟩ := hi.upFacts (isUp_ne hu)
  constructor
  · have : phaseOf ({ c with st := .kDisconnecting } : Conn) = phaseOf c := by
      unfold phaseOf; unfold Conn.isUp at hu; simp only [ha]; rcases hu with h | h <;> rw [h]
    rw [this]; exact hi.life
  · exact hi.notDead
  · simp
  · intro h; simp at h; rw [ho] at h; cases h
  · intro h; simp at h
  · intro _ h; simp at h; rw [ho] at h; cases h
  · intro h; simp at h; rw [ha] at h; cases h

theorem act_life (c : Conn) (f : Bool) (a : Act) (ha : c.alive = true) (hi : LifeInv c) : LifeInv (act c f a) := by
  cases a with
  | send d =>
    simp only [act]; split
    · split
      · exact enqueue_life _ _ ha (hi.frame ⟨rfl, rfl, rfl, rfl, rfl, rfl, rfl, rfl, rfl, rfl⟩)
      · exact sendInLoop_life _ _ _ (hi.frame ⟨rfl, rfl, rfl, rfl, rfl, rfl, rfl, rfl, rfl, rfl⟩)
    · exact hi
  | shutdown =>
    simp only [act]; split
    · rename_i hg
      have hu : c.isUp := Or.inl (by simpa [shutdownAccepts] using hg)
      exact handOff_life _ _ _ _ _ ha (disconnecting_life c hu hi) (shutdownInLoop_life _)
    · exact hi
  | forceClose =>
    simp only [act]; split
    · rename_i hg
      have hu : c.isUp := by simpa [forceCloseAccepts, Conn.isUp] using hg
      exact handOff_life _ _ _ _ _ ha (disconnecting_life c hu hi) id
    · exact hi
  | forceCloseDelay us =>
    simp only [act]; split
    · rename_i hg
      have hu : c.isUp := by simpa [forceCloseDelayAccepts, Conn.isUp] using hg
      split
      · exact enqueue_life _ _ ha (disconnecting_life c hu hi)
      · exact (disconnecting_life c hu hi).frame ⟨rfl, rfl, rfl, rfl, rfl, rfl, rfl, rfl, rfl, rfl⟩
    · exact hi
  | stopRead => simp only [act]; exact handOff_life _ _ _ _ _ ha hi (stopReadInLoop_life _)
  | startRead => simp only [act]; exact handOff_life _ _ _ _ _ ha hi (startReadInLoop_life _)
  | setWc k => exact hi.frame ⟨rfl, rfl, rfl, rfl, rfl, rfl, rfl, rfl, rfl, rfl⟩
  | setHwm k m => exact hi.frame ⟨rfl, rfl, rfl, rfl, rfl, rfl, rfl, rfl, rfl, rfl⟩


/-! ### callbacks and handlers -/

theorem callback_life (c : Conn) (k : Cb) (e : Ev) (ha : c.alive = true) (hi : LifeInv (emit c e)) :
    LifeInv (callback c k e) := by
  unfold callback; split
  · exact act_life _ _ _ ha (hi.frame ⟨rfl, rfl, rfl, rfl, rfl, rfl, rfl, rfl, rfl, rfl⟩)
  · exact hi

/-- a user operation cannot bring a connection that is down back up -/
theorem act_st_down (c : Conn) (f : Bool) (a : Act) (h : c.st = .kDisconnected) : (act c f a).st = .kDisconnected := by
  cases a <;> simp [act, h, sendAcceptsPiece, shutdownAccepts, forceCloseAccepts, forceCloseDelayAccepts, handOff,
    stopReadInLoop, startReadInLoop, stopReadActs, startReadActs] <;> (repeat' split) <;> simp_all [enqueue]

theorem callback_st_down (c : Conn) (k : Cb) (e : Ev) (h : c.st = .kDisconnected) : (callback c k e).st = .kDisconnected := by
  unfold callback; split
  · exact act_st_down _ _ _ (by simpa [emit] using h)
  · simpa [emit] using h

/-- `c'` is as alive and as owned as `c` -/
def SameAO (c c' : Conn) : Prop := c'.alive = c.alive ∧ c'.owner = c.owner

theorem SameAO.trans {a b c : Conn} (h1 : SameAO a b) (h2 : SameAO b c) : SameAO a c :=
  ⟨h2.1.trans h1.1, h2.2.trans h1.2⟩

theorem ao_if {p : Prop} [Decidable p] {c a b : Conn} (h1 : SameAO c a) (h2 : SameAO c b) :
    SameAO c (if p then a else b) := by split <;> assumption

theorem queueRemainder_ao (c : Conn) (data : Bytes) (n : Nat) (fault : Bool) : SameAO c (queueRemainder c data n fault) := by
  unfold queueRemainder
  split
  · simp only
    have key : ∀ c1 : Conn, SameAO c c1 →
        SameAO c (if sendEnablesWriting ({ c1 with outBuf := c1.outBuf ++ data.drop n } : Conn).ch.evWrite
          then enableWriting { c1 with outBuf := c1.outBuf ++ data.drop n }
          else { c1 with outBuf := c1.outBuf ++ data.drop n }) := by
      intro c1 h1
      split
      · exact h1
      · exact h1
    split
    · exact key (enqueue c _) ⟨rfl, rfl⟩
    · exact key c ⟨rfl, rfl⟩
  · split
    · exact ⟨rfl, rfl⟩
    · exact ⟨rfl, rfl⟩

theorem sendDirect_ao (c : Conn) (data : Bytes) (r : WriteRes) : SameAO c (sendDirect c data r) := by
  cases r with
  | took n =>
    simp only [sendDirect]
    split
    · exact SameAO.trans (b := enqueue ({ c with wrote := c.wrote ++ data.take n } : Conn) (.writeComplete (bindCb wcBindSend c.wcId))) ⟨rfl, rfl⟩ (queueRemainder_ao _ _ _ _)
    · exact SameAO.trans (b := ({ c with wrote := c.wrote ++ data.take n } : Conn)) ⟨rfl, rfl⟩ (queueRemainder_ao _ _ _ _)
  | err e => exact queueRemainder_ao _ _ _ _

theorem popWrite_ao (c : Conn) : SameAO c (popWrite c) := ⟨(popWrite_same c).alive, (popWrite_same c).owner⟩

theorem sendInLoop_ao (c : Conn) (data : Bytes) (q : Bool) : SameAO c (sendInLoop c data q) := by
  unfold sendInLoop
  split
  · exact ⟨rfl, rfl⟩
  · split
    · refine SameAO.trans ?_ (sendDirect_ao _ _ _)
      have := popWrite_ao (accept c data q)
      exact ⟨this.1, this.2⟩
    · exact SameAO.trans (b := accept c data q) ⟨rfl, rfl⟩ (queueRemainder_ao _ _ _ _)

theorem shutdownInLoop_ao (c : Conn) : SameAO c (shutdownInLoop c) := by
  unfold shutdownInLoop; split <;> exact ⟨rfl, rfl⟩
theorem startReadInLoop_ao (c : Conn) : SameAO c (startReadInLoop c) := by
  unfold startReadInLoop; split <;> exact ⟨rfl, rfl⟩
theorem stopReadInLoop_ao (c : Conn) : SameAO c (stopReadInLoop c) := by
  unfold stopReadInLoop; split <;> exact ⟨rfl, rfl⟩

theorem handOff_ao (c : Conn) (f : Bool) (d : Dispatch) (t : Task) (g : Conn → Conn) (hg : SameAO c (g c)) :
    SameAO c (handOff c f d t g) := by
  unfold handOff; split
  · exact ⟨rfl, rfl⟩
  · exact hg

theorem act_ao (c : Conn) (f : Bool) (a : Act) : SameAO c (act c f a) := by
  cases a with
  | send d =>
    simp only [act]; split
    · split
      · exact ⟨rfl, rfl⟩
      · exact SameAO.trans (b := ({ c with offeredL := c.offeredL ++ [d] } : Conn)) ⟨rfl, rfl⟩ (sendInLoop_ao _ _ _)
    · exact ⟨rfl, rfl⟩
  | shutdown =>
    simp only [act]; split
    · exact SameAO.trans (b := ({ c with st := .kDisconnecting } : Conn)) ⟨rfl, rfl⟩ (handOff_ao _ _ _ _ _ (shutdownInLoop_ao _))
    · exact ⟨rfl, rfl⟩
  | forceClose =>
    simp only [act]; split
    · exact SameAO.trans (b := ({ c with st := .kDisconnecting } : Conn)) ⟨rfl, rfl⟩ (handOff_ao _ _ _ _ _ ⟨rfl, rfl⟩)
    · exact ⟨rfl, rfl⟩
  | forceCloseDelay us =>
    simp only [act]; split
    · split <;> exact ⟨rfl, rfl⟩
    · exact ⟨rfl, rfl⟩
  | stopRead => simp only [act]; exact handOff_ao _ _ _ _ _ (stopReadInLoop_ao _)
  | startRead => simp only [act]; exact handOff_ao _ _ _ _ _ (startReadInLoop_ao _)
  | setWc k => exact ⟨rfl, rfl⟩
  | setHwm k m => exact ⟨rfl, rfl⟩

theorem callback_ao (c : Conn) (k : Cb) (e : Ev) : SameAO c (callback c k e) := by
  unfold callback; split
  · exact SameAO.trans (b := { emit c e with hooks := dropHook k c.hooks }) ⟨rfl, rfl⟩ (act_ao _ _ _)
  · exact ⟨rfl, rfl⟩

theorem callback_alive (c : Conn) (k : Cb) (e : Ev) : (callback c k e).alive = c.alive := (callback_ao c k e).1
theorem callback_owner (c : Conn) (k : Cb) (e : Ev) : (callback c k e).owner = c.owner := (callback_ao c k e).2

/-- the connection goes down: state flipped, all interest dropped, DOWN reported -/
theorem goDown_life (c : Conn) (hu : c.isUp) (hi : LifeInv c) :
    LifeInv (emit (disableAll { c with st := .kDisconnected }) .down) := by
  obtain ⟨_, ha, ho⟩ := hi.upFacts (isUp_ne hu)
  constructor
  · simp only [emit, disableAll, setEvents, runLife_snoc, hi.life, Option.bind_some]
    have h1 : phaseOf c = .up := by
      unfold phaseOf; unfold Conn.isUp at hu; simp only [ha]; rcases hu with h | h <;> simp [h]
    rw [h1]; simp [lifeStep, phaseOf, ha]
  · exact hi.notDead
  · simp [emit, disableAll, setEvents]
  · intro _; rfl
  · intro _; simp only [emit, disableAll, setEvents]
    cases c.be <;> cases hs : c.ch.slot <;> simp [chanUpdate, hs, Chan.none]
  · intro _ h; simp [emit, disableAll, setEvents] at h; rw [ho] at h; cases h
  · intro h; simp [emit, disableAll, setEvents] at h; rw [ha] at h; cases h

theorem handleClose_life (c : Conn) (hu : c.isUp) (hi : LifeInv c) : LifeInv (handleClose c) := by
  obtain ⟨_, ha, ho⟩ := hi.upFacts (isUp_ne hu)
  unfold handleClose
  have hok : handleCloseOk c = true := by
    unfold handleCloseOk; unfold Conn.isUp at hu; rcases hu with h | h <;> simp [h]
  rw [if_neg (by simp [hok])]
  -- after the DOWN callback
  have hd : LifeInv (callback (disableAll { c with st := .kDisconnected }) .down .down) :=
    callback_life _ _ _ (by simpa [disableAll, setEvents] using ha) (goDown_life c hu hi)
  have hst : (callback (disableAll { c with st := .kDisconnected }) .down .down).st = .kDisconnected :=
    callback_st_down _ _ _ rfl
  have hal : (callback (disableAll { c with st := .kDisconnected }) .down .down).alive = true := by
    rw [callback_alive]; simpa [disableAll, setEvents] using ha
  have he := emit_life _ .closeCb rfl hd
  constructor
  · have : phaseOf (enqueue { emit (callback (disableAll { c with st := .kDisconnected }) .down .down) .closeCb with owner := false } .connectDestroyed)
        = phaseOf (emit (callback (disableAll { c with st := .kDisconnected }) .down .down) .closeCb) := rfl
    rw [this]; exact he.life
  · exact he.notDead
  · exact he.established
  · intro _; exact hst
  · exact he.quiet
  · intro _ _ _; simp [Conn.queue, enqueue]
  · intro h; simp [enqueue, emit] at h; rw [hal] at h; cases h

theorem dispCloseSub_up (c : Conn) (hi : LifeInv c) (h : dispCloseSub c.ch.none c.ch.evRead c.ch.evWrite) : c.isUp := by
  have hnd : c.st ≠ .kDisconnected := by
    intro hd
    obtain ⟨h1, h2⟩ := hi.quiet hd
    simp [dispCloseSub, Chan.none, h1, h2] at h
  exact (hi.upFacts hnd).1

theorem dispReadSub_up (c : Conn) (hi : LifeInv c) (h : dispReadSub c.ch.none c.ch.evRead c.ch.evWrite) : c.isUp := by
  have hnd : c.st ≠ .kDisconnected := by
    intro hd
    obtain ⟨h1, h2⟩ := hi.quiet hd
    simp [dispReadSub, h1] at h
  exact (hi.upFacts hnd).1

theorem dispWriteSub_up (c : Conn) (hi : LifeInv c) (h : dispWriteSub c.ch.none c.ch.evRead c.ch.evWrite) : c.isUp := by
  have hnd : c.st ≠ .kDisconnected := by
    intro hd
    obtain ⟨h1, h2⟩ := hi.quiet hd
    simp [dispWriteSub, h2] at h
  exact (hi.upFacts hnd).1

theorem msg_life (c : Conn) (hu : c.isUp) (n : Nat) (h : UInt64) (hi : LifeInv c) : LifeInv (emit c (.msg n h)) := by
  obtain ⟨_, ha, _⟩ := hi.upFacts (isUp_ne hu)
  constructor
  · simp only [emit, runLife_snoc, hi.life, Option.bind_some]
    have h1 : phaseOf c = .up := by
      unfold phaseOf; unfold Conn.isUp at hu; simp only [ha]; rcases hu with h | h <;> simp [h]
    have h2 : phaseOf ({ c with trace := c.trace ++ [Ev.msg n h] } : Conn) = phaseOf c := rfl
    rw [h2, h1]; rfl
  · exact hi.notDead
  · exact hi.established
  · exact hi.ownerGone
  · exact hi.quiet
  · exact hi.reg
  · exact hi.gone

theorem handleReadRes_life (c : Conn) (r : ReadRes) (hu : c.isUp) (hi : LifeInv c) : LifeInv (handleReadRes c r) := by
  obtain ⟨_, ha, _⟩ := hi.upFacts (isUp_ne hu)
  unfold handleReadRes
  split
  · exact handleClose_life _ hu hi
  · rename_i n
    simp only
    have hd : LifeInv (deliver c (n + 1)) := hi.frame ⟨rfl, rfl, rfl, rfl, rfl, rfl, rfl, rfl, rfl, rfl⟩
    have hu' : (deliver c (n + 1)).isUp := hu
    have ha' : (deliver c (n + 1)).alive = true := ha
    have hm := msg_life (deliver c (n + 1)) hu' (deliver c (n + 1)).inBuf.length (fnv64 (deliver c (n + 1)).inBuf) hd
    exact (callback_life (deliver c (n + 1)) .msg _ ha' hm).frame ⟨rfl, rfl, rfl, rfl, rfl, rfl, rfl, rfl, rfl, rfl⟩
  · exact hi

theorem handleRead_life (c : Conn) (hu : c.isUp) (hi : LifeInv c) : LifeInv (handleRead c) := by
  unfold handleRead
  have h1 : LifeInv (emit (popRead c) (.sysReadv (peekRead c))) := emit_life _ _ rfl (hi.frame (popRead_same _))
  have h2 : (emit (popRead c) (.sysReadv (peekRead c))).isUp := by
    have : (emit (popRead c) (.sysReadv (peekRead c))).st = c.st := by simp only [emit]; exact (popRead_same c).st
    unfold Conn.isUp; rw [this]; exact hu
  exact handleReadRes_life _ _ h2 h1

theorem afterDrain_life (c : Conn) (hu : c.isUp) (hi : LifeInv c) : LifeInv (afterDrain c) := by
  obtain ⟨_, ha, ho⟩ := hi.upFacts (isUp_ne hu)
  unfold afterDrain
  simp only
  have h1 : LifeInv (disableWriting c) := setEvents_life _ _ _ hu ha ho hi
  have ha1 : (disableWriting c).alive = true := ha
  split
  · split
    · exact handOff_life _ _ _ _ _ ha1 (enqueue_life _ _ ha1 h1) (shutdownInLoop_life _)
    · exact enqueue_life _ _ ha1 h1
  · split
    · exact handOff_life _ _ _ _ _ ha1 h1 (shutdownInLoop_life _)
    · exact h1

theorem handleWriteRes_life (c : Conn) (r : WriteRes) (hu : c.isUp) (hi : LifeInv c) : LifeInv (handleWriteRes c r) := by
  unfold handleWriteRes
  split
  · rename_i n
    simp only
    have b : LifeInv ({ c with wrote := c.wrote ++ c.outBuf.take (n + 1), outBuf := c.outBuf.drop (n + 1) } : Conn) :=
      hi.frame ⟨rfl, rfl, rfl, rfl, rfl, rfl, rfl, rfl, rfl, rfl⟩
    split
    · exact afterDrain_life _ hu b
    · exact b
  · exact hi

theorem handleWrite_life (c : Conn) (hu : c.isUp) (hi : LifeInv c) : LifeInv (handleWrite c) := by
  unfold handleWrite; split
  · have h1 : LifeInv (emit (popWrite c) (.sysWrite c.outBuf.length (peekWrite c))) :=
      emit_life _ _ rfl (hi.frame (popWrite_same _))
    have h2 : (emit (popWrite c) (.sysWrite c.outBuf.length (peekWrite c))).isUp := by
      have : (emit (popWrite c) (.sysWrite c.outBuf.length (peekWrite c))).st = c.st := by
        simp only [emit]; exact (popWrite_same c).st
      unfold Conn.isUp; rw [this]; exact hu
    exact handleWriteRes_life _ _ h2 h1
  · exact hi

theorem guarded_life (f : Conn → Conn) (rev : Prop) [Decidable rev] (sub : Bool → Bool → Bool → Prop)
    [∀ a b c, Decidable (sub a b c)] (c : Conn) (hi : LifeInv c)
    (hf : sub c.ch.none c.ch.evRead c.ch.evWrite → LifeInv (f c)) : LifeInv (guarded f rev sub c) := by
  unfold guarded; split
  · rename_i hg; exact hf hg.2.1
  · exact hi

theorem handleEvent_life (c : Conn) (r : Nat) (hi : LifeInv c) : LifeInv (handleEvent c r) := by
  unfold handleEvent
  split
  · exact hi
  · have h1 : LifeInv (guarded handleClose (dispClose r) dispCloseSub c) :=
      guarded_life _ _ _ _ hi (fun hg => handleClose_life _ (dispCloseSub_up c hi hg) hi)
    have h2 : LifeInv (guarded handleRead (dispRead r) dispReadSub (guarded handleClose (dispClose r) dispCloseSub c)) :=
      guarded_life _ _ _ _ h1 (fun hg => handleRead_life _ (dispReadSub_up _ h1 hg) h1)
    exact guarded_life _ _ _ _ h2 (fun hg => handleWrite_life _ (dispWriteSub_up _ h2 hg) h2)


/-! ### destruction, functors, iterations -/

theorem LifeInv.dropReg {c : Conn} (hi : LifeInv c) : LifeInv { c with registered := false } := by
  constructor
  · exact hi.life
  · exact hi.notDead
  · exact hi.established
  · exact hi.ownerGone
  · exact hi.quiet
  · intro _ _ h; simp at h
  · intro h
    obtain ⟨_, g2, g3⟩ := hi.gone h
    exact ⟨rfl, g2, g3⟩

/-- `Channel::remove` on a connection that is down; nothing is assumed about `registered` -/
theorem removeChannel_life (c : Conn) (hd : c.st = .kDisconnected) (hi : LifeInv { c with registered := false }) :
    LifeInv (removeChannel c) := by
  obtain ⟨h1, h2⟩ := hi.quiet hd
  have h1' : c.ch.evRead = false := h1
  have h2' : c.ch.evWrite = false := h2
  unfold removeChannel
  rw [if_neg (by simp [Chan.none, h1', h2'])]
  constructor
  · exact hi.life
  · exact hi.notDead
  · exact hi.established
  · exact hi.ownerGone
  · intro _; simp [chanRemove, h1', h2']
  · intro _ _ h; simp at h
  · intro h
    obtain ⟨_, g2, g3⟩ := hi.gone h
    exact ⟨rfl, g2, g3⟩

/-- `connectDestroyed` needs nothing about `registered` (it unregisters) -/
theorem connectDestroyed_life (c : Conn) (ha : c.alive = true) (hi : LifeInv { c with registered := false }) :
    LifeInv (connectDestroyed c) := by
  unfold connectDestroyed
  split
  · rename_i hg
    have hu : ({ c with registered := false } : Conn).isUp := by
      simpa [destroyedWhileConnected, Conn.isUp] using hg
    have hdown := goDown_life _ hu hi
    have hcb : LifeInv (callback (disableAll { c with st := .kDisconnected }) .down .down) :=
      callback_life _ _ _ (by simpa [disableAll, setEvents] using ha) hdown
    exact removeChannel_life _ (callback_st_down _ _ _ rfl) hcb.dropReg
  · rename_i hg
    have hd : c.st = .kDisconnected := by
      have := hi.established
      cases hs : c.st <;> simp_all [destroyedWhileConnected]
    exact removeChannel_life c hd hi

/-- no functor of the connection carries the raw `this` (from the generated hand-off table:
each holds a reference of its own or a weak one) -/
theorem no_raw (t : Task) : t.hold ≠ .raw := by
  cases t <;> simp only [Task.hold] <;> decide

theorem connectDestroyed_strong : Task.connectDestroyed.strong = true := by decide

theorem any_cons_false {t : Task} {l : List Task} (h : (t :: l).any Task.strong = false) :
    t.strong = false ∧ l.any Task.strong = false := by
  simpa [List.any_cons] using h

/-- a functor taken from the head of the batch runs -/
theorem runTask_life (c : Conn) (t : Task) (rest : List Task) (hb : c.batch = t :: rest) (hi : LifeInv c) :
    LifeInv (runTask { c with batch := rest } t) := by
  have hq : c.queue = t :: (rest ++ c.pending) := by simp [Conn.queue, hb]
  -- the state after the pop, without the `reg` part
  have hpop : LifeInv ({ c with batch := rest, registered := false } : Conn) := by
    constructor
    · exact hi.life
    · exact hi.notDead
    · exact hi.established
    · exact hi.ownerGone
    · exact hi.quiet
    · intro _ _ h; simp at h
    · intro h
      obtain ⟨_, g2, g3⟩ := hi.gone h
      rw [hq] at g3
      exact ⟨rfl, g2, (any_cons_false g3).2⟩
  have hpop' : t ≠ .connectDestroyed → LifeInv ({ c with batch := rest } : Conn) := by
    intro hne
    constructor
    · exact hi.life
    · exact hi.notDead
    · exact hi.established
    · exact hi.ownerGone
    · exact hi.quiet
    · intro h1 h2 h3
      have := hi.reg h1 h2 h3
      rw [hq] at this
      rcases List.mem_cons.mp this with h | h
      · exact absurd h.symm hne
      · exact h
    · intro h
      obtain ⟨g1, g2, g3⟩ := hi.gone h
      rw [hq] at g3
      exact ⟨g1, g2, (any_cons_false g3).2⟩
  unfold runTask
  split
  · rename_i hg
    have hns : t.strong = false := by simp at hg; exact hg.2
    have hne : t ≠ .connectDestroyed := by
      intro h; rw [h, connectDestroyed_strong] at hns; cases hns
    split
    · exact (hpop' hne).frame ⟨rfl, rfl, rfl, rfl, rfl, rfl, rfl, rfl, rfl, rfl⟩
    · split
      · exact hpop' hne
      · rename_i _ hw
        have hr := no_raw t
        cases ht : t.hold <;> simp_all [Task.strong]
  · rename_i hg
    have ha : c.alive = true := by
      cases hw : c.alive with
      | true => rfl
      | false =>
        have g3 := (hi.gone hw).2.2
        rw [hq] at g3
        have := (any_cons_false g3).1
        simp [hw, this] at hg
    cases t with
    | sendInLoop d => exact sendInLoop_life _ _ _ (hpop' (by simp))
    | shutdownInLoop => exact shutdownInLoop_life _ (hpop' (by simp))
    | drainShutdownInLoop => exact shutdownInLoop_life _ (hpop' (by simp))
    | forceCloseInLoop =>
      simp only; split
      · rename_i h
        exact handleClose_life _ (by simpa [forceCloseInLoopActs, Conn.isUp] using h) (hpop' (by simp))
      · exact hpop' (by simp)
    | connectDestroyed => exact connectDestroyed_life _ ha hpop
    | writeComplete => exact callback_life _ _ _ ha (emit_life _ _ rfl (hpop' (by simp)))
    | highWater n => exact callback_life _ _ _ ha (emit_life _ _ rfl (hpop' (by simp)))
    | startReadInLoop => exact startReadInLoop_life _ (hpop' (by simp))
    | stopReadInLoop => exact stopReadInLoop_life _ (hpop' (by simp))
    | addDelayTimer d => exact (hpop' (by simp)).frame ⟨rfl, rfl, rfl, rfl, rfl, rfl, rfl, rfl, rfl, rfl⟩

theorem runBatch_life (n : Nat) (c : Conn) (hi : LifeInv c) : LifeInv (runBatch n c) := by
  induction n generalizing c with
  | zero => exact hi
  | succ n ih =>
    unfold runBatch; split
    · exact hi
    · split
      · exact hi
      · rename_i t rest hb
        exact ih _ (runTask_life c t rest hb hi)

theorem maybeDestroy_life (c : Conn) (hi : LifeInv c) : LifeInv (maybeDestroy c) := by
  unfold maybeDestroy
  split
  · rename_i hg
    simp only [Bool.and_eq_true, Bool.not_eq_true', Bool.not_eq_eq_eq_not, Bool.not_true] at hg
    obtain ⟨⟨ha, ho⟩, hq⟩ := hg
    have hd : c.st = .kDisconnected := hi.ownerGone ho
    have hr : c.registered = false := by
      cases hw : c.registered with
      | false => rfl
      | true =>
        have hm := hi.reg ha ho hw
        have : c.queue.any Task.strong = true := List.any_eq_true.mpr ⟨_, hm, rfl⟩
        unfold Conn.queue at this; rw [this] at hq; cases hq
    rw [if_neg (by simp [hd]), if_neg (by simp [hr])]
    constructor
    · simp only [emit, runLife_snoc, List.append_assoc]
      rw [show c.trace ++ ([Ev.sysClose] ++ [Ev.destroyed]) = (c.trace ++ [Ev.sysClose]) ++ [Ev.destroyed] by simp]
      rw [runLife_snoc, runLife_snoc, hi.life]
      have : phaseOf c = .down := by unfold phaseOf; simp [ha, hd]
      rw [this]; simp [lifeStep, phaseOf]
    · exact hi.notDead
    · exact hi.established
    · intro _; exact hd
    · exact hi.quiet
    · intro h; simp [emit] at h
    · intro _; exact ⟨hr, ho, hq⟩
  · exact hi

theorem fireDelay_life (c : Conn) (hi : LifeInv c) : LifeInv (fireDelay c) := by
  unfold fireDelay; split
  · rename_i h; exact act_life _ _ _ h hi
  · exact hi

theorem fireN_life (n : Nat) (c : Conn) (hi : LifeInv c) : LifeInv (fireN c n) := by
  induction n generalizing c with
  | zero => exact hi
  | succ n ih => exact ih _ (fireDelay_life _ hi)

theorem fireTimers_life (c : Conn) (hi : LifeInv c) : LifeInv (fireTimers c) := by
  unfold fireTimers; exact fireN_life _ _ (hi.frame ⟨rfl, rfl, rfl, rfl, rfl, rfl, rfl, rfl, rfl, rfl⟩)

theorem dispatch_life (c : Conn) (s : Src) (hi : LifeInv c) : LifeInv (dispatch c s) := by
  cases s with
  | conn r => simp only [dispatch]; split; exact hi; exact handleEvent_life _ _ hi
  | timer => simp only [dispatch]; split; exact hi; exact fireTimers_life _ hi

theorem foldl_dispatch_life (l : List Src) (c : Conn) (hi : LifeInv c) : LifeInv (l.foldl dispatch c) := by
  induction l generalizing c with
  | nil => exact hi
  | cons s rest ih => exact ih _ (dispatch_life _ _ hi)

theorem drainPending_life (c : Conn) (hi : LifeInv c) : LifeInv (drainPending c) := by
  unfold drainPending
  apply runBatch_life
  constructor
  · exact hi.life
  · exact hi.notDead
  · exact hi.established
  · exact hi.ownerGone
  · exact hi.quiet
  · intro h1 h2 h3; have := hi.reg h1 h2 h3; simpa [Conn.queue] using this
  · intro h; have := hi.gone h; simpa [Conn.queue] using this

theorem iter_life (c : Conn) (a : List Src) (hi : LifeInv c) : LifeInv (iter c a) := by
  unfold iter
  split
  · exact hi
  · simp only
    have h1 := drainPending_life _ (foldl_dispatch_life a c hi)
    split
    · exact h1
    · exact maybeDestroy_life _ h1

theorem removeChannel_st (c : Conn) : (removeChannel c).st = c.st := by
  unfold removeChannel; split <;> rfl
theorem removeChannel_alive (c : Conn) : (removeChannel c).alive = c.alive := by
  unfold removeChannel; split <;> rfl
theorem removeChannel_reg (c : Conn) (h : (removeChannel c).dead = false) : (removeChannel c).registered = false := by
  unfold removeChannel at *
  split
  · rename_i hg; rw [if_pos hg] at h; simp [emit] at h
  · rfl

theorem connectDestroyed_alive (c : Conn) : (connectDestroyed c).alive = c.alive := by
  unfold connectDestroyed
  split
  · rw [removeChannel_alive, callback_alive]; rfl
  · exact removeChannel_alive c
theorem connectDestroyed_st (c : Conn) (he : c.st ≠ .kConnecting) : (connectDestroyed c).st = .kDisconnected := by
  unfold connectDestroyed
  split
  · rw [removeChannel_st]; exact callback_st_down _ _ _ rfl
  · rename_i hg
    rw [removeChannel_st]
    cases hs : c.st <;> simp_all [destroyedWhileConnected]
theorem connectDestroyed_reg (c : Conn) (h : (connectDestroyed c).dead = false) : (connectDestroyed c).registered = false := by
  unfold connectDestroyed at *
  split
  · rename_i hg; rw [if_pos hg] at h; exact removeChannel_reg _ h
  · rename_i hg; rw [if_neg hg] at h; exact removeChannel_reg _ h

/-- inputs other than a second hand-over -/
def Input.notEstablish : Input → Prop
  | .establish => False
  | _ => True

theorem step_life (c : Conn) (i : Input) (hne : i.notEstablish) (hi : LifeInv c) : LifeInv (step c i) := by
  cases i with
  | establish => exact absurd hne (by simp [Input.notEstablish])
  | act f a =>
    simp only [step]; split
    · exact hi
    · rename_i hg
      have ha : c.alive = true := by
        cases hw : c.alive <;> simp_all
      split
      · exact act_life _ _ _ ha hi
      · exact act_life _ _ _ ha hi
  | iter a => exact iter_life _ _ hi
  | ownerDestroy =>
    simp only [step]; split
    · exact hi
    · rename_i hg
      have ha : c.alive = true := by cases hw : c.alive <;> simp_all
      have ho : c.owner = true := by cases hw : c.owner <;> simp_all
      apply maybeDestroy_life
      have hcd : LifeInv (connectDestroyed c) := by
        apply connectDestroyed_life _ ha
        constructor
        · exact hi.life
        · exact hi.notDead
        · exact hi.established
        · exact hi.ownerGone
        · exact hi.quiet
        · intro _ _ h; simp at h
        · intro h; simp at h; rw [ha] at h; cases h
      have hal := connectDestroyed_alive c
      have hst := connectDestroyed_st c hi.established
      have hrg := connectDestroyed_reg c hcd.notDead
      constructor
      · have : phaseOf { connectDestroyed c with owner := false } = phaseOf (connectDestroyed c) := rfl
        rw [this]; exact hcd.life
      · exact hcd.notDead
      · exact hcd.established
      · intro _; exact hst
      · exact hcd.quiet
      · intro _ _ h; simp [hrg] at h
      · intro h; simp [hal, ha] at h
  | hook k a => exact hi.frame ⟨rfl, rfl, rfl, rfl, rfl, rfl, rfl, rfl, rfl, rfl⟩
  | setMark n => exact hi.frame ⟨rfl, rfl, rfl, rfl, rfl, rfl, rfl, rfl, rfl, rfl⟩
  | setRetrieve n => exact hi.frame ⟨rfl, rfl, rfl, rfl, rfl, rfl, rfl, rfl, rfl, rfl⟩
  | peerWrite d => exact hi.frame ⟨rfl, rfl, rfl, rfl, rfl, rfl, rfl, rfl, rfl, rfl⟩
  | envWrite r => exact hi.frame ⟨rfl, rfl, rfl, rfl, rfl, rfl, rfl, rfl, rfl, rfl⟩
  | envRead r => exact hi.frame ⟨rfl, rfl, rfl, rfl, rfl, rfl, rfl, rfl, rfl, rfl⟩
  | advance us => exact hi.frame ⟨rfl, rfl, rfl, rfl, rfl, rfl, rfl, rfl, rfl, rfl⟩

end MuduoVerif.Conn
