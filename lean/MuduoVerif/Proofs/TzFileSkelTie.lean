import MuduoVerif.Generated.TzFileSkel
/-!
# T1 tie for the zone-file reader (C20)

`Gen.TzFileSkel.<x>` is what `vlib/gen/tzfileskel.py` extracts from /repo's current `muduo/base/TimeZone.cc` on every
run; `Decl.<x>` (`Model/TzFileSkelDecl.lean`) is what `Model/TzFile.lean` was written for.

* `tie_<x>`: a parameter of the reader (integer reader: bytes / byte swap / return type / exception text; lengths,
  magic and version tests; reader, type and ORDER of the counters; the size of the first block and the skips with their
  implicit conversions; which reader reads a transition time and the types a value passes through) is unchanged.  The
  model calls the generated definition, so a changed parameter changes the model as well; this equation says that the
  theorems of `Proofs/TzFile.lean` are about the source as it is now.
* `skeleton_<fn>`: the statement skeleton (order and nesting of reads, tests, loops, `throw`, `try`, `return`) of a
  function is the one the model's definition implements; closed by `decide`.

`Props/C20` re-exports `tzfile_reader_tied`, so a change of a width, of the signedness of a reader, of the order of two
reads, of a test or of a skip in the reader breaks that property module.
-/
namespace MuduoVerif.TzFileSkel

-- `String` equality is evaluated character by character: the longest text needs more than the default depth
set_option maxRecDepth 8192

theorem tie_readInt32 : Gen.TzFileSkel.readInt32 = Decl.readInt32 := rfl
theorem tie_readInt64 : Gen.TzFileSkel.readInt64 = Decl.readInt64 := rfl
theorem tie_readUInt8 : Gen.TzFileSkel.readUInt8 = Decl.readUInt8 := rfl
theorem tie_readBytesMsg : Gen.TzFileSkel.readBytesMsg = Decl.readBytesMsg := rfl
theorem tie_readBytesArgTy : Gen.TzFileSkel.readBytesArgTy = Decl.readBytesArgTy := rfl
theorem tie_skipArgTy : Gen.TzFileSkel.skipArgTy = Decl.skipArgTy := rfl
theorem tie_skipWhence : Gen.TzFileSkel.skipWhence = Decl.skipWhence := rfl
theorem tie_magicLen : Gen.TzFileSkel.magicLen = Decl.magicLen := rfl
theorem tie_badHead : Gen.TzFileSkel.badHead = Decl.badHead := rfl
theorem tie_badHeadMsg : Gen.TzFileSkel.badHeadMsg = Decl.badHeadMsg := rfl
theorem tie_versionLen : Gen.TzFileSkel.versionLen = Decl.versionLen := rfl
theorem tie_reservedLen : Gen.TzFileSkel.reservedLen = Decl.reservedLen := rfl
theorem tie_headerCountReader : Gen.TzFileSkel.headerCountReader = Decl.headerCountReader := rfl
theorem tie_headerCountTy : Gen.TzFileSkel.headerCountTy = Decl.headerCountTy := rfl
theorem tie_headerCounts : Gen.TzFileSkel.headerCounts = Decl.headerCounts := rfl
theorem tie_isV2 : Gen.TzFileSkel.isV2 = Decl.isV2 := rfl
theorem tie_v1BlockSkip : Gen.TzFileSkel.v1BlockSkip = Decl.v1BlockSkip := rfl
theorem tie_magic2Len : Gen.TzFileSkel.magic2Len = Decl.magic2Len := rfl
theorem tie_badHead2 : Gen.TzFileSkel.badHead2 = Decl.badHead2 := rfl
theorem tie_badHead2Msg : Gen.TzFileSkel.badHead2Msg = Decl.badHead2Msg := rfl
theorem tie_header2Skip : Gen.TzFileSkel.header2Skip = Decl.header2Skip := rfl
theorem tie_v2BranchV1 : Gen.TzFileSkel.v2BranchV1 = Decl.v2BranchV1 := rfl
theorem tie_rewind : Gen.TzFileSkel.rewind = Decl.rewind := rfl
theorem tie_v1BranchV1 : Gen.TzFileSkel.v1BranchV1 = Decl.v1BranchV1 := rfl
theorem tie_timeSize : Gen.TzFileSkel.timeSize = Decl.timeSize := rfl
theorem tie_blockCountReader : Gen.TzFileSkel.blockCountReader = Decl.blockCountReader := rfl
theorem tie_blockCountTy : Gen.TzFileSkel.blockCountTy = Decl.blockCountTy := rfl
theorem tie_blockCounts : Gen.TzFileSkel.blockCounts = Decl.blockCounts := rfl
theorem tie_rejectLeap : Gen.TzFileSkel.rejectLeap = Decl.rejectLeap := rfl
theorem tie_rejectIsut : Gen.TzFileSkel.rejectIsut = Decl.rejectIsut := rfl
theorem tie_rejectIsstd : Gen.TzFileSkel.rejectIsstd = Decl.rejectIsstd := rfl
theorem tie_rejectOrder : Gen.TzFileSkel.rejectOrder = Decl.rejectOrder := rfl
theorem tie_timeReader : Gen.TzFileSkel.timeReader = Decl.timeReader := rfl
theorem tie_timeElemTy : Gen.TzFileSkel.timeElemTy = Decl.timeElemTy := rfl
theorem tie_timeConvs : Gen.TzFileSkel.timeConvs = Decl.timeConvs := rfl
theorem tie_idxReader : Gen.TzFileSkel.idxReader = Decl.idxReader := rfl
theorem tie_idxVarTy : Gen.TzFileSkel.idxVarTy = Decl.idxVarTy := rfl
theorem tie_idxElemTy : Gen.TzFileSkel.idxElemTy = Decl.idxElemTy := rfl
theorem tie_ttinfoReaders : Gen.TzFileSkel.ttinfoReaders = Decl.ttinfoReaders := rfl
theorem tie_ttinfo : Gen.TzFileSkel.ttinfo = Decl.ttinfo := rfl
theorem tie_transIdxTys : Gen.TzFileSkel.transIdxTys = Decl.transIdxTys := rfl
theorem tie_transTimeTy : Gen.TzFileSkel.transTimeTy = Decl.transTimeTy := rfl
theorem tie_charsLen : Gen.TzFileSkel.charsLen = Decl.charsLen := rfl
theorem tie_blockSkips : Gen.TzFileSkel.blockSkips = Decl.blockSkips := rfl
theorem tie_readsFooter : Gen.TzFileSkel.readsFooter = Decl.readsFooter := rfl

theorem skeleton_fileReadBytes : Gen.TzFileSkel.fileReadBytes = Decl.fileReadBytes := by decide
theorem skeleton_fileReadInt64 : Gen.TzFileSkel.fileReadInt64 = Decl.fileReadInt64 := by decide
theorem skeleton_fileReadInt32 : Gen.TzFileSkel.fileReadInt32 = Decl.fileReadInt32 := by decide
theorem skeleton_fileReadUInt8 : Gen.TzFileSkel.fileReadUInt8 = Decl.fileReadUInt8 := by decide
theorem skeleton_fileSkip : Gen.TzFileSkel.fileSkip = Decl.fileSkip := by decide
theorem skeleton_readDataBlock : Gen.TzFileSkel.readDataBlock = Decl.readDataBlock := by decide
theorem skeleton_readTimeZoneFile : Gen.TzFileSkel.readTimeZoneFile = Decl.readTimeZoneFile := by decide
theorem skeleton_transitionCtor : Gen.TzFileSkel.transitionCtor = Decl.transitionCtor := by decide
theorem skeleton_localTimeCtor : Gen.TzFileSkel.localTimeCtor = Decl.localTimeCtor := by decide
theorem skeleton_addLocalTime : Gen.TzFileSkel.addLocalTime = Decl.addLocalTime := by decide
theorem skeleton_addTransition : Gen.TzFileSkel.addTransition = Decl.addTransition := by decide
theorem skeleton_loadZoneFile : Gen.TzFileSkel.loadZoneFile = Decl.loadZoneFile := by decide

/-- every extracted parameter and every extracted skeleton is the declared one -/
theorem reader_tied :
    Gen.TzFileSkel.readInt32 = Decl.readInt32 ∧
    Gen.TzFileSkel.readInt64 = Decl.readInt64 ∧
    Gen.TzFileSkel.readUInt8 = Decl.readUInt8 ∧
    Gen.TzFileSkel.readBytesMsg = Decl.readBytesMsg ∧
    Gen.TzFileSkel.readBytesArgTy = Decl.readBytesArgTy ∧
    Gen.TzFileSkel.skipArgTy = Decl.skipArgTy ∧
    Gen.TzFileSkel.skipWhence = Decl.skipWhence ∧
    Gen.TzFileSkel.magicLen = Decl.magicLen ∧
    Gen.TzFileSkel.badHead = Decl.badHead ∧
    Gen.TzFileSkel.badHeadMsg = Decl.badHeadMsg ∧
    Gen.TzFileSkel.versionLen = Decl.versionLen ∧
    Gen.TzFileSkel.reservedLen = Decl.reservedLen ∧
    Gen.TzFileSkel.headerCountReader = Decl.headerCountReader ∧
    Gen.TzFileSkel.headerCountTy = Decl.headerCountTy ∧
    Gen.TzFileSkel.headerCounts = Decl.headerCounts ∧
    Gen.TzFileSkel.isV2 = Decl.isV2 ∧
    Gen.TzFileSkel.v1BlockSkip = Decl.v1BlockSkip ∧
    Gen.TzFileSkel.magic2Len = Decl.magic2Len ∧
    Gen.TzFileSkel.badHead2 = Decl.badHead2 ∧
    Gen.TzFileSkel.badHead2Msg = Decl.badHead2Msg ∧
    Gen.TzFileSkel.header2Skip = Decl.header2Skip ∧
    Gen.TzFileSkel.v2BranchV1 = Decl.v2BranchV1 ∧
    Gen.TzFileSkel.rewind = Decl.rewind ∧
    Gen.TzFileSkel.v1BranchV1 = Decl.v1BranchV1 ∧
    Gen.TzFileSkel.timeSize = Decl.timeSize ∧
    Gen.TzFileSkel.blockCountReader = Decl.blockCountReader ∧
    Gen.TzFileSkel.blockCountTy = Decl.blockCountTy ∧
    Gen.TzFileSkel.blockCounts = Decl.blockCounts ∧
    Gen.TzFileSkel.rejectLeap = Decl.rejectLeap ∧
    Gen.TzFileSkel.rejectIsut = Decl.rejectIsut ∧
    Gen.TzFileSkel.rejectIsstd = Decl.rejectIsstd ∧
    Gen.TzFileSkel.rejectOrder = Decl.rejectOrder ∧
    Gen.TzFileSkel.timeReader = Decl.timeReader ∧
    Gen.TzFileSkel.timeElemTy = Decl.timeElemTy ∧
    Gen.TzFileSkel.timeConvs = Decl.timeConvs ∧
    Gen.TzFileSkel.idxReader = Decl.idxReader ∧
    Gen.TzFileSkel.idxVarTy = Decl.idxVarTy ∧
    Gen.TzFileSkel.idxElemTy = Decl.idxElemTy ∧
    Gen.TzFileSkel.ttinfoReaders = Decl.ttinfoReaders ∧
    Gen.TzFileSkel.ttinfo = Decl.ttinfo ∧
    Gen.TzFileSkel.transIdxTys = Decl.transIdxTys ∧
    Gen.TzFileSkel.transTimeTy = Decl.transTimeTy ∧
    Gen.TzFileSkel.charsLen = Decl.charsLen ∧
    Gen.TzFileSkel.blockSkips = Decl.blockSkips ∧
    Gen.TzFileSkel.readsFooter = Decl.readsFooter ∧
    Gen.TzFileSkel.fileReadBytes = Decl.fileReadBytes ∧
    Gen.TzFileSkel.fileReadInt64 = Decl.fileReadInt64 ∧
    Gen.TzFileSkel.fileReadInt32 = Decl.fileReadInt32 ∧
    Gen.TzFileSkel.fileReadUInt8 = Decl.fileReadUInt8 ∧
    Gen.TzFileSkel.fileSkip = Decl.fileSkip ∧
    Gen.TzFileSkel.readDataBlock = Decl.readDataBlock ∧
    Gen.TzFileSkel.readTimeZoneFile = Decl.readTimeZoneFile ∧
    Gen.TzFileSkel.transitionCtor = Decl.transitionCtor ∧
    Gen.TzFileSkel.localTimeCtor = Decl.localTimeCtor ∧
    Gen.TzFileSkel.addLocalTime = Decl.addLocalTime ∧
    Gen.TzFileSkel.addTransition = Decl.addTransition ∧
    Gen.TzFileSkel.loadZoneFile = Decl.loadZoneFile :=
  ⟨tie_readInt32,
   tie_readInt64,
   tie_readUInt8,
   tie_readBytesMsg,
   tie_readBytesArgTy,
   tie_skipArgTy,
   tie_skipWhence,
   tie_magicLen,
   tie_badHead,
   tie_badHeadMsg,
   tie_versionLen,
   tie_reservedLen,
   tie_headerCountReader,
   tie_headerCountTy,
   tie_headerCounts,
   tie_isV2,
   tie_v1BlockSkip,
   tie_magic2Len,
   tie_badHead2,
   tie_badHead2Msg,
   tie_header2Skip,
   tie_v2BranchV1,
   tie_rewind,
   tie_v1BranchV1,
   tie_timeSize,
   tie_blockCountReader,
   tie_blockCountTy,
   tie_blockCounts,
   tie_rejectLeap,
   tie_rejectIsut,
   tie_rejectIsstd,
   tie_rejectOrder,
   tie_timeReader,
   tie_timeElemTy,
   tie_timeConvs,
   tie_idxReader,
   tie_idxVarTy,
   tie_idxElemTy,
   tie_ttinfoReaders,
   tie_ttinfo,
   tie_transIdxTys,
   tie_transTimeTy,
   tie_charsLen,
   tie_blockSkips,
   tie_readsFooter,
   skeleton_fileReadBytes,
   skeleton_fileReadInt64,
   skeleton_fileReadInt32,
   skeleton_fileReadUInt8,
   skeleton_fileSkip,
   skeleton_readDataBlock,
   skeleton_readTimeZoneFile,
   skeleton_transitionCtor,
   skeleton_localTimeCtor,
   skeleton_addLocalTime,
   skeleton_addTransition,
   skeleton_loadZoneFile⟩

end MuduoVerif.TzFileSkel
