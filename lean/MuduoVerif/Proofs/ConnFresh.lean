import MuduoVerif.Model.Conn
/-! The initial state of every history of the connection model. -/
namespace MuduoVerif.Conn

/-- a connection object as constructed (`TcpConnection::TcpConnection`), with any configuration
(poller back-end, build flavour, callbacks set or not, high-water mark), any scripted
environment results and any callback scripts (`hooks`) -/
structure Fresh (c : Conn) : Prop where
  st : c.st = .kConnecting
  ch : c.ch = {}
  registered : c.registered = false
  outBuf : c.outBuf = []
  inBuf : c.inBuf = []
  pending : c.pending = []
  batch : c.batch = []
  timers : c.timers = []
  owner : c.owner = true
  alive : c.alive = true
  dead : c.dead = false
  accepted : c.accepted = []
  blocks : c.blocks = []
  offeredL : c.offeredL = []
  offeredF : c.offeredF = []
  wrote : c.wrote = []
  discarded : c.discarded = false
  shutWr : c.shutWr = false
  trace : c.trace = []
  delivered : c.delivered = []
  peerPending : c.peerPending = []
  peerAll : c.peerAll = []

/-- the default record is fresh, for every configuration -/
theorem fresh_default (be : Backend) (asserts hasWC hasHWM : Bool) (mark retrieveMax : Nat)
    (hooks : List (Cb × Act)) (writes : List WriteRes) (reads : List ReadRes) :
    Fresh { be := be, asserts := asserts, hasWC := hasWC, hasHWM := hasHWM, mark := mark,
            retrieveMax := retrieveMax, hooks := hooks, writes := writes, reads := reads } :=
  ⟨rfl, rfl, rfl, rfl, rfl, rfl, rfl, rfl, rfl, rfl, rfl, rfl, rfl, rfl, rfl, rfl, rfl, rfl, rfl, rfl, rfl, rfl⟩

end MuduoVerif.Conn
