import MuduoVerif.Model.Client
import Driver.Util
/-! `drv_client`: the Connector/TcpClient model behind the line protocol of harness/client_drv.cc -/
namespace Driver.ClientDrv
open MuduoVerif.Client MuduoVerif.Gen.Client Driver

structure St where
  c : C
  env : List (List String) := []
  /-- virtual time at which the timer descriptor was last armed (`TimerQueue` floors the
  relative expiry at 100 µs, so the alarm is `max deadline (armedAt + 100)`) -/
  armedAt : Nat := 0
  /-- the timer descriptor is still armed for the deadline of a CANCELLED back-off timer: `TimerQueue::cancel` erases
  the timer but leaves the descriptor as it is (a spurious wake-up follows); only deadlines the model itself cancelled
  are ever put here -/
  fdGhost : Option Nat := none

def parseWho : String → Who
  | "F" => .foreign
  | _ => .loop

def parseHookOp : String → Option HookOp
  | "disconnect" => some .disconnect
  | "stop" => some .stop
  | "connect" => some .connect
  | "query" => some .query
  | _ => none

def showEv : Ev → Option String
  | .sockCreated k => some s!"sock created {k}"
  | .attempt k t => some s!"attempt {k} at {t}"
  | .sockClosed k => some s!"sock closed {k}"
  | .handedOver k => some s!"sock handedOver {k}"
  | .connClosed k => some s!"conn closed {k}"
  | .up k => some s!"cb UP {k}"
  | .down k => some s!"cb DOWN {k}"
  | .shutdownWr k => some s!"sys shutdownWr {k}"
  | .query k seen =>
    some (match seen with
      | none => "cb QUERY none"
      | some j => if j = k then "cb QUERY self" else "cb QUERY other")
  | .retryScheduled i ms t => some s!"# retry {i} {ms} {t}"
  | .abort w => some s!"abort {w}"
  | .uaf w => some s!"uaf {w}"
  | .ghost _ => none

/-- environment lines recorded by the implementation for this step → model inputs + poll result -/
def feedEnv (c : C) (env : List (List String)) : C × List Src :=
  env.foldl (fun (acc : C × List Src) ws =>
    let (c, act) := acc
    match ws with
    | ["<", "connect", r] => (step c (.envConnect (r.toNat?.getD 0)), act)
    | ["<", "soerr", r] => (step c (.envSoError (r.toNat?.getD 0)), act)
    | ["<", "self", b] => (step c (.envSelf (b = "1")), act)
    | ["<", "readv", r] => (step c (.envRead r.toNat?), act)
    | "<" :: "poll" :: rest =>
      let srcs := rest.filterMap (fun t =>
        if t = "timer" then some Src.timer
        else match t.splitOn ":" with
          | ["connector", r] => r.toNat?.map Src.connector
          | ["conn", k, r] => match k.toNat?, r.toNat? with
            | some k, some r => some (Src.conn k r)
            | _, _ => none
          | _ => none)
      (c, act ++ srcs)
    | _ => acc) (c, [])

def openFds (c : C) : Nat :=
  (c.sockSt.filter (· = .opened)).length + (c.conns.filter (fun r => !r.destroyed)).length

def earliest (c : C) : Option Nat :=
  match c.timers.map (·.1) with
  | [] => none
  | d :: rest => some (rest.foldl min d)

def alarm (c : C) (armedAt : Nat) (fdGhost : Option Nat := none) : String :=
  match (match fdGhost with | some g => some g | none => earliest c) with
  | none => "-"
  | some m =>
    let a := max m (armedAt + 100)
    if a ≤ c.now then "-" else toString a

def stLine (c : C) (armedAt : Nat) (fdGhost : Option Nat := none) : String :=
  let conn :=
    if !c.clientAlive then "gone"
    else match c.connection with
      | none => "none"
      | some k => match connSt c k with
        | .connected => "C" | .disconnecting => "X" | .disconnected => "D"
  s!"st conn={conn} alarm={alarm c armedAt fdGhost} fds={openFds c}"

def exec (s : St) (ws : List String) : St × List String :=
  let (c0, active) := feedEnv s.c s.env
  let tlen := c0.trace.length
  let c0 : C := { c0 with starved := false }
  let (c1, bad) : C × Bool := match ws with
    | ["connect", w] => (step c0 (.connect (parseWho w)), false)
    | ["disconnect", w] => (step c0 (.disconnect (parseWho w)), false)
    | ["stop", w] => (step c0 (.stop (parseWho w)), false)
    | ["enableRetry"] => (step c0 .enableRetry, false)
    | ["destroy", w] => (step c0 (.destroy (parseWho w)), false)
    | ["holdRef"] => (step c0 .holdRef, false)
    | ["dropRef"] => (step c0 .dropRef, false)
    | ["hook", "up", op] => (match parseHookOp op with | some o => (step c0 (.hookUp o), false) | none => (c0, true))
    | ["hook", "down", op] => (match parseHookOp op with | some o => (step c0 (.hookDown o), false) | none => (c0, true))
    | ["advance", us] => (step c0 (.advance (us.toNat?.getD 0)), false)
    | ["iter"] => (step c0 (.iter active), false)
    | "script" :: _ => (c0, false)
    | "server" :: _ => (c0, false)
    | "peer" :: _ => (c0, false)
    | "pollerr" :: _ => (c0, false)
    | _ => (c0, true)
  let outs := (c1.trace.drop tlen).filterMap showEv
  let diag : List String :=
    (if bad then ["bad-op"] else []) ++
    (if c1.starved then ["env-starved: the model made a call the implementation did not make"] else []) ++
    (if c1.envConnect ≠ [] ∨ c1.envSoErr ≠ [] ∨ c1.envSelf ≠ [] ∨ c1.envRead ≠ []
      then ["env-unconsumed: the implementation made a call the model did not make"] else [])
  let c1 : C := { c1 with envConnect := [], envSoErr := [], envSelf := [], envRead := [] }
  -- `< arm <ns>`: the timer descriptor was (re)armed during this step, relative to the step's clock
  let arms := s.env.filterMap (fun ws => match ws with | ["<", "arm", ns] => ns.toNat? | _ => none)
  let armedAt := if arms.isEmpty then s.armedAt else c1.now
  -- back-off timers that were pending (or were armed during this step) and are gone without having been due: cancelled
  let retryDl := fun (c : C) => (c.timers.filter (fun t => t.2 == .retry)).map (·.1)
  let sched : List Nat := (c1.trace.drop tlen).filterMap (fun e =>
    match e with | .retryScheduled _ ms t => some (t + ms * 1000) | _ => none)
  let ghosts := (retryDl c0 ++ sched).filter (fun d => decide (c1.now < d) && !(retryDl c1).contains d)
  let live := earliest c1
  let fits := fun (ns m : Nat) => ns / 1000 == max (m - c1.now) 100
  -- the last (re)arming of the step: for the model's earliest timer, or - the step cancelled it afterwards - for a ghost
  let (armDiag, ghostArm) : List String × Option Nat := match arms.getLast? with
    | none => ([], none)
    | some ns =>
      if (match live with | some m => fits ns m | none => false) then ([], none)
      else match ghosts.find? (fits ns) with
        | some g => ([], some g)
        | none => match live with
          | some m => ([s!"arm-mismatch: implementation armed {ns} ns, model expects {max (m - c1.now) 100} us"], none)
          | none => ([s!"arm-mismatch: implementation armed {ns} ns, the model has no timer"], none)
  let timerRan := ws == ["iter"] && active.contains Src.timer
  let cands : List Nat :=
    (if timerRan || !arms.isEmpty then [] else s.fdGhost.toList) ++ (if arms.isEmpty then ghosts else ghostArm.toList)
  -- (a ghost deadline that has passed stays - shown as `-` - until the timer dispatch reads the descriptor)
  let ok := fun (g : Nat) => (match live with | none => true | some m => decide (g < m))
  let fdGhost : Option Nat := match cands.filter ok with
    | [] => none
    | g :: rest => some (rest.foldl min g)
  ({ c := c1, env := [], armedAt := armedAt, fdGhost := fdGhost },
   outs ++ diag ++ armDiag ++ (if c1.dead then [] else [stLine c1 armedAt fdGhost]))

def main (lines : Array String) (args : List String) : IO Unit := do
  let asserts := !(args.contains "ndebug")
  let mut s : St := { c := init asserts }
  let out ← IO.getStdout
  for line in lines do
    let ws := words line
    if ws.isEmpty then continue
    if line.startsWith "<" then
      s := { s with env := s.env ++ [ws] }
    else
      let (s', o) := exec s ws
      s := s'
      for l in o do out.putStrLn l
      out.putStrLn "--"
      if s.c.dead then break

end Driver.ClientDrv
