/-! Shared helpers of the line-protocol drivers (core only). -/
namespace Driver

abbrev Bytes := List UInt8

def hexVal (c : Char) : Option Nat :=
  if '0' ≤ c ∧ c ≤ '9' then some (c.toNat - '0'.toNat)
  else if 'a' ≤ c ∧ c ≤ 'f' then some (c.toNat - 'a'.toNat + 10)
  else if 'A' ≤ c ∧ c ≤ 'F' then some (c.toNat - 'A'.toNat + 10)
  else none

def parseHex (s : String) : Option Bytes :=
  let rec go : List Char → Bytes → Option Bytes
    | [], acc => some acc.reverse
    | [_], _ => none
    | a :: b :: rest, acc =>
      match hexVal a, hexVal b with
      | some x, some y => go rest (UInt8.ofNat (x * 16 + y) :: acc)
      | _, _ => none
  go s.toList []

def hexDigit (n : Nat) : Char := if n < 10 then Char.ofNat (48 + n) else Char.ofNat (87 + n)

def toHex (bs : Bytes) : String :=
  String.ofList (bs.foldr (fun b acc => hexDigit (b.toNat / 16) :: hexDigit (b.toNat % 16) :: acc) [])

/-- the byte generator shared with the C++ side: a 64-bit LCG, high byte of each state -/
def genBytes (seed : Nat) (len : Nat) : Bytes :=
  let rec go (n : Nat) (x : UInt64) (acc : Bytes) : Bytes :=
    match n with
    | 0 => acc.reverse
    | n+1 =>
      let x' := x * 6364136223846793005 + 1442695040888963407
      go n x' ((x' >>> 56).toUInt8 :: acc)
  go len (UInt64.ofNat seed) []

/-- byte-string argument: `h:<hex>` or `g:<seed>:<len>` -/
def parseBytes (s : String) : Option Bytes :=
  match s.splitOn ":" with
  | ["h", hex] => parseHex hex
  | ["g", seed, len] =>
    match seed.toNat?, len.toNat? with
    | some a, some b => some (genBytes a b)
    | _, _ => none
  | _ => none

def fnv64 (bs : Bytes) : UInt64 :=
  bs.foldl (fun h b => (h ^^^ b.toUInt64) * 1099511628211) 14695981039346656037

def words (line : String) : List String :=
  (line.trimAscii.toString.splitOn " ").filter (· ≠ "")

/-- read all lines of stdin -/
partial def readLines (h : IO.FS.Stream) (acc : Array String) : IO (Array String) := do
  let line ← h.getLine
  if line.isEmpty then return acc
  readLines h (acc.push (line.dropEndWhile (· == '\n')).toString)

end Driver
