import Driver.Util
/-! `drv_poller`: not built yet -/
def main : IO UInt32 := do
  IO.eprintln "drv_poller: engine not implemented"
  return 2
