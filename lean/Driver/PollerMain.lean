import Driver.PollerDrv
open Driver

def main (args : List String) : IO UInt32 := do
  let lines ← readLines (← IO.getStdin) #[]
  PollerDrv.main args lines
  return 0
