import Driver.ConnDrv
open Driver

def main (args : List String) : IO UInt32 := do
  let lines ← readLines (← IO.getStdin) #[]
  ConnDrv.main lines args
  return 0
