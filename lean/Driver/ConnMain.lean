import Driver.Util
/-! `drv_conn`: not built yet -/
def main : IO UInt32 := do
  IO.eprintln "drv_conn: engine not implemented"
  return 2
