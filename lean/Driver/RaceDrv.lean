import Driver.Util
import MuduoVerif.Model.Race
/-!
`drv_race` — the table checks of `Model/Race.lean` as a line protocol, so that the Python side of
the C08 check can (a) read the hand-written policy from its single source, (b) compare its own
re-evaluation of `rowOk`/`fieldOk`/`confinedOk` with the Lean definitions on the generated table
and on edited rows.

  policies          the policy tables, one item per line
  table             verdicts of the Lean checks on the compiled-in generated table (indices of failures)
  row<TAB>cls<TAB>root<TAB>rootKind<TAB>fn<TAB>file<TAB>line<TAB>field<TAB>kind<TAB>callee<TAB>locks<TAB>inLoop<TAB>inAssert
                    `ok` / `bad` for one row given on the line (lists separated by `;`)

Every input line is answered by its output lines and `--`.
-/
namespace Driver.RaceDrv
open MuduoVerif.Race MuduoVerif.Gen.Race

def policyStr : Policy → String
  | .immutable => "immutable"
  | .atomic => "atomic"
  | .guarded m => "guarded " ++ m
  | .confined => "confined"
  | .owner => "owner"
  | .sync => "sync"
  | .ctorOnly => "ctorOnly"

def semi (xs : List String) : String := ";".intercalate xs

def unsemi (s : String) : List String := (s.splitOn ";").filter (· ≠ "")

def dumpPolicies : List String :=
  (policies.map fun cp =>
    [s!"class\t{cp.cls}\t{semi cp.ownerChecks}\t{semi cp.setup}\t{semi cp.notThreadSafe}"] ++
    cp.fields.map fun (f, p) => s!"field\t{cp.cls}\t{f}\t{policyStr p}").flatten ++
  safeCallees.map (fun c => s!"safe\t{c}") ++
  requiredConfined.map (fun (c, f) => s!"reqConfined\t{c}\t{f}") ++
  requiredRoots.map (fun q => s!"reqRoot\t{q}")

def parseRootKind : String → Option RootKind
  | "ts" => some .ts | "confined" => some .confined | "handler" => some .handler
  | "owner" => some .owner | "other" => some .other | _ => none

def parseKind : String → Option AKind
  | "rd" => some .rd | "wr" => some .wr | "ard" => some .ard | "awr" => some .awr
  | "call" => some .call | _ => none

def parseRow (ws : List String) : Option Row :=
  match ws with
  | [cls, root, rk, fn, file, line, field, kind, callee, locks, inLoop, inAssert] =>
    match parseRootKind rk, parseKind kind, line.toNat? with
    | some rk, some k, some ln =>
      some { cls := cls, root := root, rootKind := rk, fn := fn, file := file, line := ln, field := field,
             kind := k, callee := callee, locks := unsemi locks, inLoop := unsemi inLoop,
             inAssert := inAssert == "true" }
    | _, _, _ => none
  | _ => none

/-- indices (0-based) of the elements that fail `p` -/
def failing {α : Type} (xs : List α) (p : α → Bool) : List Nat :=
  (xs.zipIdx.filter (fun (x, _) => !p x)).map (·.2)

def nats (xs : List Nat) : String := " ".intercalate (xs.map toString)

def tableReport : List String := [
  s!"rows {rows.length} bad {nats (failing rows rowOk)}",
  s!"fields {fields.length} bad {nats (failing fields fieldOk)}",
  s!"confinedOps {confinedOps.length} bad {nats (failing confinedOps confinedOk)}",
  s!"roots {roots.length} unlisted {nats (failing roots confinedListed)}",
  "tsAsserting " ++ semi (tsAsserting.map (fun o => o.cls ++ "::" ++ o.fn)),
  "reqConfined missing " ++ semi ((requiredConfined.filter
      (fun (c, f) => !confinedOps.any (fun o => o.cls == c && o.fn == f))).map (fun (c, f) => c ++ "::" ++ f)),
  "reqRoots missing " ++ semi (requiredRoots.filter (fun q => !rootPresent q)),
  "safeCallees uncovered " ++ semi (safeCallees.filter (fun q => !calleeCovered q))]

def answer (line : String) : List String :=
  match line.splitOn "\t" with
  | ["policies"] => dumpPolicies
  | ["table"] => tableReport
  | "row" :: ws =>
    match parseRow ws with
    | some r => [if rowOk r then "ok" else "bad"]
    | none => ["bad-input"]
  | _ => ["bad-op"]

def main (lines : Array String) : IO Unit := do
  let out ← IO.getStdout
  for l in lines do
    if l.trimAscii.toString ≠ "" then
      for o in answer l do
        out.putStrLn o
      out.putStrLn "--"
  out.flush

end Driver.RaceDrv
