import MuduoVerif.Model.Timer
import Driver.Util
/-! `drv_timer`: the timer-engine model behind the line protocol of harness/timer_drv.cc -/
namespace Driver.TimerDrv
open MuduoVerif.Timer Driver

/-- the harness' virtual epoch: offsets of `at` are relative to it -/
def base : Int := 1700000000 * 1000000

structure St where
  s : TQ := {}
  env : List (List String) := []

def parseMode : String → String → Option Mode
  | "at", a => a.toInt?.map (fun o => Mode.at (base + o))
  | "after", a => a.toInt?.map Mode.after
  | "every", "sub" => some (Mode.every 0 true)
  | "every", a => a.toInt?.map (fun d => Mode.every d (decide (d > 0)))
  | _, _ => none

def parseName (t : String) : Option (Option Nat) :=
  if t = "default" then some none else t.toNat?.map some

def parseAct : List String → Option Act
  | ["add", n, m, a] => match n.toNat?, parseMode m a with
    | some k, some md => some (.add k md)
    | _, _ => none
  | ["cancel", n] => (parseName n).map Act.cancel
  | _ => none

def showEv : Ev → Option String
  | .run name _ _ _ _ _ _ _ _ clock => some s!"run {name} at {clock}"
  | .arm ns now => some s!"arm {ns} at {now}"
  | .added name _ seq => some s!"added {name} seq={seq}"
  | .processed k => some s!"processed {k}"
  | .uaf a => some s!"uaf {a}"
  | _ => none

def stLine (s : TQ) : String :=
  let fd := if s.readable then "r" else match s.alarm with
    | some a => s!"a{a}"
    | none => "off"
  s!"st fd={fd} created={s.numCreated} q={s.pending.length}"

/-- feed the environment lines of this step; returns the clock after the step -/
def feedEnv (s : TQ) (env : List (List String)) : TQ × Option Int :=
  env.foldl (fun (acc : TQ × Option Int) ws =>
    match ws with
    | ["<", "now", t] => (match t.toInt? with | some v => (step acc.1 (.now v), acc.2) | none => acc)
    | ["<", "alloc", a] => (match a.toNat? with | some v => (step acc.1 (.addr v), acc.2) | none => acc)
    | ["<", "clock", t] => (acc.1, t.toInt?)
    | _ => acc) (s, none)

def exec (st : St) (ws : List String) : St × List String :=
  let (s0, clk) := feedEnv st.s st.env
  let s0 := { s0 with starved := false, badEnv := false }
  let tlen := s0.trace.length
  let r : Option TQ := match ws with
    | ["add", who, n, m, a] =>
      match n.toNat?, parseMode m a with
      | some k, some md =>
        if who = "L" then some (step s0 (.add .loop k md))
        else if who = "F" then (if s0.parked.isSome then none else some (step s0 (.add .foreign k md)))
        else if who = "P" then (if s0.parked.isSome then none else some (step s0 (.addAlloc k md)))
        else none
      | _, _ => none
    | ["resume"] => some (step s0 .addFinish)
    | "script" :: n :: k :: rest =>
      match n.toNat?, (if k = "*" then some none else k.toNat?.map some), parseAct rest with
      | some nm, some kk, some a => some (step s0 (.script nm kk a))
      | _, _, _ => none
    | ["cancel", who, n, k] =>
      match parseName n, k.toNat? with
      | some v, some kk =>
        if who = "L" then some (step s0 (.cancel .loop v kk))
        else if who = "F" then some (step s0 (.cancel .foreign v kk))
        else none
      | _, _ => none
    | ["advance", us] => if us.toInt?.isSome then some s0 else none
    | ["tick", us] => if us.toInt?.isSome then some s0 else none
    | ["iter"] => some (step s0 .iter)
    | _ => none
  let s1 := r.getD s0
  -- the virtual timerfd: readable once the clock has reached the alarm
  let s2 := match s1.alarm, clk with
    | some a, some c => if a ≤ c then step s1 .expire else s1
    | _, _ => s1
  let evs := (s2.trace.take (s2.trace.length - tlen)).reverse
  let diag : List String :=
    (if r.isNone then ["bad-op"] else []) ++
    (if s2.starved then ["env-starved: the model read the clock or allocated where the implementation did not"] else []) ++
    (if s2.badEnv then ["env-bad-address: the allocator returned a live, null or sentinel address"] else []) ++
    (if s2.nows ≠ [] ∨ s2.addrs ≠ [] then [s!"env-unconsumed: the implementation read the clock / allocated where the model did not ({s2.nows.length} readings, {s2.addrs.length} addresses)"] else [])
  let s3 := { s2 with nows := [], addrs := [] }
  ({ s := s3, env := [] }, evs.filterMap showEv ++ diag ++ [stLine s3])

def main (lines : Array String) : IO Unit := do
  let mut st : St := {}
  let out ← IO.getStdout
  for line in lines do
    if line.startsWith "<" && !line.startsWith "<<" then
      st := { st with env := st.env ++ [words line] }
    else
      let ws := words line
      if ws.isEmpty then continue
      let (st', o) := exec st ws
      st := st'
      for l in o do out.putStrLn l
      out.putStrLn "--"

end Driver.TimerDrv
