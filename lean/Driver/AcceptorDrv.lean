import MuduoVerif.Model.Acceptor
import Driver.Util
/-! `drv_acceptor`: the Acceptor model behind the line protocol of harness/acceptor_drv.cc -/
namespace Driver.AcceptorDrv
open MuduoVerif.Acceptor MuduoVerif.Gen.Acceptor Driver

structure St where
  a : Acc
  env : List (List String)

def errnoOf (s : String) : Nat :=
  match s with
  | "EAGAIN" => 11 | "EINTR" => 4 | "EPIPE" => 32 | "ECONNRESET" => 104 | "EMFILE" => 24
  | "ECONNABORTED" => 103 | "ECONNREFUSED" => 111 | "ENETUNREACH" => 101 | "EINPROGRESS" => 115
  | "EBADF" => 9 | "ENOTCONN" => 107 | "EINVAL" => 22
  | _ => (s.drop 1).toString.toNat?.getD 0

def showEv : Ev → String
  | .accepted k => s!"accepted {k}"
  | .newConn k => s!"cb newConn {k}"
  | .closed k => s!"closed {k}"
  | .idleClosed => "idle closed"
  | .idleOpened => "idle opened"
  | .userClosed k => s!"user closed {k}"
  | .staleClose => "stale close"
  | .abort _ => "abort fatal-log"

/-- feed the recorded environment of this step: accept results, and whether the poller reported the listener -/
def feedEnv (a : Acc) (env : List (List String)) : Acc × Bool :=
  env.foldl (fun (acc : Acc × Bool) ws =>
    let (a, rd) := acc
    match ws with
    | ["<", "accept", res] => (step a (.envAccept (if res = "ok" then .ok else .err (errnoOf res))), rd)
    | "<" :: "poll" :: rest => (a, rd || rest.contains "listen")
    | _ => acc) (a, false)

def stLine (a : Acc) : String :=
  s!"st fds={live a + (if a.alive then 1 else 0)} listening={if a.listening then 1 else 0} accepted={a.naccepted}"

def exec (s : St) (ws : List String) : St × List String :=
  let (a0, readable) := feedEnv s.a s.env
  let tlen := a0.trace.length
  let a0 := { a0 with starved := false }
  let (a1, bad) : Acc × Bool := match ws with
    | ["config", cb] => (step a0 (.setCallback (cb = "1")), false)
    | ["listen"] => (step a0 .listen, false)
    | ["client"] => (a0, false)
    | ["clientClose", _] => (a0, false)
    | ["userClose", k] => (step a0 (.userClose (k.toNat?.getD 0)), false)
    | ["destroy"] => (step a0 .destroy, false)
    | "script" :: _ => (a0, false)
    | ["limit"] => (a0, false)
    | ["unlimit"] => (a0, false)
    | ["iter"] => (step a0 (.iter readable), false)
    | _ => (a0, true)
  let outs := (a1.trace.drop tlen).map showEv
  let diag : List String :=
    (if bad then ["bad-op"] else []) ++
    (if a1.starved then ["env-starved: the model made an accept call the implementation did not make"] else []) ++
    (if a1.results ≠ [] then ["env-unconsumed: the implementation made an accept call the model did not make"] else [])
  let a1 := { a1 with results := [] }
  ({ a := a1, env := [] }, outs ++ diag ++ (if a1.dead then [] else [stLine a1]))

def main (lines : Array String) (_args : List String) : IO Unit := do
  let mut s : St := { a := {}, env := [] }
  let out ← IO.getStdout
  for line in lines do
    let ws := words line
    if ws.isEmpty then continue
    if line.startsWith "<" then
      s := { s with env := s.env ++ [ws] }
    else
      let (s', o) := exec s ws
      s := s'
      for l in o do out.putStrLn l
      out.putStrLn "--"
      if s.a.dead then break

end Driver.AcceptorDrv
