import MuduoVerif.Model.Codec
import Driver.Util
/-! `drv_codec`: the framing model behind the line protocol of harness/codec_drv.cc -/
namespace Driver.CodecDrv
open MuduoVerif.Codec MuduoVerif.Stream Driver

inductive Mode | none | lite | ex

structure St where
  mode : Mode := .none
  tag : Bytes := []
  raw : Nat := 0
  /-- protobuf's verdicts recorded by the implementation: (fnv64, length, parses) -/
  verdicts : List (UInt64 × Nat × Bool) := []
  /-- example codec: type names `createMessage` knew -/
  known : List (UInt64 × Nat × Bool) := []
  dec : Dec Unit := MuduoVerif.Codec.init
  env : List String := []

def lookup (t : List (UInt64 × Nat × Bool)) (p : Bytes) : Bool :=
  let h := fnv64 p
  match t.find? (fun e => e.1 == h && e.2.1 == p.length) with
  | some e => e.2.2
  | none => false

def cfgOf (s : St) : Cfg :=
  { tag := s.tag
    parsePayload := lookup s.verdicts
    rawSkip := if s.raw == 2 then (fun f => match f.getLast? with | some b => b.toNat % 2 == 1 | none => false)
               else fun _ => false }

def exCfgOf (s : St) : Ex.Cfg :=
  { typeKnown := lookup s.known
    -- the harness keys the verdict of the example codec by type name, NUL, payload (one payload may parse as one type only)
    parsePayload := fun t p => lookup s.verdicts (t ++ [0] ++ p) }

/-- take the `< ...` lines recorded before this operation into the tables -/
def absorbEnv (s : St) : St × Option Bytes × Option Bytes :=
  s.env.foldl (fun (acc : St × Option Bytes × Option Bytes) e =>
    let (s, pay, tn) := acc
    match words e with
    | ["<", "verdict", h, n, v] =>
      match h.toNat?, n.toNat? with
      | some hh, some nn => ({ s with verdicts := (UInt64.ofNat hh, nn, v == "1") :: s.verdicts }, pay, tn)
      | _, _ => acc
    | ["<", "known", h, n, v] =>
      match h.toNat?, n.toNat? with
      | some hh, some nn => ({ s with known := (UInt64.ofNat hh, nn, v == "1") :: s.known }, pay, tn)
      | _, _ => acc
    | ["<", "payload", x] => (s, parseBytes x, tn)
    | ["<", "typename", x] => (s, pay, parseBytes x)
    | _ => acc) ({ s with env := [] }, none, none)

def evLine : Event → String
  | .msg p => s!"msg {p.length} {fnv64 p}"
  | .err e => s!"err {MuduoVerif.Gen.Codec.errorCodeToString e}"

def exEvLine : Ex.Event → String
  | .msg t p => s!"msg {toHex t} {p.length} {fnv64 p}"
  | .err e => s!"err {MuduoVerif.Gen.ExCodec.errorCodeToString e}"

/-- the retained messages of one `onMessage` call (harness: printed from the kept `shared_ptr`s after the call has
returned): `kept <k> obj=<object, numbered by first appearance in this call> <len> <fnv64>` of the payload the object
holds now (`changed ..` when that is not the payload it was delivered with), then whether the pointers are distinct -/
def keptLines (evs : List Event) : List String :=
  let held := heldAfter evs
  let dl := delivered evs
  let objs := held.map (·.1)
  let firsts := objs.eraseDups
  let one (k : Nat) (e : Nat × Option Bytes) : String :=
    let same := dl[k]? == e.2 && e.2.isSome
    let what := match e.2 with
      | some p => s!"{p.length} {fnv64 p}"
      | none => "? ?"
    s!"kept {k} obj={firsts.idxOf e.1} {if same then "" else "changed "}{what}"
  (held.zipIdx.map (fun x => one x.2 x.1)) ++
    [s!"distinct {if firsts.length == objs.length then 1 else 0} n={objs.length}"]

def stLine (d : Dec Unit) : String := s!"st left={d.buf.length} dead={if d.dead then 1 else 0}"

def exec (s0 : St) (ws : List String) : St × List String :=
  let (s, pay, tn) := absorbEnv s0
  match ws with
  | ["new", "rpc", raw] =>
    let s' : St := { mode := .lite, tag := MuduoVerif.Gen.Codec.rpcTag, raw := raw.toNat?.getD 0 }
    (s', [s!"ok tag={toHex s'.tag}"])
  | ["new", "lite", tag, raw] =>
    match parseBytes tag with
    | some t => let s' : St := { mode := .lite, tag := t, raw := raw.toNat?.getD 0 }
                (s', [s!"ok tag={toHex t}"])
    | none => (s, ["bad-op"])
  | ["new", "ex"] => ({ mode := .ex }, ["ok tag="])
  | ["reset"] => ({ s with dec := MuduoVerif.Codec.init }, ["ok"])
  | "encode" :: _ =>
    match s.mode, pay with
    | .lite, some p => (s, [s!"frame {toHex (encode (cfgOf s) p)}"])
    | .ex, some p =>
      match tn with
      | some t => (s, [s!"frame {toHex (Ex.encode t p)}"])
      | none => (s, ["bad-env"])
    | _, _ => (s, ["bad-op"])
  | ["feed", x] =>
    match parseBytes x, s.mode with
    | some d, .lite =>
      let (dec, evs) := feed (cfgOf s) s.dec d
      ({ s with dec := dec }, evs.map evLine ++ keptLines evs ++ [stLine dec])
    | some d, .ex =>
      let (dec, evs) := Ex.feed (exCfgOf s) s.dec d
      ({ s with dec := dec }, evs.map exEvLine ++ [stLine dec])
    | _, _ => (s, ["bad-op"])
  | ["poke"] =>
    -- `onMessage` once more on the buffer as it is, whether or not an error was reported before
    match s.mode with
    | .lite =>
      let r := onMessage (cfgOf s) s.dec.buf
      let dec : Dec Unit := { s := (), buf := r.rest, dead := s.dec.dead || r.dead }
      ({ s with dec := dec }, r.evs.map evLine ++ keptLines r.evs ++ [stLine dec])
    | .ex =>
      let r := drain (Ex.step (exCfgOf s)) () s.dec.buf
      let dec : Dec Unit := { s := (), buf := r.rest, dead := s.dec.dead || r.dead }
      ({ s with dec := dec }, r.evs.map exEvLine ++ [stLine dec])
    | .none => (s, ["bad-op"])
  | ["bigframe", _] => match s.mode with
    | .lite => (s, [])
    | _ => (s, ["bad-op"])
  | _ => (s, ["bad-op"])

def main (lines : Array String) : IO Unit := do
  let mut s : St := {}
  let out ← IO.getStdout
  for line in lines do
    if line.startsWith "<" then
      s := { s with env := s.env ++ [line] }
    else
      let ws := words line
      if ws.isEmpty then continue
      let (s', o) := exec s ws
      s := s'
      for l in o do out.putStrLn l
      out.putStrLn "--"

end Driver.CodecDrv
