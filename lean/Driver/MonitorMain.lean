import Driver.MonitorDrv
open Driver

def main : IO UInt32 := do
  let lines ← readLines (← IO.getStdin) #[]
  MonitorDrv.main lines
  return 0
