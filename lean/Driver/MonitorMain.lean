import Driver.Util
/-! `drv_monitor`: not built yet -/
def main : IO UInt32 := do
  IO.eprintln "drv_monitor: engine not implemented"
  return 2
