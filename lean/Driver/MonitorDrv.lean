import MuduoVerif.Model.Monitor
import MuduoVerif.Model.TPool
import Driver.Util
/-! `drv_monitor`: the monitor models (Model/Monitor.lean, Model/TPool.lean) behind the line protocol of
    harness/monitor_drv.cc, scheduled exactly like harness/sched/detsched.h:

    decision = pick one move from  [current thread, if enabled] ++ [other enabled threads by index]
               ++ [spurious wake-ups by index, only after `spurious`];
    with n ≥ 2 moves one schedule entry e is consumed and move e mod n taken; `notify` with ≥ 2
    unsignalled waiters consumes one entry as well (inside the model); an exhausted schedule yields 0.
    A scheduled thread runs to its next yield point (lock statement, wait, named point, join, exit):
    `acq` + `body` (+ the bodies that follow without a yield).  No run move: `blocked …`.
-/
namespace Driver.MonitorDrv
open MuduoVerif.Monitor Driver

/-- what the scheduler needs to know about a transition system -/
structure Sys (σ : Type) where
  /-- highest thread index -/
  top : Nat
  step : σ → Act → Option σ
  /-- `t` stands at a lock statement (or is parked behind one) -/
  needsLock : σ → Nat → Bool
  /-- `t` must go on without a decision (it holds the mutex or is between two yield points) -/
  midStep : σ → Nat → Bool
  finished : σ → Nat → Bool
  /-- the condition `t` is waiting on, unsignalled -/
  waiting : σ → Nat → Option Cond
  sched : σ → List Nat
  setSched : σ → List Nat → σ
  /-- every event so far, rendered -/
  render : σ → List String
  text : σ → Nat → String

def Sys.enabled (y : Sys σ) (s : σ) (t : Nat) : Bool :=
  (y.step s (.acq t)).isSome || (!(y.needsLock s t) && (y.step s (.body t)).isSome)

def Sys.bodies (y : Sys σ) (s : σ) (t : Nat) : Nat → σ
  | 0 => s
  | fuel + 1 =>
    match y.step s (.body t) with
    | none => s
    | some s1 => if y.midStep s1 t then y.bodies s1 t fuel else s1

/-- run `t` from its yield point to the next one -/
def Sys.macroStep (y : Sys σ) (s : σ) (t : Nat) : σ :=
  let s1 := if y.needsLock s t then (y.step s (.acq t)).getD s else s
  y.bodies s1 t 8

def range1 (n : Nat) : List Nat := (List.range n).map (· + 1)

partial def Sys.run (y : Sys σ) (spurious : Bool) (s : σ) (cur : Nat) (out : Array String) (printed : Nat) : Array String :=
  let ts := range1 y.top
  let lines := (y.render s).drop printed
  let out := lines.foldl Array.push out
  let printed := printed + lines.length
  if ts.all (y.finished s) then out.push "done"
  else
    let runs := (if cur ≠ 0 ∧ y.enabled s cur then [cur] else []) ++ ts.filter (fun t => t ≠ cur ∧ y.enabled s t)
    if runs.isEmpty then
      out.push (ts.foldl (fun acc t => acc ++ s!" T{t}:" ++ y.text s t) "blocked T0:waitall")
    else
      let spurs := if spurious then ts.filterMap (fun t => (y.waiting s t).map (fun c => (t, c))) else []
      let n := runs.length + spurs.length
      let (k, s) := if n ≥ 2 then ((y.sched s).headD 0 % n, y.setSched s (y.sched s).tail) else (0, s)
      if k < runs.length then
        let t := runs.getD k 0
        y.run spurious (y.macroStep s t) t out printed
      else
        match spurs[k - runs.length]? with
        | some (t, c) => y.run spurious (y.macroStep ((y.step s (.spur t c)).getD s) t) t out printed
        | none => out.push "<<driver: no move>>"

/-! ### the three systems -/

def condName : Cond → String
  | .notEmpty => "notEmpty"
  | .notFull => "notFull"

def place (w : String) (inW inS : Bool) (label : String) : String :=
  (if inW then s!"wait({w})" else if inS then s!"sig({w})" else "mutex(m)") ++ label

def qopName : QOp → String
  | .put _ => "put" | .take => "take" | .drain => "drain" | .size => "size"
  | .empty => "empty" | .full => "full" | .capacity => "capacity"

def showDrained (xs : List (Nat × Nat)) : String :=
  if xs.isEmpty then "-" else ",".intercalate (xs.map fun x => toString x.2)

def qRender (e : QEv) : String :=
  match e.op, e.res with
  | .put v, _ => s!"T{e.t} put {v} -> ok"
  | op, .took _ v => s!"T{e.t} {qopName op} -> {v}"
  | op, .drained xs => s!"T{e.t} {qopName op} -> {showDrained xs}"
  | op, .val n => s!"T{e.t} {qopName op} -> {n}"
  | op, .ok => s!"T{e.t} {qopName op} -> ok"
  | op, .abort => s!"T{e.t} {qopName op} -> <<empty>>"

def qSys (top : Nat) : Sys QState where
  top := top
  step := qstep
  needsLock := fun _ _ => true
  midStep := fun s t => s.owner = some t
  finished := fun s t => (s.prog t).isEmpty
  waiting := fun s t => if t ∈ s.ne.W then some .notEmpty else if t ∈ s.nf.W then some .notFull else none
  sched := (·.sched)
  setSched := fun s l => { s with sched := l }
  render := fun s => s.log.map qRender
  text := fun s t =>
    match s.prog t with
    | [] => "fin"
    | op :: _ =>
      let lab := s!"[{qopName op}]"
      if t ∈ s.ne.W ∨ t ∈ s.ne.S then place "notEmpty" (t ∈ s.ne.W) (t ∈ s.ne.S) lab
      else place "notFull" (t ∈ s.nf.W) (t ∈ s.nf.S) lab

def lopName : LOp → String
  | .wait => "wait" | .countDown => "countDown" | .getCount => "getCount"

def lRender (e : LEv) : String :=
  match e.op with
  | .getCount => s!"T{e.t} getCount -> {e.count}"
  | op => s!"T{e.t} {lopName op} -> ok"

def lSys (top : Nat) : Sys LState where
  top := top
  step := lstep
  needsLock := fun _ _ => true
  midStep := fun s t => s.owner = some t
  finished := fun s t => (s.prog t).isEmpty
  waiting := fun s t => if t ∈ s.ne.W then some .notEmpty else none
  sched := (·.sched)
  setSched := fun s l => { s with sched := l }
  render := fun s => s.log.map lRender
  text := fun s t =>
    match s.prog t with
    | [] => "fin"
    | op :: _ => place "cond" (t ∈ s.ne.W) (t ∈ s.ne.S) s!"[{lopName op}]"

def pRender : PEv → Option String
  | .exec w x => some s!"T{w} exec {x.2}"
  | .inl t id => some s!"T{t} exec {id}"
  | .runRet t id => some s!"T{t} run {id} -> ok"
  | .stopRet t => some s!"T{t} stop -> ok"
  | .pass w x => some s!"T{w} pass {x.2}"
  | .openRet t => some s!"T{t} open -> ok"
  | _ => none

def pSys (top : Nat) : Sys PState where
  top := top
  step := pstep
  needsLock := fun s t => s.needsLock t
  midStep := fun s t => decide (s.owner = some t) || decide (s.pc t = .stopNotify) || (match s.pc t with | .wExec _ => true | _ => false)
  finished := fun s t => s.pc t = .wDone ∨ (s.pc t = .idle ∧ (s.prog t).isEmpty)
  waiting := fun s t => if t ∈ s.ne.W then some .notEmpty else if t ∈ s.nf.W then some .notFull else none
  sched := (·.sched)
  setSched := fun s l => { s with sched := l }
  render := fun s => s.log.filterMap pRender
  text := fun s t =>
    let inWait (lab : String) : String :=
      if t ∈ s.ne.W ∨ t ∈ s.ne.S then place "notEmpty" (t ∈ s.ne.W) (t ∈ s.ne.S) lab
      else place "notFull" (t ∈ s.nf.W) (t ∈ s.nf.S) lab
    match s.pc t with
    | .wDone => "fin"
    | .wTest => "run(ThreadPool::runInThread:beforeRunningTest)"
    | .wTake => inWait ""
    | .wExec _ => "run"
    | .wGate _ => "poll"
    | .stopNotify => "run[stop]"
    | .stopJoin i => s!"join(T{i + 1})[stop]"
    | .idle =>
      match s.prog t with
      | [] => "fin"
      | .run _ :: _ => if s.inline then "run(op)[run]" else inWait "[run]"
      | .stop :: _ => "mutex(m)[stop]"
      | .open :: _ => "run(op)[open]"

/-! ### the line protocol -/

inductive Kind where
  | bq | bbq (cap : Nat) | latch (n : Nat) | pool (threads maxq : Nat)

inductive AnyOp where
  | put (v : Nat) | take | drain | size | empty | full | capacity | wait | countDown | getCount | run (id : Nat) | stop
  | openGate

structure CaseDef where
  kind : Kind
  spurious : Bool := false
  threads : Array (List AnyOp) := #[]
  /-- pool: ids of the tasks that wait for the gate / that open it -/
  waits : List Nat := []
  opens : List Nat := []

/-- plain decimal, at most 9 digits, within [lo, hi] -/
def parseInt (s : String) (lo hi : Nat) : Option Nat :=
  if s.isEmpty ∨ s.length > 9 ∨ ¬ s.all Char.isDigit then none
  else match s.toNat? with
    | some v => if lo ≤ v ∧ v ≤ hi then some v else none
    | none => none

def allowed : Kind → AnyOp → Bool
  | .bq, .put _ | .bq, .take | .bq, .drain | .bq, .size => true
  | .bbq _, .put _ | .bbq _, .take | .bbq _, .size | .bbq _, .empty | .bbq _, .full | .bbq _, .capacity => true
  | .latch _, .wait | .latch _, .countDown | .latch _, .getCount => true
  | .pool _ _, .run _ | .pool _ _, .stop | .pool _ _, .openGate => true
  | _, _ => false

def simpleOp : String → Option AnyOp
  | "take" => some .take | "drain" => some .drain | "size" => some .size | "empty" => some .empty
  | "full" => some .full | "capacity" => some .capacity | "wait" => some .wait
  | "countDown" => some .countDown | "getCount" => some .getCount | "stop" => some .stop
  | "open" => some .openGate
  | _ => none

def parseOps (k : Kind) : List String → Nat → Option (List AnyOp)
  | [], _ => some []
  | "put" :: a :: rest, count =>
    if allowed k (.put 0) ∧ count < 256 then
      (parseInt a 0 999999999).bind fun v => (parseOps k rest (count + 1)).map (AnyOp.put v :: ·)
    else none
  | "run" :: a :: rest, count =>
    if allowed k (.run 0) ∧ count < 256 then
      (parseInt a 0 999999999).bind fun v => (parseOps k rest (count + 1)).map (AnyOp.run v :: ·)
    else none
  | w :: rest, count =>
    match simpleOp w with
    | some op => if allowed k op ∧ count < 256 then (parseOps k rest (count + 1)).map (op :: ·) else none
    | none => none

def toQ : AnyOp → Option QOp
  | .put v => some (.put v) | .take => some .take | .drain => some .drain | .size => some .size
  | .empty => some .empty | .full => some .full | .capacity => some .capacity | _ => none
def toL : AnyOp → Option LOp
  | .wait => some .wait | .countDown => some .countDown | .getCount => some .getCount | _ => none
def toP : AnyOp → Option POp
  | .run id => some (.run id) | .stop => some .stop | .openGate => some .open | _ => none

def runCase (c : CaseDef) (sched : List Nat) : Array String :=
  let nt := c.threads.size
  match c.kind with
  | .bq | .bbq _ =>
    let cap := match c.kind with | .bbq k => some k | _ => none
    let prog : Nat → List QOp := fun t => if t = 0 then [] else ((c.threads.getD (t - 1) []).filterMap toQ)
    (qSys nt).run c.spurious (qinit cap prog sched) 0 #[] 0
  | .latch n =>
    let prog : Nat → List LOp := fun t => if t = 0 then [] else ((c.threads.getD (t - 1) []).filterMap toL)
    (lSys nt).run c.spurious (linit (Int.ofNat n) prog sched) 0 #[] 0
  | .pool n maxq =>
    let prog : Nat → List POp := fun t => if t ≤ n then [] else ((c.threads.getD (t - n - 1) []).filterMap toP)
    let kind : Nat → TKind := fun id => if id ∈ c.waits then .waits else if id ∈ c.opens then .opens else .plain
    (pSys (n + nt)).run c.spurious (pinit n maxq kind prog sched) 0 #[] 0

def parseSchedule : List String → Option (List Nat)
  | [] => some []
  | w :: rest => (parseInt w 0 999999999).bind fun v => (parseSchedule rest).map (v :: ·)

def main (lines : Array String) : IO Unit := do
  let out ← IO.getStdout
  let mut cur : Option CaseDef := none
  for line in lines do
    if line.startsWith "<" then continue
    let ws := words line
    if ws.isEmpty then continue
    let mut ok := false
    match ws with
    | "object" :: rest =>
      let k : Option Kind := match rest with
        | ["bq"] => some .bq
        | ["bbq", c] => (parseInt c 1 1000000).map .bbq
        | ["latch", n] => (parseInt n 0 1000000).map .latch
        | ["pool", a, b] => (parseInt a 0 16).bind fun a => (parseInt b 0 1000000).map fun b => .pool a b
        | _ => none
      cur := k.map fun k => { kind := k }
      ok := k.isSome
    | ["spurious"] =>
      match cur with
      | some c => cur := some { c with spurious := true }; ok := true
      | none => pure ()
    | "waits" :: ids =>
      match cur, parseSchedule ids with
      | some c, some l =>
        match c.kind with
        | .pool _ _ => cur := some { c with waits := c.waits ++ l }; ok := true
        | _ => pure ()
      | _, _ => pure ()
    | "opens" :: ids =>
      match cur, parseSchedule ids with
      | some c, some l =>
        match c.kind with
        | .pool _ _ => cur := some { c with opens := c.opens ++ l }; ok := true
        | _ => pure ()
      | _, _ => pure ()
    | "thread" :: k :: ops =>
      match cur with
      | some c =>
        if k.length ≥ 2 ∧ k.back == ':' then
          match parseInt ((k.dropEnd 1).toString) 1 16 with
          | some kk =>
            if kk = c.threads.size + 1 then
              match parseOps c.kind ops 0 with
              | some l => cur := some { c with threads := c.threads.push l }; ok := true
              | none => pure ()
          | none => pure ()
      | none => pure ()
    | "schedule" :: rest =>
      match cur, parseSchedule rest with
      | some c, some sched =>
        ok := true
        for l in runCase c sched do out.putStrLn l
      | _, _ => pure ()
    | _ => pure ()
    if !ok then out.putStrLn "bad-op"
    out.putStrLn "--"

end Driver.MonitorDrv
