import MuduoVerif.Model.Buffer
import Driver.Util
/-! `driver buffer`: the Buffer model behind the line protocol of harness/buffer_drv.cc -/
namespace Driver.BufferDrv
open MuduoVerif.Buffer Driver

structure St where
  b : Buf
  env : List String   -- pending environment lines (`< ...`)

def stLine (b : Buf) (ret : String) : String :=
  s!"st r={readable b} w={writable b} p={prependable b} h={fnv64 (content b)} ret={ret}"

def optNat : Option Nat → String
  | some k => toString k
  | none => "null"

/-- returns the new buffer and the output line; `reject` when outside a precondition -/
def exec (s : St) (ws : List String) : St × String :=
  let b := s.b
  let rej := (s, "reject")
  let op (o : Op) (ret : Buf → String := fun _ => "-") : St × String :=
    if okOp b o then let b' := step b o; ({ s with b := b' }, stLine b' (ret b')) else rej
  match ws with
  | ["new", n] => match n.toNat? with
    | some k => let b' := mk k; ({ s with b := b' }, stLine b' "-")
    | none => (s, "bad-op")
  | ["append", x] => match parseBytes x with
    | some d => op (.append d)
    | none => (s, "bad-op")
  | ["prepend", x] => match parseBytes x with
    | some d => op (.prepend d)
    | none => (s, "bad-op")
  | ["retrieve", n] => match n.toNat? with
    | some k => op (.retrieve k)
    | none => (s, "bad-op")
  | ["retrieveAll"] => op .retrieveAll
  | ["retrieveAsString", n] => match n.toNat? with
    | some k => op (.retrieve k) (fun _ => toString (fnv64 ((content b).take k)))
    | none => (s, "bad-op")
  | ["ensure", n] => match n.toNat? with
    | some k => op (.ensure k)
    | none => (s, "bad-op")
  | ["write", x] => match parseBytes x with
    | some d => op (.write d)
    | none => (s, "bad-op")
  | ["unwrite", n] => match n.toNat? with
    | some k => op (.unwrite k)
    | none => (s, "bad-op")
  | ["shrink", n] => match n.toNat? with
    | some k => op (.shrink k)
    | none => (s, "bad-op")
  | ["swapfresh", i, x] => match i.toNat?, parseBytes x with
    | some k, some d => op (.swapFresh k d)
    | _, _ => (s, "bad-op")
  | ["appendInt", n, v] => match n.toNat?, v.toInt? with
    | some k, some i => op (.appendInt k i)
    | _, _ => (s, "bad-op")
  | ["prependInt", n, v] => match n.toNat?, v.toInt? with
    | some k, some i => op (.prependInt k i)
    | _, _ => (s, "bad-op")
  | ["readInt", n] => match n.toNat? with
    | some k => op (.readInt k) (fun _ => toString (peekInt b k))
    | none => (s, "bad-op")
  | ["peekInt", n] => match n.toNat? with
    | some k => if peekIntPre b k then (s, stLine b (toString (peekInt b k))) else rej
    | none => (s, "bad-op")
  | ["findCRLF", st] =>
    let start := if st = "-" then some 0 else st.toNat?
    match start with
    | some k => if k ≤ readable b then (s, stLine b (optNat (findCRLF b k))) else rej
    | none => (s, "bad-op")
  | ["findEOL", st] =>
    let start := if st = "-" then some 0 else st.toNat?
    match start with
    | some k => if k ≤ readable b then (s, stLine b (optNat (findEOL b k))) else rej
    | none => (s, "bad-op")
  | ["readFd", x] =>
    -- the environment line `< readv <n>` says how many bytes the descriptor delivered
    match parseBytes x, s.env with
    | some avail, e :: rest =>
      match words e with
      | ["<", "readv", n] => match n.toNat? with
        | some k =>
          let d := avail.take k
          let s' := { s with env := rest }
          if k ≤ avail.length ∧ okOp b (.readFd d) then
            let b' := step b (.readFd d)
            ({ s' with b := b' }, stLine b' (toString k))
          else (s', "reject")
        | none => (s, "bad-env")
      | _ => (s, "bad-env")
    | _, _ => (s, "bad-op")
  | _ => (s, "bad-op")

def main (lines : Array String) : IO Unit := do
  let mut s : St := { b := mk MuduoVerif.Gen.Buffer.kInitialSize, env := [] }
  let out ← IO.getStdout
  for line in lines do
    if line.startsWith "<" then
      s := { s with env := s.env ++ [line] }
    else
      let ws := words line
      if ws.isEmpty then continue
      let (s', o) := exec s ws
      s := s'
      out.putStrLn o
      out.putStrLn "--"

end Driver.BufferDrv
