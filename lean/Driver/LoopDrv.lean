import MuduoVerif.Model.Loop
import Driver.Util
/-! `drv_loop`: the `Loop` transition system behind the line protocol of harness/loop_drv.cc

    mode plain | mode elt
    task <id>: <subs>      body of task <id>
    dtor <id>: <subs>      what the destruction of task <id>'s functor object does (the destructor of what it owns)
    pre: <subs>            what the loop's owner does before loop() (elt: inside the ThreadInitCallback)
    again: <subs>          plain mode, repeatable, in order: what the owner does after loop() has returned, followed by
                           another call of loop() on the same object (an empty segment = call loop() again at once)
    thread <k>: <subs>     program of thread k
    follow <k k k …>       which thread performs the next visible event
    schedule … | spurious  (raw detsched schedule, spurious wake-ups: meaningless for the model, ignored)
    subs: q<id> r<id> quit p<id> startLoop destroy qburst<first>x<count>
          (ids of q/r ≤ 65535, of p/`task` ≤ 255; `qburst<a>x<n>` is shorthand for `q<a> q<a+1> … q<a+n-1>`, n ≤ 20000,
          expanded here: the model sees the single `queue` calls)

  Events: point <name> | exec <id> | dtor <id> | wakeup | wakeread | post <id> | started | started null | joined |
  returned | destroyed | uaf.
  One `follow` entry `k` = thread `k` is stepped until one of its steps has a visible action (`out ≠ none`),
  which is printed as `T<k> <event>` (followed by `T<k> uaf` when the step touched a destroyed loop).
  While `k` cannot move, the other threads take their silent steps (e.g. `startLoop` creates the thread); a thread
  that still cannot move prints `T<k> <<blocked>>`.  When the list is exhausted the run
  continues with detsched's default choice (the thread that moved last if it can move, else the lowest index
  that can) until nobody can move; then `done` (every thread finished) or `blocked T0:<st> …`, then `--`.
-/
namespace Driver.LoopDrv
open MuduoVerif.Loop Driver

structure Cfg where
  elt : Bool := false
  haveMode : Bool := false
  tasks : List (Nat × List Sub) := []
  dtors : List (Nat × List Sub) := []
  pre : List Sub := []
  again : List (List Sub) := []
  threads : List (Nat × List Sub) := []
  follow : List Nat := []

def parseNat (s : String) : Option Nat :=
  if s.isEmpty ∨ ¬ s.all Char.isDigit then none else s.toNat?

def maxTaskId : Nat := 65535
def maxBurst : Nat := 20000

/-- one token = one API call, or the shorthand `qburst<first>x<count>` = `count` calls of `queueInLoop` -/
def parseSub (t : String) : Option (List Sub) :=
  if t = "quit" then some [.quit]
  else if t = "startLoop" then some [.startLoop]
  else if t = "destroy" then some [.destroy]
  else if t.startsWith "qburst" then
    match ((t.drop 6).toString).splitOn "x" with
    | [a, n] =>
      match parseNat a, parseNat n with
      | some a, some n =>
        if n ≤ maxBurst ∧ a + n ≤ maxTaskId + 1 then some ((List.range n).map fun j => Sub.queue (a + j)) else none
      | _, _ => none
    | _ => none
  else
    let rest := (t.drop 1).toString
    match t.front, parseNat rest with
    | 'q', some n => if n ≤ maxTaskId then some [.queue n] else none
    | 'r', some n => if n ≤ maxTaskId then some [.run n] else none
    | 'p', some n => if n ≤ 255 then some [.post n] else none
    | _, _ => none

def parseSubs (ws : List String) : Option (List Sub) :=
  ws.foldr (fun w acc => match parseSub w, acc with
    | some s, some l => some (s ++ l)
    | _, _ => none) (some [])

def lookup (l : List (Nat × List Sub)) (k : Nat) : List Sub :=
  match l.find? (fun p => p.1 == k) with
  | some p => p.2
  | none => []

/-- one input line; `none` = malformed -/
def parseLine (c : Cfg) (line : String) : Option Cfg :=
  let ws := words line
  match ws with
  | [] => some c
  | w :: rest =>
    if w.startsWith "#" ∨ w.startsWith "engine=" ∨ w.startsWith "<" then some c
    else if w = "mode" then
      match rest with
      | ["plain"] => some { c with elt := false, haveMode := true }
      | ["elt"] => some { c with elt := true, haveMode := true }
      | _ => none
    else if w = "follow" then
      (rest.foldr (fun x acc => match parseNat x, acc with
        | some n, some l => some (n :: l)
        | _, _ => none) (some [])).map fun l => { c with follow := l }
    else if w = "schedule" ∨ w = "spurious" then some c
    else
      match line.splitOn ":" with
      | [head, body] =>
        match words head, parseSubs (words body) with
        | ["pre"], some b => some { c with pre := b }
        | ["again"], some b => some { c with again := c.again ++ [b] }
        | ["task", id], some b => (parseNat id).bind fun n =>
            if n ≤ 255 then some { c with tasks := (n, b) :: c.tasks.filter (fun p => p.1 != n) } else none
        | ["dtor", id], some b => (parseNat id).bind fun n =>
            if n ≤ 255 then some { c with dtors := (n, b) :: c.dtors.filter (fun p => p.1 != n) } else none
        | ["thread", id], some b => (parseNat id).bind fun n =>
            if n ≤ 255 then some { c with threads := (n, b) :: c.threads.filter (fun p => p.1 != n) } else none
        | _, _ => none
      | _ => none

def showEvent : Event → String
  | .point n => "point " ++ n
  | .exec t => s!"exec {t}"
  | .dtor t => s!"dtor {t}"
  | .wakeup => "wakeup"
  | .wakeread => "wakeread"
  | .post t => s!"post {t}"
  | .started => "started"
  | .startedNull => "started null"
  | .joined => "joined"
  | .returned => "returned"
  | .destroyed => "destroyed"
  | .uaf w => "uaf " ++ w

/-- the threads the implementation side knows: plain: T0 and the foreign threads up to the highest `thread` line;
elt: T0, and T1 once it was created -/
def threadIds (c : Cfg) (s : St) : List Nat :=
  if c.elt then (if s.phase == .unborn then [0] else [0, 1])
  else List.range (c.threads.foldl (fun m p => max m (p.1 + 1)) 1)

/-- what detsched says about a thread in an all-blocked state -/
def stateName (s : St) (k : Nat) : String :=
  if finished s k then "fin"
  else if k = s.L then
    match s.phase with
    | .polling => "poll"
    | .pre => if s.mtx then "mutex" else "run"
    | .returned => if s.mtx then "mutex" else "run"
    | _ => "run"
  else
    match (s.thr k).pc with
    | .sCheck => if s.mtx then "mutex" else "run"
    | .sWaiting => if s.waiting || s.mtx then "wait" else "run"
    | .dEntry => if s.mtx then "mutex" else "run"
    | .dJoin => "join"
    | _ => "run"

/-- one model step of thread `k`, with the "touched a destroyed loop" flags of that step alone -/
def stepFlag (s : St) (k : Nat) : St × Bool :=
  let s0 := { s with uafDtor := false, uafUser := false }
  let s1 := step s0 k
  ({ s1 with uafDtor := s.uafDtor || s1.uafDtor, uafUser := s.uafUser || s1.uafUser }, s1.uafDtor || s1.uafUser)

/-- a thread other than `k` (detsched's default order: `cur` first, then by index) whose next step is enabled and
silent -/
def silentHelper (s : St) (ids : List Nat) (cur k : Nat) : Option Nat :=
  (cur :: ids).find? fun j => j != k && ids.contains j && enabled s j && (step s j).out.isNone

/-- step thread `k` until a visible action.  While `k` cannot move, other threads take silent steps (this is what
the scheduler does when the wanted thread is blocked: e.g. `startLoop` has to create the thread first);
`none` = `k` still cannot move (or keeps moving silently) -/
def visible (fuel : Nat) (ids : St → List Nat) (cur : Nat) (s : St) (k : Nat) : St × Option (Event × Bool) :=
  match fuel with
  | 0 => (s, none)
  | fuel + 1 =>
    if enabled s k then
      let (s1, u) := stepFlag s k
      match s1.out with
      | some e => (s1, some (e, u))
      | none => visible fuel ids cur s1 k
    else
      match silentHelper s (ids s) cur k with
      | some j => visible fuel ids j (stepFlag s j).1 k
      | none => (s, none)

def emit (out : IO.FS.Stream) (k : Nat) (e : Event) (u : Bool) : IO Unit := do
  out.putStrLn s!"T{k} {showEvent e}"
  if u then out.putStrLn s!"T{k} uaf"

def main (lines : Array String) : IO UInt32 := do
  let out ← IO.getStdout
  let mut c : Cfg := {}
  for line in lines do
    match parseLine c line with
    | some c' => c := c'
    | none =>
      out.putStrLn s!"# error bad line '{line}'"
      out.putStrLn "<<error>>"
      out.putStrLn "--"
      return 2
  if !c.haveMode then
    out.putStrLn "# error no mode line"
    out.putStrLn "<<error>>"
    out.putStrLn "--"
    return 2
  let tasks := c.tasks
  let dtors := c.dtors
  let threads := c.threads
  let mut s : St := init c.elt false (fun t => lookup tasks t) (fun t => lookup dtors t) c.pre (if c.elt then [] else c.again) (fun k => lookup threads k)
  let mut cur : Nat := 0
  -- the directed part
  for k in c.follow do
    let (s1, r) := visible 100000 (threadIds c) cur s k
    s := s1
    cur := k
    match r with
    | some (e, u) => emit out k e u
    | none => out.putStrLn s!"T{k} <<blocked>>"
  -- the default choice until nobody can move
  let mut fuel := 1000000
  while fuel > 0 do
    fuel := fuel - 1
    let ids := threadIds c s
    let pick : Option Nat :=
      if ids.contains cur && enabled s cur then some cur else ids.find? (fun k => enabled s k)
    match pick with
    | none => fuel := 0
    | some k =>
      let (s1, u) := stepFlag s k
      s := s1
      cur := k
      match s1.out with
      | some e => emit out k e u
      | none => pure ()
  let ids := threadIds c s
  if ids.all (fun k => finished s k) then out.putStrLn "done"
  else out.putStrLn (ids.foldl (fun acc k => acc ++ s!" T{k}:{stateName s k}") "blocked")
  out.putStrLn "--"
  return 0

end Driver.LoopDrv
