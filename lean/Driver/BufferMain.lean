import Driver.BufferDrv
open Driver

def main : IO UInt32 := do
  let lines ← readLines (← IO.getStdin) #[]
  BufferDrv.main lines
  return 0
