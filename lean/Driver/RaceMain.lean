import Driver.RaceDrv
open Driver

def main : IO UInt32 := do
  let lines ← readLines (← IO.getStdin) #[]
  RaceDrv.main lines
  return 0
