import Driver.Util
/-! `drv_race`: not built yet -/
def main : IO UInt32 := do
  IO.eprintln "drv_race: engine not implemented"
  return 2
