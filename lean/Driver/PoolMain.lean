import Driver.Util
/-! `drv_pool`: not built yet -/
def main : IO UInt32 := do
  IO.eprintln "drv_pool: engine not implemented"
  return 2
