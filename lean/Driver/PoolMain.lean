import Driver.PoolDrv
open Driver

def main : IO UInt32 := do
  let lines ← readLines (← IO.getStdin) #[]
  PoolDrv.main lines
  return 0
