import MuduoVerif.Model.Owner
import Driver.Util
/-! `drv_owner`: the TcpServer ownership model behind the line protocol of harness/owner_drv.cc.

Operations (one per line; every operation answers with a block ending in `--`):

    server <L> [..]     a started server with L io loops, everything parked
    connect | send <p> <n> | fin <p> | rst <p>      peer actions: nothing happens in the model
    step <l> | iter <l> | quit                      loop(s) advance: what they did is told by the `<` lines
    forceClose <c> | shutdown <c> | hold <c> | drop <c>     user code on the controller thread
    postDestroy         a functor destroying the server is queued on the base loop
    holdHandover        schedule control only (harness: the base thread is parked right after its next hand-over of
                        `connectEstablished` to an io loop, inside `newConnection`): nothing happens in the model - its
                        `accept` step ends with that hand-over (`OwnerSkel.handover_is_last`), so the io loop's steps may
                        follow at once

Lines starting with `< ` precede the operation during which the implementation recorded them; each is one atomic
step of the model:

    < ev <l> accept | < ev <l> msg <c> | < ev <l> close <c>     channel event dispatched by loop l
    < fn <l>            loop l ran the functor at the head of its queue
    < end <l>           loop l is through with a batch of functors (doPendingFunctors returned)
    < exit <l>          loop l left loop() (the final drain belongs to it)
    < gone <l>          the EventLoop object of loop l is destroyed (functors still queued are destroyed, not run)
    < destroy           ~TcpServer on the base loop's thread, outside a functor

Answer: `t <conn> <kind> <thread>` for every new observable trace entry (thread `l<k>` or `f`), then
`st live=<ids> srv=<0|1>`.  `closeCb` entries are not observable and not printed.
-/
namespace Driver.OwnerDrv
open MuduoVerif.Owner Driver

/-- order-preserving, injective code of the decimal string of `id` (the map is ordered by the name string, whose
only varying part is that decimal string): digits + 1 in base 11, padded on the right -/
def lexKey (id : Nat) : Nat :=
  let ds := (Nat.toDigits 10 id).map (fun ch => ch.toNat - 48 + 1)
  (ds ++ List.replicate (12 - ds.length) 0).foldl (fun a d => a * 11 + d) 0

def kindName : Kind → String
  | .new => "new" | .up => "up" | .msg => "msg" | .down => "down" | .closeCb => "closeCb" | .erase => "erase"
  | .eraseMiss => "eraseMiss" | .destroyed => "destroyed" | .dtor => "dtor" | .abort => "abort" | .uaf => "uaf"

def thrName (s : Srv) (l : Nat) : String := if l ≤ s.L then s!"l{l}" else "f"

def parseNat (s : String) : Option Nat :=
  if s.isEmpty ∨ ¬ s.all Char.isDigit then none else s.toNat?

/-- one `<` line = one action of the model -/
def envAction (ws : List String) : Option Action :=
  match ws with
  | ["<", "ev", _, "accept"] => some .accept
  | ["<", "ev", _, "msg", c] => (parseNat c).map .msg
  | ["<", "ev", _, "close", c] => (parseNat c).map .close
  | ["<", "fn", l] => (parseNat l).map .run
  | ["<", "end", l] => (parseNat l).map .endBatch
  | ["<", "exit", l] => (parseNat l).map .exit
  | ["<", "gone", l] => (parseNat l).map .loopGone
  | ["<", "destroy"] => some .destroy
  | _ => none

def opAction (s : Srv) (ws : List String) : Option (Option Action) :=
  let foreign := s.L + 1
  match ws with
  | ["connect"] => some none
  | ["send", _, _] => some none
  | ["fin", _] => some none
  | ["rst", _] => some none
  | ["step", _] => some none
  | ["iter", _] => some none
  | ["quit"] => some none
  | ["holdHandover"] => some none
  | ["forceClose", c] => (parseNat c).map (fun c => some (.forceClose c foreign))
  | ["shutdown", c] => (parseNat c).map (fun c => some (.shutdown c foreign))
  | ["hold", c] => (parseNat c).map (fun c => some (.hold c))
  | ["drop", c] => (parseNat c).map (fun c => some (.drop c foreign))
  | ["postDestroy"] => some (some .postDestroy)
  | _ => none

def liveIds (s : Srv) : String :=
  let ids := (List.range s.n).filter (fun c => (s.conn c).alive)
  if ids.isEmpty then "-" else ",".intercalate (ids.map toString)

def main (lines : Array String) : IO Unit := do
  let out ← IO.getStdout
  let mut s : Option Srv := none
  let mut printed := 0
  let mut envErr := false
  for line in lines do
    let ws := words line
    if ws.isEmpty then continue
    if line.startsWith "<" then
      match s, envAction ws with
      | some st, some a => s := some (step st a)
      | _, _ => envErr := true
      continue
    match ws, s with
    | ["server", l], _ | ["server", l, _], _ =>
      match parseNat l with
      | some l => s := some (init l lexKey); printed := 0; out.putStrLn "ok"
      | none => out.putStrLn "bad-op"
    | _, some st =>
      match opAction st ws with
      | some a =>
        let st' := match a with | some a => step st a | none => st
        if envErr then out.putStrLn "bad-env"
        for e in st'.trace.drop printed do
          if e.kind != .closeCb then out.putStrLn s!"t {e.conn} {kindName e.kind} {thrName st' e.loop}"
        printed := st'.trace.length
        out.putStrLn s!"st live={liveIds st'} srv={if st'.alive then 1 else 0}"
        s := some st'
      | none => out.putStrLn "bad-op"
    | _, none => out.putStrLn "bad-op"
    envErr := false
    out.putStrLn "--"

end Driver.OwnerDrv
