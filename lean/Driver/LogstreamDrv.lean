import MuduoVerif.Model.LogStream
import Driver.Util
/-! `drv_logstream`: the LogStream / Logger / formatSI / formatIEC model behind the line protocol of
harness/logstream_drv.cc.  Environment lines (`< tid N` = gettid() on the emitting thread, `< ptid N` = gettid() on
the driver's main thread, `< asserts 0|1` = built with NDEBUG or not, `< now US`, `< errtext HEX`,
`< src HEX LINE HEX`, `< dbl HEX`) precede the operation that consumes them.  Thread kinds of `line` / `macro`:
`main`, `thread` (muduo::Thread), `fork` (child of fork()), `raw0` / `raw1` (pthread_create'd thread, in a forked
child so that an abort is contained; `raw0`: the log statement is its first muduo call, `raw1`: it called
`CurrentThread::tid()` first). -/
namespace Driver.LogstreamDrv
open MuduoVerif.LogStream MuduoVerif.Gen.LogStream Driver

structure St where
  buf : FixedBuf
  large : Bool
  level : Nat
  zone : Zone
  gen : Int                  -- `g_logTimeZoneGen`
  cache : TimeCache          -- of the main thread
  mainTid : Option TidState  -- tid cache of the main thread (`none`: not looked at yet)
  wcache : TimeCache := TimeCache.fresh   -- of the persistent worker thread (`worker`: one muduo::Thread that lives
  wTid : Option TidState := none          --   for the whole run and executes every `worker` request)
  env : List (List String)   -- pending environment lines, split into words (without the `<`)

def ofBytes (bs : Driver.Bytes) : MuduoVerif.LogStream.Bytes := bs.map (·.toNat)
def toBytes (bs : MuduoVerif.LogStream.Bytes) : Driver.Bytes := bs.map UInt8.ofNat
def hex (bs : MuduoVerif.LogStream.Bytes) : String := toHex (toBytes bs)

def stLine (b : FixedBuf) : String :=
  s!"st len={b.data.length} avail={avail b} h={fnv64 (toBytes b.data)}"

def envGet (s : St) (key : String) : Option (List String) :=
  (s.env.find? (fun ws => ws.head? == some key)).map (·.drop 1)

def inRange (lo hi : Int) (a : String) : Option Int :=
  match a.toInt? with
  | some v => if lo ≤ v ∧ v ≤ hi ∧ ¬ a.startsWith "+" then some v else none
  | none => none

def bytesArg (a : String) : Option MuduoVerif.LogStream.Bytes := (parseBytes a).map ofBytes
def hexArg (a : String) : Option MuduoVerif.LogStream.Bytes := (parseHex a).map ofBytes

def hexNat (s : String) : Option Nat :=
  s.toList.foldl (fun acc c => match acc, hexVal c with
    | some a, some d => some (a * 16 + d)
    | _, _ => none) (some 0)

/-- the item an `ins` line denotes -/
def parseItem (s : St) (ty : String) (args : List String) : Option Item :=
  let int (lo hi : Int) : Option Item :=
    match args with
    | [a] => (inRange lo hi a).map Item.int
    | _ => none
  match ty, args with
  | "i16", _ => int (-32768) 32767
  | "u16", _ => int 0 65535
  | "i32", _ => int (-2147483648) 2147483647
  | "u32", _ => int 0 4294967295
  | "l64", _ => int (-9223372036854775808) 9223372036854775807
  | "i64", _ => int (-9223372036854775808) 9223372036854775807
  | "ul64", _ => int 0 18446744073709551615
  | "u64", _ => int 0 18446744073709551615
  | "ptr", [a] => (inRange 0 18446744073709551615 a).map (fun v => Item.ptr v.toNat)
  | "f64", [a] => if a.length = 16 then
      match envGet s "dbl" with
      | some [h] => (hexArg h).map Item.dbl
      | _ => none
    else none
  | "f32", [a] => if a.length = 8 then
      match envGet s "dbl" with
      | some [h] => (hexArg h).map Item.dbl
      | _ => none
    else none
  | "bool", ["0"] => some (.bool false)
  | "bool", ["1"] => some (.bool true)
  | "char", [a] => (inRange 0 255 a).map (fun v => Item.chr v.toNat)
  | "str", [a] => (bytesArg a).map Item.str
  | "sp", [a] => (bytesArg a).map Item.str
  | "raw", [a] => (bytesArg a).map Item.str
  | "cstr", [a] => (bytesArg a).map (fun d => Item.str (cstr d))
  | "ucstr", [a] => (bytesArg a).map (fun d => Item.str (cstr d))
  | "cstrnull", [] => some (.str nullText)
  | "self", ["-"] => some (.str ("buffer:42".toList.map Char.toNat))
  | _, _ => none

structure Req where
  whereRun : String
  r : LogReq
  fatal : Bool
  scripted : Bool

def noNul (b : MuduoVerif.LogStream.Bytes) : Bool := b.all (· ≠ 0)

def maxUs : Int := 253402300799999999
def maxSec : Int := 253402300799

def inDomain (z : Zone) (us : Int) : Bool :=
  let sec := Int.tdiv us 1000000 + z.getD 0
  decide (0 ≤ us ∧ 0 ≤ sec ∧ sec ≤ maxSec)

def clockArg (s : St) (c : String) : Option (Option Int) :=   -- some none: not available in the environment
  if c = "now" then
    match envGet s "now" with
    | some [v] => some v.toInt?
    | _ => some none
  else match inRange 0 maxUs c with
    | some _ => match envGet s "now" with
      | some [v] => some v.toInt?
      | _ => some none
    | none => none

def isWhere (wh : String) : Bool :=
  wh = "main" ∨ wh = "thread" ∨ wh = "fork" ∨ wh = "raw0" ∨ wh = "raw1" ∨ wh = "worker"

/-- runs one request on the thread the line says (`main`, a `muduo::Thread`, the child of a `fork()`, a thread made
with `pthread_create` whose first muduo call is the log statement (`raw0`) / that called `CurrentThread::tid()`
before (`raw1`)); returns the new main-thread caches and the output lines.  `< ptid N`: kernel id of the driver's
main thread; `< asserts 1`: the implementation was built without NDEBUG. -/
def emit (s : St) (wh : String) (r : LogReq) (fatal : Bool) : St × List String :=
  let ptid : Int := match envGet s "ptid" with
    | some [p] => p.toInt?.getD 0
    | _ => 0
  let assertsOn : Bool := envGet s "asserts" == some ["1"]
  let mainT : TidState := s.mainTid.getD (entryState ptid .main)
  let cache := if wh = "main" ∨ wh = "fork" then s.cache else if wh = "worker" then s.wcache else TimeCache.fresh
  let t : TidState :=
    if wh = "main" then mainT
    else if wh = "worker" then s.wTid.getD (entryState r.tid .muduoThread)
    else if wh = "thread" then entryState r.tid .muduoThread
    else if wh = "fork" then entryState r.tid (.forkChild ptid mainT)
    else entryState r.tid (.foreign (wh = "raw1"))
  let res := logLine s.zone s.gen cache t r
  let s' := if wh = "main" then { s with cache := res.cache, mainTid := some res.tid }
            else if wh = "worker" then { s with wcache := res.cache, wTid := some res.tid } else s
  if assertsOn ∧ ¬ res.asserts then (s', ["out-none", "aborted"])
  else (s', ["out " ++ hex res.text] ++ (if fatal then ["aborted"] else []))

def exec (s : St) (ws : List String) : St × List String :=
  let bad := (s, ["bad-op"])
  match ws with
  | ["reset", "small"] => let b := mkBuf kSmallBuffer; ({ s with buf := b, large := false }, [stLine b])
  | ["reset", "large"] => let b := mkBuf kLargeBuffer; ({ s with buf := b, large := true }, [stLine b])
  | "ins" :: ty :: args =>
    if s.large ∧ ¬ (ty = "str" ∨ ty = "sp" ∨ ty = "cstr") then bad else
    match parseItem s ty args with
    | some it => let b := insert s.buf it; ({ s with buf := b }, [stLine b])
    | none => bad
  | ["rst"] => let b := { s.buf with data := [] }; ({ s with buf := b }, [stLine b])
  | ["buf"] => if s.large then (s, [stLine s.buf]) else (s, ["buf " ++ hex s.buf.data])
  | ["setlevel", l] =>
    match inRange 0 5 l with
    | some v => ({ s with level := v.toNat }, [s!"level {v}"])
    | none => bad
  | ["setzone", z] =>
    let bump := fun (s : St) (z : Zone) => (logStep { zone := s.zone, gen := s.gen, cache := s.cache, tid := TidState.fresh } (.setZone z)).1
    if z = "none" then ({ s with zone := none, gen := (bump s none).gen }, ["ok"]) else
    match inRange (-86400) 86400 z with
    | some v => ({ s with zone := some v, gen := (bump s (some v)).gen }, ["ok"])
    | none => bad
  | ["line", wh, ctor, lvl, clk, err, file, lineno, func, "msg", msg] =>
    if ¬ isWhere wh then bad else
    if ¬ (ctor = "c2" ∨ ctor = "c3" ∨ ctor = "c4" ∨ ctor = "cb" ∨ ctor = "ct") then bad else
    let fileB : Option MuduoVerif.LogStream.Bytes :=
      match file.splitOn ":" with
      | ["lit", _, h] => hexArg h
      | ["dyn", h] => (hexArg h).bind (fun b => if noNul b then some b else none)
      | _ => none
    let funcB : Option (Option MuduoVerif.LogStream.Bytes) :=
      if func = "-" then some none else (bytesArg func).bind (fun b => if noNul b then some (some b) else none)
    match inRange 0 5 lvl, clockArg s clk, inRange 0 4095 err, fileB, inRange (-2147483648) 2147483647 lineno, funcB,
          bytesArg msg with
    | some lv, some now, some e, some f, some ln, some fn, some m =>
      if (ctor = "c4") ≠ fn.isSome then bad else
      let fatal := ctor = "ct" ∨ ((ctor = "c3" ∨ ctor = "c4") ∧ lv = 5)
      if fatal ∧ (wh ≠ "fork" ∨ clk = "now") then (s, ["reject"]) else
      match now with
      | none => if clk ≠ "now" ∧ ¬ inDomain s.zone (clk.toInt?.getD (-1)) then (s, ["reject"]) else (s, ["bad-env"])
      | some us =>
        if ¬ inDomain s.zone us then (s, ["reject"]) else
        let level : Nat := if ctor = "c2" then macroLevel 2 else if ctor = "cb" then macroLevel 6
          else if ctor = "ct" then macroLevel 7 else lv.toNat
        let errno : Int := if ctor = "cb" ∨ ctor = "ct" then e else 0
        let errText := match envGet s "errtext" with
          | some [h] => (hexArg h).getD []
          | _ => []
        match envGet s "tid" with
        | some [t] =>
          let r : LogReq := { level := level, errno := errno, errText := errText, func := fn, file := f, line := ln,
                              tid := t.toInt?.getD 0, us := us, msg := [.str m] }
          emit s wh r fatal
        | _ => (s, ["bad-env"])
    | _, _, _, _, _, _, _ => bad
  | ["macro", wh, m, clk, err, msg] =>
    if ¬ isWhere wh then bad else
    match inRange 0 7 m, clockArg s clk, inRange 0 4095 err, bytesArg msg with
    | some mi, some now, some e, some mb =>
      let mN := mi.toNat
      let fatal := mN = 5 ∨ mN = 7
      if fatal ∧ (wh ≠ "fork" ∨ clk = "now") then (s, ["reject"]) else
      if clk ≠ "now" ∧ ¬ inDomain s.zone (clk.toInt?.getD (-1)) then (s, ["reject"]) else
      if ¬ emits mN s.level then (s, ["out-none"]) else
      match now, envGet s "tid", envGet s "src" with
      | some us, some [t], some [fh, ln, fnh] =>
        if ¬ inDomain s.zone us then (s, ["reject"]) else
        let errText := match envGet s "errtext" with
          | some [h] => (hexArg h).getD []
          | _ => []
        let r : LogReq := { level := macroLevel mN, errno := if macroErrno mN then e else 0, errText := errText,
                            func := if macroFunc mN then some ((hexArg fnh).getD []) else none,
                            file := (hexArg fh).getD [], line := ln.toInt?.getD 0,
                            tid := t.toInt?.getD 0, us := us, msg := [.str mb] }
        emit s wh r fatal
      | _, _, _ => (s, ["bad-env"])
    | _, _, _, _ => bad
  | ["si", n] =>
    match inRange 0 9223372036854775807 n with
    | some v => (s, ["si " ++ hex (formatSI v.toNat)])
    | none => bad
  | ["iec", n] =>
    match inRange 0 9223372036854775807 n with
    | some v => (s, ["iec " ++ hex (formatIEC v.toNat)])
    | none => bad
  | ["sweep16"] => (s, ["sweep ok n=65536"])
  | ["sweep32", lo, hi] =>
    match inRange 0 4294967296 lo, inRange 0 4294967296 hi with
    | some a, some b => if a ≤ b then (s, [s!"sweep ok n={b - a}"]) else bad
    | _, _ => bad
  | _ => bad

def main (lines : Array String) : IO Unit := do
  let mut s : St := { buf := mkBuf kSmallBuffer, large := false, level := levelINFO, zone := none, gen := zoneGenInit,
                      cache := TimeCache.fresh, mainTid := none, env := [] }
  let out ← IO.getStdout
  for line in lines do
    if line.startsWith "<" then
      s := { s with env := s.env ++ [(words line).drop 1] }
    else
      let ws := words line
      if ws.isEmpty then continue
      let (s', o) := exec s ws
      s := { s' with env := [] }
      for l in o do out.putStrLn l
      out.putStrLn "--"

end Driver.LogstreamDrv
