import Driver.OwnerDrv
open Driver

def main : IO UInt32 := do
  let lines ← readLines (← IO.getStdin) #[]
  OwnerDrv.main lines
  return 0
