import Driver.Util
/-! `drv_logfile`: not built yet -/
def main : IO UInt32 := do
  IO.eprintln "drv_logfile: engine not implemented"
  return 2
