import Driver.LogfileDrv
open Driver

def main : IO UInt32 := do
  let lines ← readLines (← IO.getStdin) #[]
  LogfileDrv.main lines
  return 0
