import Driver.Util
/-! `drv_client`: not built yet -/
def main : IO UInt32 := do
  IO.eprintln "drv_client: engine not implemented"
  return 2
