import Driver.ClientDrv
open Driver

def main (args : List String) : IO UInt32 := do
  let lines ← readLines (← IO.getStdin) #[]
  ClientDrv.main lines args
  return 0
