import MuduoVerif.Model.RpcLock
import Driver.Util
/-! `drv_rpc`: the RpcChannel model behind the line protocol of harness/rpc_drv.cc.

An operation of the protocol is a fixed sequence of the model's atomic actions:
`call` = callBegin · callInsert · callSend on the loop thread; `callmt` = the fetches in the order the
environment line `< order` reports, all inserts, one loop iteration, the queued sends; `iter` = for
every channel, every message the peer has written: `recv` · [the closure of the completed call calls back into the
channel, if the call was made with a chain depth: chainBegin · chainInsert · chainSend] · `finish`.  The channel is the
machine with the mutex (`Model/RpcLock.lean`); its outcome `deadlocked` is the line `hang`, and the run ends there. -/
namespace Driver.RpcDrv
open MuduoVerif.Rpc MuduoVerif.Gen.Rpc Driver

structure ChanSt where
  server : Bool
  m : LChan
  inbox : List Msg := []
  tags : List (Nat × Nat) := []        -- model call number ↦ tag printed by the harness
  nextTag : Nat := 0
  depth : List (Nat × Nat) := []        -- model call number ↦ chain depth of its closure
  reqTable : List (Nat × Nat) := []     -- request payload ↦ request number
  nReq : Nat := 0
  destroyed : Bool := false

instance : Inhabited ChanSt := ⟨{ server := false, m := linit true false }⟩

structure St where
  asserts : Bool := true
  chans : Array ChanSt := #[]
  order : List (Nat × List Nat) := []   -- pending `< order c tags…`

def tagOf (c : ChanSt) (k : Nat) : Nat := ((c.tags.find? (fun e => e.1 = k)).map (·.2)).getD k

def optNat : Option Nat → String
  | some n => toString n
  | none => "-"

def errName (e : ErrorCode) : String :=
  match e with
  | .NO_ERROR => "NO_ERROR" | .WRONG_PROTO => "WRONG_PROTO" | .NO_SERVICE => "NO_SERVICE" | .NO_METHOD => "NO_METHOD"
  | .INVALID_REQUEST => "INVALID_REQUEST" | .INVALID_RESPONSE => "INVALID_RESPONSE" | .TIMEOUT => "TIMEOUT"

def depthOf (c : ChanSt) (k : Nat) : Nat := ((c.depth.find? (fun e => e.1 = k)).map (·.2)).getD 0

inductive Line
  | cb (s : String) | reply (s : String) | sent (id : Nat) (s : String) | abort | skip

/-- the closure of call `k` ran: its line, then the calls it issued from inside `Run()` (oldest first) -/
def showEv (c : ChanSt) : Ev → List Line
  | .ran k _ v =>
    .cb s!"done {tagOf c k} view={optNat v}" ::
      ((c.m.chained.filter (fun e => e.2 = k)).reverse.map (fun e => .cb s!"chained {tagOf c e.1} by {tagOf c k}"))
  | .free (.resp k) => [.cb s!"free resp {tagOf c k}"]
  | .free (.done k) => [.cb s!"free done {tagOf c k}"]
  | .dispatch _ p => [.cb s!"dispatch p={p}"]
  | .uaf (.closure r) => [.cb s!"uaf closure {r}"]
  | .uaf _ => [.cb "uaf"]
  | .reply _ id p e => [.reply s!"reply id={id} payload={optNat p} error={match e with | some e => errName e | none => "-"}"]
  | .sent id k => [.sent id s!"sent id={id} tag={tagOf c k}"]
  | .abort => [.abort]
  | _ => []

/-- insertion sort of the request lines by id (stable) -/
def insertSent (x : Nat × String) : List (Nat × String) → List (Nat × String)
  | [] => [x]
  | y :: ys => if x.1 < y.1 then x :: y :: ys else y :: insertSent x ys

/-- the lines of one channel for one block: events `evs` in chronological order -/
def blockLines (i : Nat) (c : ChanSt) (evs : List Ev) : List String × Bool :=
  let ls := evs.flatMap (showEv c)
  let cbs := ls.filterMap (fun l => match l with | .cb s => some s | _ => none)
  let reps := ls.filterMap (fun l => match l with | .reply s => some s | _ => none)
  let sents := ls.filterMap (fun l => match l with | .sent id s => some (id, s) | _ => none)
  let sorted := sents.foldl (fun acc x => insertSent x acc) []
  let aborted := ls.any (fun l => match l with | .abort => true | _ => false)
  ((cbs ++ reps ++ sorted.map (·.2)).map (fun s => s!"c{i} {s}"), aborted)

/-- events added to the log by a transition (chronological) -/
def newEvents (old new : LChan) : List Ev := (new.ch.log.take (new.ch.log.length - old.ch.log.length)).reverse

def parseSpec (s : String) (response : Bool) : Option (Option Body × Option Nat) :=
  match s.splitOn ":" with
  | ["ok", p] => p.toNat?.map (fun p => (some (.ok p), none))
  | ["garbage"] => some (some .garbage, none)
  | ["err", e] => if response then e.toNat?.map (fun e => (none, some e)) else none
  | ["both", p, e] => if response then (do let p ← p.toNat?; let e ← e.toNat?; pure (some (.ok p), some e)) else none
  | ["bare"] => if response then some (none, none) else none
  | _ => none

/-- one message: `recv`; if it completes a call made with a chain depth, the closure issues a call on its own channel (it
gets the next tag and the rest of the depth); `finish` -/
def deliverOne (c : ChanSt) (msg : Msg) : ChanSt :=
  let s1 := lstep c.m (.base (.recv msg))
  match s1.ch.pending with
  | some (k, _) =>
    let d := depthOf c k
    if d > 0 then
      let k' := s1.ch.nextCall
      let s2 := chainOnce.foldl lstep s1
      { c with m := lstep s2 (.base .finish), tags := (k', c.nextTag) :: c.tags, nextTag := c.nextTag + 1,
               depth := (k', d - 1) :: c.depth }
    else { c with m := lstep s1 (.base .finish) }
  | none => { c with m := lstep s1 (.base .finish) }

/-- deliver every queued message of a channel -/
def deliver (c : ChanSt) : ChanSt :=
  if c.destroyed then { c with inbox := [] }
  else { c.inbox.foldl deliverOne c with inbox := [] }

def insertionSortStr (l : List String) : List String :=
  l.foldl (fun acc x =>
    let rec ins : List String → List String
      | [] => [x]
      | y :: ys => if x < y then x :: y :: ys else y :: ins ys
    ins acc) []

/-- one loop iteration over all channels; `after` runs on channel `cidx` after its messages (the queued sends) -/
def iterAll (st : St) (after : Option (Nat × (ChanSt → ChanSt))) : St × List String × Bool × Bool := Id.run do
  let mut chans := st.chans
  let mut out : List String := []
  let mut aborted := false
  let mut hung := false
  for i in [0:chans.size] do
    let c := chans[i]!
    let c1 := deliver c
    let c2 := match after with
      | some (j, f) => if j = i then f c1 else c1
      | none => c1
    let (ls, ab) := blockLines i c2 (newEvents c.m c2.m)
    out := out ++ ls
    aborted := aborted || ab
    hung := hung || c2.m.deadlocked
    chans := chans.set! i c2
  return ({ st with chans := chans }, out, aborted, hung)

def withChan (st : St) (i : Nat) (f : ChanSt → Option (ChanSt × List String)) : St × List String :=
  if h : i < st.chans.size then
    let c := st.chans[i]
    match f c with
    | some (c', ls) => ({ st with chans := st.chans.set! i c' }, ls)
    | none => (st, ["bad-op"])
  else (st, ["bad-op"])

def live (c : ChanSt) : Bool := !c.destroyed

/-- the block of an operation that ran a loop iteration -/
def iterResult (r : St × List String × Bool × Bool) : St × List String × Bool :=
  let (st, ls, ab, hung) := r
  (st, if ab then ["abort"] else if hung then ["hang"] else ls, ab || hung)

def doCall (st : St) (c : String) (d : Nat) : St × List String × Bool :=
  let (st', ls) := withChan st (c.toNat?.getD 1000000) (fun ch =>
    if live ch then
      let k := ch.m.ch.nextCall
      let m := lstep (lstep (lstep ch.m (.base .callBegin)) (.base (.callInsert k))) (.base (.callSend k))
      let ch' := { ch with m := m, tags := (k, ch.nextTag) :: ch.tags, nextTag := ch.nextTag + 1, depth := (k, d) :: ch.depth }
      some (ch', (blockLines (c.toNat?.getD 0) ch' (newEvents ch.m m)).1)
    else none)
  (st', ls, false)

def doCallMt (st : St) (c n : String) (d : Nat) : St × List String × Bool :=
  match c.toNat?, n.toNat? with
  | some ci, some n =>
    if h : ci < st.chans.size then
      let ch := st.chans[ci]
      if live ch ∧ 1 ≤ n ∧ n ≤ 8 then
        let order := ((st.order.find? (fun e => e.1 = ci)).map (·.2)).getD ((List.range n).map (· + ch.nextTag))
        -- the fetches in id order, then every insert; the sends are queued behind the loop's I/O phase
        let k0 := ch.m.ch.nextCall
        let m1 := (List.range n).foldl (fun m _ => lstep m (.base .callBegin)) ch.m
        let m2 := (List.range n).foldl (fun m j => lstep m (.base (.callInsert (k0 + j)))) m1
        let tags := (order.zipIdx.map (fun (t, j) => (k0 + j, t))) ++ ch.tags
        let depth := ((List.range n).map (fun j => (k0 + j, d))) ++ ch.depth
        let ch' := { ch with m := m2, tags := tags, nextTag := ch.nextTag + n, depth := depth }
        let st1 := { st with chans := st.chans.set! ci ch', order := [] }
        -- `newEvents` of the iteration is computed against `ch'.m`; nothing was logged before it
        iterResult (iterAll st1 (some (ci, fun c =>
          { c with m := (List.range n).foldl (fun m j => lstep m (.base (.callSend (k0 + j)))) c.m })))
      else (st, ["bad-op"], false)
    else (st, ["bad-op"], false)
  | _, _ => (st, ["bad-op"], false)

/-- returns the new state, the lines of the block, and whether the run ends here (abort, hang) -/
def doOp (st : St) (w : List String) : St × List String × Bool :=
  match w with
  | ["flavour", f] => ({ st with asserts := f != "ndebug" && f != "asan-ndebug" }, [], false)
  | ["chan", c, kind] =>
    match c.toNat? with
    | some c =>
      if c = st.chans.size ∧ (kind = "client" ∨ kind = "server") then
        let m : Chan :=
          if kind = "server" then
            (((Server.up { asserts := st.asserts } c).chan? c).getD (init st.asserts false))
          else init st.asserts false
        ({ st with chans := st.chans.push { server := kind = "server", m := { ch := m } } }, [], false)
      else (st, ["bad-op"], false)
    | none => (st, ["bad-op"], false)
  | ["call", c] => doCall st c 0
  | ["call", c, d] =>
    match d.toNat? with
    | some d => if d ≤ 16 then doCall st c d else (st, ["bad-op"], false)
    | none => (st, ["bad-op"], false)
  | ["callmt", c, n] => doCallMt st c n 0
  | ["callmt", c, n, d] =>
    match d.toNat? with
    | some d => if d ≤ 16 then doCallMt st c n d else (st, ["bad-op"], false)
    | none => (st, ["bad-op"], false)
  | ["peerResponse", c, id, spec] =>
    match id.toNat?, parseSpec spec true with
    | some id, some (pl, e) =>
      let (st', ls) := withChan st (c.toNat?.getD 1000000) (fun ch =>
        some ({ ch with inbox := ch.inbox ++ [{ type := .RESPONSE, id := id, payload := pl, err := e }] }, []))
      (st', ls, false)
    | _, _ => (st, ["bad-op"], false)
  | ["peerRequest", c, id, svc, meth, spec] =>
    match id.toNat?, parseSpec spec false with
    | some id, some (some body, none) =>
      if (svc = "echo" ∨ svc = "nosvc") ∧ (meth = "Echo" ∨ meth = "Defer" ∨ meth = "nometh") then
        let mth : Option Meth := if meth = "Echo" then some .sync else if meth = "Defer" then some .defer else none
        let (st', ls) := withChan st (c.toNat?.getD 1000000) (fun ch =>
          let msg : Msg := { type := .REQUEST, id := id, serviceFound := svc = "echo", meth := mth, request := body }
          let tbl := match body with
            | .ok p => (p, ch.nReq) :: ch.reqTable
            | .garbage => ch.reqTable
          some ({ ch with inbox := ch.inbox ++ [msg], reqTable := tbl, nReq := ch.nReq + 1 }, []))
        (st', ls, false)
      else (st, ["bad-op"], false)
    | _, _ => (st, ["bad-op"], false)
  | ["peerError", c, id] =>
    match id.toNat? with
    | some id =>
      let (st', ls) := withChan st (c.toNat?.getD 1000000) (fun ch =>
        some ({ ch with inbox := ch.inbox ++ [{ type := .ERROR, id := id }] }, []))
      (st', ls, false)
    | none => (st, ["bad-op"], false)
  | ["fireDone", c, p] =>
    let (st', ls) := withChan st (c.toNat?.getD 1000000) (fun ch =>
      match p.toNat? with
      | some p =>
        match ch.reqTable.find? (fun e => e.1 = p) with
        | some (_, r) =>
          if ch.m.ch.closures.any (fun e => e.1 = r) ∧ live ch then
            let m := lstep ch.m (.base (.fireDone r))
            let ch' := { ch with m := m }
            some (ch', (blockLines (c.toNat?.getD 0) ch' (newEvents ch.m m)).1)
          else none
        | none => none
      | none => none)
    (st', ls, false)
  -- a new connection for the same channel object: ids and outstanding calls are the channel's; the old connection is
  -- gone, with whatever the peer had written to it and the loop had not read yet
  | ["reconn", c] =>
    let (st', ls) := withChan st (c.toNat?.getD 1000000) (fun ch =>
      if live ch ∧ !ch.server then some ({ ch with inbox := [] }, []) else none)   -- what was in flight on the old connection is lost
    (st', ls, false)
  | ["destroy", c] =>
    let (st', ls) := withChan st (c.toNat?.getD 1000000) (fun ch =>
      if live ch ∧ !ch.server then
        let lines := (blockLines (c.toNat?.getD 0) ch (destroyEvents ch.m.ch)).1
        some ({ ch with destroyed := true }, insertionSortStr lines)
      else none)
    (st', ls, false)
  | ["iter"] => iterResult (iterAll st none)
  | _ => (st, ["bad-op"], false)

def main (lines : Array String) : IO Unit := do
  let out ← IO.getStdout
  let mut st : St := {}
  for line in lines do
    let w := words line
    if w.isEmpty then continue
    match w with
    | "<" :: "order" :: c :: tags =>
      st := { st with order := (c.toNat?.getD 0, tags.filterMap (·.toNat?)) :: st.order }
    | "<" :: _ => pure ()
    | _ =>
      let (st', ls, stop) := doOp st w
      st := st'
      for l in ls do out.putStrLn l
      out.putStrLn "--"
      if stop then break
  out.flush

end Driver.RpcDrv
