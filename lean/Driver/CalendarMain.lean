import Driver.CalendarDrv
open Driver

def main : IO UInt32 := do
  let lines ← readLines (← IO.getStdin) #[]
  CalendarDrv.main lines
  return 0
