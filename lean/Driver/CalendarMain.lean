import Driver.Util
/-! `drv_calendar`: not built yet -/
def main : IO UInt32 := do
  IO.eprintln "drv_calendar: engine not implemented"
  return 2
