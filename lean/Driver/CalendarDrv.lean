import MuduoVerif.Model.Calendar
import MuduoVerif.Model.Zone
import MuduoVerif.Model.TzFile
import MuduoVerif.Model.Inet
import Driver.Util
/-! `drv_calendar`: the calendar / zone / inet models behind the line protocol of
harness/calendar_drv.cc (C20).  Lines starting with `#` are extras for the plug-in (never
compared): the well-formedness verdict of the loaded zone data.  A zone file is read by `TzFile.parse`
(`Model/TzFile.lean`: muduo's reader with the parameters extracted from the source); the table it
yields is printed entry by entry (the harness prints `TimeZone::Data` the same way) and is what the
look-ups of `Model/Zone.lean` then run on. -/
namespace Driver.CalendarDrv
open MuduoVerif MuduoVerif.Gen.Calendar MuduoVerif.Calendar MuduoVerif.Zone MuduoVerif.Inet Driver

structure St where
  zone : Option Data := none
  env : List String := []

def mix (h : UInt64) (v : Int) : UInt64 :=
  h * 1099511628211 + UInt64.ofNat (v % 18446744073709551616).toNat

/-- digest of `(j, year, month, day, weekDay, julianDayNumber (Date year month day))` over `j0 ≤ j < j0+n` -/
def daysDigest (j0 : Int) (n : Nat) : UInt64 := Id.run do
  let mut h : UInt64 := 14695981039346656037
  for k in [0:n] do
    let j : Int := j0 + k
    let x := Date_yearMonthDay (Date_ofJdn j)
    h := mix h j
    h := mix h x.year
    h := mix h x.month
    h := mix h x.day
    h := mix h (Date_weekDay (Date_ofJdn j))
    h := mix h (Date_julianDayNumber (Date_ofYmd x.year x.month x.day))
  return h

def ints (ws : List String) : Option (List Int) := ws.mapM String.toInt?

def errText : TzFile.Err → String
  | .logic msg => msg
  | .lengthError => "length"
  | .outOfRange => "range"
  | .rejected => "rejected"
  | .undefined what => "undefined: " ++ what

/-- `zone ok` + the loaded table entry by entry, or `zone invalid` + the kind of failure -/
def zoneLines (r : TzFile.R TzFile.Loaded) : List String :=
  match r with
  | .ok l =>
    let d := l.data
    [s!"# wf {if decide (WF d) then 1 else 0} n {d.n} types {d.localtimes.size} first {(d.tr 0).utctime} last {(d.tr (d.n - 1)).utctime}",
     "zone ok", s!"tab n {d.n} types {d.localtimes.size}"]
    ++ (List.range d.n).map (fun i => s!"tr {i} {(d.tr i).utctime} {(d.tr i).localtime} {(d.tr i).localtimeIdx}")
    ++ (List.range d.localtimes.size).map (fun i => s!"lt {i} {(d.lt i).utcOffset} {if (d.lt i).isDst then 1 else 0} {(d.lt i).desigIdx}")
    ++ [s!"abbr |{toHex l.abbreviation}|", s!"tz |{toHex l.tzstring}|"]
  | .error e => ["zone invalid", s!"err |{errText e}|"]

def zoneOf (r : TzFile.R TzFile.Loaded) : Option Data :=
  match r with
  | .ok l => some l.data
  | .error _ => none

def q (s : String) : String := "|" ++ s ++ "|"

def exec (s : St) (ws : List String) : St × List String :=
  match ws with
  | ["jdn", y, m, d] => match ints [y, m, d] with
    | some [y, m, d] =>
      let j := Date_ofYmd y m d
      (s, [s!"jdn {Date_julianDayNumber j} wd {Date_weekDay j}"])
    | _ => (s, ["bad-op"])
  | ["ymd", j] => match j.toInt? with
    | some j =>
      let x := Date_yearMonthDay (Date_ofJdn j)
      (s, [s!"ymd {x.year} {x.month} {x.day} wd {Date_weekDay j} valid {if j > 0 then 1 else 0} iso {q (dateIso j)}"])
    | none => (s, ["bad-op"])
  | ["days", j0, j1] => match ints [j0, j1] with
    | some [j0, j1] => (s, [s!"days {(j1 - j0).toNat} {daysDigest j0 (j1 - j0).toNat}"])
    | _ => (s, ["bad-op"])
  | ["break", t] => match t.toInt? with
    | some t =>
      let dt := toUtcTime t
      (s, [s!"break {dt.year} {dt.month} {dt.day} {dt.hour} {dt.minute} {dt.second} back {fromUtcTime dt} iso {q (dtIso dt)}"])
    | none => (s, ["bad-op"])
  | ["unbreak", y, mo, d, h, mi, sec] => match ints [y, mo, d, h, mi, sec] with
    | some [y, mo, d, h, mi, sec] => (s, [s!"unbreak {fromUtcTime ⟨y, mo, d, h, mi, sec⟩}"])
    | _ => (s, ["bad-op"])
  | ["ts", us] => match us.toInt? with
    | some us => (s, [s!"ts {q (tsToString us)} {q (tsFormatted us true)} {q (tsFormatted us false)}"])
    | none => (s, ["bad-op"])
  | ["zone", _] =>
    match s.env with
    | e :: rest =>
      match words e with
      | ["<", "bytes", hex] => match parseHex hex with
        | some bs =>
          let r := TzFile.parse bs
          ({ zone := zoneOf r, env := rest }, zoneLines r)
        | none => (s, ["bad-env"])
      | _ => (s, ["bad-env"])
    | [] => ({ s with zone := none }, ["zone unreadable"])
  | ["zonebytes"] =>
    let r := TzFile.parse []
    ({ s with zone := zoneOf r }, zoneLines r)
  | ["zonebytes", hex] => match parseHex hex with
    | some bs =>
      let r := TzFile.parse bs
      ({ s with zone := zoneOf r }, zoneLines r)
    | none => (s, ["bad-op"])
  | ["fixedzone", off] => match off.toInt? with
    | some off => ({ s with zone := some (fixed off) }, ["zone ok"])
    | none => (s, ["bad-op"])
  | ["probe", t] => match t.toInt?, s.zone with
    | some t, some d =>
      let (lt, off) := toLocalTime d t
      (s, [s!"lt {lt.year} {lt.month} {lt.day} {lt.hour} {lt.minute} {lt.second} off {off} f0 {fromLocalTime d lt false} f1 {fromLocalTime d lt true}"])
    | some _, none => (s, ["nozone"])
    | none, _ => (s, ["bad-op"])
  | ["fromlocal", y, mo, d, h, mi, sec] => match ints [y, mo, d, h, mi, sec], s.zone with
    | some [y, mo, d, h, mi, sec], some z =>
      let dt : DateTime := ⟨y, mo, d, h, mi, sec⟩
      (s, [s!"from {fromLocalTime z dt false} {fromLocalTime z dt true}"])
    | some _, none => (s, ["nozone"])
    | _, _ => (s, ["bad-op"])
  | ["ip4", a, p] => match a.toNat?, p.toNat? with
    | some a, some p =>
      let a := a % 2 ^ 32
      let p := p % 2 ^ 16
      let ip := toIp a
      -- `InetAddress(ip, p)`: the text is parsed again; port through hostToNetwork16 / networkToHost16
      let back := (parseIp ip).getD 0
      let pn := hostToNetwork 2 p
      (s, [s!"ip {q ip} {q (toIpPort a (networkToHost 2 pn))} port {networkToHost 2 pn} back {back} {networkToHost 2 pn} net {back} {p}"])
    | _, _ => (s, ["bad-op"])
  | ["parse4", text, p] => match p.toNat? with
    | some p =>
      let p := p % 2 ^ 16
      if text.toList.contains ':' then (s, ["parse v6"])
      else
        let a := (parseIp text).getD 0
        (s, [s!"parse {a} {p} {q (toIpPort a p)}"])
    | none => (s, ["bad-op"])
  | ["ip6", _, p] => match p.toNat?, s.env with
    | some p, e :: rest =>
      let p := p % 2 ^ 16
      match words e with
      | ["<", "v6", t] => ({ s with env := rest }, [s!"ip6 {q t} {q (v6IpPort t p)} port {p}"])
      | _ => (s, ["bad-env"])
    | _, _ => (s, ["bad-op"])
  -- the same address with `sin6_scope_id` set (`InetAddress::setScopeId`): the text forms do not show a scope
  | ["ip6", _, p, _scope] => match p.toNat?, s.env with
    | some p, e :: rest =>
      let p := p % 2 ^ 16
      match words e with
      | ["<", "v6", t] => ({ s with env := rest }, [s!"ip6 {q t} {q (v6IpPort t p)} port {p}"])
      | _ => (s, ["bad-env"])
    | _, _ => (s, ["bad-op"])
  | ["be", bits, x] => match bits.toNat?, x.toNat? with
    | some bits, some x =>
      if bits = 16 ∨ bits = 32 ∨ bits = 64 then
        let nb := bits / 8
        let x := x % 256 ^ nb
        let n := hostToNetwork nb x
        (s, [s!"be {n} {networkToHost nb n} mem {toHex (memLE nb n)}"])
      else (s, ["bad-op"])
    | _, _ => (s, ["bad-op"])
  | _ => (s, ["bad-op"])

def main (lines : Array String) : IO Unit := do
  let mut s : St := {}
  let out ← IO.getStdout
  for line in lines do
    if line.startsWith "<" then
      s := { s with env := s.env ++ [line] }
    else
      let ws := words line
      if ws.isEmpty then continue
      let (s', os) := exec s ws
      s := s'
      for o in os do out.putStrLn o
      out.putStrLn "--"

end Driver.CalendarDrv
