import Driver.Util
/-! `drv_logstream`: not built yet -/
def main : IO UInt32 := do
  IO.eprintln "drv_logstream: engine not implemented"
  return 2
