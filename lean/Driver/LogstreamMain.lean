import Driver.LogstreamDrv
open Driver

def main : IO UInt32 := do
  let lines ← readLines (← IO.getStdin) #[]
  LogstreamDrv.main lines
  return 0
