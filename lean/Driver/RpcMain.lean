import Driver.RpcDrv
open Driver

def main : IO UInt32 := do
  let lines ← readLines (← IO.getStdin) #[]
  RpcDrv.main lines
  return 0
