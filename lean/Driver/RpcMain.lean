import Driver.Util
/-! `drv_rpc`: not built yet -/
def main : IO UInt32 := do
  IO.eprintln "drv_rpc: engine not implemented"
  return 2
