import MuduoVerif.Model.Http
import Driver.Util
/-! `drv_http`: the HTTP request parser model behind the line protocol of harness/http_drv.cc -/
namespace Driver.HttpDrv
open MuduoVerif.Http MuduoVerif.Stream MuduoVerif.Gen.Http Driver

def versionText : Version → String
  | .kHttp10 => "1.0"
  | .kHttp11 => "1.1"
  | .kUnknown => "?"

def reqText (r : Request) : String :=
  let hs := r.headers.map (fun e => s!" h:{toHex e.1}=h:{toHex e.2}")
  s!"{methodString r.method} {versionText r.version} h:{toHex r.path} h:{toHex r.query}{String.join hs}"

def evLine : Event → String
  | .request r => s!"req {reqText r}"
  | .badRequest => "bad"

def stLine (d : Dec Ctx) : String :=
  s!"st left={d.buf.length} dead={if d.dead then 1 else 0} partial={if d.dead then "-" else reqText d.s.req}"

def exec (d : Dec Ctx) (ws : List String) : Dec Ctx × List String :=
  match ws with
  | ["new"] => (MuduoVerif.Http.init, ["ok"])
  | ["reset"] => (MuduoVerif.Http.init, ["ok"])
  | ["feed", x] =>
    match parseBytes x with
    | some b =>
      let (d', evs) := feed d b
      (d', evs.map evLine ++ [stLine d'])
    | none => (d, ["bad-op"])
  | _ => (d, ["bad-op"])

def main (lines : Array String) : IO Unit := do
  let mut d : Dec Ctx := MuduoVerif.Http.init
  let out ← IO.getStdout
  for line in lines do
    if line.startsWith "<" then continue
    let ws := words line
    if ws.isEmpty then continue
    let (d', o) := exec d ws
    d := d'
    for l in o do out.putStrLn l
    out.putStrLn "--"

end Driver.HttpDrv
