import MuduoVerif.Model.Poller
import Driver.Util
/-! `drv_poller <epoll|poll>`: the dispatch-engine model behind the line protocol of harness/poller_drv.cc -/
namespace Driver.PollerDrv
open MuduoVerif.Poller Driver

structure St where
  m : State
  created : List Nat      -- user channel numbers, ascending
  env : List String

/-- protocol name of a model channel id -/
def nm (c : Nat) : String := if c = 0 then "t" else if c = 1 then "w" else toString (c - 2)

def parseName (s : String) : Option Nat :=
  if s = "t" then some 0 else if s = "w" then some 1 else s.toNat?.map (· + 2)

def opName : OpKind → String
  | .enableR => "enableR" | .disableR => "disableR" | .enableW => "enableW" | .disableW => "disableW"
  | .disableAll => "disableAll" | .remove => "remove" | .recreate => "recreate"

def parseOp : String → Option OpKind
  | "enableR" => some .enableR | "disableR" => some .disableR | "enableW" => some .enableW
  | "disableW" => some .disableW | "disableAll" => some .disableAll | "remove" => some .remove
  | "recreate" => some .recreate | _ => none

def kindName : Kind → String
  | .close => "close" | .error => "error" | .read => "read" | .write => "write"

def parseKind : String → Option Kind
  | "close" => some .close | "error" => some .error | "read" => some .read | "write" => some .write | _ => none

def ctlName (op : Nat) : String := if op = ctlADD then "ADD" else if op = ctlDEL then "DEL" else if op = ctlMOD then "MOD" else toString op

def resName : CtlRes → String
  | .ok => "ok" | .eexist => "EEXIST" | .enoent => "ENOENT"

def evLine : Ev → List String
  | .ctl op c mask res => [s!"ctl {ctlName op} {nm c} {mask} {resName res}"]
  | .syserr => ["syserr"]
  | .fatal => ["fatal"]
  | .abort what => [s!"# {what}", "abort"]
  | .op c k ev idx => [s!"op {nm c} {opName k} ev={ev} idx={idx}"]
  | .reject c k => [s!"reject {nm c} {opName k}"]
  | .cb c k rev ev => if c < 2 then [] else [s!"cb {nm c} {kindName k} rev={rev} ev={ev}"]
  | .wait size t => [s!"wait {size} {t}"]
  | .grow _ => []
  | .badEnv => ["bad-env"]

def allIds (s : St) : List Nat := [0, 1] ++ s.created.map (· + 2)

def watchLine (s : St) : String :=
  match s.m.be with
  | .poll =>
    "watch" ++ String.join (s.m.pollfds.map fun (fd, ev) =>
      if fd < 0 then s!" ~{nm (-fd - 1).toNat}:{ev}" else s!" {nm fd.toNat}:{ev}")
  | .epoll =>
    "watch" ++ String.join ((allIds s).filterMap fun c =>
      match s.m.kernel (fdOf c) with
      | some mask => some s!" {nm c}:{mask}"
      | none => none)

def idxLine (s : St) : String :=
  "idx" ++ String.join ((s.created.map (· + 2)).map fun c => s!" {nm c}:{(s.m.chans c).index}")

def parseReady : List String → Option (List (Nat × Nat))
  | [] => some []
  | w :: rest =>
    match w.splitOn ":" with
    | [a, b] =>
      match parseName a, b.toNat?, parseReady rest with
      | some c, some r, some l => some ((c, r) :: l)
      | _, _, _ => none
    | _ => none

def insertSorted (x : Nat) : List Nat → List Nat
  | [] => [x]
  | y :: ys => if x ≤ y then x :: y :: ys else y :: insertSorted x ys

def flush (s : St) : St × List String :=
  ({ s with m := { s.m with out := [] } }, (s.m.out.map evLine).flatten)

def exec (s : St) (ws : List String) : St × List String :=
  match ws with
  | ["chan", i, _] =>
    match i.toNat? with
    | some k => if s.created.contains k then (s, ["reject"]) else ({ s with created := insertSorted k s.created }, [s!"chan {k}"])
    | none => (s, ["bad-op"])
  | ["op", i, what] =>
    match parseName i, parseOp what with
    | some c, some k =>
      if c < 2 ∨ ¬ s.created.contains (c - 2) then (s, ["bad-op"])
      else flush { s with m := step s.m (.op c k) }
    | _, _ => (s, ["bad-op"])
  | ["op", i, what, "in", j, kind] =>
    match parseName i, parseOp what, parseName j, parseKind kind with
    | some c, some k, some jj, some kk =>
      if c < 2 ∨ jj < 2 ∨ ¬ s.created.contains (c - 2) ∨ ¬ s.created.contains (jj - 2) then (s, ["bad-op"])
      else ({ s with m := step s.m (.hook { j := jj, kind := kk, c := c, op := k }) }, ["hook"])
    | _, _, _, _ => (s, ["bad-op"])
  | "peer" :: _ => (s, [])
  | ["iter"] =>
    match s.env with
    | e :: rest =>
      match words e with
      | "<" :: "poll" :: n :: entries =>
        match n.toNat?, parseReady entries with
        | some nret, some ready =>
          let w := watchLine s
          let (s1, ls) := flush { s with env := rest, m := step s.m (.iter ready nret) }
          if s1.m.dead then (s1, [w] ++ ls)
          else (s1, [w] ++ ls ++ [s!"st iteration={s1.m.iteration}", idxLine s1])
        | _, _ => (s, ["bad-env"])
      | _ => (s, ["bad-env"])
    | [] => (s, ["bad-env"])
  | _ => (s, ["bad-op"])

def main (args : List String) (lines : Array String) : IO Unit := do
  let be := if args.head? = some "poll" then Backend.poll else Backend.epoll
  let mut s : St := { m := init be, created := [], env := [] }
  let out ← IO.getStdout
  for line in lines do
    if s.m.dead then break
    if line.startsWith "<" then
      s := { s with env := s.env ++ [line] }
    else
      let ws := words line
      if ws.isEmpty then continue
      let (s', o) := exec s ws
      s := s'
      for l in o do out.putStrLn l
      out.putStrLn "--"

end Driver.PollerDrv
