import Driver.Util
/-! `drv_http`: not built yet -/
def main : IO UInt32 := do
  IO.eprintln "drv_http: engine not implemented"
  return 2
