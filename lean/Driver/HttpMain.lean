import Driver.HttpDrv
open Driver

def main : IO UInt32 := do
  let lines ← readLines (← IO.getStdin) #[]
  HttpDrv.main lines
  return 0
