import Driver.Util
/-! `drv_timer`: not built yet -/
def main : IO UInt32 := do
  IO.eprintln "drv_timer: engine not implemented"
  return 2
