import Driver.TimerDrv
open Driver

def main : IO UInt32 := do
  let lines ← readLines (← IO.getStdin) #[]
  TimerDrv.main lines
  return 0
