import Driver.AsynclogDrv
open Driver

def main : IO UInt32 := do
  let lines ← readLines (← IO.getStdin) #[]
  AsynclogDrv.main lines
  return 0
