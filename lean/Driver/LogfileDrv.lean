import MuduoVerif.Model.LogFile
import Driver.Util
/-! `drv_logfile`: the LogFile model behind the line protocol of harness/logfile_drv.cc -/
namespace Driver.LogfileDrv
open MuduoVerif.LogFile Driver

structure DSt where
  st : Option St := none
  cfg : Cfg := { rollSize := 0, flushInterval := 0, checkEveryN := 1 }
  /-- every `< time v` of the whole input, in order -/
  times : Array Int
  /-- index of the first clock value of the current instance -/
  base : Nat := 0
  /-- clock values consumed by earlier instances and rejected constructions -/
  fws : List FwRes := []
  /-- the instance exists (constructed and not yet destroyed) -/
  live : Bool := false

def clkOf (d : DSt) : Nat → Int := fun i => d.times.getD (d.base + i) 0

def evLine : Ev → Option String
  | .time _ => none
  | .opened n => some s!"open {n}"
  | .closed n k => some s!"close {n} {k}"
  | .flushed n k => some s!"flush {n} {k}"
  | .fw n off req k => some s!"fw {n} {off} {req} {k}"
  | .failed _ => none

/-- the events a step added, oldest first -/
def newEvents (old new : St) : List String :=
  ((new.log.take (new.log.length - old.log.length)).reverse).filterMap evLine

def stLine (s : St) : String := s!"st ticks={s.tick}"

def exec (d : DSt) (ws : List String) : DSt × List String :=
  match ws with
  | ["new", rs, fi, cn, _] =>
    match rs.toInt?, fi.toInt?, cn.toInt? with
    | some a, some b, some c =>
      -- a new instance starts reading the clock where the previous one stopped
      let base := match d.st with
        | some s => d.base + s.tick
        | none => d.base
      let d1 := { d with base := base, cfg := { rollSize := a, flushInterval := b, checkEveryN := c }, fws := [] }
      -- an instance that is still alive is destroyed first
      let pre := match d.st with
        | some s => if d.live then newEvents s (close s) else []
        | none => []
      match init (clkOf d1) with
      | some s => ({ d1 with st := some s, live := true }, pre ++ (s.log.reverse.filterMap evLine) ++ [stLine s])
      | none => ({ d1 with st := none, live := false, base := base + 1 }, pre ++ ["reject"])
    | _, _, _ => (d, ["bad-op"])
  | "times" :: _ => (d, [])
  | "script" :: _ => (d, [])
  | ["append", x] =>
    match (if d.live then d.st else none), parseBytes x with
    | some s, some rec =>
      let s' := step d.cfg (clkOf d) s (.append rec d.fws)
      ({ d with st := some s', fws := [] }, newEvents s s' ++ [stLine s'])
    | none, some _ => (d, ["reject"])
    | _, none => (d, ["bad-op"])
  | ["flush"] =>
    match (if d.live then d.st else none) with
    | some s => let s' := step d.cfg (clkOf d) s .flush; ({ d with st := some s' }, newEvents s s' ++ [stLine s'])
    | none => (d, ["reject"])
  | ["roll"] =>
    match (if d.live then d.st else none) with
    | some s => let s' := step d.cfg (clkOf d) s .roll; ({ d with st := some s' }, newEvents s s' ++ [stLine s'])
    | none => (d, ["reject"])
  | ["destroy"] =>
    match d.st with
    | some s => if d.live then let s' := close s; ({ d with st := some s', live := false }, newEvents s s') else (d, [])
    | none => (d, [])
  | ["files"] =>
    match d.st with
    | some s => (d, s.files.map fun f => s!"file {f.name} {f.content.length} {fnv64 f.content}")
    | none => (d, [])
  | _ => (d, ["bad-op"])

def main (lines : Array String) : IO Unit := do
  let mut times : Array Int := #[]
  for line in lines do
    match words line with
    | ["<", "time", v] => times := times.push (v.toInt?.getD 0)
    | _ => pure ()
  let mut d : DSt := { times := times }
  let out ← IO.getStdout
  for line in lines do
    let ws := words line
    if ws.isEmpty then continue
    match ws with
    | ["<", "time", _] => pure ()
    | ["<", "fw", n, e] => d := { d with fws := d.fws ++ [{ n := n.toNat?.getD 0, err := e == "1" }] }
    | "<" :: _ => pure ()
    | _ =>
      let (d', o) := exec d ws
      d := d'
      for l in o do out.putStrLn l
      out.putStrLn "--"

end Driver.LogfileDrv
