import MuduoVerif.Model.Pool
import Driver.Util
/-! `drv_pool`: the EventLoopThreadPool selection model behind the line protocol of harness/pool_drv.cc

    start <n>   → started <n>            (n ≤ 64: the implementation side creates n threads)
    next        → loop <base|w<i>|oob<i>>
    next <k>    → loops <r₁> … <r_k>     (k ≤ 10000; `nextSeq`/`afterNext` of the model)
    hash <h>    → loop <r>               (h < 2^64: a `size_t`)
    all         → all <r₁> …
    anything else, or a query before the first `start` → bad-op
-/
namespace Driver.PoolDrv
open MuduoVerif.Pool Driver

def maxThreads : Nat := 64
def maxBurst : Nat := 10000

def showRef : LoopRef → String
  | .base => "base"
  | .worker i => s!"w{i}"
  | .oob i => s!"oob{i}"

def joined (tag : String) (rs : List LoopRef) : String :=
  rs.foldl (fun acc r => acc ++ " " ++ showRef r) tag

/-- plain decimal numbers only (no sign, no `_`) -/
def parseNat (s : String) : Option Nat :=
  if s.isEmpty ∨ ¬ s.all Char.isDigit then none else s.toNat?

def exec (s : Option Pool) (ws : List String) : Option Pool × String :=
  match ws, s with
  | ["start", n], _ => match parseNat n with
    | some k => if k ≤ maxThreads then (some (start k), s!"started {k}") else (s, "bad-op")
    | none => (s, "bad-op")
  | ["next"], some p => let (r, p') := getNextLoop p; (some p', "loop " ++ showRef r)
  | ["next", k], some p => match parseNat k with
    | some k => if k ≤ maxBurst then (some (afterNext p k), joined "loops" (nextSeq p k)) else (s, "bad-op")
    | none => (s, "bad-op")
  | ["hash", h], some p => match parseNat h with
    | some h => if h < 2 ^ 64 then (s, "loop " ++ showRef (getLoopForHash p h)) else (s, "bad-op")
    | none => (s, "bad-op")
  | ["all"], some p => (s, joined "all" (getAllLoops p))
  | _, _ => (s, "bad-op")

def main (lines : Array String) : IO Unit := do
  let mut s : Option Pool := none
  let out ← IO.getStdout
  for line in lines do
    if line.startsWith "<" then continue
    let ws := words line
    if ws.isEmpty then continue
    let (s', o) := exec s ws
    s := s'
    out.putStrLn o
    out.putStrLn "--"

end Driver.PoolDrv
