import MuduoVerif.Model.AsyncLog
import Driver.Util
/-! `drv_asynclog`: the transition system of Model/AsyncLog.lean behind the line protocol of
    harness/asynclog_drv.cc, scheduled exactly like harness/sched/detsched.h:

    decision = pick one move from  [current thread, if enabled] ++ [other enabled threads by index]
               ++ [time-out of the waiting back-end] ++ [its spurious wake-up, only after `log spurious`];
    with n ≥ 2 moves one schedule entry e is consumed and move e mod n taken; an exhausted schedule yields 0.
    A scheduled thread runs to its next yield point (lock statement, wait, named point, join, exit).
    Threads: T0 main (its ops, then joins the appenders, then destroys the object), T1..Tk appenders,
    T<k+1> the back-end (created by `start`; it runs first up to its first lock, then a decision is taken in
    which T0 counts as the current thread).
-/
namespace Driver.AsynclogDrv
open MuduoVerif.AsyncLog MuduoVerif.Gen.AsyncLog Driver

inductive MainOp where
  | start | stop | app (len : Nat)

structure CaseDef where
  valid : Bool := false
  spurious : Bool := false
  hasMain : Bool := false
  main : Array MainOp := #[]
  threads : Array (Array Nat) := #[]

/-- where T0 stands -/
inductive MPc where
  | op (i : Nat)        -- at the yield point / lock statement of its i-th op
  | inStart (i : Nat)   -- inside `start()`, the back-end has just been created
  | stopJoin (i : Nat)  -- inside `stop()`, at `thread_.join()`
  | joinApp (k : Nat)   -- joining appender k
  | destroyPt           -- at the yield point before the destruction
  | destroyJoin         -- inside the destructor's `stop()`, at `thread_.join()`
  | fin
  deriving Repr

structure Sch where
  s : St
  mpc : MPc
  mseq : Nat := 0
  apc : Array Nat
  sched : List Nat
  cur : Nat := 0
  out : Array String := #[]
  printed : Nat := 0

inductive Move where
  | run (t : Nat) | timeout | spurious

def parseInt (s : String) (lo hi : Nat) : Option Nat :=
  if s.isEmpty ∨ s.length > 9 ∨ ¬ s.all Char.isDigit then none
  else match s.toNat? with
    | some v => if lo ≤ v ∧ v ≤ hi then some v else none
    | none => none

section run
variable (c : CaseDef)

def nApp : Nat := c.threads.size
def backIdx : Nat := c.threads.size + 1

def norm : MPc → MPc
  | .op i => if i < c.main.size then .op i else if c.threads.size = 0 then .destroyPt else .joinApp 1
  | .joinApp k => if k ≤ c.threads.size then .joinApp k else .destroyPt
  | p => p

def appDone (x : Sch) (k : Nat) : Bool := x.apc.getD (k - 1) 0 ≥ (c.threads.getD (k - 1) #[]).size

def backAlive (x : Sch) : Bool := x.s.pc ≠ .idle ∧ x.s.pc ≠ .done

def enabledRun (x : Sch) (t : Nat) : Bool :=
  if t = 0 then
    match x.mpc with
    | .op _ | .inStart _ | .destroyPt => true
    | .stopJoin _ | .destroyJoin => (step x.s .stopJoin).isSome
    | .joinApp k => appDone c x k
    | .fin => false
  else if t ≤ c.threads.size then !appDone c x t
  else if t = backIdx c then
    match x.s.pc with
    | .test | .enter | .swapped | .final => true
    | .waiting => x.s.woken
    | _ => false
  else false

def moves (x : Sch) : List Move :=
  let ts := List.range (c.threads.size + 2)
  let runs := (if enabledRun c x x.cur then [x.cur] else []) ++ ts.filter (fun t => t ≠ x.cur ∧ enabledRun c x t)
  let unsig : Bool := x.s.pc = .waiting ∧ x.s.woken = false
  runs.map Move.run ++ (if unsig then [Move.timeout] else []) ++ (if unsig ∧ c.spurious then [Move.spurious] else [])

def itemText : Item → String
  | .record r => s!"{r.tid}.{r.seq}"
  | .note n => s!"note:{n}"

def frontText (s : St) : String :=
  s!"cur={if s.curOk then toString (used s.cur) else "-1"} queued={s.bufs.length} next={if s.hasNext then 1 else 0}"

def say (x : Sch) (l : String) : Sch := { x with out := x.out.push l }

/-- report what has newly reached the files -/
def sayWrote (x : Sch) (pre : String) : Sch :=
  let fresh := (x.s.disk.take x.s.flushed).drop x.printed
  let x := say x (fresh.foldl (fun acc i => acc ++ " " ++ itemText i) pre)
  { x with printed := max x.printed x.s.flushed }

def stepD (s : St) (a : Step) : St := (step s a).getD s

def doAppend (x : Sch) (t seq len : Nat) : Sch :=
  let s := stepD x.s (.front ⟨t, seq, len⟩)
  say { x with s := s } s!"T{t} append {seq} {len} {frontText s}"

def afterCollect (x : Sch) : Sch :=
  let b := backIdx c
  if x.s.pc = .waiting then say x s!"T{b} wait" else say x s!"T{b} swapped {frontText x.s}"

def wake (x : Sch) (kind : Nat) : Sch :=
  let b := backIdx c
  let x := say x s!"T{b} wake {if kind = 0 then "notified" else if kind = 1 then "timeout" else "spurious"}"
  let x := { x with s := stepD x.s (.wake kind) }
  say x s!"T{b} swapped {frontText x.s}"

def execRun (x : Sch) (t : Nat) : Sch :=
  let x := { x with cur := t }
  if t = 0 then
    match x.mpc with
    | .op i =>
      match c.main[i]? with
      | some (.app len) =>
        let x := doAppend x 0 x.mseq len
        { x with mseq := x.mseq + 1, mpc := norm c (.op (i + 1)) }
      | some .start =>
        let s := stepD x.s .start
        -- the new thread runs first, up to its first lock
        let s := if s.pc = .test then stepD s .test else s
        { x with s := s, mpc := .inStart i }
      | some .stop =>
        let x := say { x with s := stepD x.s .stopCall } "T0 stop-call"
        { x with mpc := .stopJoin i }
      | none => { x with mpc := norm c (.op i) }
    | .inStart i => { say x "T0 start" with mpc := norm c (.op (i + 1)) }
    | .stopJoin i => { say { x with s := stepD x.s .stopJoin } "T0 stop-return" with mpc := norm c (.op (i + 1)) }
    | .joinApp k => { x with mpc := norm c (.joinApp (k + 1)) }
    | .destroyPt =>
      let x := say x s!"T0 destroy running={if x.s.running then 1 else 0}"
      if x.s.running ∧ dtorStopsIfRunning then { x with s := stepD x.s .stopCall, mpc := .destroyJoin }
      else { say x "T0 destroyed" with mpc := .fin }
    | .destroyJoin => { say { x with s := stepD x.s .stopJoin } "T0 destroyed" with mpc := .fin }
    | .fin => x
  else if t ≤ c.threads.size then
    let j := x.apc.getD (t - 1) 0
    let len := (c.threads.getD (t - 1) #[]).getD j 1
    let x := doAppend x t j len
    { x with apc := x.apc.setIfInBounds (t - 1) (j + 1) }
  else
    let b := backIdx c
    match x.s.pc with
    | .enter => afterCollect c { x with s := stepD x.s .enter }
    | .waiting => wake c x 0
    | .swapped => sayWrote { x with s := stepD x.s .write } s!"T{b} wrote"
    | .test => { x with s := stepD x.s .test }
    | .final => sayWrote { x with s := stepD x.s .final } s!"T{b} exit wrote"
    | _ => x

def stateText (x : Sch) : String :=
  let m := match x.mpc with
    | .op _ => "op" | .inStart _ => "run" | .stopJoin _ | .destroyJoin => s!"join(T{backIdx c})"
    | .joinApp k => s!"join(T{k})" | .destroyPt => "run(op)" | .fin => "waitall"
  s!"T0:{m} back-end:{repr x.s.pc}"

partial def loop (x : Sch) : Array String :=
  if x.s.fault then x.out.push "<<fault>>"
  else
    let allApp := (List.range c.threads.size).all (fun k => appDone c x (k + 1))
    match x.mpc with
    | .fin =>
      if allApp ∧ !backAlive x then x.out.push "done" else go x
    | _ => go x
where
  go (x : Sch) : Array String :=
    let mv := moves c x
    let progress := mv.any (fun m => match m with | .spurious => false | _ => true)
    if !progress then x.out.push ("blocked " ++ stateText c x)
    else
      let n := mv.length
      let (k, x) := if n ≥ 2 then (x.sched.headD 0 % n, { x with sched := x.sched.tail }) else (0, x)
      match mv[k]? with
      | some (.run t) => loop (execRun c x t)
      | some .timeout => loop (wake c { x with cur := backIdx c } 1)
      | some .spurious => loop (wake c { x with cur := backIdx c } 2)
      | none => x.out.push "<<driver: no move>>"

def runCase (sched : List Nat) : Array String :=
  loop c { s := init asyncBufferSize, mpc := norm c (.op 0), apc := Array.replicate c.threads.size 0, sched := sched }

end run

/-! ### the line protocol -/

def kMaxThreads : Nat := 8
def kMaxOps : Nat := 400
def kMaxLen : Nat := 8000000
def kLongFormat : Nat := 24

def parseMain (ws : List String) : Option (Array MainOp) :=
  let rec go (ws : List String) (starts stops : Nat) (acc : Array MainOp) : Option (Array MainOp) :=
    match ws with
    | [] => some acc
    | "start" :: rest => if starts ≥ 1 ∨ stops ≥ 1 then none else go rest (starts + 1) stops (acc.push .start)
    | "stop" :: rest => if stops ≥ 1 ∨ starts = 0 then none else go rest starts (stops + 1) (acc.push .stop)
    | "a" :: l :: rest =>
      match parseInt l 1 kMaxLen with
      | some len => go rest starts stops (acc.push (.app len))
      | none => none
    | _ => none
  match go ws 0 0 #[] with
  | some a => if a.size > kMaxOps then none else some a
  | none => none

def parseLens (ws : List String) : Option (Array Nat) :=
  let rec go (ws : List String) (acc : Array Nat) : Option (Array Nat) :=
    match ws with
    | [] => some acc
    | "a" :: l :: rest =>
      match parseInt l 1 kMaxLen with
      | some len => go rest (acc.push len)
      | none => none
    | _ => none
  match go ws #[] with
  | some a => if a.isEmpty ∨ a.size > kMaxOps then none else some a
  | none => none

def shorts (c : CaseDef) : Nat :=
  (c.main.toList.filter (fun o => match o with | .app l => l < kLongFormat | _ => false)).length +
  (c.threads.toList.map (fun t => (t.toList.filter (· < kLongFormat)).length)).sum

def main (lines : Array String) : IO Unit := do
  let mut cur : CaseDef := {}
  for line in lines do
    let ws := words line
    if ws.isEmpty then continue
    let mut ok := false
    match ws with
    | ["log"] => cur := { valid := true }; ok := true
    | ["log", "spurious"] => cur := { valid := true, spurious := true }; ok := true
    | "log" :: _ => cur := {}
    | "main:" :: rest =>
      if cur.valid ∧ !cur.hasMain then
        match parseMain rest with
        | some ops =>
          if ops.isEmpty then ok := true
          else cur := { cur with main := ops, hasMain := true }; ok := true
        | none => pure ()
    | "thread" :: kw :: rest =>
      if cur.valid ∧ kw.endsWith ":" ∧ rest.length ≥ 2 then
        match parseInt (kw.dropEnd 1).toString 1 kMaxThreads with
        | some k =>
          if k = cur.threads.size + 1 then
            match parseLens rest with
            | some lens => cur := { cur with threads := cur.threads.push lens }; ok := true
            | none => pure ()
        | none => pure ()
    | "schedule" :: rest =>
      if cur.valid then
        let vals := rest.map (fun w => parseInt w 0 999999999)
        if vals.all Option.isSome ∧ shorts cur ≤ 120 then
          ok := true
          for l in runCase cur (vals.filterMap id) do
            IO.println l
    | _ => pure ()
    if !ok then IO.println "bad-op"
    IO.println "--"

end Driver.AsynclogDrv
