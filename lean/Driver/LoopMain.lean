import Driver.Util
/-! `drv_loop`: not built yet -/
def main : IO UInt32 := do
  IO.eprintln "drv_loop: engine not implemented"
  return 2
