import Driver.LoopDrv
open Driver

def main : IO UInt32 := do
  let lines ← readLines (← IO.getStdin) #[]
  LoopDrv.main lines
