import Driver.Util
/-! `drv_acceptor`: not built yet -/
def main : IO UInt32 := do
  IO.eprintln "drv_acceptor: engine not implemented"
  return 2
