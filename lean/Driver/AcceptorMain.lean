import Driver.AcceptorDrv
open Driver

def main (args : List String) : IO UInt32 := do
  let lines ← readLines (← IO.getStdin) #[]
  AcceptorDrv.main lines args
  return 0
