import MuduoVerif.Model.Conn
import Driver.Util
/-! `drv_conn`: the TcpConnection model behind the line protocol of harness/conn_drv.cc -/
namespace Driver.ConnDrv
open MuduoVerif.Conn MuduoVerif.Gen.Conn Driver

structure St where
  c : Conn
  env : List (List String)     -- pending environment lines (tokenised)
  peerClosed : Bool := false
  wroteLen : Nat := 0
  wroteHash : UInt64 := 14695981039346656037

def errnoOf (s : String) : Nat :=
  match s with
  | "EAGAIN" => 11 | "EINTR" => 4 | "EPIPE" => 32 | "ECONNRESET" => 104
  | _ => (s.drop 1).toString.toNat?.getD 0

def parseAct : List String → Option Act
  | ["send", d] => (parseBytes d).map .send
  | ["send", d, _] => (parseBytes d).map .send
  | ["shutdown"] => some .shutdown
  | ["forceClose"] => some .forceClose
  | ["forceCloseDelay", us] => us.toNat?.map .forceCloseDelay
  | ["stopRead"] => some .stopRead
  | ["startRead"] => some .startRead
  | ["setwc", k] => k.toNat?.map .setWc
  | ["sethwm", k, m] => match k.toNat?, m.toNat? with
    | some k, some m => some (.setHwm k m)
    | _, _ => none
  | _ => none

def parseCb : String → Option Cb
  | "up" => some .up | "msg" => some .msg | "wc" => some .wc | "hwm" => some .hwm | "down" => some .down
  | _ => none

def showEv : Ev → Option String
  | .up => some "cb UP"
  | .msg n h => some s!"cb MSG {n} {h}"
  | .wc k => some s!"cb WC {k}"
  | .hwm k n => some s!"cb HWM {k} {n}"
  | .down => some "cb DOWN"
  | .closeCb => some "cb CLOSE"
  | .destroyed => some "destroyed"
  | .sysShutdownWr => some "sys shutdownWr"
  | .sysClose => some "sys close"
  | .abort w => some s!"abort {w}"
  | .uaf w => some s!"uaf {w}"
  | _ => none

/-- feed the environment lines recorded for this step into the model; returns the poll result too -/
def feedEnv (c : Conn) (env : List (List String)) : Conn × List Src × List Nat × Option Nat :=
  env.foldl (fun (acc : Conn × List Src × List Nat × Option Nat) ws =>
    let (c, act, reqs, pw) := acc
    match ws with
    | ["<", "write", req, res] =>
      let r : WriteRes := match res.toNat? with
        | some n => .took n
        | none => .err (errnoOf res)
      (step c (.envWrite r), act, reqs ++ [req.toNat?.getD 0], pw)
    | ["<", "readv", res] =>
      let r : ReadRes := match res.toNat? with
        | some n => .got n
        | none => .err (errnoOf res)
      (step c (.envRead r), act, reqs, pw)
    | "<" :: "poll" :: rest =>
      let srcs := rest.filterMap (fun t =>
        if t = "timer" then some Src.timer
        else match t.splitOn ":" with
          | ["conn", r] => r.toNat?.map Src.conn
          | _ => none)
      (c, act ++ srcs, reqs, pw)
    | ["<", "peerWrote", n] => (c, act, reqs, n.toNat?)
    | _ => acc) (c, [], [], none)

def stLine (s : St) : String :=
  let c := s.c
  let head :=
    if c.alive then
      let st := match c.st with
        | .kConnected => "C" | .kDisconnected => "D" | _ => "X"
      s!"st state={st} backlog={c.outBuf.length} inbuf={c.inBuf.length}"
    else "st state=gone backlog=0 inbuf=0"
  if s.peerClosed then head ++ " peer_got=closed fin=-"
  else head ++ s!" peer_got={s.wroteLen}:{s.wroteHash} fin={if !c.alive then "-" else if c.shutWr then "1" else "0"}"

def exec (s : St) (ws : List String) : St × List String :=
  let (c0, active, reqs, peerWrote) := feedEnv s.c s.env
  let tlen := c0.trace.length
  let c0 := { c0 with starved := false }
  let (c1, bad, s) : Conn × Bool × St := match ws with
    | ["config", wc, hwm, mark] =>
      -- the harness installs callback 1 (or leaves the member empty)
      ({ c0 with hasWC := wc = "1", wcId := if wc = "1" then 1 else 0,
                 hasHWM := hwm = "1", hwmId := if hwm = "1" then 1 else 0, mark := mark.toNat?.getD 0 }, false, s)
    | ["establish"] => (step c0 .establish, false, s)
    | "act" :: who :: rest =>
      match parseAct rest with
      | some a => (step c0 (.act (who = "F") a), false, s)
      | none => (c0, true, s)
    | "hook" :: cb :: rest =>
      match parseCb cb, parseAct rest with
      | some k, some a => (step c0 (.hook k a), false, s)
      | _, _ => (c0, true, s)
    | ["setRetrieve", n] => (step c0 (.setRetrieve (n.toNat?.getD 0)), false, s)
    | ["peerWrite", d] =>
      match parseBytes d with
      | some bs => (step c0 (.peerWrite (bs.take (peerWrote.getD 0))), false, s)
      | none => (c0, true, s)
    | ["peerShutWr"] => (c0, false, s)
    | ["peerClose"] => (c0, false, { s with peerClosed := true })
    | "script" :: _ => (c0, false, s)
    | ["advance", us] => (step c0 (.advance (us.toNat?.getD 0)), false, s)
    | ["ownerDestroy"] => (step c0 .ownerDestroy, false, s)
    | ["iter"] => (step c0 (.iter active), false, s)
    | _ => (c0, true, s)
  let newEvs := c1.trace.drop tlen
  let outs := newEvs.filterMap showEv
  -- consistency of the environment with what the model asked for
  let modelReqs := newEvs.filterMap (fun e => match e with | .sysWrite req _ => some req | _ => none)
  let diag : List String :=
    (if bad then ["bad-op"] else []) ++
    (if c1.starved then ["env-starved: the model made a system call the implementation did not make"] else []) ++
    (if c1.writes ≠ [] ∨ c1.reads ≠ [] then ["env-unconsumed: the implementation made a system call the model did not make"] else []) ++
    (if modelReqs ≠ reqs.take modelReqs.length then ["env-req-mismatch: model wrote " ++ toString modelReqs ++ ", implementation " ++ toString reqs] else [])
  let c1 := { c1 with writes := [], reads := [] }
  let delta := c1.wrote.drop s.wroteLen
  let newHash : UInt64 := delta.foldl (fun h b => (h ^^^ b.toUInt64) * 1099511628211) s.wroteHash
  let newLen : Nat := c1.wrote.length
  let s' : St := { c := c1, env := [], peerClosed := s.peerClosed, wroteLen := newLen, wroteHash := newHash }
  (s', outs ++ diag ++ (if c1.dead then [] else [stLine s']))

def main (lines : Array String) (args : List String) : IO Unit := do
  let be : Backend := if args.contains "poll" then .poll else .epoll
  let asserts := !(args.contains "ndebug")
  let mut s : St := { c := { be := be, asserts := asserts }, env := [] }
  let out ← IO.getStdout
  for line in lines do
    let ws := words line
    if ws.isEmpty then continue
    if line.startsWith "<" then
      s := { s with env := s.env ++ [ws] }
    else
      let (s', o) := exec s ws
      s := s'
      for l in o do out.putStrLn l
      out.putStrLn "--"
      if s.c.dead then break   -- the process aborted

end Driver.ConnDrv
