import Driver.Util
/-! `drv_codec`: not built yet -/
def main : IO UInt32 := do
  IO.eprintln "drv_codec: engine not implemented"
  return 2
