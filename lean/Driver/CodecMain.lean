import Driver.CodecDrv
open Driver

def main : IO UInt32 := do
  let lines ← readLines (← IO.getStdin) #[]
  CodecDrv.main lines
  return 0
