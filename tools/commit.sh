#!/bin/bash
# regenerate every Generated/*.lean from /repo (mutation runs of VERIF_REPO copies rewrite them), then commit
cd /verif
python3 -m vlib.extract 2>&1 | grep -v "^WARN" | grep -v " ok$"
./check --manifest > /dev/null
git add -A
git commit -qm "$1"
git log --oneline | head -1
