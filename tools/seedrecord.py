#!/usr/bin/env python3
"""Record one seeding wave under /verif/seeded/ and print the detection table for DESIGN.md 14.5.

    tools/seedrecord.py <wave dir> <wave tag, e.g. w5> <detection result files...>

<wave dir>/<id>.out/m<k>_{patch.diff,demo.cc,writeup.md} are the seeder's deliverables, <wave dir>/<id>.confirm.<k>/confirm.json
what tools/seedconfirm.sh measured, the detection files hold the lines tools/seeddetect.sh printed.  NOTES (below) say what
the first run of the property's own check missed and what was built in response."""
import glob
import json
import os
import re
import shutil
import sys

NOTES = {
    "C03-m2": "first run: T1 only (no history paused/resumed a half-closed connection; C03 had no oracle for 'keeps receiving'): "
              "half-closed pause blocks + keeps_receiving oracle",
    "C04-m2": "first run: T1/proof only (the model's loop thread ended when loop() returned): re-entry of loop() brought into the Loop engine",
    "C05-m2": "first run: LoopSkel tie only: `selfquit` scenario (a pool destroyed after one of its io loops ended on its own)",
    "C08-m2": "first run: MISSED entirely (policy `sync` allowed the notification outside the lock; every scenario joined its threads "
              "before the latch died): CountDownLatch::condition_ is `guarded mutex_`, TSan scenario CountDownLatch::shortlived",
    "C09-m1": "C09's own check: PollerSkel tie only (its harness has no interrupted poll); the concrete replay comes from C11 (poll EINTR)",
    "C10-m1": "first run: tie only + the oracle crashed on the harness's `readFd-error` line: oracle clauses readFd-error / readFd-cap, "
              "boundary generator at writable + 64 KiB",
    "C10-m2": "first run: tie only (single-threaded harness): free-running multi-thread readFd scenario (`mtReadFd`)",
    "C11-m1": "first run: `crash`; after the Client engine was extended for F33 only model/implementation disagreements (the oracle had no "
              "clause for 'an attempt whose SO_ERROR is non-zero is never reported as a connection'): oracle clause failed-attempt-handed-over",
    "C14-m1": "first run: tie only - the harness names the condition variables after the members and no longer compiled: "
              "anonymous-sync fallback build, oracle judges by operation",
    "C15-m1": "tie only, and rightly so: with the change the queued tasks run between the call of stop() and its return, which the "
              "property as stated allows ('stop() returns ... after which no queued task starts'); reported as `unproved`, no failing input exists",
    "C17-m1": "first run: T1 only (every `thread` request ran on a fresh thread): persistent `worker` thread kind",
    "C18-m2": "first run: T1 only (the reference decoder used the codec's own parse verdict): verdicts from protobuf's ParseFromArray, "
              "oracle clause codec-parse-verdict, payloads with bytes after a complete message",
    "C19-m1": "first run: T1 only (no reconnect in the alphabet): `reconn` op",
    "C19-m2": "first run: T1/proof only (`idFetch` tie; the callmt scenarios - 2-4 threads, one call each - do not hit a window of a few "
              "instructions): oracle-only `idstress` (6-8 threads x 4000-6000 concurrent calls on one channel, ids read from the wire)",
    "C20-m2": "first run: SysSkel tie only (no scope ids in the alphabet): `ip6 <text> <port> <scope>`",
}


NOTES_W6 = {
    "C02-m1": "C02's own check: ConnSkel / hold-kind tie only (the single-connection harness keeps a reference); the concrete replay is C12's "
              "(~TcpClient as the sole owner), as for the earlier weak-forceClose change C03-w2m2",
    "C06-m1": "a repeat of F4 / C07-m2 (sequence read after the hand-over): C06's check reports the broken tie; the use-after-free is C07's (`crash`, ASan)",
    "C16-m1": "first run: T1 only (`AsyncLog` extraction refuses the new declaration in threadFunc; every generated overload history had ONE "
              "overload pass): two-burst overload programs with schedules that let the back-end finish its first pass before the second burst",
}


def main():
    wave, tag = sys.argv[1], sys.argv[2]
    global NOTES
    if tag == "w6":
        NOTES = NOTES_W6
    det = {}
    lines = []
    for f in sys.argv[3:]:
        if os.path.isdir(f):
            # the logs kept by tools/seeddetect.sh: <id>-m<k>.<check>.log
            for lg in sorted(glob.glob(os.path.join(f, "*.log"))):
                mm = re.match(r"(C\d\d)-m(\d)\.(C\d\d)\.log$", os.path.basename(lg))
                if mm:
                    txt = open(lg, errors="replace").read()
                    v = [l for l in txt.split("\n") if l.startswith("VIOLATION ")]
                    ok = any(l.startswith("OK property=") for l in txt.split("\n"))
                    lines.append("%s-m%s check=%s rc=%d t=0s :: %s" % (mm.group(1), mm.group(2), mm.group(3), 0 if ok and not v else 1, ";".join(v)))
        else:
            lines += open(f).read().split("\n")
    for line in lines:
        if True:
            m = re.match(r"(C\d\d)-m(\d) check=(C\d\d) rc=(\d+) t=(\d+)s :: (.*)$", line.strip())
            if not m:
                continue
            sid, k, chk, rc, secs, rest = m.groups()
            viol = re.findall(r"VIOLATION property=(C\d\d) replay=\S*/(C\d\d-[^/\s;]+?)-[0-9a-f]{12}\.txt( no-failing-input-found)?", rest)
            kinds = [(v[1].split("-", 1)[1], bool(v[2])) for v in viol]
            det.setdefault((sid, int(k)), {})[chk] = {"rc": int(rc), "seconds": int(secs), "kinds": kinds}
    rows = []
    for out in sorted(glob.glob(os.path.join(wave, "C??.out"))):
        sid = os.path.basename(out)[:3]
        for k in (1, 2):
            patch = os.path.join(out, "m%d_patch.diff" % k)
            conf = os.path.join(wave, "%s.confirm.%d" % (sid, k), "confirm.json")
            if not os.path.exists(patch) or not os.path.exists(conf):
                continue
            c = json.loads(open(conf).read().strip().split("\n")[-1])
            confirmed = (c["apply_ok"] and c["baseline_demo_exits"].split() == ["0"] * 3 and "0" not in c["mutated_demo_exits"].split()
                         and c["project_build_rc"] == 0 and c["ctest_rc"] == 0)
            name = "%s-%sm%d" % (sid, tag, k)
            dst = os.path.join("seeded", name)
            os.makedirs(dst, exist_ok=True)
            shutil.copy(patch, os.path.join(dst, "patch.diff"))
            shutil.copy(os.path.join(out, "m%d_demo.cc" % k), os.path.join(dst, "demo.cc"))
            shutil.copy(os.path.join(out, "m%d_writeup.md" % k), os.path.join(dst, "writeup.md"))
            title = open(os.path.join(out, "m%d_writeup.md" % k)).readline().strip().lstrip("# ")
            title = re.sub(r"^(C\d\d\s*/\s*)?[mM]\d\s*[-—–:]*\s*", "", title)
            title = re.sub(r"^[mM]\d\s*[-—–:]*\s*", "", title)
            d = det.get((sid, k), {})
            detection = []
            for chk, r in sorted(d.items(), key=lambda x: (x[0] != sid, x[0])):
                concrete = [kd for kd, nf in r["kinds"] if not nf]
                detection.append({"check": chk, "verdict": "VIOLATION" if r["kinds"] else ("none" if r["rc"] == 0 else "?"),
                                  "replay_kind": (concrete or [kd for kd, _ in r["kinds"]] or ["-"])[0],
                                  "concrete_failing_input": bool(concrete), "seconds": r["seconds"]})
            meta = {
                "property": sid, "mutation": "wave %s m%d" % (tag[1:], k), "title": title, "files_changed": c["files_changed"].split(),
                "base_commit_of_patch": "/repo f021457" if tag == "w5" else "/repo 0cd9f18",
                "written_by": "independent sub-agent given only the property text, a list of earlier ideas not to repeat and a scratch git "
                              "worktree of /repo (no access to /verif); wave %s" % tag[1:],
                "needs_to_manifest": "see writeup.md",
                "confirmed_in_scratch_worktree": dict(c, confirmed=confirmed, how="tools/seedconfirm.sh: patch applies; demonstration built "
                                                      "against the unchanged sources exits 0 three times; project build (release flags, -Werror) of the "
                                                      "libraries and the 11 registered test executables + ctest pass with the patch; demonstration built "
                                                      "against the changed sources fails three times"),
                "checks_run": "scratch copy of /repo's sources (at b26ebea where the patch allows) with patch.diff applied; "
                              "VERIF_REPO=<copy> ./check <id> --tier quick (tools/seeddetect.sh)",
                "detection": detection, "note": NOTES.get("%s-m%d" % (sid, k), ""),
            }
            with open(os.path.join(dst, "meta.json"), "w") as f:
                json.dump(meta, f, indent=1)
            by = "; ".join("%s `%s`%s" % (x["check"], x["replay_kind"], "" if x["concrete_failing_input"] else " (no concrete input)")
                           for x in detection if x["verdict"] == "VIOLATION") or "NOT REPORTED"
            note = NOTES.get("%s-m%d" % (sid, k))
            rows.append("| %s %s | %s%s |" % (name, title.replace("|", "/"), by, (" — " + note) if note else ""))
            if not confirmed:
                rows[-1] += "  <!-- NOT CONFIRMED: %s -->" % json.dumps(c)[:200]
    print("\n".join(rows))


if __name__ == "__main__":
    main()
