#!/usr/bin/env python3
"""tools/coverage.py — regenerate /verif/COVERAGE.md: which functions of muduo are tied to the Lean model, and how.

Static report (no check is run, nothing under lean/ or /repo is written).  Sources of every column:

  inventory   clang-14 JSON AST (the same `ast_dump` the T1 translator uses, filter `muduo` and `(anonymous namespace)`)
              of every in-scope translation unit; every function definition with a body, located by file/offset
              (clang's delta-encoded locations are resolved in dump order).  Definitions the filters cannot see (global
              scope, e.g. examples/protobuf/codec/codec.cc) are found by a small lexer and dumped by name.
  T / G / S   (a) every definition of lean/MuduoVerif/Generated/<Engine>.lean, classified by its Lean type, attributed to
              the C++ function(s) its doc comment quotes;  (b) *ablation* of every generator vlib/gen/<engine>.py: the
              generator is re-run in-process on the cached AST with the body of one function emptied (and, when that
              changes nothing, removed): the generator "reads" the function iff its output changes or it raises.
              (a) gives the names, (b) confirms them, tells overloads apart (when the generator does not raise, the
              definitions whose text changed belong to the emptied function) and finds functions that are read but
              quoted nowhere.  A skeleton generator's call of its sibling's `generate()` (site registry) is evaluated once,
              so a function only the sibling reads counts for the sibling.  The Race engine is not ablated (see A).
  caches      .build/coverage/inventory-*.json, ablation-*.json (keyed by the hash of /repo's sources, of vlib/**/*.py and
              of this file); clang dumps are shared with the translator's cache .build/ast.  Warm: ~1 s; derived caches
              cold, clang cache warm: ~17 s; everything cold: ~25 s (16 cores).
  S (proof)   `theorem skeleton_<def>` / `theorem tie_<def>` in lean/MuduoVerif (any file), else the files that use it.
  A           rows of Generated/Race.lean (`rows*`: cls, fn, file, line) located inside the function's line range.
  X           harness/*.cc|*.h mention the class (identifier) and call the method name (`.m(` / `->m(` / `::m(`);
              constructors/destructors: the class is mentioned; free functions: called by name.  Comments and string
              literals are stripped.  A conservative approximation of "is driven by that harness".
  anchors     properties.jsonl: `anchors.files` (file level), names quoted in `anchors.mechanism[].where` (function
              level; the line numbers there are those of the original tree and are not used).

usage:  python3 tools/coverage.py [--out FILE] [--no-ablation] [--jobs N] [--no-cache]
"""
import argparse
import collections
import glob
import hashlib
import importlib
import json
import os
import pkgutil
import re
import sys
import time
import traceback
from concurrent.futures import ProcessPoolExecutor

VERIF = os.path.dirname(os.path.dirname(os.path.abspath(__file__)))
sys.path.insert(0, VERIF)

from vlib import extract                                   # noqa: E402
from vlib.common import BUILD, LEAN, REPO, sha              # noqa: E402
from vlib.extract import ExtractError                       # noqa: E402

GEN_DIR = os.path.join(LEAN, "MuduoVerif", "Generated")
LIB_DIR = os.path.join(LEAN, "MuduoVerif")
CACHE = os.path.join(BUILD, "coverage")
HARNESS = os.path.join(VERIF, "harness")

SCOPE = ["muduo/base/*.cc", "muduo/base/*.h", "muduo/net/*.cc", "muduo/net/*.h", "muduo/net/poller/*.cc",
         "muduo/net/poller/*.h", "muduo/net/http/*.cc", "muduo/net/http/*.h", "muduo/net/protobuf/*.cc",
         "muduo/net/protobuf/*.h", "muduo/net/protorpc/*.cc", "muduo/net/protorpc/*.h", "examples/protobuf/codec/codec.cc"]
EXCLUDE = re.compile(r"(_test|_unittest|_bench)\.cc$|/tests/")
FILTERS = ("muduo", "(anonymous namespace)")
FN_KINDS = ("CXXMethodDecl", "FunctionDecl", "CXXConstructorDecl", "CXXDestructorDecl", "CXXConversionDecl")
RECORD_KINDS = ("CXXRecordDecl", "ClassTemplateSpecializationDecl", "ClassTemplatePartialSpecializationDecl")
# Lean element types of a generated list that stands for the statements of a function, in order
STMT_LIST = ("Skel", "Stmt", "Op", "IdleOp", "ImplStep", "TidStep")
NO_ABLATION = ("Race",)                                     # its table rows name file and line of every access
CHUNK = 24


# ============================================================================ clang JSON: locations, names

def kids(n):
    return [c for c in (n.get("inner") or []) if isinstance(c, dict) and c.get("kind")]


def body_of(n):
    for c in kids(n):
        if c.get("kind") == "CompoundStmt":
            return c
    return None


def resolve_locs(docs):
    """id(node) -> ((file, line, offset) of loc, (file, line, offset) of range.begin, ... of range.end).
    clang prints `file` and `line` only when they differ from the previous printed location: replay in print order."""
    st = [None, None]
    table = {}

    def loc(v):
        if "spellingLoc" in v or "expansionLoc" in v:
            res = None
            for k, x in v.items():
                if k in ("spellingLoc", "expansionLoc") and isinstance(x, dict):
                    r = loc(x)
                    if k == "expansionLoc":
                        res = r
            return res
        if "file" in v:
            st[0] = v["file"]
        if "line" in v:
            st[1] = v["line"]
        if "offset" not in v:
            return None
        return (st[0], st[1], v["offset"])

    def node(n):
        l = b = e = None
        for k, v in n.items():
            if k == "loc" and isinstance(v, dict):
                l = loc(v)
            elif k == "range" and isinstance(v, dict):
                for kk, vv in v.items():
                    if kk == "begin" and isinstance(vv, dict):
                        b = loc(vv)
                    elif kk == "end" and isinstance(vv, dict):
                        e = loc(vv)
            elif k == "inner" and isinstance(v, list):
                for c in v:
                    if isinstance(c, dict):
                        node(c)
            elif isinstance(v, dict):
                other(v)
            elif isinstance(v, list):
                for c in v:
                    if isinstance(c, dict):
                        other(c)
        if l or b:
            table[id(n)] = (l, b, e)

    def other(v):
        if "loc" in v or "range" in v or "inner" in v:
            node(v)
        else:
            for x in v.values():
                if isinstance(x, dict):
                    other(x)
                elif isinstance(x, list):
                    for c in x:
                        if isinstance(c, dict):
                            other(c)
    for d in docs:
        node(d)
    return table


def rel(path):
    if path is None:
        return None
    path = os.path.normpath(path)
    r = os.path.normpath(REPO)
    if path.startswith(r + os.sep):
        return path[len(r) + 1:]
    return path


def count_statements(n):
    """statements in a function body: members of every block plus unbraced bodies of control statements"""
    k = n.get("kind")
    ks = kids(n)
    total = 0
    if k == "CompoundStmt":
        for c in ks:
            if c.get("kind") != "CompoundStmt":
                total += 1
            total += count_statements(c)
        return total
    subs = []
    if k == "IfStmt":
        subs = ks[-2:] if n.get("hasElse") else ks[-1:]
    elif k in ("WhileStmt", "ForStmt", "CXXForRangeStmt", "SwitchStmt", "CaseStmt", "DefaultStmt", "LabelStmt"):
        subs = ks[-1:]
    elif k == "DoStmt":
        subs = ks[:1]
    elif k == "CXXTryStmt":
        subs = ks
    elif k == "CXXCatchStmt":
        subs = ks[-1:]
    for c in subs:
        if c.get("kind") != "CompoundStmt":
            total += 1
        total += count_statements(c)
    return total


def params_of(fn):
    t = (fn.get("type") or {}).get("qualType", "")
    i = t.find("(")
    if i < 0:
        return "()"
    depth = 0
    for j in range(i, len(t)):
        if t[j] == "(":
            depth += 1
        elif t[j] == ")":
            depth -= 1
            if depth == 0:
                tail = t[j + 1:].strip()
                return t[i:j + 1] + (" const" if tail.startswith("const") else "")
    return t[i:]


def function_defs(docs, locs=None, default_ctx=()):
    """[(node, record)] for every function definition in the dump; record = dict(file, line, end, offset, name, ctx,
    params, nstmts, inst).  ctx = list of enclosing namespace/record names; inst = inside a template instantiation."""
    locs = locs if locs is not None else resolve_locs(docs)
    qual_of, ctx_of, rec_ctx = {}, {}, {}

    def index(n, ctx, inst):
        k = n.get("kind")
        if k == "NamespaceDecl":
            c = ctx + [n.get("name") or "(anonymous namespace)"]
            if n.get("id"):
                qual_of[n["id"]] = (c, inst)
            for x in kids(n):
                index(x, c, inst)
        elif k in RECORD_KINDS:
            base = qual_of[n["parentDeclContextId"]][0] if n.get("parentDeclContextId") in qual_of else ctx
            c = base + [n.get("name") or "(anonymous)"]
            i2 = inst or k == "ClassTemplateSpecializationDecl"
            if n.get("id") and (kids(n) or n["id"] not in qual_of):
                qual_of[n["id"]] = (c, i2)
                rec_ctx[id(n)] = c
            for x in kids(n):
                index(x, c, i2)
        elif k in FN_KINDS:
            if n.get("id"):
                ctx_of.setdefault(n["id"], (ctx, inst))
        else:
            for x in kids(n):
                if x.get("kind") in ("NamespaceDecl", "LinkageSpecDecl", "ClassTemplateDecl", "FunctionTemplateDecl",
                                     "FriendDecl") or x.get("kind") in RECORD_KINDS or x.get("kind") in FN_KINDS:
                    index(x, ctx, inst)
    for d in docs:
        index(d, [], False)

    out, seen = [], set()

    def visit(n, ctx, inst, in_fn_template_inst):
        k = n.get("kind")
        if k == "NamespaceDecl":
            c = ctx + [n.get("name") or "(anonymous namespace)"]
            for x in kids(n):
                visit(x, c, inst, False)
        elif k in RECORD_KINDS:
            c = rec_ctx.get(id(n)) or ctx + [n.get("name") or "(anonymous)"]
            i2 = inst or k == "ClassTemplateSpecializationDecl"
            for x in kids(n):
                visit(x, c, i2, False)
        elif k == "FunctionTemplateDecl":
            first = True
            for x in kids(n):
                if x.get("kind") in FN_KINDS:
                    visit(x, ctx, inst, not first)
                    first = False
        elif k in FN_KINDS:
            b = body_of(n)
            if b is None or n.get("isImplicit") or id(n) in seen:
                return
            seen.add(id(n))
            c, i2 = ctx, inst
            if n.get("parentDeclContextId") in qual_of:
                c, i2 = qual_of[n["parentDeclContextId"]]
            elif n.get("previousDecl") in ctx_of:
                c, i2 = ctx_of[n["previousDecl"]]
            elif not c and default_ctx:
                c = list(default_ctx)
            l = locs.get(id(n))
            if not l or not l[0] or l[0][0] is None:
                return
            (f, line, off), beg, end = l
            out.append((n, dict(file=rel(f), line=line, end=(end[1] if end and end[0] == f else line), offset=off,
                                name=n.get("name", "?"), ctx=list(c), params=params_of(n),
                                nstmts=count_statements(b), inst=bool(i2 or in_fn_template_inst),
                                kind=k)))
        else:
            for x in kids(n):
                if x.get("kind") in ("NamespaceDecl", "LinkageSpecDecl", "ClassTemplateDecl", "FunctionTemplateDecl",
                                     "FriendDecl") or x.get("kind") in RECORD_KINDS or x.get("kind") in FN_KINDS:
                    visit(x, ctx, inst, False)
    for d in docs:
        if d.get("kind") in RECORD_KINDS and default_ctx and id(d) in rec_ctx and len(rec_ctx[id(d)]) == 1:
            rec_ctx[id(d)][:0] = list(default_ctx)
        visit(d, [], False, False)
    return out


# ============================================================================ inventory

def scope_files():
    files = set()
    for p in SCOPE:
        for f in glob.glob(os.path.join(REPO, p)):
            r = rel(f)
            if os.path.isfile(f) and r.endswith((".cc", ".h")) and not EXCLUDE.search(r):
                files.add(r)
    return sorted(files)


def extra_inc():
    inc = []
    for d in ("gen-t1", "gen-example-codec"):
        p = os.path.join(BUILD, d)
        if os.path.isdir(p):
            inc.append(p)
    return tuple(inc)


def dump(tu, flt):
    try:
        return extract.ast_dump(tu, flt, extra_inc=extra_inc())
    except ExtractError:
        return []


def strip_code(text, keep_strings=False):
    """C++ source without comments (and string/char literals), same length and line structure"""
    out = []
    i, n = 0, len(text)
    while i < n:
        c = text[i]
        if text.startswith("//", i):
            j = text.find("\n", i)
            j = n if j < 0 else j
            out.append(" " * (j - i))
            i = j
        elif text.startswith("/*", i):
            j = text.find("*/", i + 2)
            j = n if j < 0 else j + 2
            out.append(re.sub(r"[^\n]", " ", text[i:j]))
            i = j
        elif c in "\"'":
            j = i + 1
            while j < n and text[j] != c:
                j += 2 if text[j] == "\\" else 1
            j = min(j + 1, n)
            out.append(text[i:j] if keep_strings else c + re.sub(r"[^\n]", " ", text[i + 1:j - 1]) + c)
            i = j
        else:
            out.append(c)
            i += 1
    return "".join(out)


HEAD = re.compile(r"((?:[A-Za-z_]\w*\s*::\s*)*(?:~\s*)?(?:operator\s*(?:[^\s\w(]+|\(\s*\)|\w+)|[A-Za-z_]\w*))\s*\($")
NOT_FN = {"if", "for", "while", "switch", "catch", "return", "sizeof", "defined", "static_assert", "decltype",
          "alignof", "__attribute__", "noexcept", "throw", "assert", "typeof", "__typeof__"}


def lexed_definitions(path):
    """[(line, qualified-name-as-written)] of function definitions outside every class body, found without clang:
    `name ( … ) [const|noexcept|override|: init-list] {` at a brace depth that consists of namespace/extern blocks only"""
    with open(os.path.join(REPO, path), errors="replace") as f:
        text = strip_code(f.read())
    text = re.sub(r"^[ \t]*#[^\n]*(?:\\\n[^\n]*)*", lambda m: re.sub(r"[^\n]", " ", m.group(0)), text, flags=re.M)
    res = []
    stack = []                      # kind of every open brace: 'ns' | 'other'
    i, n = 0, len(text)
    stmt_start = 0                  # offset where the current top-level declaration began
    while i < n:
        c = text[i]
        if c == "{":
            head = text[stmt_start:i]
            if all(s == "ns" for s in stack):
                hs = head.strip()
                if re.match(r"^(?:inline\s+)?namespace\b[^;(]*$", hs) or re.match(r'^extern\s*"[^"]*"\s*$', hs):
                    stack.append("ns")
                    i += 1
                    stmt_start = i
                    continue
                # find the parameter list: first '(' at paren depth 0 that follows a name
                m = None
                depth = 0
                for j, ch in enumerate(head):
                    if ch == "(":
                        if depth == 0:
                            mm = HEAD.search(head[:j + 1])
                            if mm and m is None:
                                m = (mm, j)
                        depth += 1
                    elif ch == ")":
                        depth -= 1
                if m and not re.match(r"^\s*(?:class|struct|union|enum)\b", hs) and "=" not in head[:m[1]]:
                    name = re.sub(r"\s+", "", m[0].group(1))
                    if name.split("::")[-1] not in NOT_FN:
                        line = text.count("\n", 0, stmt_start + m[0].start(1)) + 1
                        res.append((line, name))
            stack.append("other")
            i += 1
            continue
        if c == "}":
            if stack:
                stack.pop()
            i += 1
            if all(s == "ns" for s in stack):
                stmt_start = i
            continue
        if c == ";" and all(s == "ns" for s in stack):
            stmt_start = i + 1
        i += 1
    return res


def _inventory_tu(tu):
    """worker: function records seen from one translation unit (all files it includes)"""
    recs = []
    for flt in FILTERS:
        docs = dump(tu, flt)
        for _, r in function_defs(docs, default_ctx=(flt,) if flt.startswith("(") else ()):
            recs.append(r)
    return tu, recs


def _inventory_named(args):
    tu, names = args
    recs = []
    for nm in names:
        for _, r in function_defs(dump(tu, nm)):
            recs.append(r)
    return tu, recs


def build_inventory(jobs, use_cache=True):
    files = scope_files()
    with open(os.path.abspath(__file__)) as fh:
        me = fh.read()
    key = sha(extract.tree_hash() + "|".join(files) + sha(me))[:20]
    os.makedirs(CACHE, exist_ok=True)
    path = os.path.join(CACHE, "inventory-%s.json" % key)
    if use_cache and os.path.exists(path):
        with open(path) as f:
            d = json.load(f)
        return d["files"], d["functions"], d["notes"]
    inscope = set(files)
    notes = []
    table = {}

    def add(recs):
        for r in recs:
            if r["file"] not in inscope:
                continue
            k = "%s:%d" % (r["file"], r["offset"])
            old = table.get(k)
            if old is None or (old["inst"] and not r["inst"]):
                table[k] = r
    ccs = [f for f in files if f.endswith(".cc")]
    with ProcessPoolExecutor(max_workers=jobs) as ex:
        seen_files = set()
        for tu, recs in ex.map(_inventory_tu, ccs):
            add(recs)
            seen_files.update(r["file"] for r in recs)
        # headers no .cc of the scope includes (or whose inline functions were never reached): wrap them in a TU
        tu_dir = os.path.join(CACHE, "tu")
        os.makedirs(tu_dir, exist_ok=True)
        wrappers = []
        for h in files:
            if h.endswith(".h"):
                w = os.path.join(tu_dir, h.replace("/", "__") + ".cc")
                content = '#include "%s"\n' % h
                if not os.path.exists(w) or open(w).read() != content:
                    with open(w, "w") as f:
                        f.write(content)
                wrappers.append(w)
        for tu, recs in ex.map(_inventory_tu, wrappers):
            add(recs)
        # definitions the namespace filters cannot see (global scope): lexer cross-check, then dump by name
        missing = {}
        for f in files:
            have = {r["line"] for r in table.values() if r["file"] == f}
            for line, name in lexed_definitions(f):
                if not any(abs(line - h) <= 3 for h in have) and f.endswith(".cc"):
                    missing.setdefault(f, set()).add(name.split("::")[0] if "::" in name else name)
        for tu, recs in ex.map(_inventory_named, [(f, sorted(v)) for f, v in sorted(missing.items())]):
            before = len(table)
            add([r for r in recs if r["file"] == tu])
            notes.append("%s: %d definition(s) outside `namespace muduo` located by name (%s)"
                         % (tu, len(table) - before, ", ".join(sorted(missing[tu]))))
        for f in files:
            have = {r["line"] for r in table.values() if r["file"] == f}
            lost = [(l, nm) for l, nm in lexed_definitions(f) if not any(abs(l - h) <= 3 for h in have)]
            if lost and f.endswith(".cc"):
                notes.append("%s: the lexer sees definitions clang did not report: %s"
                             % (f, ", ".join("%s (line %d)" % (nm, l) for l, nm in lost)))
    with open(path + ".tmp", "w") as f:
        json.dump({"files": files, "functions": table, "notes": notes}, f)
    os.replace(path + ".tmp", path)
    return files, table, notes


# ============================================================================ names

DROP_NS = ("muduo", "net")


def short_ctx(ctx):
    c = list(ctx)
    while c and c[0] in DROP_NS:
        c = c[1:]
    return c


def display(rec, with_params):
    q = "::".join(short_ctx(rec["ctx"]) + [rec["name"]])
    return q + (rec["params"] if with_params else "")


def norm_sig(s):
    s = re.sub(r"\b(?:muduo::net::|muduo::|std::|struct |class |enum )", "", s)
    return re.sub(r"\s+", "", s)


class Index:
    def __init__(self, table):
        self.table = table
        self.by_name = collections.defaultdict(list)
        for k, r in table.items():
            self.by_name[r["name"]].append(k)
        self.by_file = collections.defaultdict(list)
        for k, r in table.items():
            self.by_file[r["file"]].append(k)
        for f in self.by_file:
            self.by_file[f].sort(key=lambda k: (table[k]["line"], table[k]["offset"]))
        self.overloaded = set()
        cnt = collections.Counter((r["file"], tuple(r["ctx"]), r["name"]) for r in table.values())
        for k, r in table.items():
            if cnt[(r["file"], tuple(r["ctx"]), r["name"])] > 1:
                self.overloaded.add(k)

    def name(self, k):
        return display(self.table[k], k in self.overloaded)

    def lookup(self, token, scope=None, allow_bare=False):
        """keys of the functions a quoted C++ name may denote.  token: `A::b`, `A::b(T, U)`, `b()`, `~A`, `b`"""
        t = re.sub(r"\s+-\s+\d+\s+instantiations?\b.*$", "", token.strip())      # `f<..> - 6 instantiations, all agree`
        sig = None
        m = re.match(r"^(.*?operator\s*\(\s*\))(\(.*\))?\s*(const)?$", t) or re.match(r"^(.*?)(\(.*\))\s*(const)?$", t)
        if m:
            t, sig = m.group(1).strip(), (m.group(2) or "") + (" const" if m.group(3) else "")
            sig = sig or None
        t = re.sub(r"<[^<>]*>", "", t)
        if t.startswith("operator") or "::operator" in t:
            head, _, op = t.rpartition("operator")
            op = op.strip()
            comps = [c for c in head.split("::") if c] + ["operator" + (" " + op if op[:1].isalnum() or op[:1] == "_" else op)]
        else:
            if not re.match(r"^(?:[A-Za-z_]\w*::)*~?[A-Za-z_]\w*$", t):
                return []
            comps = t.split("::")
        name = comps[-1]
        cands = []
        for k in self.by_name.get(name, []):
            ctx = [c for c in self.table[k]["ctx"]]
            pre = comps[:-1]
            if not pre or ctx[len(ctx) - len(pre):] == pre:
                cands.append(k)
        if scope is not None:
            inside = [k for k in cands if k in scope]
            if inside:
                cands = inside
            elif len(comps) == 1 and not allow_bare:
                return []
        elif len(comps) == 1 and not allow_bare:
            return []
        if sig and len(cands) > 1:
            def plist(x):
                x = norm_sig(x)
                return x[:-5] if x.endswith("const") else x
            def arity(x):
                x = plist(x)[1:-1]
                if not x:
                    return 0
                depth, n = 0, 1
                for ch in x:
                    depth += ch in "(<[" and 1 or (ch in ")>]" and -1 or 0)
                    n += ch == "," and depth == 0
                return n
            exact = [k for k in cands if norm_sig(self.table[k]["params"]) == norm_sig(sig)] or \
                [k for k in cands if plist(self.table[k]["params"]) == plist(sig)] or \
                [k for k in cands if arity(self.table[k]["params"]) == arity(sig)]
            if exact:
                cands = exact
        return sorted(cands)

    def containing(self, file_base, line, cls=None):
        """function whose line range contains `line` in a file with that base name"""
        res = []
        for f, ks in self.by_file.items():
            if os.path.basename(f) != file_base:
                continue
            for k in ks:
                r = self.table[k]
                if r["line"] <= line <= r["end"]:
                    res.append(k)
        if len(res) > 1 and cls:
            better = [k for k in res if cls in self.table[k]["ctx"]]
            res = better or res
        return res


# ============================================================================ Generated/*.lean

DEF_RE = re.compile(r"^(?:@\[[^\]]*\]\s*)?(?:private\s+|protected\s+|noncomputable\s+)*(def|abbrev|inductive|structure|theorem|instance)\b\s*(\S*)")


def classify_def(kw, binders, rtype):
    rt = rtype.strip()
    if kw in ("inductive", "structure"):
        return "G"
    m = re.match(r"^List\s+(\w+)$", rt)
    if m and m.group(1) in STMT_LIST:
        return "S"
    if rt in ("Prop", "Bool"):
        return "G"
    if "→" in rt or rt.startswith("List") or "×" in rt:
        return "T"
    if binders:
        return "T"
    return "G"


def parse_generated(path):
    """[(namespace, name, kind, doc, lineno, group)] for every def/abbrev/inductive/structure of a generated file"""
    with open(path) as f:
        lines = f.read().split("\n")
    res = []
    ns = ""
    doc = None
    doc_line = -10
    i = 0
    group = 0
    last_def_line = -10
    while i < len(lines):
        ln = lines[i]
        if ln.startswith("namespace "):
            ns = ln.split()[1]
        if ln.startswith("/--"):
            j = i
            buf = [ln]
            while "-/" not in lines[j]:
                j += 1
                buf.append(lines[j])
            doc = " ".join(x.strip() for x in buf)
            doc = doc[3:doc.rfind("-/")].strip()
            doc_line = j
            i = j + 1
            continue
        m = DEF_RE.match(ln)
        if m and m.group(1) in ("def", "abbrev", "inductive", "structure"):
            kw, name = m.group(1), m.group(2)
            head = ln
            j = i
            while ":=" not in head and " where" not in head and j + 1 < len(lines) and not re.match(r"^\s*\|", lines[j + 1]) \
                    and lines[j + 1].strip() and kw in ("def", "abbrev"):
                j += 1
                head += " " + lines[j].strip()
            sig = head.split(":=")[0]
            sig = sig[sig.find(name) + len(name):]
            depth, colon = 0, -1
            for p, ch in enumerate(sig):
                if ch in "([{":
                    depth += 1
                elif ch in ")]}":
                    depth -= 1
                elif ch == ":" and depth == 0:
                    colon = p
                    break
            binders = sig[:colon].strip() if colon >= 0 else sig.strip()
            rtype = sig[colon + 1:].strip() if colon >= 0 else ""
            own_doc = doc if doc_line == i - 1 else None
            if own_doc is None and i - 1 != last_def_line:
                group += 1                                   # a blank line / other text: new group
            elif own_doc is not None:
                group += 1
            res.append(dict(ns=ns, name=name, kind=classify_def(kw, binders, rtype), doc=own_doc, line=i + 1,
                            group=group, kw=kw, rtype=rtype))
            # where does this definition end?  (one-liners: here; instance lines that follow belong to it)
            last_def_line = i
            k2 = i + 1
            while k2 < len(lines) and (lines[k2].startswith("instance") or (lines[k2].startswith(" ") and lines[k2].strip())):
                last_def_line = k2
                k2 += 1
            pat = re.compile(r"(?<![\w.'])" + re.escape(name) + r"(?![\w'])")
            res[-1]["used_here"] = any(pat.search(x) for q, x in enumerate(lines) if (q < i or q > last_def_line)
                                       and not x.lstrip().startswith(("--", "/--")))
        i += 1
    return res


def def_blocks(text):
    """{namespace|name: text of the definition} of a generated Lean text"""
    res, ns, cur, buf = {}, "", None, []
    for ln in text.split("\n"):
        if ln.startswith("namespace "):
            ns = ln.split()[1]
        m = DEF_RE.match(ln)
        if m and m.group(1) in ("def", "abbrev", "inductive", "structure"):
            if cur:
                res[cur] = "\n".join(buf)
            cur, buf = ns + "|" + m.group(2), [ln]
        elif ln.startswith(("/--", "end ", "namespace ")):
            if cur:
                res[cur] = "\n".join(buf)
            cur, buf = None, []
        elif cur:
            buf.append(ln)
    if cur:
        res[cur] = "\n".join(buf)
    return res


TOKEN = re.compile(r"`([^`]+)`")


def attribute_defs(engine, defs, idx, scope, positives, changed=None):
    """for every generated definition the functions its doc comment quotes -> [(def, [(key, sure)])]
    positives: functions the generator demonstrably reads (None when the ablation is not available)"""
    out = []
    prev = []            # attribution of the previous definition (continuations, doc-less members of a group)
    prev_group = None
    ctors = [k for k in (positives or {}) if k in idx.table and idx.table[k]["kind"] == "CXXConstructorDecl"]

    def resolve(tok):
        ks = idx.lookup(tok, scope=scope)
        if not ks:
            # a quoted declaration such as `int getJulianDayNumber(int year, …)`: take the declarator
            m2 = re.match(r"^[\w:<>\s\*&]*?((?:\w+::)*~?\w+)\s*\((.*)\)\s*(const)?$", tok)
            if m2:
                ks = idx.lookup(m2.group(1), scope=scope)
        if len(ks) > 1 and positives:
            pk = [k for k in ks if k in positives]
            if pk:
                ks = pk
        return ks
    for d in defs:
        doc = d["doc"]
        att = []
        d["mentions"] = []
        if doc is None:
            if prev_group == d["group"]:
                att = [(k, s) for k, s in prev]
        elif re.match(r"^(\.\.\.|…)", doc):
            att = [(k, s) for k, s in prev]
        else:
            # head = text up to the first ':' outside back-ticks
            intick, headend = False, len(doc)
            for p, ch in enumerate(doc):
                if ch == "`":
                    intick = not intick
                elif ch == ":" and not intick and doc[p:p + 2] != "::" and doc[max(p - 1, 0):p + 1] != "::":
                    headend = p
                    break
            has_colon = headend < len(doc)
            head_hits, tail_hits = [], []
            for m in TOKEN.finditer(doc):
                ks = resolve(m.group(1))
                if ks:
                    (head_hits if m.start() < headend else tail_hits).append(ks)
            if head_hits:
                first = True
                for ks in head_hits:
                    sure = (has_colon or first) and len(ks) == 1
                    att += [(k, sure) for k in ks]
                    first = False
            elif re.match(r"^constructor\b", doc) and len(ctors) == 1:
                att = [(ctors[0], False)]
            elif tail_hits:
                att = [(k, False) for k in tail_hits[0]]
            d["mentions"] = [k for ks in tail_hits for k in ks]
        seen, att2 = set(), []
        for k, s in att:
            if k not in seen:
                seen.add(k)
                att2.append((k, s))
        out.append((d, att2))
        if att2 or doc is not None:
            prev, prev_group = att2, d["group"]
    if positives is not None:
        # an uncertain attribution the ablation does not confirm is dropped; a function the generator reads that no head
        # quotes takes the definitions whose doc comment mentions it anywhere; where emptying one function changed the
        # text of a definition (and the generator did not raise) that is the attribution
        changed = changed or {}
        by_def = collections.defaultdict(list)
        for k, names in changed.items():
            for nm in names:
                by_def[nm].append(k)
        have = {k for _, att in out for k, _ in att}
        out2 = []
        for d, att in out:
            att = [(k, s) for k, s in att if s or k in positives]
            dk = d["ns"] + "|" + d["name"]
            hit = [k for k in by_def.get(dk, []) if k in idx.table]
            if hit:
                if any(not s for _, s in att) and any(k in hit for k, _ in att):
                    att = [(k, True if k in hit else s) for k, s in att if s or k in hit]
                elif not att and len(hit) <= 3:
                    att = [(k, True) for k in sorted(hit)]
            for k in d.get("mentions", []):
                if k in positives and k not in have and k not in [x for x, _ in att]:
                    att.append((k, False))
            out2.append((d, att))
        out = out2
    return out


# ============================================================================ ablation of the generators

def gen_modules():
    from vlib import gen
    mods = {}
    for m in pkgutil.iter_modules(gen.__path__):
        try:
            mod = importlib.import_module("vlib.gen." + m.name)
            mods[mod.NAME] = mod
        except Exception as ex:                              # a generator being edited right now
            mods["?" + m.name] = ex
    return mods


class Tracer:
    """replaces extract.ast_dump everywhere by a memoising, recording version"""

    def __init__(self):
        self.real = extract.ast_dump
        self.memo = {}
        self.calls = []

    def __call__(self, tu, flt, extra_inc=()):
        key = (tu, flt, tuple(extra_inc))
        if key not in self.memo:
            self.memo[key] = self.real(tu, flt, extra_inc)
        if key not in self.calls:
            self.calls.append(key)
        return self.memo[key]

    def install(self):
        for name, mod in list(sys.modules.items()):
            if name.startswith("vlib") and mod is not None and getattr(mod, "ast_dump", None) is self.real:
                setattr(mod, "ast_dump", self)


_W = {}          # per worker process: modules, tracer, results of sibling generators


def _worker_setup():
    """once per process: trace ast_dump; make `sibling.generate()` (a skeleton generator asks the guard generator of the
    same engine for its site registry) run once per task, so that a function only the sibling reads is the sibling's tie"""
    if _W:
        return
    sys.stderr = open(os.devnull, "w")
    mods = gen_modules()
    tr = Tracer()
    tr.install()
    _W.update(mods=mods, tr=tr, sib={}, current=None)
    for name, mod in mods.items():
        if isinstance(mod, Exception):
            continue

        def wrapper(real=mod.generate, name=name):
            if _W["current"] == name:
                return real()
            memo = _W["sib"]
            if name not in memo:
                try:
                    memo[name] = (True, real())
                except Exception as ex:
                    memo[name] = (False, ex)
            ok, v = memo[name]
            if ok:
                return v
            raise v
        mod.generate = wrapper


def run_gen(mod):
    try:
        return "OK:" + mod.generate()
    except ExtractError as ex:
        return "ExtractError:" + str(ex)
    except Exception as ex:
        return "%s:%s" % (type(ex).__name__, ex)


def _candidates(tracer, inscope):
    """key -> [function nodes] over every dump the generator asked for"""
    cands = collections.OrderedDict()
    for key in tracer.calls:
        docs = tracer.memo[key]
        for n, r in function_defs(docs):
            if r["file"] in inscope:
                cands.setdefault("%s:%d" % (r["file"], r["offset"]), []).append(n)
    return cands


def _ablate_chunk(args):
    engine, lo, hi, inscope = args
    _worker_setup()
    mod = _W["mods"].get(engine)
    if mod is None or isinstance(mod, Exception):
        return engine, lo, {"error": "generator module cannot be imported"}
    tr = _W["tr"]
    tr.calls = []
    _W["sib"] = {}
    _W["current"] = engine
    base = run_gen(mod)
    again = run_gen(mod)
    if base != again:
        return engine, lo, {"error": "generator output is not deterministic within one process"}
    cands = _candidates(tr, set(inscope))
    keys = list(cands)
    res = {"baseline": base[:200] if not base.startswith("OK:") else "OK", "ncand": len(keys), "pos": {}, "changed": {},
           "dumps": [[k[0], k[1]] for k in tr.calls], "cands": keys if lo == 0 else [],
           "siblings": sorted(_W["sib"])}
    if not base.startswith("OK:"):
        return engine, lo, res
    base_blocks = def_blocks(base)
    for key in keys[lo:hi]:
        nodes = cands[key]
        bodies = [body_of(n) for n in nodes]
        saved = [b.get("inner") for b in bodies]
        for b in bodies:
            b["inner"] = []
        out = run_gen(mod)
        for b, s in zip(bodies, saved):
            if s is None:
                b.pop("inner", None)
            else:
                b["inner"] = s
        if out != base:
            res["pos"][key] = "body" if out.startswith("OK:") else "body!"      # ! = the generator raised
            if out.startswith("OK:"):
                nb = def_blocks(out)
                res["changed"][key] = sorted(k for k in set(base_blocks) | set(nb) if base_blocks.get(k) != nb.get(k))
            continue
        saved_inner = [n["inner"] for n in nodes]
        for n, b in zip(nodes, bodies):
            n["inner"] = [c for c in n["inner"] if c is not b]
        out = run_gen(mod)
        for n, s in zip(nodes, saved_inner):
            n["inner"] = s
        if out != base:
            res["pos"][key] = "sel"
    check = run_gen(mod)
    if check != base:
        res["error"] = "AST not restored after ablation"
    return engine, lo, res


def run_ablation(inscope, jobs, use_cache=True):
    srcs = sorted(glob.glob(os.path.join(VERIF, "vlib", "gen", "*.py")) + glob.glob(os.path.join(VERIF, "vlib", "*.py"))
                  + [os.path.abspath(__file__)])
    h = hashlib.sha256()
    for s in srcs:
        with open(s, "rb") as f:
            h.update(f.read())
    key = sha(extract.tree_hash() + h.hexdigest())[:20]
    path = os.path.join(CACHE, "ablation-%s.json" % key)
    if use_cache and os.path.exists(path):
        with open(path) as f:
            return json.load(f)
    mods = gen_modules()
    result = {}
    engines = [e for e, m in mods.items() if not isinstance(m, Exception) and e not in NO_ABLATION]
    for e, m in mods.items():
        if isinstance(m, Exception):
            result[e] = {"error": "import failed: %r" % (m,), "pos": {}, "dumps": []}
    with ProcessPoolExecutor(max_workers=jobs) as ex:
        # first chunk of every engine tells how many candidates there are
        firsts = list(ex.map(_ablate_chunk, [(e, 0, CHUNK, inscope) for e in engines]))
        more = []
        for e, lo, res in firsts:
            result[e] = res
            for lo2 in range(CHUNK, res.get("ncand", 0), CHUNK):
                more.append((e, lo2, lo2 + CHUNK, inscope))
        for e, lo, res in ex.map(_ablate_chunk, more):
            result[e]["pos"].update(res.get("pos", {}))
            result[e].setdefault("changed", {}).update(res.get("changed", {}))
            if "error" in res:
                result[e]["error"] = res["error"]
    for e in NO_ABLATION:
        result.setdefault(e, {"baseline": "not ablated", "pos": {}, "dumps": [], "ncand": 0})
    with open(path + ".tmp", "w") as f:
        json.dump(result, f)
    os.replace(path + ".tmp", path)
    return result


def engine_scope(dumps, table):
    """functions inside the translation units (and their same-named headers) a generator dumps"""
    stems = set()
    for tu, flt in dumps:
        r = rel(tu) if os.path.isabs(tu) else tu
        stems.add(os.path.splitext(r)[0])
    return {k for k, r in table.items() if os.path.splitext(r["file"])[0] in stems}


# ============================================================================ Lean side: who uses a generated definition

def lean_consumers():
    texts = {}
    for root, _, fs in os.walk(LIB_DIR):
        if os.path.basename(root) == "Generated":
            continue
        for f in fs:
            if f.endswith(".lean"):
                p = os.path.join(root, f)
                with open(p, errors="replace") as fh:
                    texts[os.path.relpath(p, LIB_DIR)[:-5]] = fh.read()
    drv = os.path.join(LEAN, "Driver")
    for f in sorted(os.listdir(drv)) if os.path.isdir(drv) else []:
        if f.endswith(".lean"):
            with open(os.path.join(drv, f), errors="replace") as fh:
                texts["Driver/" + f[:-5]] = fh.read()
    words = {k: set(re.findall(r"[A-Za-z_][\w']*", t)) for k, t in texts.items()}
    theorems = {}
    for k, t in texts.items():
        for m in re.finditer(r"^theorem\s+((?:skeleton|tie)_[\w']+)", t, re.M):
            theorems.setdefault(m.group(1), k)
    return texts, words, theorems


# ============================================================================ race table

def race_rows(idx):
    path = os.path.join(GEN_DIR, "Race.lean")
    rows = collections.Counter()
    unresolved = collections.Counter()
    other = collections.defaultdict(set)
    if not os.path.exists(path):
        return rows, unresolved, other
    with open(path) as f:
        text = f.read()
    for m in re.finditer(r'\{ cls := "([^"]*)", root := "([^"]*)", rootKind := \.(\w+), fn := "([^"]*)", file := "([^"]*)", line := (\d+),', text):
        cls, root, rk, fn, fb, line = m.groups()
        ks = idx.containing(fb, int(line), cls)
        if len(ks) == 1:
            rows[ks[0]] += 1
        else:
            unresolved["%s::%s %s:%s" % (cls, fn, fb, line)] += 1
    for m in re.finditer(r'\{ cls := "([^"]*)", fn := "([^"]*)", qname := "([^"]*)", kind := \.(\w+) \}', text):
        cls, fn, qn, kind = m.groups()
        for k in idx.lookup(qn.split("(")[0] if "(" not in qn else qn, allow_bare=False):
            other[k].add("root:" + kind)
    for m in re.finditer(r'\{ cls := "([^"]*)", fn := "([^"]*)", check := "([^"]*)", line := (\d+) \}', text):
        cls, fn, check, line = m.groups()
        for k in idx.lookup("%s::%s" % (cls, fn.split("(")[0])):
            if idx.table[k]["line"] <= int(line) <= idx.table[k]["end"] or int(line) == 0:
                other[k].add("confinedOp" if check else "confinedOp(no assert)")
    return rows, unresolved, other


# ============================================================================ harnesses

def harness_index():
    res = {}
    files = sorted(glob.glob(os.path.join(HARNESS, "*.cc")) + glob.glob(os.path.join(HARNESS, "*.h")))
    for p in files:
        with open(p, errors="replace") as f:
            t = strip_code(f.read())
        ids = set(re.findall(r"[A-Za-z_]\w*", t))
        member = set(re.findall(r"(?:\.|->|::)\s*(~?[A-Za-z_]\w*)\s*\(", t))
        # a member function bound as a callback: &Class::method
        member |= set(re.findall(r"&\s*(?:\w+::)+(\w+)", t))
        free = set(re.findall(r"(?<![\w.>:])([A-Za-z_]\w*)\s*\(", t))
        qual = set(re.findall(r"\b([A-Za-z_]\w*)\s*::\s*([A-Za-z_]\w*)\s*\(", t))
        res[os.path.basename(p)] = (ids, member, free, qual)
    return res


def harness_mentions(rec, hidx):
    ctx = [c for c in rec["ctx"] if c not in DROP_NS and not c.startswith("(anonymous")]
    name = rec["name"]
    if any(c.startswith("(anonymous") for c in rec["ctx"]):
        return [], False
    classes = [c for c in ctx if c and c[0].isupper()] if rec["kind"] != "FunctionDecl" else []
    hits, unsure = [], False
    for h, (ids, member, free, qual) in sorted(hidx.items()):
        if rec["kind"] in ("CXXConstructorDecl", "CXXDestructorDecl"):
            ok = name.lstrip("~") in ids
        elif name.startswith("operator"):
            ok = bool(classes) and classes[-1] in ids
            if ok:
                unsure = True
        elif rec["kind"] == "FunctionDecl":
            ok = ((ctx[-1], name) in qual) if ctx else (name in free or ("muduo", name) in qual or ("net", name) in qual)
        else:
            ok = bool(ctx) and ctx[-1] in ids and name in member
        if ok:
            hits.append(h)
    return hits, unsure


# ============================================================================ properties

def load_properties(idx):
    props = []
    file_anchor = collections.defaultdict(list)
    fn_anchor = collections.defaultdict(set)
    with open(os.path.join(VERIF, "properties.jsonl")) as f:
        for ln in f:
            ln = ln.strip()
            if ln:
                props.append(json.loads(ln))
    for p in props:
        pid = p["id"]
        a = p.get("anchors", {})
        for fl in a.get("files", []):
            file_anchor[fl].append(pid)
        for mech in a.get("mechanism", []):
            where = mech.get("where", "")
            ctx_files = None
            last_prefix = []
            for seg in re.split(r";", where):
                fs = re.findall(r"((?:muduo|examples)/[\w/.]+\.(?:cc|h))", seg)
                if fs:
                    ctx_files = set()
                    for x in fs:
                        stem = os.path.splitext(x)[0]
                        ctx_files.update([stem + ".cc", stem + ".h"])
                seg2 = re.sub(r"(?:muduo|examples)/[\w/.]+\.(?:cc|h|proto)(?::[\d,\- ]+)?", " ", seg)
                for m in re.finditer(r"((?:[A-Za-z_]\w*::)*)(~?[A-Za-z_]\w*(?:/~?[A-Za-z_]\w*)*)", seg2):
                    prefix = [c for c in m.group(1).split("::") if c]
                    alts = m.group(2).split("/")
                    if prefix:
                        last_prefix = prefix
                    for alt in alts:
                        for pre in ([prefix] if prefix else [last_prefix, []]):
                            ks = idx.lookup("::".join(pre + [alt]), allow_bare=True)
                            if ctx_files:
                                ks = [k for k in ks if idx.table[k]["file"] in ctx_files]
                            elif not pre:
                                ks = []
                            if ks:
                                for k in ks:
                                    fn_anchor[k].add(pid)
                                break
    return props, file_anchor, fn_anchor


def plugin_engines():
    eng, drv = collections.defaultdict(list), collections.defaultdict(list)
    for p in sorted(glob.glob(os.path.join(VERIF, "vlib", "props", "c[0-9][0-9].py"))):
        name = os.path.basename(p)[:-3]
        try:
            mod = importlib.import_module("vlib.props." + name)
            pr = mod.PROP
            for e in pr.gen_engines:
                eng[e].append(pr.id)
            for d in pr.drivers:
                drv[d].append(pr.id)
        except Exception:
            continue
    return eng, drv


# ============================================================================ report

def main():
    ap = argparse.ArgumentParser()
    ap.add_argument("--out", default=os.path.join(VERIF, "COVERAGE.md"))
    ap.add_argument("--no-ablation", action="store_true")
    ap.add_argument("--no-cache", action="store_true")
    ap.add_argument("--jobs", type=int, default=min(16, os.cpu_count() or 4))
    args = ap.parse_args()
    t0 = time.time()
    timing = []

    files, table, inv_notes = build_inventory(args.jobs, not args.no_cache)
    idx = Index(table)
    timing.append(("inventory", time.time() - t0))

    t1 = time.time()
    if args.no_ablation:
        abl = {}
    else:
        abl = run_ablation(files, args.jobs, not args.no_cache)
    timing.append(("ablation", time.time() - t1))

    t1 = time.time()
    texts, words, theorems = lean_consumers()
    eng_props, drv_props = plugin_engines()
    props, file_anchor, fn_anchor = load_properties(idx)
    hidx = harness_index()
    rows, race_unresolved, race_other = race_rows(idx)

    # ---- ties per function: key -> list of dict(kind, engine, names, sure, note)
    ties = collections.defaultdict(list)
    unattributed = collections.defaultdict(list)
    engine_info = {}
    diag = []
    gen_files = sorted(glob.glob(os.path.join(GEN_DIR, "*.lean")))
    for gf in gen_files:
        engine = os.path.basename(gf)[:-5]
        defs = parse_generated(gf)
        a = abl.get(engine, {})
        positives = a.get("pos", {})
        dumps = a.get("dumps", [])
        scope = set(a["cands"]) if a.get("cands") else (engine_scope(dumps, table) if dumps else None)
        engine_info[engine] = dict(ndefs=len(defs), baseline=a.get("baseline", "not run"), error=a.get("error"),
                                   ncand=a.get("ncand", 0), npos=len(positives), dumps=dumps)
        if engine == "Race":
            continue
        ablated = bool(a) and a.get("baseline") == "OK" and not a.get("error")
        per_fn = collections.OrderedDict()
        for d, att in attribute_defs(engine, defs, idx, scope, positives if ablated else None, a.get("changed")):
            full = d["name"] if d["ns"].endswith("." + engine) or not d["ns"] else d["ns"].split(".")[-1] + "." + d["name"]
            last = d["name"].split(".")[-1]
            users = [k for k, w in words.items() if last in w and (d["ns"].split(".")[-1] in w)]
            if d.get("used_here"):
                users.append("(its own generated file)")
            thm = theorems.get("skeleton_" + d["name"]) and "skeleton_" + d["name"] or \
                (theorems.get("tie_" + d["name"]) and "tie_" + d["name"]) or None
            d["full"], d["users"], d["thm"] = full, sorted(users), thm
            if not att:
                unattributed[engine].append(d)
                continue
            for k, sure in att:
                per_fn.setdefault(k, []).append((d, sure))
        for k, lst in per_fn.items():
            by_kind = collections.OrderedDict()
            for d, sure in lst:
                by_kind.setdefault(d["kind"], []).append((d, sure))
            for kind, ds in by_kind.items():
                confirmed = (k in positives) if ablated else None
                ties[k].append(dict(kind=kind, engine=engine, defs=ds, confirmed=confirmed,
                                    how=positives.get(k)))
                if confirmed is False:
                    diag.append("%s: `%s` is quoted by %s but emptying/removing its body does not change the generator's output"
                                % (engine, idx.name(k), ", ".join(d["full"] for d, _ in ds)))
        if ablated:
            for k, how in sorted(positives.items()):
                if k in table and k not in per_fn:
                    ties[k].append(dict(kind="?", engine=engine, defs=[], confirmed=True, how=how))
    for k, n in rows.items():
        ties[k].append(dict(kind="A", engine="Race", defs=[], confirmed=None, how=None, nrows=n,
                            extra=sorted(race_other.get(k, []))))
    for k, ex in race_other.items():
        if k not in rows and k in table:
            ties[k].append(dict(kind="A", engine="Race", defs=[], confirmed=None, how=None, nrows=0, extra=sorted(ex)))

    # ---- which functions are listed
    listed = {}
    omitted = collections.Counter()
    for f in files:
        for k in idx.by_file.get(f, []):
            r = table[k]
            if f.endswith(".cc") or r["nstmts"] >= 2 or ties.get(k):
                listed.setdefault(f, []).append(k)
            else:
                omitted[f] += 1
    harness = {}
    for f in files:
        for k in listed.get(f, []):
            harness[k] = harness_mentions(table[k], hidx)

    def classes(k):
        ks = {t["kind"] for t in ties.get(k, [])}
        return ks

    def tie_text(k):
        parts = []
        for t in sorted(ties.get(k, []), key=lambda t: ("TGSA?".index(t["kind"]), t["engine"])):
            if t["kind"] == "A":
                s = "A[Race: %d row%s%s]" % (t["nrows"], "" if t["nrows"] == 1 else "s",
                                             ("; " + ", ".join(t["extra"])) if t.get("extra") else "")
            elif t["kind"] == "?":
                s = "?[%s: read by the generator (%s), quoted by no definition]" % (
                    t["engine"], {"body": "output changes when the body is emptied", "body!": "raises when the body is emptied: a shape check",
                                  "sel": "selected by name, raises when the definition is removed"}.get(t["how"], t["how"]))
            else:
                names = []
                for d, sure in t["defs"]:
                    nm = d["full"] + ("" if sure else "?")
                    if t["kind"] == "S":
                        nm += " ⇐ " + (d["thm"] or ("used in " + ",".join(d["users"][:2]) if d["users"] else "no consumer found?"))
                    elif not d["users"]:
                        nm += " (unused?)"
                    names.append(nm)
                s = "%s[%s: %s]" % (t["kind"], t["engine"], ", ".join(names))
                if t["confirmed"] is False:
                    s += "?"
            parts.append(s)
        return "; ".join(parts)

    out = []
    w = out.append
    w("# COVERAGE — which functions of muduo are tied to the Lean model, and how")
    w("")
    w("Generated by `python3 tools/coverage.py` from the current tree (sources: `%s`, tree hash `%s`). Do not edit; regenerate and diff."
      % (REPO, extract.tree_hash()[:16]))
    w("Static report: no check was run. Method and limits: the doc comment of `tools/coverage.py` and the notes at the end.")
    w("")
    w("Tie classes (a function can have several):")
    w("")
    w("* **T** — translated: the body, or arithmetic/tables in it, became Lean definitions (functions, tables, lists) in `Generated/<Engine>.lean`.")
    w("* **G** — guards, constants, enumerations, hand-off kinds and yes/no shape facts (`Prop`/`Bool`/constants) extracted from it.")
    w("* **S** — statement-order tie: a generated statement list (`List Skel|Stmt|Op|IdleOp|ImplStep|TidStep`) and the theorem (`skeleton_*`/`tie_*`) or file that consumes it.")
    w("* **A** — rows of the C08 access table (`Generated/Race.lean`) lie inside the function (plus root / confined-operation entries).")
    w("* **?** — the generator demonstrably reads the function (its output changes, or it raises, when the body is emptied or removed) but no generated definition quotes it; kind unknown.")
    w("* **X-only** — no T/G/S/A/? tie; a harness mentions the class and calls the method name (static approximation).")
    w("* **–** — none of the above.")
    w("")
    w("A trailing `?` on a name or entry marks an uncertain mechanical derivation (several functions quoted by one doc comment, an overload that could not be told apart, a quoted function the ablation did not confirm, an operator matched by class only).")
    w("Header files list only inline functions with at least 2 statements or with a tie; `.cc` files list every definition.")
    w("`(unused?)` after a generated name: no file of `lean/MuduoVerif` outside `Generated/` (nor another definition of its own generated file) mentions it.")
    w("`anchors`: `Cxx` = the property names this function in `anchors.mechanism[].where`.")
    w("")

    # ---- (1) summary
    w("## 1. Summary per source file")
    w("")
    w("| file | functions | T | G | S | A | ? | X-only | untied | anchored by |")
    w("|---|---:|---:|---:|---:|---:|---:|---:|---:|---|")
    tot = collections.Counter()
    per_file = {}
    for f in files:
        c = collections.Counter()
        for k in listed.get(f, []):
            cl = classes(k)
            c["n"] += 1
            for x in "TGSA?":
                if x in cl:
                    c[x] += 1
            if not cl:
                if harness[k][0]:
                    c["X"] += 1
                else:
                    c["-"] += 1
        per_file[f] = c
        tot.update(c)
        w("| `%s` | %d%s | %d | %d | %d | %d | %d | %d | %d | %s |" % (
            f, c["n"], (" (+%d)" % omitted[f]) if omitted[f] else "", c["T"], c["G"], c["S"], c["A"], c["?"], c["X"], c["-"],
            " ".join(file_anchor.get(f, [])) or "—"))
    w("| **total** | %d (+%d) | %d | %d | %d | %d | %d | %d | %d | |" % (
        tot["n"], sum(omitted.values()), tot["T"], tot["G"], tot["S"], tot["A"], tot["?"], tot["X"], tot["-"]))
    w("")
    w("`(+n)`: trivial inline functions of a header (fewer than 2 statements, no tie) that are not listed.")
    w("")

    # ---- (2) per file
    w("## 2. Functions per file")
    w("")
    for f in files:
        ks = listed.get(f, [])
        w("### `%s`" % f)
        w("")
        w("anchored by: %s; %d function(s) listed%s" % (" ".join(file_anchor.get(f, [])) or "no property", len(ks),
                                                       (", %d trivial inline function(s) omitted" % omitted[f]) if omitted[f] else ""))
        w("")
        if not ks:
            continue
        w("| line | function | ties | harness mentions | anchors |")
        w("|---:|---|---|---|---|")
        for k in ks:
            r = table[k]
            tt = tie_text(k)
            hs, unsure = harness[k]
            cl = classes(k)
            if not tt:
                tt = "X-only" if hs else "–"
            w("| %d | `%s` | %s | %s | %s |" % (r["line"], idx.name(k), tt,
                                               (", ".join(h[:-3] if h.endswith(".cc") else h for h in hs) + ("?" if unsure else "")) or "",
                                               " ".join(sorted(fn_anchor.get(k, [])))))
        w("")

    # ---- (3) gaps
    w("## 3. Untied functions in files that a property anchors")
    w("")
    w("No T/G/S/A/? tie and no harness mention. **bold** = the function is named in a property's `anchors.mechanism`.")
    w("")
    gaps = []
    for f in files:
        if not file_anchor.get(f):
            continue
        g = [k for k in listed.get(f, []) if not classes(k) and not harness[k][0]]
        if not g:
            continue
        w("* `%s` (%s): " % (f, " ".join(file_anchor[f])) + ", ".join(
            ("**`%s`** (%s)" % (idx.name(k), " ".join(sorted(fn_anchor[k])))) if fn_anchor.get(k) else "`%s`" % idx.name(k) for k in g))
        gaps += [(f, k) for k in g]
    w("")
    w("### 3b. Functions a property's mechanism names that have no T/G/S/A/? tie")
    w("")
    w("Named in `anchors.mechanism[].where`, mentioned by a harness at best, but nothing of them is extracted:")
    w("")
    xo = []
    for f in files:
        for k in listed.get(f, []):
            if fn_anchor.get(k) and not classes(k):
                xo.append((f, k))
    for f, k in xo:
        hs = harness[k][0]
        w("* `%s` `%s` (%s) — %s" % (f, idx.name(k), " ".join(sorted(fn_anchor[k])),
                                    ("harness: " + ", ".join(h[:-3] if h.endswith(".cc") else h for h in hs)) if hs else "no harness mention"))
    if not xo:
        w("(none)")
    w("")

    # ---- (4) files no property anchors
    w("## 4. Files no property anchors")
    w("")
    w("| file | functions listed | with a tie | X-only | untied |")
    w("|---|---:|---:|---:|---:|")
    for f in files:
        if file_anchor.get(f):
            continue
        c = per_file[f]
        w("| `%s` | %d%s | %d | %d | %d |" % (f, c["n"], (" (+%d)" % omitted[f]) if omitted[f] else "",
                                            c["n"] - c["X"] - c["-"], c["X"], c["-"]))
    w("")
    extra_anchor = sorted(x for x in file_anchor if x not in files)
    if extra_anchor:
        w("Anchored files outside the scope of this report: " + ", ".join("`%s` (%s)" % (x, " ".join(file_anchor[x])) for x in extra_anchor))
        w("")

    # ---- appendices
    w("## 5. Engines")
    w("")
    w("| engine | generator | definitions | properties | translation units read (filter) | functions in those dumps | read (ablation) | state |")
    w("|---|---|---:|---|---|---:|---:|---|")
    mods = {}
    for p in sorted(glob.glob(os.path.join(VERIF, "vlib", "gen", "*.py"))):
        with open(p) as fh:
            m = re.search(r'^NAME\s*=\s*"(\w+)"', fh.read(), re.M)
        if m:
            mods[m.group(1)] = os.path.relpath(p, VERIF)
    for e in sorted(engine_info):
        i = engine_info[e]
        dd = sorted({"%s (%s)" % (rel(tu) if os.path.isabs(tu) else tu, flt) for tu, flt in i["dumps"]})
        w("| %s | `%s` | %d | %s | %s | %d | %d | %s |" % (
            e, mods.get(e, "? (no generator exposes this NAME)"), i["ndefs"], " ".join(eng_props.get(e, [])) or "—",
            "; ".join(dd) if dd else "—", i["ncand"], i["npos"], (i["error"] or i["baseline"])))
    w("")
    w("## 6. Generated definitions not attributed to a function")
    w("")
    w("Class-level constants, enumerations, and definitions whose doc comment quotes no function of the inventory.")
    w("")
    for e in sorted(unattributed):
        w("* **%s**: %s" % (e, ", ".join("`%s`%s" % (d["full"], "" if d["users"] or d["kw"] in ("inductive", "structure") else " (unused?)")
                                        for d in unattributed[e])))
    w("")
    w("## 7. Notes of this run")
    w("")
    for n in inv_notes:
        w("* inventory: " + n)
    for n in sorted(set(diag)):
        w("* attribution: " + n)
    if race_unresolved:
        w("* race table: %d row(s) could not be placed inside exactly one function: %s" % (
            sum(race_unresolved.values()), ", ".join(sorted(race_unresolved)[:12]) + (" …" if len(race_unresolved) > 12 else "")))
    hd = sorted(h for h in hidx)
    w("* harness files scanned: " + ", ".join(hd))
    w("* harness → properties (plug-in `drivers`): " + "; ".join("%s: %s" % (d, " ".join(ps)) for d, ps in sorted(drv_props.items())))
    w("")
    text = "\n".join(out) + "\n"
    old = None
    if os.path.exists(args.out):
        with open(args.out) as f:
            old = f.read()
    if old != text:
        with open(args.out, "w") as f:
            f.write(text)
    timing.append(("report", time.time() - t1))

    # ---- plain-text summary
    print("COVERAGE.md %s (%d files, %d functions listed, %d trivial inline omitted)" % (
        "unchanged" if old == text else "written", len(files), tot["n"], sum(omitted.values())))
    print("ties: T=%d G=%d S=%d A=%d ?=%d  X-only=%d  untied=%d" % (tot["T"], tot["G"], tot["S"], tot["A"], tot["?"], tot["X"], tot["-"]))
    anchored = [f for f in files if file_anchor.get(f)]
    print("anchored files: %d of %d; untied functions in anchored files: %d; mechanism-named functions without any T/G/S/A tie: %d"
          % (len(anchored), len(files), len(gaps), len(xo)))
    worst = sorted(((per_file[f]["-"], f) for f in anchored), reverse=True)[:10]
    print("top gaps (untied functions per anchored file): " + ", ".join("%s=%d" % (f, n) for n, f in worst if n))
    bad = [e for e, i in engine_info.items() if i["error"] or i["baseline"] not in ("OK", "not ablated", "not run")]
    if bad:
        print("engines whose generator did not run cleanly: " + ", ".join(bad))
    print("time: " + ", ".join("%s %.1fs" % x for x in timing) + ", total %.1fs" % (time.time() - t0))


if __name__ == "__main__":
    main()
