#!/bin/bash
# Run checks against a scratch copy of /repo's sources with one seeded patch applied (never /repo itself):
#   tools/seeddetect.sh <wave dir> <id> <k> <check> [<check> ...]
# prints, per check, the exit status and the VIOLATION / KNOWN-FINDING lines; keeps the log in <wave dir>/detect/.
set -u
WAVE=$1; ID=$2; K=$3; shift 3
S=$WAVE/mut/$ID-m$K; mkdir -p $WAVE/detect
if [ ! -d $S ]; then mkdir -p $S; B=/repo; [ -d $WAVE/base ] && B=$WAVE/base; cp -r $B/muduo $B/examples $B/CMakeLists.txt $S/; (cd $S && patch -s -p1 < $WAVE/$ID.out/m${K}_patch.diff) || { echo "patch failed"; exit 2; }; fi
cd /verif
for C in "$@"; do
  L=$WAVE/detect/$ID-m$K.$C.log
  s=$(date +%s); VERIF_REPO=$S ./check $C --tier ${TIER:-quick} > $L 2>&1; rc=$?; e=$(date +%s)
  echo "$ID-m$K check=$C rc=$rc t=$((e-s))s :: $(grep -h 'VIOLATION\|KNOWN-FINDING' $L | head -3 | tr '\n' ';')"
done
