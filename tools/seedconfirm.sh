#!/bin/bash
# Confirm one seeded change written by an independent sub-agent (DESIGN.md 14.5):
#   tools/seedconfirm.sh <wave dir> <id> <k> [extra g++ flags for the demonstration, e.g. -fsanitize=thread] [extra libs]
# in the seeder's own scratch worktree <wave dir>/<id> (never /repo):
#   1. the worktree is clean and the patch applies;
#   2. the demonstration, built against the UNCHANGED sources, exits 0 three times;
#   3. with the patch the project's own build (release flags, -Werror) compiles the libraries and the 11 registered test
#      executables and ctest passes;
#   4. the demonstration, built against the CHANGED sources, fails three times out of three.
# Prints one JSON object; removes every build product; leaves the worktree at the unchanged HEAD.
set -u
WAVE=$1; ID=$2; K=$3; XF=${4:-}; XL=${5:-}
W=$WAVE/$ID; OUT=$WAVE/$ID.out; V=$WAVE/$ID.confirm.$K
PATCH=$OUT/m${K}_patch.diff; DEMO=$OUT/m${K}_demo.cc
rm -rf $V; mkdir -p $V
git -C $W checkout -q -- . ; git -C $W clean -fdq
srcs() { (cd $W; ls muduo/base/*.cc muduo/net/*.cc muduo/net/poller/*.cc | grep -v boilerplate;
          if grep -q "http/" $DEMO; then ls muduo/net/http/*.cc; fi;
          if grep -q "protorpc\|protobuf" $DEMO; then ls muduo/net/protobuf/*.cc; fi;
          if grep -q "protorpc" $DEMO; then ls muduo/net/protorpc/*.cc | grep -v _test; fi); }
# demonstrations that use the RPC layer: generated protobuf sources (from the tree under test)
GEN=""; GENI=""
if grep -q "rpc.pb.h\|echo.pb.h" $DEMO; then
  mkdir -p $V/gen; GENI="-I$V/gen"
  protoc --cpp_out=$V/gen -I$W $W/muduo/net/protorpc/rpc.proto 2>/dev/null; GEN="$V/gen/muduo/net/protorpc/rpc.pb.cc"
  if grep -q "echo.pb.h" $DEMO; then protoc --cpp_out=$V/gen -I$W/examples/protobuf/rpcbench $W/examples/protobuf/rpcbench/echo.proto 2>/dev/null; GEN="$GEN $V/gen/echo.pb.cc"; fi
  XL="$XL -lprotobuf"
fi
buildlib() { # $1 = object dir
  mkdir -p $1; (cd $W; srcs | xargs -P 8 -I{} sh -c 'g++ -std=c++11 -O1 -g '"$XF $GENI"' -I. -pthread -c {} -o '"$1"'/$(echo {} | tr / _).o' ) 2> $1/err.txt; }
demo() { # $1 = object dir, $2 = exe
  g++ -std=c++11 -O1 -g $XF -I$W $GENI -pthread $DEMO $GEN $1/*.o -o $2 $XL -lz 2> $2.err; }
run3() { local r=""; for i in 1 2 3; do timeout 120 $1 > $1.out.$i 2>&1; r="$r $?"; done; echo $r; }

buildlib $V/obj0; demo $V/obj0 $V/demo0; B_BUILD=$?
BASE=$(run3 $V/demo0)
git -C $W apply --check $PATCH 2> $V/apply.err; APPLY=$?
git -C $W apply $PATCH
FILES=$(git -C $W diff --name-only | tr '\n' ' ')
buildlib $V/obj1; demo $V/obj1 $V/demo1; M_BUILD=$?
MUT=$(run3 $V/demo1)
cmake -S $W -B $V/build -G Ninja -DCMAKE_BUILD_TYPE=release > $V/cmake.log 2>&1
TARGETS="atomic_unittest date_unittest exception_test fileutil_test gzipfile_test logstream_test timestamp_unittest timezone_unittest buffer_unittest inetaddress_unittest timerqueue_unittest"
if echo "$FILES" | grep -q examples/; then TARGETS="all"; fi
cmake --build $V/build -j8 --target $TARGETS > $V/build.log 2>&1; PB=$?
(cd $V/build && ctest -j8 --timeout 900 > $V/ctest.log 2>&1); CT=$?
PASSED=$(grep -o "[0-9]*% tests passed.*" $V/ctest.log | head -1)
git -C $W checkout -q -- . ; git -C $W clean -fdq
LASTOUT=$(tail -3 $V/demo1.out.1 | tr '\n"\\' ' ..' | cut -c1-300)
rm -rf $V/build $V/obj0 $V/obj1 $V/demo0 $V/demo1
echo "{\"id\":\"$ID\",\"k\":$K,\"files_changed\":\"$FILES\",\"apply_ok\":$([ $APPLY = 0 ] && echo true || echo false),\"demo_builds\":[$B_BUILD,$M_BUILD],\"baseline_demo_exits\":\"$BASE\",\"mutated_demo_exits\":\"$MUT\",\"project_build_rc\":$PB,\"ctest_rc\":$CT,\"ctest\":\"$PASSED\",\"demo_flags\":\"$XF\",\"mutated_demo_says\":\"$LASTOUT\"}" | tee $V/confirm.json
