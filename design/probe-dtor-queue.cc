#include "muduo/net/EventLoop.h"
#include "muduo/base/Timestamp.h"
#include <memory>
#include <stdio.h>
using namespace muduo; using namespace muduo::net;
EventLoop* g_loop; Timestamp g_queued;
struct Corpse { ~Corpse() { g_queued = Timestamp::now(); g_loop->queueInLoop([]{ double d = timeDifference(Timestamp::now(), g_queued); printf("G ran %.3f s after being queued\n", d); g_loop->quit(); _exit(d > 1.0 ? 1 : 0);}); } };
int main() { EventLoop loop; g_loop = &loop;
  loop.runAfter(0.05, []{ std::shared_ptr<Corpse> c(new Corpse); g_loop->queueInLoop([c]{ /* F: last owner of c is this functor object */ }); });
  loop.runAfter(5.0, []{ printf("(5 s safety timer fired)\n"); });
  loop.loop(); }
