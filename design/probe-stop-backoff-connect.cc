// stop() during the back-off wait, then connect(): does the old retry timer fire into the new cycle?
#include "muduo/net/EventLoop.h"
#include "muduo/net/TcpClient.h"
#include "muduo/net/InetAddress.h"
#include "muduo/base/Logging.h"
#include <sys/socket.h>
#include <netinet/in.h>
#include <unistd.h>
#include <stdio.h>
using namespace muduo; using namespace muduo::net;
int g_up = 0;
int main() {
  Logger::setLogLevel(Logger::WARN);
  // reserve a port, keep it closed for now
  int ls = ::socket(AF_INET, SOCK_STREAM, 0); int one = 1; setsockopt(ls, SOL_SOCKET, SO_REUSEADDR, &one, sizeof one);
  struct sockaddr_in a; memset(&a, 0, sizeof a); a.sin_family = AF_INET; a.sin_addr.s_addr = htonl(INADDR_LOOPBACK); a.sin_port = 0;
  bind(ls, (struct sockaddr*)&a, sizeof a); socklen_t len = sizeof a; getsockname(ls, (struct sockaddr*)&a, &len);
  uint16_t port = ntohs(a.sin_port);
  EventLoop loop;
  TcpClient client(&loop, InetAddress("127.0.0.1", port), "c");
  client.setConnectionCallback([](const TcpConnectionPtr& c) { if (c->connected()) { ++g_up; printf("UP #%d\n", g_up); } });
  client.connect();                                              // refused -> retry timer at +0.5 s
  loop.runAfter(0.2, [&] { client.stop(); });                    // stop during the back-off wait
  loop.runAfter(0.3, [&] { ::listen(ls, 16); client.connect(); });  // server is there now: new cycle connects at once
  loop.runAfter(1.2, [&] { client.disconnect(); });
  loop.runAfter(1.5, [&] { loop.quit(); });
  loop.loop();
  printf("established connections reported: %d (expected 1)\n", g_up);
  fflush(stdout);
  _exit(g_up == 1 ? 0 : 1);   // (no teardown: the client is still connected and its loop has stopped)
}
